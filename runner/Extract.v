(* Extract.v — extraction of the executable model to OCaml (ExtrOcamlBasic only; N and Z stay
   the extracted binary datatypes; no Extract Constant).  Compiled from /verif/runner so that
   model.ml / model.mli land here. *)
From TSS Require Import Seq Http Fault Boot ConcRig L0 Setup.
From Coq Require Import ExtrOcamlBasic.
Extraction Language OCaml.
(* Conc.fstep would shadow Fault.fstep in the flat OCaml module: give the fault semantics its own name *)
Definition fault_step := Fault.fstep.
Definition fault_http_step := Fault.http_fstep.
Extraction "model.ml" l0_txn AStoreB a_empty contract_ok step run_hist http_step fault_step fault_http_step plan_of boot rig_results dead_start d_none storage_new ready http_handler InMemB SqliteB im_empty sq_empty default_config N.add N.mul N.div N.modulo.
