(* Extract.v — extraction of the executable model to OCaml (ExtrOcamlBasic only; N and Z stay
   the extracted binary datatypes; no Extract Constant).  Compiled from /verif/runner so that
   model.ml / model.mli land here. *)
From TSS Require Import Seq Http Fault Boot.
From Coq Require Import ExtrOcamlBasic.
Extraction Language OCaml.
Extraction "model.ml" step run_hist http_step fstep http_fstep plan_of boot InMemB SqliteB im_empty sq_empty default_config N.add N.mul N.div N.modulo.
