(* driver.ml — reads concrete operation lines (DESIGN Appendix B) on stdin, runs them on the
   extracted Coq model, prints one response line per operation.  Hand-written glue: parsing,
   printing, int <-> N/Z conversion.  No model logic lives here. *)
open Model

let rec pos_of_int (i : int) : positive =
  if i = 1 then XH else if i land 1 = 0 then XO (pos_of_int (i lsr 1)) else XI (pos_of_int (i lsr 1))
let n_of_int (i : int) : n = if i = 0 then N0 else Npos (pos_of_int i)
let rec int_of_pos (p : positive) : int =
  match p with XH -> 1 | XO q -> 2 * int_of_pos q | XI q -> 2 * int_of_pos q + 1
let int_of_n (x : n) : int = match x with N0 -> 0 | Npos p -> int_of_pos p

(* Z via strings so that the extremes of i64 (and beyond) pass through unharmed *)
let rec pos_of_string_digits (s : string) : n =
  (* decimal string -> N, by repeated *10 + d using Model.N arithmetic *)
  let ten = n_of_int 10 in
  let acc = ref N0 in
  String.iter (fun ch -> acc := N.add (N.mul !acc ten) (n_of_int (Char.code ch - 48))) s;
  !acc
let z_of_string (s : string) : z =
  let neg = String.length s > 0 && s.[0] = '-' in
  let digits = if neg then String.sub s 1 (String.length s - 1) else s in
  match pos_of_string_digits digits with
  | N0 -> Z0
  | Npos p -> if neg then Zneg p else Zpos p
let n_of_string (s : string) : n = pos_of_string_digits s

let rec string_of_n (x : n) : string =
  (* repeated division by 10^9 to stay within native ints *)
  let billion = n_of_int 1000000000 in
  match x with
  | N0 -> "0"
  | _ ->
    let q = N.div x billion and r = N.modulo x billion in
    (match q with
     | N0 -> string_of_int (int_of_n r)
     | _ -> string_of_n q ^ Printf.sprintf "%09d" (int_of_n r))
let string_of_z (x : z) : string =
  match x with Z0 -> "0" | Zpos p -> string_of_n (Npos p) | Zneg p -> "-" ^ string_of_n (Npos p)

let payload_of_string (s : string) : payload =
  if s = "-" then [] else List.map n_of_string (String.split_on_char ',' s)
let string_of_payload (p : payload) : string =
  if p = [] then "-" else String.concat "," (List.map string_of_n p)
let ids_of_string (s : string) : id list =
  if s = "-" then [] else List.map n_of_string (String.split_on_char ',' s)

let string_of_urg (u : urgency option) : string =
  match u with None -> "overflow" | Some UNone -> "none" | Some ULow -> "low" | Some UHigh -> "high"

let string_of_version (v : version) : string =
  Printf.sprintf "%s:%s:%s" (string_of_n v.v_id) (string_of_n v.v_parent) (string_of_payload v.v_data)
let string_of_oversion (o : version option) : string =
  match o with None -> "none" | Some v -> string_of_version v

let string_of_client (o : client option) : string =
  match o with
  | None -> "absent"
  | Some c ->
    Printf.sprintf "latest=%s snap=%s" (string_of_n c.c_latest)
      (match c.c_snap with
       | None -> "none"
       | Some m -> Printf.sprintf "%s@%s+%s" (string_of_n m.sm_version) (string_of_z m.sm_time) (string_of_n m.sm_since))

let string_of_resp (r : resp) : string =
  match r with
  | RAdded (v, u) -> Printf.sprintf "added %s %s" (string_of_n v) (string_of_urg u)
  | RConflict l -> Printf.sprintf "conflict %s" (string_of_n l)
  | RFound v -> Printf.sprintf "found %s" (string_of_version v)
  | RNotFound -> "notfound"
  | RGone -> "gone"
  | RSnapAck -> "snapack"
  | RSnap (v, d) -> Printf.sprintf "snap %s %s" (string_of_n v) (string_of_payload d)
  | RNoSnap -> "nosnap"
  | RNoClient -> "noclient"
  | RError -> "error"
  | RUnit -> "unit"
  | RDump d ->
    Printf.sprintf "dump %s data=%s probes=%s" (string_of_client d.dm_client)
      (match d.dm_snapdata with
       | None -> "na"
       | Some (Err _) -> "error"
       | Some (Ok None) -> "none"
       | Some (Ok (Some p)) -> string_of_payload p)
      (String.concat ";"
         (List.map (fun ((i, a), b) ->
              Printf.sprintf "%s>%s>%s" (string_of_n i) (string_of_oversion a) (string_of_oversion b))
             d.dm_probes))

let string_of_label (l : label) : string =
  match l with
  | LBegin c -> "begin" | LEnd -> "end"
  | LGetClient -> "get_client" | LNewClient -> "new_client" | LSetSnapshot -> "set_snapshot"
  | LGetSnapshotData -> "get_snapshot_data" | LGetByParent -> "get_version_by_parent"
  | LGetVersion -> "get_version" | LAddVersion -> "add_version" | LCommit -> "commit"

let string_of_on (o : n option) = match o with None -> "NULL" | Some x -> string_of_n x
let string_of_oz (o : z option) = match o with None -> "NULL" | Some x -> string_of_z x
let string_of_op (o : payload option) = match o with None -> "NULL" | Some x -> string_of_payload x

let string_of_tables (t : tables) : string =
  let cl = List.map (fun r ->
      Printf.sprintf "%s|%s|%s|%s|%s|%s" (string_of_n r.cr_id) (string_of_n r.cr_latest)
        (string_of_on r.cr_snap_version) (string_of_on r.cr_since) (string_of_oz r.cr_ts)
        (string_of_op r.cr_snap)) t.t_clients in
  let vs = List.map (fun r ->
      Printf.sprintf "%s|%s|%s|%s" (string_of_n r.vr_id) (string_of_n r.vr_client)
        (string_of_n r.vr_parent) (string_of_payload r.vr_data)) t.t_versions in
  Printf.sprintf "rows clients=[%s] versions=[%s]"
    (String.concat ";" (List.sort compare cl)) (String.concat ";" vs)

let string_of_oid (o : id option) = match o with None -> "-" | Some x -> string_of_n x

let string_of_hresp (r : hresp) : string =
  Printf.sprintf "http %s xv=%s xp=%s xs=%s ct=%s cc=%s body=%s" (string_of_n r.rs_status)
    (string_of_oid r.rs_version_id) (string_of_oid r.rs_parent_id)
    (match r.rs_snapshot_req with None -> "-" | Some ULow -> "low" | Some UHigh -> "high" | Some UNone -> "none")
    (match r.rs_ctype with None -> "-" | Some RTHistory -> "history" | Some RTSnapshot -> "snapshot" | Some RTText -> "text")
    (if r.rs_cache then "1" else "0")
    (match r.rs_ctype with Some RTHistory | Some RTSnapshot -> string_of_payload r.rs_body | _ -> "-")

let seg_of_string (s : string) : seg = if s = "bad" then IdBad else IdOk (n_of_string s)
let parse_chunks (s : string) : chunk list =
  if s = "-" then [] else
    List.map (fun c ->
        match String.index_opt c ':' with
        | Some i -> { ck_len = n_of_string (String.sub c 0 i);
                      ck_data = payload_of_string (String.sub c (i + 1) (String.length c - i - 1)) }
        | None -> { ck_len = N0; ck_data = [] })
      (String.split_on_char ';' s)

type st = { mutable backend : backend; mutable s : Obj.t; mutable cfg : config; mutable is_sqlite : bool;
            mutable trace : bool; mutable allow : id list option; mutable plan : (nat * fault) list;
            mutable conc_n : int; mutable conc_reqs : (env * hresp hprog) list;
            mutable abs : astore (* the abstract store, driven by `txn` lines only: is the sequence inside the storage contract? *) }

let () =
  let bk = if Array.length Sys.argv > 1 then Sys.argv.(1) else "inmem" in
  let st = { backend = inMemB; s = Obj.repr im_empty; cfg = default_config; is_sqlite = false; trace = false; allow = None; plan = []; conc_n = 0; conc_reqs = []; abs = a_empty } in
  let reset which =
    st.abs <- a_empty;
    if which = "sqlite" then (st.backend <- sqliteB; st.s <- Obj.repr sq_empty; st.is_sqlite <- true)
    else (st.backend <- inMemB; st.s <- Obj.repr im_empty; st.is_sqlite <- false) in
  reset bk;
  let rec nat_of_int (i : int) : nat = if i <= 0 then O else S (nat_of_int (i - 1)) in
  let do_op (o : op) (e : env) =
    let ((r, s'), tr) =
      if st.plan = [] then step st.backend st.cfg st.s (o, e)
      else (let ((r, s'), _) = fault_step st.backend st.cfg (plan_of st.plan) st.s (o, e) in st.plan <- []; ((r, s'), [])) in
    st.s <- s';
    if st.trace && false then
      Printf.printf "%s | %s\n" (string_of_resp r) (String.concat "," (List.map string_of_label tr))
    else print_endline (string_of_resp r) in
  let noenv = { e_fresh = N0; e_now = Z0 } in
  (try
     while true do
       let line = input_line stdin in
       let toks = List.filter (fun s -> s <> "") (String.split_on_char ' ' line) in
       (match toks with
        | [] -> ()
        | "#" :: _ -> print_endline line                 (* case markers are echoed *)
        | ["reset"] -> reset bk; st.cfg <- default_config; st.allow <- None; st.trace <- false
        | ["reset"; which] -> reset which; st.cfg <- default_config; st.allow <- None; st.trace <- false
        | ["trace"; "on"] -> st.trace <- true
        | ["trace"; "off"] -> st.trace <- false
        | ["cfg"; d; v] -> st.cfg <- { snapshot_days = z_of_string d; snapshot_versions = n_of_string v }
        | ["av"; c; p; fresh; now; d] ->
          do_op (OAddVersion (n_of_string c, n_of_string p, payload_of_string d))
            { e_fresh = n_of_string fresh; e_now = z_of_string now }
        | ["gcv"; c; p] -> do_op (OGetChild (n_of_string c, n_of_string p)) noenv
        | ["as"; c; v; now; d] ->
          do_op (OAddSnapshot (n_of_string c, n_of_string v, payload_of_string d))
            { e_fresh = N0; e_now = z_of_string now }
        | ["gs"; c] -> do_op (OGetSnapshot (n_of_string c)) noenv
        | ["ensure"; c] -> do_op (OEnsure (n_of_string c)) noenv
        | ["backdate"; c; secs] -> do_op (OBackdate (n_of_string c, z_of_string secs)) noenv
        | ["setcounter"; c; k] -> do_op (OSetCounter (n_of_string c, n_of_string k)) noenv
        | ["reopen"] -> do_op OReopen noenv
        | ["dump"; c; ids] -> do_op (ODump (n_of_string c, ids_of_string ids)) noenv
        | ["setupstate"; k] ->
          (* Setup.v: the data directory after a start that died after k of the six steps of SqliteStorage::new,
             and after the next complete start *)
          let show (d : ddir) =
            let b x = if x then "1" else "0" in
            Printf.sprintf "dir=%s file=%s wal=%s clients=%s versions=%s index=%s" (b d.d_dir) (b d.d_file) (b d.d_wal) (b d.d_clients) (b d.d_versions) (b d.d_index) in
          let d = dead_start d_none (nat_of_int (int_of_string k)) in
          Printf.printf "setupstate %s => %s ready=%s\n" (show d) (show (storage_new d)) (if ready (storage_new d) then "1" else "0")
        | "race" :: _ -> print_endline "race"   (* free-running overlap: judged by the oracle alone *)
        | "txn" :: c :: calls ->
          (* txn CLIENT call...   (storage-trait rig, L0.run_txn) *)
          let parse (t : string) : call =
            let arg = match String.index_opt t '=' with Some i -> String.sub t (i + 1) (String.length t - i - 1) | None -> "" in
            let parts = String.split_on_char '/' arg in
            match (if String.contains t '=' then String.sub t 0 (String.index t '=') else t), parts with
            | "gc", _ -> CGetClient
            | "nc", [l] -> CNewClient (n_of_string l)
            | "ss", [v; ts; since; d] -> CSetSnapshot ({ sm_version = n_of_string v; sm_time = z_of_string ts; sm_since = n_of_string since }, payload_of_string d)
            | "gsd", [v] -> CGetSnapshotData (n_of_string v)
            | "gvp", [p] -> CGetByParent (n_of_string p)
            | "gv", [v] -> CGetVersion (n_of_string v)
            | "av", [v; p; d] -> CAddVersion (n_of_string v, n_of_string p, payload_of_string d)
            | "co", _ -> CCommit
            | _ -> failwith ("bad call " ^ t) in
          let cs = List.map parse calls in
          let (rs, s') = l0_txn st.backend st.s (n_of_string c) cs in
          st.s <- s';
          let (_, a') = l0_txn aStoreB (Obj.magic st.abs) (n_of_string c) cs in
          st.abs <- Obj.magic a';
          let show (r : cres) : string =
            match r with
            | KClient o -> "c:" ^ (match o with None -> "none" | Some cl ->
                Printf.sprintf "%s/%s" (string_of_n cl.c_latest)
                  (match cl.c_snap with None -> "-" | Some m -> Printf.sprintf "%s@%s+%s" (string_of_n m.sm_version) (string_of_z m.sm_time) (string_of_n m.sm_since)))
            | KUnit -> "ok"
            | KData o -> "d:" ^ (match o with None -> "none" | Some d -> string_of_payload d)
            | KVersion o -> "v:" ^ string_of_oversion o
            | KErr -> "err" in
          Printf.printf "%s contract=%s\n" (String.concat " " (List.map show rs)) (if contract_ok st.abs then "ok" else "broken")
        | "mark" :: _ -> print_endline "mark"
        | "boot" :: rest ->
          (* boot listen=SRC:N dir=SRC allow=SRC:ids versions=SRC:K days=SRC:K *)
          let get k = List.fold_left (fun acc t ->
              match String.index_opt t '=' with
              | Some i when String.sub t 0 i = k -> Some (String.sub t (i + 1) (String.length t - i - 1))
              | _ -> acc) None rest in
          let split2 v = match String.index_opt v ':' with
            | Some i -> (String.sub v 0 i, String.sub v (i + 1) (String.length v - i - 1))
            | None -> (v, "") in
          let rec range a n = if n <= 0 then [] else n_of_int a :: range (a + 1) (n - 1) in
          let (lf, le) = (match get "listen" with
              | Some v -> let (src, n) = split2 v in
                let n = int_of_string n in
                (match src with
                 | "flag" -> ([range 1 n], None)
                 | "flags" -> (List.map (fun x -> [x]) (range 1 n), None)
                 | _ -> ([], Some (range 1 n)))
              | None -> ([], None)) in
          let (df, de) = (match get "dir" with
              | Some "flag" -> (Some (n_of_int 1), None) | Some "env" -> (None, Some (n_of_int 1))
              | Some "both" -> (Some (n_of_int 1), Some (n_of_int 2)) | _ -> (None, None)) in
          let (af, ae) = (match get "allow" with
              | Some v -> let (src, ids) = split2 v in
                let l = if ids = "-" || ids = "" then [] else ids_of_string ids in
                (match src with
                 | "flag" -> ([l], None) | "flags" -> (List.map (fun x -> [x]) l, None)
                 | "env" -> ([], Some l) | _ -> ([], None))
              | None -> ([], None)) in
          let (vf, ve) = (match get "versions" with
              | Some v -> let (src, k) = split2 v in
                (match src with
                 | "flag" -> (Some (n_of_string k), None) | "env" -> (None, Some (n_of_string k))
                 | "both" -> (match String.split_on_char '/' k with [a; b] -> (Some (n_of_string a), Some (n_of_string b)) | _ -> (None, None))
                 | _ -> (None, None))
              | None -> (None, None)) in
          let (yf, ye) = (match get "days" with
              | Some v -> let (src, k) = split2 v in
                (match src with "flag" -> (Some (z_of_string k), None) | "env" -> (None, Some (z_of_string k)) | _ -> (None, None))
              | None -> (None, None)) in
          (match boot { bi_listen_flag = lf; bi_listen_env = le; bi_dir_flag = df; bi_dir_env = de;
                        bi_allow_flag = af; bi_allow_env = ae; bi_versions_flag = vf; bi_versions_env = ve;
                        bi_days_flag = yf; bi_days_env = ye } with
           | Some a -> st.cfg <- a.sa_cfg; st.allow <- a.sa_allow;
             Printf.printf "booted up addrs=%d\n" (List.length a.sa_listen)
           | None -> print_endline "booted FAILED addrs=0")
        | ["fault"; spec] ->
          st.plan <- List.map (fun x ->
              match String.split_on_char ':' x with
              | [k; w] -> (nat_of_int (int_of_string k), (if w = "after" then FAfter else FBefore))
              | _ -> (O, FNone)) (String.split_on_char ',' spec);
          print_endline "faultset"
        | ["allow"; "none"] -> st.allow <- None; print_endline "allowed"
        | ["allow"; l] -> st.allow <- Some (ids_of_string l); print_endline "allowed"
        | ["http"; m; route; sg; cid; ct; chunks; fresh; now] ->
          let meth = (match m with "get" -> MGet | "post" -> MPost | _ -> MOther) in
          let path = (match route with
              | "index" -> PIndex | "av" -> PAddVersion (seg_of_string sg) | "gcv" -> PGetChild (seg_of_string sg)
              | "as" -> PAddSnapshot (seg_of_string sg) | "snap" -> PSnapshot | _ -> PUnknown) in
          let cidh = (match cid with "absent" -> CAbsent | "nontext" -> CNonText | "unparse" -> CUnparseable
                                   | x -> COk (n_of_string x)) in
          let cty = (match ct with "history" -> CTHistory | "snapshot" -> CTSnapshot | "absent" -> CTAbsent | _ -> CTOther) in
          let rq = { rq_method = meth; rq_path = path; rq_cid = cidh; rq_ctype = cty; rq_chunks = parse_chunks chunks } in
          let env0 = { e_fresh = n_of_string fresh; e_now = z_of_string now } in
          if st.conc_n > 0 then begin
            (* inside a `conc` block: the request is one of the overlapping threads *)
            st.conc_reqs <- st.conc_reqs @ [(env0, http_handler st.cfg st.allow rq)];
            st.conc_n <- st.conc_n - 1
          end else
          let ((r, s'), tr) =
            if st.plan = [] then http_step st.backend st.cfg st.allow st.s (rq, env0)
            else (let ((r, s'), _) = fault_http_step st.backend st.cfg st.allow (plan_of st.plan) st.s (rq, env0) in st.plan <- []; ((r, s'), [])) in
          st.s <- s';
          Printf.printf "%s | %s\n" (string_of_hresp r) (String.concat "," (List.map string_of_label tr))
        | ["conc"; _; n] -> st.conc_n <- int_of_string n; st.conc_reqs <- []; print_endline "conc"
        | ["csched"; spec] ->
          let tok_of (x : string) : tok =
            match String.index_opt x '!' with
            | Some b ->
              let left = String.sub x 0 b and j = String.sub x (b + 1) (String.length x - b - 1) in
              (match String.split_on_char '.' left with
               | [i; k] -> TProbe (nat_of_int (int_of_string i), nat_of_int (int_of_string k), nat_of_int (int_of_string j))
               | _ -> TRun O)
            | None -> TRun (nat_of_int (int_of_string x)) in
          (* `i<` (run thread i's transaction and hold the thread right after it) is `i` for the model, whose
             threads have nothing to do between a transaction and the next; `i>` (let it go on) is nothing *)
          let strip (x : string) : string option =
            let n = String.length x in
            if n > 0 && x.[n - 1] = '>' then None
            else if n > 0 && x.[n - 1] = '<' then Some (String.sub x 0 (n - 1)) else Some x in
          let toks = if spec = "-" then [] else List.map tok_of (List.filter_map strip (String.split_on_char ',' spec)) in
          let (rs, s') = rig_results st.backend st.s st.conc_reqs toks in
          st.s <- s'; st.conc_reqs <- []; st.conc_n <- 0;
          List.iter (fun r -> match r with
              | Some r -> Printf.printf "%s | \n" (string_of_hresp r)
              | None -> print_endline "http UNFINISHED") rs;
          print_endline "sched -"
        | ["rows"] ->
          if st.is_sqlite then print_endline (string_of_tables (Obj.obj st.s)) else print_endline "rows na"
        | _ -> Printf.printf "?? %s\n" line)
     done
   with End_of_file -> ())
