(* ConcRig.v — the schedules the scheduled rig (harness/src/sched.rs) drives, as a function of the
   model: a token `i` lets thread i run its next transaction to the end; a probe `i.k!j` stops
   thread i before its k-th storage call, lets thread j ask for the lock (it has to wait), then
   finishes i's transaction and runs j's; at the end every unfinished request is drained, lowest
   thread first.  A thread whose handler has no transaction left is finished.  Extracted and run
   against the real handlers on OS threads behind the gated storage (check C03). *)
From TSS Require Export Conc.
From Coq Require Import Arith.

Section Rig.
  Variable B : backend.
  Variable R : Type.
  Local Notation sys := (sys B R).

  Inductive tok := TRun (i : nat) | TProbe (i k j : nat).

  Definition at_txn (s : sys) (i : nat) : bool :=
    match nth_error (th s) i with Some (TIdle _ (HTxn _ _ _)) => true | _ => false end.
  (* number of storage calls of thread i's next transaction (commit included) *)
  Definition txn_calls (s : sys) (i : nat) : nat :=
    match nth_error (th s) i with
    | Some (TIdle E (HTxn c body _)) => length (snd (run_prog B E body (b_begin B (db s) c)))
    | _ => O
    end.
  Definition try (s : sys) (i : nat) : sys := match cstep B R s i with Some s' => s' | None => s end.
  (* a request with no transaction left answers without further scheduling *)
  Definition settle (s : sys) (i : nat) : sys := if at_txn s i then s else try s i.
  Definition run_txn (s : sys) (i : nat) : sys := if at_txn s i then settle (try s i) i else s.

  Definition rig_tok (s : sys) (t : tok) : sys :=
    match t with
    | TRun i => run_txn s i
    | TProbe i k j =>
        if at_txn s i then
          let n := txn_calls s i in
          let s1 := run_txn s i in
          if Nat.ltb k n && at_txn s1 j then run_txn s1 j else s1
        else s
    end.

  Definition finished (t : tstate B R) : bool := match t with TDone _ => true | _ => false end.
  Fixpoint drain (fuel : nat) (s : sys) : sys :=
    match fuel with
    | O => s
    | S f => if forallb finished (th s) then s
             else drain f (fold_left run_txn (seq 0 (length (th s))) s)
    end.

  Definition rig_run (s : sys) (toks : list tok) : sys :=
    drain 64 (fold_left rig_tok toks (fold_left settle (seq 0 (length (th s))) s)).

  Definition rig_results (d : b_st B) (reqs : list (env * hprog R)) (toks : list tok) : list (option R) * b_st B :=
    let s := rig_run (init_sys B R d reqs) toks in (map (result_of B R) (th s), db s).
End Rig.
