(* Http.v — the HTTP layer: server/src/lib.rs (router, default-headers middleware) and
   server/src/api/*.rs (the four handlers and the shared client-id extraction), as a function
   from a classified request to a handler program over the storage transactions. *)
From TSS Require Export Seq.
Open Scope N_scope.

Inductive meth := MGet | MPost | MOther.                 (* PUT, DELETE, HEAD, ... *)
Inductive seg := IdOk (i : id) | IdBad.                   (* the {uuid} path segment *)
Inductive path :=
| PIndex | PAddVersion (s : seg) | PGetChild (s : seg) | PAddSnapshot (s : seg) | PSnapshot | PUnknown.
Inductive cidhdr := CAbsent | CNonText | CUnparseable | COk (c : id).
(* what actix's content_type() yields: the part before ';', trimmed, compared case-sensitively *)
Inductive ctype := CTHistory | CTSnapshot | CTOther | CTAbsent.

Record chunk := mkChunk { ck_len : N; ck_data : payload }.
Definition wf_chunk (c : chunk) : Prop := ck_len c = N.of_nat (length (ck_data c)).

Record hreq := mkReq {
  rq_method : meth; rq_path : path; rq_cid : cidhdr; rq_ctype : ctype; rq_chunks : list chunk;
}.

Inductive rtype := RTHistory | RTSnapshot | RTText.
Record hresp := mkResp {
  rs_status : N;
  rs_version_id : option id;          (* X-Version-Id *)
  rs_parent_id : option id;           (* X-Parent-Version-Id *)
  rs_snapshot_req : option urgency;   (* X-Snapshot-Request: urgency=low|high *)
  rs_ctype : option rtype;            (* Content-Type of a 200 body *)
  rs_body : payload;
  rs_cache : bool;                    (* Cache-Control: no-store, max-age=0 *)
}.

Definition MAX_SIZE : N := 104857600.   (* 100 * 1024 * 1024 *)

(* a bare response as a handler builds it: no Cache-Control yet *)
Definition plain (st : N) : hresp := mkResp st None None None None [] false.

(* the chunk loop of add_version.rs 44-53 / add_snapshot.rs 34-43 *)
Fixpoint read_body (cs : list chunk) (len : N) (acc : payload) : option (N * payload) :=
  match cs with
  | [] => Some (len, acc)
  | ck :: r =>
      if N.ltb MAX_SIZE (len + ck_len ck) then None
      else read_body r (len + ck_len ck) (acc ++ ck_data ck)
  end.

(* server/src/api/mod.rs client_id_header: Err 400 / Err 403 / Ok id *)
Definition client_id_header (allow : option (list id)) (h : cidhdr) : id + N :=
  match h with
  | COk c =>
      match allow with
      | Some l => if existsb (N.eqb c) l then inl c else inr 403
      | None => inl c
      end
  | _ => inr 400
  end.

Definition urg_header (u : option urgency) : option (option urgency) :=
  match u with
  | Some UNone => Some None
  | Some ULow => Some (Some ULow)
  | Some UHigh => Some (Some UHigh)
  | None => None                       (* arithmetic left its type: the handler thread panics *)
  end.

(* status used when the model's retry fuel runs out; never produced for a reachable state
   (Http proofs) — the Rust `loop` has no bound *)
Definition FUEL_STATUS : N := 599.

(* add_version.rs 59-99: call the library; on NoSuchClient create the client (if still
   absent — fix ab380e1) in a transaction of its own and retry *)
Fixpoint av_loop (fuel : nat) (cfg : config) (c p : id) (body : payload) : hprog hresp :=
  match fuel with
  | O => HRet (plain FUEL_STATUS)
  | S n =>
      HTxn c (p_add_version cfg p body) (fun r =>
      match r with
      | Ok (AVOk v, u) =>
          match urg_header u with
          | Some h => HRet (mkResp 200 (Some v) None h None [] false)
          | None => HRet (plain 500)
          end
      | Ok (AVConflict l, _) => HRet (mkResp 409 None (Some l) None None [] false)
      | Err ENoSuchClient =>
          HTxn c p_ensure (fun r2 =>
          match r2 with
          | Ok _ => av_loop n cfg c p body
          | Err _ => HRet (plain 500)
          end)
      | Err _ => HRet (plain 500)
      end)
  end.
Definition AV_FUEL : nat := 2.

Definition h_add_version (cfg : config) (allow : option (list id)) (rq : hreq) (s : seg) : hprog hresp :=
  match s with
  | IdBad => HRet (plain 404)                                   (* web::Path<Uuid> extractor *)
  | IdOk p =>
      match rq_ctype rq with
      | CTHistory =>
          match client_id_header allow (rq_cid rq) with
          | inr st => HRet (plain st)
          | inl c =>
              match read_body (rq_chunks rq) 0 [] with
              | None => HRet (plain 400)                        (* over the limit *)
              | Some (len, body) =>
                  if N.eqb len 0 then HRet (plain 400)          (* empty body *)
                  else av_loop AV_FUEL cfg c p body
              end
          end
      | _ => HRet (plain 400)                                   (* bad content-type *)
      end
  end.

Definition h_get_child_version (allow : option (list id)) (rq : hreq) (s : seg) : hprog hresp :=
  match s with
  | IdBad => HRet (plain 404)
  | IdOk p =>
      match client_id_header allow (rq_cid rq) with
      | inr st => HRet (plain st)
      | inl c =>
          HTxn c (p_get_child_version p) (fun r =>
          HRet match r with
               | Ok (GFound v) => mkResp 200 (Some (v_id v)) (Some (v_parent v)) None (Some RTHistory) (v_data v) false
               | Ok GNotFound => plain 404
               | Ok GGone => plain 410
               | Err ENoSuchClient => plain 404
               | Err _ => plain 500
               end)
      end
  end.

Definition h_add_snapshot (allow : option (list id)) (rq : hreq) (s : seg) : hprog hresp :=
  match s with
  | IdBad => HRet (plain 404)
  | IdOk v =>
      match rq_ctype rq with
      | CTSnapshot =>
          match client_id_header allow (rq_cid rq) with
          | inr st => HRet (plain st)
          | inl c =>
              match read_body (rq_chunks rq) 0 [] with
              | None => HRet (plain 400)
              | Some (len, body) =>
                  if N.eqb len 0 then HRet (plain 400)
                  else HTxn c (p_add_snapshot v body) (fun r =>
                       HRet match r with
                            | Ok _ => plain 200
                            | Err ENoSuchClient => plain 404
                            | Err _ => plain 500
                            end)
              end
          end
      | _ => HRet (plain 400)
      end
  end.

Definition h_get_snapshot (allow : option (list id)) (rq : hreq) : hprog hresp :=
  match client_id_header allow (rq_cid rq) with
  | inr st => HRet (plain st)
  | inl c =>
      HTxn c p_get_snapshot (fun r =>
      HRet match r with
           | Ok (Some (v, d)) => mkResp 200 (Some v) None None (Some RTSnapshot) d false
           | Ok None => plain 404
           | Err ENoSuchClient => plain 404
           | Err _ => plain 500
           end)
  end.

(* the routes of api_scope() + index; anything else is actix's default 404 *)
Definition route (cfg : config) (allow : option (list id)) (rq : hreq) : hprog hresp :=
  match rq_method rq, rq_path rq with
  | MGet, PIndex => HRet (mkResp 200 None None None (Some RTText) [] false)
  | MPost, PAddVersion s => h_add_version cfg allow rq s
  | MGet, PGetChild s => h_get_child_version allow rq s
  | MPost, PAddSnapshot s => h_add_snapshot allow rq s
  | MGet, PSnapshot => h_get_snapshot allow rq
  | _, _ => HRet (plain 404)
  end.

(* middleware::DefaultHeaders wrapped around the whole scope (server/src/lib.rs 38-48) *)
Definition default_headers (r : hresp) : hresp :=
  mkResp (rs_status r) (rs_version_id r) (rs_parent_id r) (rs_snapshot_req r) (rs_ctype r) (rs_body r) true.

Fixpoint hmap {A C} (f : A -> C) (h : hprog A) : hprog C :=
  match h with
  | HRet a => HRet (f a)
  | HTxn c body k => HTxn c body (fun r => hmap f (k r))
  end.

Definition http_handler (cfg : config) (allow : option (list id)) (rq : hreq) : hprog hresp :=
  hmap default_headers (route cfg allow rq).

Section HttpRun.
  Variable B : backend.
  Definition http_step (cfg : config) (allow : option (list id)) (s : b_st B) (re : hreq * env)
    : hresp * b_st B * list label :=
    run_hprog B (snd re) (http_handler cfg allow (fst re)) s.
End HttpRun.
