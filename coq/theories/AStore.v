(* AStore.v — the abstract store: per client a latest pointer, an optional snapshot and the
   list of versions in insertion order.  It states the storage CONTRACT (core/src/storage.rs
   36-89): a call outside the contract "poisons" the store (a_ok := false), after which
   nothing is claimed.  Both concrete store models refine it while it is unpoisoned. *)
From TSS Require Export Eff.
Open Scope N_scope.

Record cstate := mkCS {
  a_latest : id;
  a_snap : option (snapmeta * payload);
  a_vers : list version;                 (* oldest first *)
}.

Record astore := mkAS {
  a_cl : id -> option cstate;
  a_allids : list id;                    (* every version id stored for any client *)
  a_ok : bool;
}.
Definition a_empty : astore := mkAS (fun _ => None) [] true.

Definition a_set (s : astore) (c : id) (x : cstate) (ids : list id) : astore :=
  mkAS (fun c' => if N.eqb c' c then Some x else a_cl s c') ids (a_ok s).
Definition a_poison (s : astore) : astore := mkAS (a_cl s) (a_allids s) false.

Record a_ws := mkAWs {
  aw_cid : id; aw_cur : astore; aw_base : astore; aw_written : bool; aw_committed : bool;
}.

Definition client_of (x : cstate) : client := mkClient (a_latest x) (option_map fst (a_snap x)).
Definition by_parent (p : id) (l : list version) := find (fun v => N.eqb (v_parent v) p) l.
Definition by_id (i : id) (l : list version) := find (fun v => N.eqb (v_id v) i) l.
Definition mem_id (i : id) (l : list id) : bool := existsb (N.eqb i) l.

Definition bump_snap (o : option (snapmeta * payload)) : option (snapmeta * payload) :=
  option_map (fun md => (mkSnap (sm_version (fst md)) (sm_time (fst md)) (sm_since (fst md) + 1), snd md)) o.

Definition a_eff {X} (e : seff X) (w : a_ws) : res X * a_ws :=
  let c := aw_cid w in
  let s := aw_cur w in
  let wr s' := mkAWs c s' (aw_base w) true (aw_committed w) in
  let bad := mkAWs c (a_poison s) (aw_base w) (aw_written w) (aw_committed w) in
  match e in seff X return res X * a_ws with
  | EGetClient => (Ok (option_map client_of (a_cl s c)), w)
  | ENewClient l =>
      match a_cl s c with
      | Some _ => (Err EOther, bad)                       (* "The client must not already exist" *)
      | None => (Ok tt, wr (a_set s c (mkCS l None []) (a_allids s)))
      end
  | ESetSnapshot m d =>
      match a_cl s c with
      | None => (Err EOther, bad)
      | Some x => (Ok tt, wr (a_set s c (mkCS (a_latest x) (Some (m, d)) (a_vers x)) (a_allids s)))
      end
  | EGetSnapshotData v =>
      match a_cl s c with
      | None => (Err EOther, bad)
      | Some x =>
          match a_snap x with
          | Some (m, d) => if N.eqb (sm_version m) v then (Ok (Some d), w) else (Err EOther, bad)
          | None => (Err EOther, bad)
          end
      end
  | EGetByParent p =>
      (Ok match a_cl s c with Some x => by_parent p (a_vers x) | None => None end, w)
  | EGetVersion v =>
      (Ok match a_cl s c with Some x => by_id v (a_vers x) | None => None end, w)
  | EAddVersion v p d =>
      match a_cl s c with
      | None => (Err EOther, bad)
      | Some x =>
          (* "Add a version (that must not already exist)"; one child per parent *)
          if mem_id v (a_allids s) then (Err EOther, bad)
          else match by_parent p (a_vers x) with
               | Some _ => (Err EOther, bad)
               | None => (Ok tt, wr (a_set s c (mkCS v (bump_snap (a_snap x)) (a_vers x ++ [mkVersion v p d]))
                                         (v :: a_allids s)))
               end
      end
  | ECommit => (Ok tt, mkAWs c s (aw_base w) (aw_written w) true)
  end.

Definition a_begin (s : astore) (c : id) : a_ws := mkAWs c s s false false.
(* dropping a transaction that wrote without committing is outside the contract
   (the in-memory backend panics, having already mutated its maps) *)
Definition a_end (w : a_ws) : astore :=
  if aw_committed w then aw_cur w
  else if aw_written w then a_poison (aw_base w) else
  if a_ok (aw_cur w) then aw_base w else a_poison (aw_base w).

Definition AStoreB : backend := mkBackend astore a_ws a_begin (@a_eff) a_end.
