(* L0.v — the storage interface driven call by call (core/src/storage.rs StorageTxn), for the
   storage-trait rig: sequences of the eight calls inside one transaction, including sequences the
   server itself never issues.  `l0_txn` is generic in the backend; run on InMemB / SqliteB it is
   what is compared with the real InMemoryStorage / SqliteStorage, run on AStoreB at the same time
   it tells whether the sequence stayed inside the storage contract. *)
From TSS Require Export Eff AStore.
Open Scope N_scope.

Inductive call :=
| CGetClient | CNewClient (l : id) | CSetSnapshot (m : snapmeta) (d : payload)
| CGetSnapshotData (v : id) | CGetByParent (p : id) | CGetVersion (v : id)
| CAddVersion (v p : id) (d : payload) | CCommit.

Inductive cres :=
| KClient (o : option client) | KUnit | KData (o : option payload) | KVersion (o : option version) | KErr.

Section L0.
  Variable B : backend.

  Definition run_call (c : call) (w : b_ws B) : cres * b_ws B :=
    match c with
    | CGetClient => match b_eff B _ EGetClient w with (Ok o, w') => (KClient o, w') | (Err _, w') => (KErr, w') end
    | CNewClient l => match b_eff B _ (ENewClient l) w with (Ok _, w') => (KUnit, w') | (Err _, w') => (KErr, w') end
    | CSetSnapshot m d => match b_eff B _ (ESetSnapshot m d) w with (Ok _, w') => (KUnit, w') | (Err _, w') => (KErr, w') end
    | CGetSnapshotData v => match b_eff B _ (EGetSnapshotData v) w with (Ok o, w') => (KData o, w') | (Err _, w') => (KErr, w') end
    | CGetByParent p => match b_eff B _ (EGetByParent p) w with (Ok o, w') => (KVersion o, w') | (Err _, w') => (KErr, w') end
    | CGetVersion v => match b_eff B _ (EGetVersion v) w with (Ok o, w') => (KVersion o, w') | (Err _, w') => (KErr, w') end
    | CAddVersion v p d => match b_eff B _ (EAddVersion v p d) w with (Ok _, w') => (KUnit, w') | (Err _, w') => (KErr, w') end
    | CCommit => match b_eff B _ ECommit w with (Ok _, w') => (KUnit, w') | (Err _, w') => (KErr, w') end
    end.

  Fixpoint run_calls (cs : list call) (w : b_ws B) : list cres * b_ws B :=
    match cs with
    | [] => ([], w)
    | c :: r => let '(x, w1) := run_call c w in let '(l, w2) := run_calls r w1 in (x :: l, w2)
    end.

  (* one transaction on client `cid`: begin, the calls, drop *)
  Definition l0_txn (s : b_st B) (cid : id) (cs : list call) : list cres * b_st B :=
    let '(l, w) := run_calls cs (b_begin B s cid) in (l, b_end B w).
End L0.

(* the same transaction on the abstract store: did it stay inside the contract? *)
Definition contract_ok (a : astore) : bool := a_ok a.
