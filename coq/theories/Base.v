(* Base.v — values shared by every layer of the model.
   Mirrors core/src/storage.rs (Client, Snapshot, Version) and core/src/error.rs. *)
From Coq Require Export List NArith ZArith Bool.
Export ListNotations.
Open Scope N_scope.

Definition id := N.                     (* a UUID, canonicalised by the harness; nil ↦ 0 *)
Definition nil_id : id := 0.
Definition payload := list N.           (* bytes (or chunk tokens, see DESIGN 3.1) *)

Record version := mkVersion { v_id : id; v_parent : id; v_data : payload }.
Record snapmeta := mkSnap { sm_version : id; sm_time : Z; sm_since : N }.   (* time: whole seconds *)
Record client := mkClient { c_latest : id; c_snap : option snapmeta }.

Inductive err := ENoSuchClient | EOther | EFuel.
Inductive res (A : Type) : Type := Ok (a : A) | Err (e : err).
Arguments Ok {A}. Arguments Err {A}.

Definition oid_eqb (a b : option id) : bool :=
  match a, b with Some x, Some y => N.eqb x y | None, None => true | _, _ => false end.

Lemma oid_eqb_eq a b : oid_eqb a b = true <-> a = b.
Proof.
  destruct a as [x|], b as [y|]; cbn; try (split; congruence).
  rewrite N.eqb_eq. split; congruence.
Qed.

(* association lists with "first binding wins" lookup; insert = cons (HashMap::insert overwrite) *)
Section Assoc.
  Context {K V : Type} (keqb : K -> K -> bool).
  Fixpoint alookup (k : K) (m : list (K * V)) : option V :=
    match m with
    | [] => None
    | (k', v) :: r => if keqb k k' then Some v else alookup k r
    end.
  Definition ainsert (k : K) (v : V) (m : list (K * V)) : list (K * V) := (k, v) :: m.
End Assoc.

Definition pair_eqb (a b : id * id) : bool := N.eqb (fst a) (fst b) && N.eqb (snd a) (snd b).
Lemma pair_eqb_eq a b : pair_eqb a b = true <-> a = b.
Proof.
  destruct a as [a1 a2], b as [b1 b2]; unfold pair_eqb; cbn.
  rewrite andb_true_iff, !N.eqb_eq. split; [intros [-> ->]; reflexivity | intros H; inversion H; auto].
Qed.
