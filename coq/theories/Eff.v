(* Eff.v — the storage interface (core/src/storage.rs StorageTxn) as an effect signature,
   programs over it (a free monad), request handlers as sequences of transactions, and the
   sequential interpreter over an arbitrary backend. *)
From TSS Require Export Base.

(* one constructor per StorageTxn method; the index is the Ok type of its anyhow::Result *)
Inductive seff : Type -> Type :=
| EGetClient : seff (option client)
| ENewClient (latest : id) : seff unit
| ESetSnapshot (m : snapmeta) (d : payload) : seff unit
| EGetSnapshotData (v : id) : seff (option payload)
| EGetByParent (p : id) : seff (option version)
| EGetVersion (v : id) : seff (option version)
| EAddVersion (v p : id) (d : payload) : seff unit
| ECommit : seff unit.

(* labels of storage calls, for effect traces *)
Inductive label :=
| LBegin (c : id) | LEnd
| LGetClient | LNewClient | LSetSnapshot | LGetSnapshotData | LGetByParent | LGetVersion
| LAddVersion | LCommit.

Definition label_of {X} (e : seff X) : label :=
  match e with
  | EGetClient => LGetClient | ENewClient _ => LNewClient | ESetSnapshot _ _ => LSetSnapshot
  | EGetSnapshotData _ => LGetSnapshotData | EGetByParent _ => LGetByParent
  | EGetVersion _ => LGetVersion | EAddVersion _ _ _ => LAddVersion | ECommit => LCommit
  end.

Definition is_write (l : label) : bool :=
  match l with LNewClient | LSetSnapshot | LAddVersion | LCommit => true | _ => false end.

(* A program inside one transaction. [Do e k]: a storage call followed by `?` — if the call
   fails the whole program fails with EOther (every storage result in core/src/server.rs and
   server/src/api/*.rs is propagated with `?`). [Fresh] is Uuid::new_v4(), [Now] is Utc::now(). *)
Inductive prog (A : Type) : Type :=
| Ret (a : A)
| Throw (e : err)
| Do {X : Type} (e : seff X) (k : X -> prog A)
| Fresh (k : id -> prog A)
| Now (k : Z -> prog A).
Arguments Ret {A}. Arguments Throw {A}. Arguments Do {A X}. Arguments Fresh {A}. Arguments Now {A}.

(* A request handler: a sequence of transactions, each on one client id.  The continuation
   receives the result of the transaction body (or Err EOther if `txn()` itself failed). *)
Inductive hprog (A : Type) : Type :=
| HRet (a : A)
| HTxn {X : Type} (c : id) (body : prog X) (k : res X -> hprog A).
Arguments HRet {A}. Arguments HTxn {A X}.

(* what the environment supplies to one request *)
Record env := mkEnv { e_fresh : id; e_now : Z }.

(* A storage backend: committed store, open-transaction workspace. *)
Record backend := mkBackend {
  b_st : Type;
  b_ws : Type;
  b_begin : b_st -> id -> b_ws;
  b_eff : forall X, seff X -> b_ws -> res X * b_ws;
  b_end : b_ws -> b_st;                   (* what the store is once the transaction is dropped *)
}.

Section Run.
  Variable B : backend.

  Fixpoint run_prog {A} (E : env) (p : prog A) (w : b_ws B) : res A * b_ws B * list label :=
    match p with
    | Ret a => (Ok a, w, [])
    | Throw e => (Err e, w, [])
    | Do e k =>
        match b_eff B _ e w with
        | (Ok x, w') => let '(r, w'', t) := run_prog E (k x) w' in (r, w'', label_of e :: t)
        | (Err _, w') => (Err EOther, w', [label_of e])
        end
    | Fresh k => run_prog E (k (e_fresh E)) w
    | Now k => run_prog E (k (e_now E)) w
    end.

  Fixpoint run_hprog {A} (E : env) (h : hprog A) (s : b_st B) : A * b_st B * list label :=
    match h with
    | HRet a => (a, s, [])
    | HTxn c body k =>
        let '(r, w, t) := run_prog E body (b_begin B s c) in
        let '(a, s', t') := run_hprog E (k r) (b_end B w) in
        (a, s', LBegin c :: t ++ LEnd :: t')
    end.
End Run.
Arguments run_prog B {A}. Arguments run_hprog B {A}.
