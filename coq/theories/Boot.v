(* Boot.v — server/src/bin/taskchampion-sync-server.rs: how the command line and the
   environment become the running configuration (clap: a flag beats its environment variable;
   --listen and --allow-client-id may be repeated and are comma-delimited; defaults 100 / 14;
   no allow-client-id at all = no list), and what the process then serves. *)
From TSS Require Export Http.
Open Scope N_scope.

Definition addr := N.   (* a listen address, as an opaque token *)
Definition dirn := N.   (* a directory name, as an opaque token; 0 = the built-in default *)

Record boot_in := mkBootIn {
  bi_listen_flag : list (list addr);      (* every --listen occurrence, split at commas *)
  bi_listen_env : option (list addr);     (* LISTEN *)
  bi_dir_flag : option dirn; bi_dir_env : option dirn;
  bi_allow_flag : list (list id); bi_allow_env : option (list id);
  bi_versions_flag : option N; bi_versions_env : option N;
  bi_days_flag : option Z; bi_days_env : option Z;
}.

Record server_args := mkArgs {
  sa_listen : list addr; sa_dir : dirn; sa_allow : option (list id); sa_cfg : config;
}.

Definition pick {A} (flag env : option A) (dflt : A) : A :=
  match flag, env with Some x, _ => x | None, Some y => y | None, None => dflt end.

Definition boot (b : boot_in) : option server_args :=
  let listen := match bi_listen_flag b with
                | [] => match bi_listen_env b with Some l => l | None => [] end
                | fl => concat fl
                end in
  match listen with
  | [] => None                             (* --listen is required *)
  | _ =>
      Some (mkArgs listen
              (pick (bi_dir_flag b) (bi_dir_env b) 0)
              (match bi_allow_flag b with [] => bi_allow_env b | fl => Some (concat fl) end)
              (mkConfig (pick (bi_days_flag b) (bi_days_env b) 14%Z)
                        (pick (bi_versions_flag b) (bi_versions_env b) 100)))
  end.

(* the process serves, on every listen address, the HTTP handler under that configuration over
   the SQLite store of the configured directory *)
Definition serve (a : server_args) (stores : dirn -> tables) (rq : hreq) (E : env)
  : hresp * (dirn -> tables) :=
  let '(r, t', _) := http_step SqliteB (sa_cfg a) (sa_allow a) (stores (sa_dir a)) (rq, E) in
  (r, fun d => if N.eqb d (sa_dir a) then t' else stores d).
