(* Fault.v — storage faults.  A fault plan says, for the k-th storage call of a request
   (transaction begin included), whether it fails before taking effect, fails after taking
   effect, or works.  Every storage result in the Rust code is propagated with `?`, which is
   what `Do` means; a failing `txn()` hands Err to the handler's continuation. *)
From TSS Require Export Http.

Inductive fault := FNone | FBefore | FAfter.
Definition plan := nat -> fault.
Definition no_faults : plan := fun _ => FNone.

Section FRun.
  Variable B : backend.

  Fixpoint run_prog_f {A} (E : env) (pl : plan) (n : nat) (p : prog A) (w : b_ws B)
    : res A * b_ws B * nat :=
    match p with
    | Ret a => (Ok a, w, n)
    | Throw e => (Err e, w, n)
    | Do e k =>
        match pl n with
        | FBefore => (Err EOther, w, S n)
        | FAfter => (Err EOther, snd (b_eff B _ e w), S n)
        | FNone =>
            match b_eff B _ e w with
            | (Ok x, w') => run_prog_f E pl (S n) (k x) w'
            | (Err _, w') => (Err EOther, w', S n)
            end
        end
    | Fresh k => run_prog_f E pl n (k (e_fresh E)) w
    | Now k => run_prog_f E pl n (k (e_now E)) w
    end.

  Fixpoint run_hprog_f {A} (E : env) (pl : plan) (n : nat) (h : hprog A) (s : b_st B) : A * b_st B * nat :=
    match h with
    | HRet a => (a, s, n)
    | HTxn c body k =>
        match pl n with
        | FNone =>
            let '(r, w, n') := run_prog_f E pl (S n) body (b_begin B s c) in
            run_hprog_f E pl n' (k r) (b_end B w)
        | _ =>
            (* `storage.txn(client_id)?` failed (before or after opening: nothing was done) *)
            run_hprog_f E pl (S n) (k (Err EOther)) s
        end
    end.
End FRun.
Arguments run_prog_f B {A}. Arguments run_hprog_f B {A}.

Definition fstep (B : backend) (cfg : config) (pl : plan) (s : b_st B) (oe : op * env) : resp * b_st B * nat :=
  run_hprog_f B (snd oe) pl 0 (lib_handler cfg (fst oe)) s.
Definition http_fstep (B : backend) (cfg : config) (allow : option (list id)) (pl : plan) (s : b_st B)
  (re : hreq * env) : hresp * b_st B * nat :=
  run_hprog_f B (snd re) pl 0 (http_handler cfg allow (fst re)) s.

(* a plan given as a finite list of (index, fault) *)
Fixpoint plan_of (l : list (nat * fault)) : plan :=
  fun n => match l with
           | [] => FNone
           | (i, f) :: r => if Nat.eqb i n then f else plan_of r n
           end.
