(* Conc.v — overlapping requests.  A pool of threads, each running one request handler (an
   hprog) with its own environment; one storage lock, taken when a transaction begins and
   released when the transaction object is dropped; one small step per storage call.  The lock
   being exclusive (std::sync::Mutex / SQLite BEGIN IMMEDIATE) is the ASSUMPTION of this model;
   the scheduled rig observes it on the real backends. *)
From TSS Require Export Http.
From Coq Require Import Arith Lia.

Section Conc.
  Variable B : backend.
  Variable R : Type.

  Inductive tstate : Type :=
  | TIdle (E : env) (h : hprog R)
  | TIn {X : Type} (E : env) (w : b_ws B) (p : prog X) (k : res X -> hprog R)
  | TDone (r : R).

  Record sys := mkSys { db : b_st B; owner : option nat; th : list tstate }.

  Fixpoint upd {A} (l : list A) (i : nat) (x : A) : list A :=
    match l, i with [], _ => [] | _ :: r, O => x :: r | y :: r, S j => y :: upd r j x end.

  (* one fine-grained step of thread i; None = blocked, finished, or no such thread *)
  Definition fstep (s : sys) (i : nat) : option sys :=
    match nth_error (th s) i with
    | None => None
    | Some (TDone _) => None
    | Some (TIdle E (HRet r)) => Some (mkSys (db s) (owner s) (upd (th s) i (TDone r)))
    | Some (TIdle E (HTxn c body k)) =>
        match owner s with
        | Some _ => None                                   (* the lock is held: txn() blocks *)
        | None => Some (mkSys (db s) (Some i) (upd (th s) i (TIn E (b_begin B (db s) c) body k)))
        end
    | Some (TIn E w (Ret x) k) => Some (mkSys (b_end B w) None (upd (th s) i (TIdle E (k (Ok x)))))
    | Some (TIn E w (Throw e) k) => Some (mkSys (b_end B w) None (upd (th s) i (TIdle E (k (Err e)))))
    | Some (TIn E w (Do e kk) k) =>
        match b_eff B _ e w with
        | (Ok x, w') => Some (mkSys (db s) (owner s) (upd (th s) i (TIn E w' (kk x) k)))
        | (Err _, w') => Some (mkSys (db s) (owner s) (upd (th s) i (TIn E w' (Throw EOther) k)))
        end
    | Some (TIn E w (Fresh kk) k) => Some (mkSys (db s) (owner s) (upd (th s) i (TIn E w (kk (e_fresh E)) k)))
    | Some (TIn E w (Now kk) k) => Some (mkSys (db s) (owner s) (upd (th s) i (TIn E w (kk (e_now E)) k)))
    end.

  (* deterministic completion of an open transaction *)
  Definition finish {X} (E : env) (w : b_ws B) (p : prog X) : res X * b_ws B := fst (run_prog B E p w).

  (* coarse step: a whole transaction at once *)
  Definition cstep (s : sys) (i : nat) : option sys :=
    match nth_error (th s) i with
    | Some (TIdle E (HRet r)) => Some (mkSys (db s) None (upd (th s) i (TDone r)))
    | Some (TIdle E (HTxn c body k)) =>
        let '(r, w) := finish E (b_begin B (db s) c) body in
        Some (mkSys (b_end B w) None (upd (th s) i (TIdle E (k r))))
    | _ => None
    end.

  Fixpoint frun (s : sys) (sch : list nat) : sys :=
    match sch with [] => s | i :: r => match fstep s i with Some s' => frun s' r | None => frun s r end end.
  Fixpoint crun (s : sys) (sch : list nat) : sys :=
    match sch with [] => s | i :: r => match cstep s i with Some s' => crun s' r | None => crun s r end end.

  Definition in_txn (t : tstate) : bool := match t with TIn _ _ _ _ => true | _ => false end.
  (* only the lock owner is inside a transaction *)
  Definition wf (s : sys) : Prop :=
    forall j t, nth_error (th s) j = Some t -> in_txn t = true -> owner s = Some j.

  (* the fine state f is simulated by the coarse state c *)
  Definition Rel (f c : sys) : Prop :=
    owner c = None /\ length (th f) = length (th c) /\
    match owner f with
    | None => db f = db c /\ th f = th c
    | Some i =>
        match nth_error (th f) i with
        | Some (TIn E w p k) =>
            db c = b_end B (snd (finish E w p)) /\
            nth_error (th c) i = Some (TIdle E (k (fst (finish E w p)))) /\
            (forall j, j <> i -> nth_error (th f) j = nth_error (th c) j)
        | _ => False
        end
    end.

  (* the coarse schedule keeps exactly the fine steps that begin a transaction or retire a thread *)
  Definition keep (f : sys) (i : nat) : bool :=
    match nth_error (th f) i with
    | Some (TIdle _ (HRet _)) => true
    | Some (TIdle _ (HTxn _ _ _)) => match owner f with None => true | Some _ => false end
    | _ => false
    end.

  Fixpoint csched (f : sys) (sch : list nat) : list nat :=
    match sch with
    | [] => []
    | i :: r => match fstep f i with
                | Some f' => if keep f i then i :: csched f' r else csched f' r
                | None => csched f r
                end
    end.

  (* initial system: every thread idle with its request *)
  Definition init_sys (d : b_st B) (reqs : list (env * hprog R)) : sys :=
    mkSys d None (map (fun eh => TIdle (fst eh) (snd eh)) reqs).

  Definition result_of (t : tstate) : option R := match t with TDone r => Some r | _ => None end.
End Conc.
Arguments TIdle {B R}. Arguments TIn {B R X}. Arguments TDone {B R}.
Arguments mkSys {B R}. Arguments db {B R}. Arguments owner {B R}. Arguments th {B R}.
