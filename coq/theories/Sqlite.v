(* Sqlite.v — model of sqlite/src/lib.rs at the level of table rows and SQL statements. *)
From TSS Require Export Eff.
Open Scope N_scope.

(* table clients: client_id PRIMARY KEY, latest_version_id, snapshot_version_id,
   versions_since_snapshot, snapshot_timestamp, snapshot — the last four NULLable *)
Record crow := mkCrow {
  cr_id : id; cr_latest : id;
  cr_snap_version : option id; cr_since : option N; cr_ts : option Z; cr_snap : option payload;
}.
(* table versions: version_id PRIMARY KEY (global!), client_id, parent_version_id, history_segment *)
Record vrow := mkVrow { vr_id : id; vr_client : id; vr_parent : id; vr_data : payload }.

Record tables := mkTables { t_clients : list crow; t_versions : list vrow }.   (* rowid order *)
Definition sq_empty := mkTables [] [].

Record sq_ws := mkSqWs {
  sw_cid : id;
  sw_tabs : tables;          (* what this connection sees *)
  sw_base : tables;          (* the committed database when BEGIN IMMEDIATE ran *)
  sw_committed : bool;
}.

Definition find_crow (c : id) (t : tables) : option crow :=
  find (fun r => N.eqb (cr_id r) c) (t_clients t).

Definition upd_crow (c : id) (f : crow -> crow) (t : tables) : tables :=
  mkTables (map (fun r => if N.eqb (cr_id r) c then f r else r) (t_clients t)) (t_versions t).

Definition to_version (r : vrow) : version := mkVersion (vr_id r) (vr_parent r) (vr_data r).

Definition sq_eff {X} (e : seff X) (w : sq_ws) : res X * sq_ws :=
  let c := sw_cid w in
  let t := sw_tabs w in
  let set t' := mkSqWs c t' (sw_base w) (sw_committed w) in
  match e in seff X return res X * sq_ws with
  | EGetClient =>
      (* SELECT latest_version_id, snapshot_timestamp, versions_since_snapshot,
                snapshot_version_id FROM clients WHERE client_id = ? LIMIT 1 *)
      match find_crow c t with
      | None => (Ok None, w)
      | Some r =>
          let snap := match cr_ts r, cr_since r, cr_snap_version r with
                      | Some ts, Some vs, Some v => Some (mkSnap v ts vs)
                      | _, _, _ => None
                      end in
          (Ok (Some (mkClient (cr_latest r) snap)), w)
      end
  | ENewClient l =>
      (* INSERT OR REPLACE INTO clients (client_id, latest_version_id) VALUES (?, ?) *)
      (Ok tt, set (mkTables (filter (fun r => negb (N.eqb (cr_id r) c)) (t_clients t)
                             ++ [mkCrow c l None None None None]) (t_versions t)))
  | ESetSnapshot m d =>
      (* UPDATE clients SET snapshot_version_id, snapshot_timestamp, versions_since_snapshot,
         snapshot WHERE client_id = ?   — zero matching rows is not an error *)
      (Ok tt, set (upd_crow c (fun r => mkCrow (cr_id r) (cr_latest r) (Some (sm_version m))
                                          (Some (sm_since m)) (Some (sm_time m)) (Some d)) t))
  | EGetSnapshotData v =>
      (* SELECT snapshot, snapshot_version_id FROM clients WHERE client_id = ? *)
      match find_crow c t with
      | None => (Ok None, w)
      | Some r =>
          match cr_snap_version r, cr_snap r with
          | Some sv, Some d => if N.eqb sv v then (Ok (Some d), w) else (Err EOther, w)
          | _, _ => (Err EOther, w)          (* NULL cannot be read as a uuid / blob *)
          end
      end
  | EGetByParent p =>
      (* … FROM versions WHERE parent_version_id = ? AND client_id = ?  (first row) *)
      (Ok (option_map to_version
             (find (fun r => N.eqb (vr_parent r) p && N.eqb (vr_client r) c) (t_versions t))), w)
  | EGetVersion v =>
      (Ok (option_map to_version
             (find (fun r => N.eqb (vr_id r) v && N.eqb (vr_client r) c) (t_versions t))), w)
  | EAddVersion v p d =>
      (* INSERT INTO versions …  (fails on a duplicate version_id of ANY client), then
         UPDATE clients SET latest_version_id = ?, versions_since_snapshot =
         versions_since_snapshot + 1 WHERE client_id = ?   (NULL + 1 is NULL) *)
      if existsb (fun r => N.eqb (vr_id r) v) (t_versions t) then (Err EOther, w)
      else
        let t1 := mkTables (t_clients t) (t_versions t ++ [mkVrow v c p d]) in
        (Ok tt, set (upd_crow c (fun r => mkCrow (cr_id r) v (cr_snap_version r)
                                            (option_map (fun n => n + 1) (cr_since r))
                                            (cr_ts r) (cr_snap r)) t1))
  | ECommit => (Ok tt, mkSqWs c t (sw_base w) true)
  end.

Definition sq_begin (t : tables) (c : id) : sq_ws := mkSqWs c t t false.
Definition sq_end (w : sq_ws) : tables := if sw_committed w then sw_tabs w else sw_base w.

Definition SqliteB : backend := mkBackend tables sq_ws sq_begin (@sq_eff) sq_end.

(* SqliteStorage::new on an existing directory: PRAGMA journal_mode=WAL and three
   CREATE … IF NOT EXISTS statements; no effect on existing tables *)
Definition sq_reopen (t : tables) : tables := t.
