(* InMem.v — model of core/src/inmemory.rs: four HashMaps behind one Mutex, no rollback. *)
From TSS Require Export Eff.
Open Scope N_scope.

Record inmem := mkInMem {
  im_clients : list (id * client);            (* HashMap<Uuid, Client> *)
  im_snapshots : list (id * payload);         (* HashMap<Uuid, Vec<u8>> *)
  im_versions : list ((id * id) * version);   (* HashMap<(client, version), Version> *)
  im_children : list ((id * id) * id);        (* HashMap<(client, parent), version id> *)
}.
Definition im_empty := mkInMem [] [] [] [].

Record im_ws := mkImWs { iw_cid : id; iw_st : inmem }.

Definition bump (sm : snapmeta) : snapmeta :=
  mkSnap (sm_version sm) (sm_time sm) (sm_since sm + 1).

Definition im_eff {X} (e : seff X) (w : im_ws) : res X * im_ws :=
  let c := iw_cid w in
  let s := iw_st w in
  match e in seff X return res X * im_ws with
  | EGetClient => (Ok (alookup N.eqb c (im_clients s)), w)
  | ENewClient l =>
      match alookup N.eqb c (im_clients s) with
      | Some _ => (Err EOther, w)
      | None => (Ok tt, mkImWs c (mkInMem (ainsert c (mkClient l None) (im_clients s))
                                         (im_snapshots s) (im_versions s) (im_children s)))
      end
  | ESetSnapshot m d =>
      match alookup N.eqb c (im_clients s) with
      | None => (Err EOther, w)
      | Some cl => (Ok tt, mkImWs c (mkInMem (ainsert c (mkClient (c_latest cl) (Some m)) (im_clients s))
                                            (ainsert c d (im_snapshots s))
                                            (im_versions s) (im_children s)))
      end
  | EGetSnapshotData v =>
      match alookup N.eqb c (im_clients s) with
      | None => (Err EOther, w)
      | Some cl =>
          if oid_eqb (Some v) (option_map sm_version (c_snap cl))
          then (Ok (alookup N.eqb c (im_snapshots s)), w)
          else (Err EOther, w)
      end
  | EGetByParent p =>
      match alookup pair_eqb (c, p) (im_children s) with
      | Some vid => (Ok (alookup pair_eqb (c, vid) (im_versions s)), w)
      | None => (Ok None, w)
      end
  | EGetVersion v => (Ok (alookup pair_eqb (c, v) (im_versions s)), w)
  | EAddVersion v p d =>
      match alookup N.eqb c (im_clients s) with
      | None => (Err EOther, w)
      | Some cl =>
          (* the client record is updated first, then `children`, then `versions`;
             a duplicate is reported only after the overwrite has happened *)
          let cls := ainsert c (mkClient v (option_map bump (c_snap cl))) (im_clients s) in
          let ch := ainsert (c, p) v (im_children s) in
          match alookup pair_eqb (c, p) (im_children s) with
          | Some _ => (Err EOther, mkImWs c (mkInMem cls (im_snapshots s) (im_versions s) ch))
          | None =>
              let vs := ainsert (c, v) (mkVersion v p d) (im_versions s) in
              match alookup pair_eqb (c, v) (im_versions s) with
              | Some _ => (Err EOther, mkImWs c (mkInMem cls (im_snapshots s) vs ch))
              | None => (Ok tt, mkImWs c (mkInMem cls (im_snapshots s) vs ch))
              end
          end
      end
  | ECommit => (Ok tt, w)
  end.

Definition InMemB : backend :=
  mkBackend inmem im_ws (fun s c => mkImWs c s) (@im_eff) iw_st.
