(* Atomic.v — transaction atomicity under the storage lock: for any number of threads and any
   schedule, the fine-grained run (one step per storage call) is simulated by the run in which
   every transaction executes at once at the moment it begins. *)
From TSS Require Import Conc.
From Coq Require Import Arith Lia.
Local Open Scope nat_scope.

Section Atomic.
  Variable B : backend.
  Variable R : Type.
  Notation sys := (sys B R).
  Notation tstate := (tstate B R).

  Lemma nth_upd_eq {A} (l : list A) i x : i < length l -> nth_error (upd l i x) i = Some x.
  Proof. revert i; induction l as [|y r IH]; intros [|i] H; cbn in *; try lia; [reflexivity|apply IH; lia]. Qed.
  Lemma nth_upd_ne {A} (l : list A) i j x : i <> j -> nth_error (upd l i x) j = nth_error l j.
  Proof. revert i j; induction l as [|y r IH]; intros [|i] [|j] H; cbn; try reflexivity; try congruence. apply IH; congruence. Qed.
  Lemma len_upd {A} (l : list A) i x : length (upd l i x) = length l.
  Proof. revert i; induction l as [|y r IH]; intros [|i]; cbn; auto. Qed.
  Lemma nth_lt {A} (l : list A) i x : nth_error l i = Some x -> i < length l.
  Proof. intros H. apply nth_error_Some. congruence. Qed.
  Lemma upd_ext {A} (l1 l2 : list A) : length l1 = length l2 ->
    (forall j, nth_error l1 j = nth_error l2 j) -> l1 = l2.
  Proof.
    revert l2; induction l1 as [|x r IH]; intros [|y r2] Hl H; cbn in *; try lia; [reflexivity|].
    pose proof (H 0) as H0; cbn in H0; inversion H0; subst. f_equal. apply IH; [lia|]. intros j. exact (H (S j)).
  Qed.

  Lemma finish_do_ok X Y E (e : seff Y) (kk : Y -> prog X) w x w' :
    b_eff B Y e w = (Ok x, w') -> finish B E w (Do e kk) = finish B E w' (kk x).
  Proof.
    intros He. unfold finish. cbn [run_prog]. rewrite He.
    destruct (run_prog B E (kk x) w') as [[r w2] t]. reflexivity.
  Qed.
  Lemma finish_do_err X Y E (e : seff Y) (kk : Y -> prog X) w er w' :
    b_eff B Y e w = (Err er, w') -> finish B E w (Do e kk) = finish B E w' (Throw EOther).
  Proof. intros He. unfold finish. cbn [run_prog]. rewrite He. reflexivity. Qed.

  Ltac wf_other Hwf Ho :=
    let j := fresh "j" in let t := fresh "t" in let Hj := fresh "Hj" in let Ht := fresh "Ht" in
    intros j t Hj Ht; cbn [th owner] in *.

  Lemma step_sim (f c : sys) i f' : wf B R f -> Rel B R f c -> fstep B R f i = Some f' ->
    wf B R f' /\ Rel B R f' (if keep B R f i then match cstep B R c i with Some c' => c' | None => c end else c).
  Proof.
    intros Hwf [Hoc [Hlen HR]] Hst. unfold fstep in Hst. unfold keep.
    destruct (nth_error (th f) i) as [t|] eqn:Hi; [|discriminate].
    destruct t as [E h|X E w p k|r]; [| |discriminate].
    - (* idle *)
      destruct h as [r|X c0 body k].
      + (* HRet: the thread retires *)
        inversion Hst; subst f'; clear Hst. split.
        { intros j t Hj Ht. cbn [th owner] in *. destruct (Nat.eq_dec i j) as [->|Hne].
          - rewrite nth_upd_eq in Hj by (eapply nth_lt; eauto). inversion Hj; subst; discriminate.
          - rewrite nth_upd_ne in Hj by exact Hne. eapply Hwf; eauto. }
        assert (Hci : nth_error (th c) i = Some (TIdle E (HRet r))).
        { destruct (owner f) as [o|] eqn:Ho.
          - destruct (Nat.eq_dec i o) as [->|Hne]; [rewrite Hi in HR; contradiction|].
            destruct (nth_error (th f) o) as [[?|X E' w p k|?]|]; try contradiction.
            destruct HR as (_ & _ & Hoth). rewrite <- Hoth; [exact Hi|exact Hne].
          - destruct HR as [_ Hth]. rewrite <- Hth. exact Hi. }
        unfold cstep. rewrite Hci. split; [reflexivity|]. split; [cbn [th]; rewrite !len_upd; exact Hlen|].
        cbn [owner db th]. destruct (owner f) as [o|] eqn:Ho.
        * assert (Hne : i <> o) by (intros ->; rewrite Hi in HR; contradiction).
          rewrite nth_upd_ne by exact Hne.
          destruct (nth_error (th f) o) as [[?|X E' w p k|?]|]; try contradiction.
          destruct HR as (Hdb & Hco & Hoth). repeat split.
          -- exact Hdb.
          -- rewrite nth_upd_ne by exact Hne. exact Hco.
          -- intros j Hj. destruct (Nat.eq_dec i j) as [->|Hij].
             ++ rewrite !nth_upd_eq; [reflexivity| |]; [rewrite <- Hlen|]; eapply nth_lt; eauto.
             ++ rewrite !nth_upd_ne by exact Hij. apply Hoth; exact Hj.
        * destruct HR as [Hdb Hth]. split; [exact Hdb|]. rewrite Hth. reflexivity.
      + (* Begin *)
        destruct (owner f) as [o|] eqn:Ho; [discriminate|]. inversion Hst; subst f'; clear Hst.
        destruct HR as [Hdb Hth]. split.
        { intros j t Hj Ht. cbn [th owner] in *. destruct (Nat.eq_dec i j) as [->|Hne]; [reflexivity|].
          rewrite nth_upd_ne in Hj by exact Hne. pose proof (Hwf j t Hj Ht) as Hc. rewrite Ho in Hc. discriminate. }
        unfold cstep. rewrite <- Hth, Hi. rewrite <- Hdb.
        destruct (finish B E (b_begin B (db f) c0) body) as [r w] eqn:Hfin.
        split; [reflexivity|]. split; [cbn [th]; rewrite !len_upd; reflexivity|]. cbn [owner db th].
        rewrite nth_upd_eq by (eapply nth_lt; eauto). rewrite Hfin. cbn [fst snd]. repeat split.
        * apply nth_upd_eq. eapply nth_lt; eauto.
        * intros j Hj. rewrite !nth_upd_ne by congruence. reflexivity.
    - (* inside a transaction: i must be the owner *)
      pose proof (Hwf i _ Hi eq_refl) as Ho. rewrite Ho, Hi in HR.
      destruct HR as (Hdb & Hco & Hoth).
      assert (Hend : forall (rr : res X) (f2 : sys),
                 finish B E w p = (rr, w) ->
                 f2 = mkSys (b_end B w) None (upd (th f) i (TIdle E (k rr))) ->
                 wf B R f2 /\ Rel B R f2 c).
      { intros rr f2 Hfin ->. rewrite Hfin in Hdb, Hco. cbn [fst snd] in Hdb, Hco. split.
        { intros j t Hj Ht. cbn [th owner] in *. destruct (Nat.eq_dec i j) as [->|Hne].
          - rewrite nth_upd_eq in Hj by (eapply nth_lt; eauto). inversion Hj; subst; discriminate.
          - rewrite nth_upd_ne in Hj by exact Hne. pose proof (Hwf j t Hj Ht) as Hc. rewrite Ho in Hc. congruence. }
        split; [exact Hoc|]. split; [cbn [th]; rewrite len_upd; exact Hlen|]. cbn [owner db th].
        split; [symmetry; exact Hdb|]. apply upd_ext; [rewrite len_upd; exact Hlen|]. intros j.
        destruct (Nat.eq_dec i j) as [->|Hne]; [rewrite nth_upd_eq by (eapply nth_lt; eauto); symmetry; exact Hco|].
        rewrite nth_upd_ne by exact Hne. apply Hoth. congruence. }
      assert (Hstut : forall Y (w2 : b_ws B) (p2 : prog Y) (k2 : res Y -> hprog R) (f2 : sys)
                             (Hty : True),
                 False -> True) by auto. clear Hstut.
      destruct p as [x|e0|Y e kk|kk|kk].
      + inversion Hst; subst f'. apply (Hend (Ok x)); reflexivity.
      + inversion Hst; subst f'. apply (Hend (Err e0)); reflexivity.
      + (* storage call: the coarse run stutters *)
        destruct (b_eff B Y e w) as [[x|er] w1] eqn:He; inversion Hst; subst f'; clear Hst.
        * rewrite (finish_do_ok X Y E e kk w x w1 He) in Hdb, Hco. split.
          { intros j t Hj Ht. cbn [th owner] in *. destruct (Nat.eq_dec i j) as [->|Hne]; [exact Ho|].
            rewrite nth_upd_ne in Hj by exact Hne. eapply Hwf; eauto. }
          split; [exact Hoc|]. split; [cbn [th]; rewrite len_upd; exact Hlen|]. cbn [owner db th]. rewrite Ho.
          rewrite nth_upd_eq by (eapply nth_lt; eauto). repeat split; auto.
          intros j Hj. rewrite nth_upd_ne by congruence. apply Hoth. exact Hj.
        * rewrite (finish_do_err X Y E e kk w er w1 He) in Hdb, Hco. split.
          { intros j t Hj Ht. cbn [th owner] in *. destruct (Nat.eq_dec i j) as [->|Hne]; [exact Ho|].
            rewrite nth_upd_ne in Hj by exact Hne. eapply Hwf; eauto. }
          split; [exact Hoc|]. split; [cbn [th]; rewrite len_upd; exact Hlen|]. cbn [owner db th]. rewrite Ho.
          rewrite nth_upd_eq by (eapply nth_lt; eauto). repeat split; auto.
          intros j Hj. rewrite nth_upd_ne by congruence. apply Hoth. exact Hj.
      + (* Uuid::new_v4 *)
        inversion Hst; subst f'; clear Hst. split.
        { intros j t Hj Ht. cbn [th owner] in *. destruct (Nat.eq_dec i j) as [->|Hne]; [exact Ho|].
          rewrite nth_upd_ne in Hj by exact Hne. eapply Hwf; eauto. }
        split; [exact Hoc|]. split; [cbn [th]; rewrite len_upd; exact Hlen|]. cbn [owner db th]. rewrite Ho.
        rewrite nth_upd_eq by (eapply nth_lt; eauto). repeat split; auto.
        intros j Hj. rewrite nth_upd_ne by congruence. apply Hoth. exact Hj.
      + (* Utc::now *)
        inversion Hst; subst f'; clear Hst. split.
        { intros j t Hj Ht. cbn [th owner] in *. destruct (Nat.eq_dec i j) as [->|Hne]; [exact Ho|].
          rewrite nth_upd_ne in Hj by exact Hne. eapply Hwf; eauto. }
        split; [exact Hoc|]. split; [cbn [th]; rewrite len_upd; exact Hlen|]. cbn [owner db th]. rewrite Ho.
        rewrite nth_upd_eq by (eapply nth_lt; eauto). repeat split; auto.
        intros j Hj. rewrite nth_upd_ne by congruence. apply Hoth. exact Hj.
  Qed.

  Lemma keep_cstep (f c : sys) i : wf B R f -> Rel B R f c -> keep B R f i = true -> cstep B R c i <> None.
  Proof.
    intros Hwf [Hoc [Hlen HR]] Hk. unfold keep in Hk.
    destruct (nth_error (th f) i) as [[E [r|X c0 body k]|? ? ? ? ?|?]|] eqn:Hi; try discriminate.
    - assert (Hci : nth_error (th c) i = Some (TIdle E (HRet r))).
      { destruct (owner f) as [o|] eqn:Ho.
        - destruct (Nat.eq_dec i o) as [->|Hne]; [rewrite Hi in HR; contradiction|].
          destruct (nth_error (th f) o) as [[?|? ? ? ? ?|?]|]; try contradiction.
          destruct HR as (_ & _ & Hoth). rewrite <- Hoth; [exact Hi|exact Hne].
        - destruct HR as [_ Hth]. rewrite <- Hth. exact Hi. }
      unfold cstep. rewrite Hci. discriminate.
    - destruct (owner f) eqn:Ho; [discriminate|]. destruct HR as [_ Hth]. unfold cstep. rewrite <- Hth, Hi.
      destruct (finish B E (b_begin B (db c) c0) body). discriminate.
  Qed.

  Theorem txn_atomic : forall sch (f c : sys), wf B R f -> Rel B R f c ->
    Rel B R (frun B R f sch) (crun B R c (csched B R f sch)).
  Proof.
    induction sch as [|i r IH]; intros f c Hwf HR; cbn [frun csched crun]; [exact HR|].
    destruct (fstep B R f i) as [f'|] eqn:Hst; [|apply IH; assumption].
    destruct (step_sim f c i f' Hwf HR Hst) as [Hwf' HR'].
    destruct (keep B R f i) eqn:Hk.
    - cbn [crun]. destruct (cstep B R c i) as [c'|] eqn:Hc.
      + apply IH; assumption.
      + exfalso. apply (keep_cstep f c i Hwf HR Hk). exact Hc.
    - apply IH; assumption.
  Qed.

  (* when the fine run ends with no transaction open, both runs end in the same state: same
     committed store and the same state of every thread (finished ones with the same response) *)
  Corollary txn_atomic_quiescent sch (f : sys) : wf B R f -> owner f = None ->
    owner (frun B R f sch) = None ->
    db (frun B R f sch) = db (crun B R f (csched B R f sch)) /\
    th (frun B R f sch) = th (crun B R f (csched B R f sch)).
  Proof.
    intros Hwf Ho Hq.
    assert (HR : Rel B R f f) by (split; [exact Ho|split; [reflexivity|rewrite Ho; split; reflexivity]]).
    pose proof (txn_atomic sch f f Hwf HR) as [_ [_ H]]. rewrite Hq in H. exact H.
  Qed.

  Lemma init_wf d reqs : wf B R (init_sys B R d reqs).
  Proof.
    intros j t Hj Ht. unfold init_sys in Hj. cbn [th] in Hj. rewrite nth_error_map in Hj.
    destruct (nth_error reqs j); cbn in Hj; inversion Hj; subst. discriminate.
  Qed.
End Atomic.
