(* Refine.v — history-level transport: on every history that keeps the abstract store inside
   the storage contract, each concrete backend gives exactly the abstract responses. *)
From TSS Require Import AStore Seq proofs.Sim proofs.RefineSqlite proofs.RefineInMem.
Open Scope N_scope.

Definition arun (cfg : config) (a : astore) (h : list (op * env)) : list resp * astore :=
  run_hist AStoreB cfg a h.

Lemma step_sticky cfg a oe :
  a_ok (snd (fst (step AStoreB cfg a oe))) = true -> a_ok a = true.
Proof. unfold step. apply run_hprog_sticky. Qed.

Lemma arun_sticky cfg a h : a_ok (snd (arun cfg a h)) = true -> a_ok a = true.
Proof.
  unfold arun. revert a. induction h as [|oe h IH]; intros a; cbn; auto.
  destruct (step AStoreB cfg a oe) as [[r a1] t] eqn:Hs.
  specialize (IH a1). destruct (run_hist AStoreB cfg a1 h) as [l a2]. cbn in *.
  intros Hok. apply (step_sticky cfg a oe). rewrite Hs. cbn. auto.
Qed.

Section Transport.
  Variable B : backend.
  Variable Rs : astore -> b_st B -> Prop.
  Variable Rw : a_ws -> b_ws B -> Prop.
  Hypothesis begin_sim : forall a s c, a_ok a = true -> Rs a s -> Rw (a_begin a c) (b_begin B s c).
  Hypothesis eff_sim : forall X (e : seff X) aw w, Rw aw w -> okW (snd (a_eff e aw)) ->
    fst (b_eff B X e w) = fst (a_eff e aw) /\ Rw (snd (a_eff e aw)) (snd (b_eff B X e w)).
  Hypothesis end_sim : forall aw w, Rw aw w -> a_ok (a_end aw) = true -> Rs (a_end aw) (b_end B w).

  Lemma step_transport cfg a s oe :
    Rs a s -> a_ok (snd (fst (step AStoreB cfg a oe))) = true ->
    fst (fst (step B cfg s oe)) = fst (fst (step AStoreB cfg a oe)) /\
    snd (step B cfg s oe) = snd (step AStoreB cfg a oe) /\
    Rs (snd (fst (step AStoreB cfg a oe))) (snd (fst (step B cfg s oe))).
  Proof. unfold step. apply (run_hprog_sim B Rs Rw begin_sim eff_sim end_sim). Qed.

  Lemma hist_transport cfg a s h :
    Rs a s -> a_ok (snd (arun cfg a h)) = true ->
    fst (run_hist B cfg s h) = fst (arun cfg a h) /\
    Rs (snd (arun cfg a h)) (snd (run_hist B cfg s h)).
  Proof.
    unfold arun. revert a s. induction h as [|oe h IH]; intros a s HR Hok; cbn in *; auto.
    destruct (step AStoreB cfg a oe) as [[r a1] t] eqn:Ha.
    destruct (step B cfg s oe) as [[r' s1] t'] eqn:Hb.
    destruct (run_hist AStoreB cfg a1 h) as [l a2] eqn:Ha2.
    destruct (run_hist B cfg s1 h) as [l' s2] eqn:Hb2. cbn in *.
    assert (Hok1 : a_ok a1 = true).
    { apply (arun_sticky cfg a1 h). unfold arun. rewrite Ha2. exact Hok. }
    pose proof (step_transport cfg a s oe HR) as Hst. rewrite Ha, Hb in Hst. cbn in Hst.
    destruct (Hst Hok1) as (H1 & H2 & H3). subst r' t'.
    specialize (IH a1 s1 H3). rewrite Ha2, Hb2 in IH. cbn in IH.
    destruct (IH Hok) as [I1 I2]. subst l'. auto.
  Qed.
End Transport.

Definition sqlite_transport := hist_transport SqliteB Rs_sq Rw_sq sq_begin_sim sq_eff_sim sq_end_sim.
Definition inmem_transport := hist_transport InMemB Rs_im Rw_im im_begin_sim im_eff_sim im_end_sim.
Definition sqlite_step_transport := step_transport SqliteB Rs_sq Rw_sq sq_begin_sim sq_eff_sim sq_end_sim.
Definition inmem_step_transport := step_transport InMemB Rs_im Rw_im im_begin_sim im_eff_sim im_end_sim.
