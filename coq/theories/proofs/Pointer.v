(* Pointer.v — "the client has no versions yet" and "the latest pointer is nil" are the same thing in
   every reachable state: the acceptance test of AddVersion (latest = nil or latest = parent) can be read
   either way.  Behind the oracle rule "latest pointer nil although versions are stored" (C02). *)
From TSS Require Import AStore Seq proofs.ListAux proofs.Chain proofs.Steps proofs.Inv proofs.Agree proofs.Hist proofs.Cas.
Open Scope N_scope.

Lemma last_in {A} (l : list A) d : l <> [] -> In (last l d) l.
Proof.
  induction l as [|a l IH]; intros H; [congruence|].
  destruct l as [|b l]; [left; reflexivity|]. right. apply IH. discriminate.
Qed.

Lemma cinv_latest_nil_iff U x : cinv U x -> (a_latest x = nil_id <-> a_vers x = []).
Proof.
  intros Hi. rewrite (ci_latest U x Hi). split.
  - intros Hl. destruct (a_vers x) as [|v l] eqn:Ev; [reflexivity|]. exfalso.
    apply (ci_nonnil U x Hi). rewrite Ev. rewrite <- Hl. unfold last_id. apply last_in. discriminate.
  - intros ->. reflexivity.
Qed.

Theorem latest_nil_iff_no_versions cfg h c x : oracle_ok h ->
  a_cl (state_after cfg h) c = Some x -> (a_latest x = nil_id <-> a_vers x = []).
Proof.
  intros Hor Hc. destruct (reachable_inv cfg h Hor) as (_ & Hcl & _).
  apply (cinv_latest_nil_iff _ x (Hcl c x Hc)).
Qed.

(* and the pointer always names the newest stored version *)
Theorem latest_is_newest_stored cfg h c x : oracle_ok h ->
  a_cl (state_after cfg h) c = Some x -> a_vers x <> [] ->
  exists pre v, a_vers x = pre ++ [v] /\ a_latest x = v_id v.
Proof.
  intros Hor Hc Hne. destruct (reachable_inv cfg h Hor) as (_ & Hcl & _).
  pose proof (Hcl c x Hc) as Hi. rewrite (ci_latest _ x Hi).
  destruct (exists_last Hne) as (pre & v & Hv). exists pre, v. split; [exact Hv|].
  rewrite Hv. apply last_id_snoc.
Qed.
