(* Agree.v — under the freshness assumption both concrete backends answer every history
   exactly like the abstract store (and therefore like each other). *)
From TSS Require Import AStore Seq proofs.Sim proofs.RefineSqlite proofs.RefineInMem proofs.Refine
  proofs.Steps proofs.Inv.
Open Scope N_scope.

Inductive bk := BInMem | BSqlite.
Definition bk_backend (k : bk) : backend := match k with BInMem => InMemB | BSqlite => SqliteB end.
Definition bk_empty (k : bk) : b_st (bk_backend k) :=
  match k with BInMem => im_empty | BSqlite => sq_empty end.

Definition responses (k : bk) (cfg : config) (h : list (op * env)) : list resp :=
  fst (run_hist (bk_backend k) cfg (bk_empty k) h).
Definition aresponses (cfg : config) (h : list (op * env)) : list resp := fst (arun cfg a_empty h).

Theorem responses_agree k cfg h : oracle_ok h -> responses k cfg h = aresponses cfg h.
Proof.
  intros Hor. pose proof (reachable_inv cfg h Hor) as (Hok & _).
  unfold responses, aresponses. destruct k; cbn [bk_backend bk_empty].
  - apply (inmem_transport cfg a_empty im_empty h Rs_im_empty Hok).
  - apply (sqlite_transport cfg a_empty sq_empty h Rs_sq_empty Hok).
Qed.

(* the concrete final stores are related to the abstract final store *)
Theorem final_related_sqlite cfg h : oracle_ok h ->
  Rs_sq (snd (arun cfg a_empty h)) (snd (run_hist SqliteB cfg sq_empty h)).
Proof.
  intros Hor. pose proof (reachable_inv cfg h Hor) as (Hok & _).
  apply (sqlite_transport cfg a_empty sq_empty h Rs_sq_empty Hok).
Qed.
Theorem final_related_inmem cfg h : oracle_ok h ->
  Rs_im (snd (arun cfg a_empty h)) (snd (run_hist InMemB cfg im_empty h)).
Proof.
  intros Hor. pose proof (reachable_inv cfg h Hor) as (Hok & _).
  apply (inmem_transport cfg a_empty im_empty h Rs_im_empty Hok).
Qed.

(* histories are run left to right: a run of h1 ++ h2 is a run of h2 from the state after h1 *)
Lemma arun_app cfg a h1 h2 :
  arun cfg a (h1 ++ h2) =
  (fst (arun cfg a h1) ++ fst (arun cfg (snd (arun cfg a h1)) h2),
   snd (arun cfg (snd (arun cfg a h1)) h2)).
Proof.
  revert a. induction h1 as [|[o E] h1 IH]; intros a.
  - cbn [app]. unfold arun at 2 4. cbn. destruct (arun cfg a h2); reflexivity.
  - cbn [app]. rewrite !arun_cons. cbn [fst snd]. rewrite IH. reflexivity.
Qed.

Lemma oracle_ok_from_app U h1 h2 :
  oracle_ok_from U (h1 ++ h2) <-> oracle_ok_from U h1 /\ oracle_ok_from (used_after U h1) h2.
Proof.
  revert U. induction h1 as [|[o E] h1 IH]; intros U; cbn [app oracle_ok_from used_after]; [tauto|].
  rewrite IH. tauto.
Qed.

Lemma used_after_app U h1 h2 : used_after U (h1 ++ h2) = used_after (used_after U h1) h2.
Proof. revert U. induction h1 as [|[o E] h1 IH]; intros U; cbn; auto. Qed.

(* histories made of reads only never need fresh ids *)
Definition is_av (o : op) : bool := match o with OAddVersion _ _ _ => true | _ => false end.
Lemma oracle_ok_no_av U h : forallb (fun oe => negb (is_av (fst oe))) h = true -> oracle_ok_from U h.
Proof.
  revert U. induction h as [|[o E] h IH]; intros U; cbn; [auto|].
  intros H. apply Bool.andb_true_iff in H. destruct H as [H1 H2]. split; [|apply IH; exact H2].
  destruct o; cbn in *; auto; discriminate.
Qed.
