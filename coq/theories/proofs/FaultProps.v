(* FaultProps.v — a storage failure yields an error response and no partial effect (C05),
   proved for the SQLite table model (the persistent backend), for every fault plan. *)
From TSS Require Import Fault Sqlite proofs.ListAux.
From Coq Require Import Lia.
Open Scope N_scope.

(* programs that make no storage call and cannot fail: what follows a commit in the server *)
Inductive pure_ret : forall A, prog A -> Prop :=
| PR_Ret A (a : A) : pure_ret A (Ret a)
| PR_Fresh A (k : id -> prog A) : (forall x, pure_ret A (k x)) -> pure_ret A (Fresh k)
| PR_Now A (k : Z -> prog A) : (forall x, pure_ret A (k x)) -> pure_ret A (Now k).

Definition is_commit {X} (e : seff X) : bool := match e with ECommit => true | _ => false end.

(* programs in which the commit is the last storage call and success is built only after it *)
Inductive commit_last : forall A, prog A -> Prop :=
| CL_Ret A (a : A) : commit_last A (Ret a)
| CL_Throw A e : commit_last A (Throw e)
| CL_Commit A (k : unit -> prog A) : (forall x, pure_ret A (k x)) -> commit_last A (Do ECommit k)
| CL_Do A X (e : seff X) (k : X -> prog A) : is_commit e = false -> (forall x, commit_last A (k x)) -> commit_last A (Do e k)
| CL_Fresh A (k : id -> prog A) : (forall x, commit_last A (k x)) -> commit_last A (Fresh k)
| CL_Now A (k : Z -> prog A) : (forall x, commit_last A (k x)) -> commit_last A (Now k).

Lemma pure_ret_run A E pl n (p : prog A) w : pure_ret A p ->
  exists x, run_prog_f SqliteB E pl n p w = (Ok x, w, n) /\ fst (run_prog SqliteB E p w) = (Ok x, w).
Proof.
  intros H. induction H as [A a|A k Hk IH|A k Hk IH]; cbn; eauto.
Qed.

(* a non-commit statement never changes what a still-uncommitted transaction will leave behind *)
Lemma sq_eff_keeps_base X (e : seff X) w : is_commit e = false ->
  sw_base (snd (sq_eff e w)) = sw_base w /\ sw_committed (snd (sq_eff e w)) = sw_committed w.
Proof.
  intros He. destruct w as [c t tb cm]. destruct e; try discriminate; cbn.
  - destruct (find_crow c t); auto.
  - auto.
  - auto.
  - destruct (find_crow c t) as [r|]; [|auto]. destruct (cr_snap_version r); [|auto]. destruct (cr_snap r); [|auto].
    destruct (N.eqb i v); auto.
  - auto.
  - auto.
  - destruct (existsb (fun r => N.eqb (vr_id r) v) (t_versions t)); auto.
Qed.

Lemma sq_end_uncommitted w : sw_committed w = false -> sq_end w = sw_base w.
Proof. unfold sq_end. intros ->. reflexivity. Qed.

(* one transaction under an arbitrary fault plan, compared with its fault-free run *)
Inductive txn_outcome {A} (t0 : tables) (r0 : res A) (t_ok : tables) : res A -> tables -> Prop :=
| TO_same : txn_outcome t0 r0 t_ok r0 t_ok                       (* behaves like the fault-free run *)
| TO_nothing : txn_outcome t0 r0 t_ok (Err EOther) t0            (* error, nothing applied *)
| TO_ack_lost x : r0 = Ok x -> txn_outcome t0 r0 t_ok (Err EOther) t_ok.   (* committed; only the acknowledgement lost *)

Lemma txn_outcome_cases A t0 (r0 : res A) tok r t' : txn_outcome t0 r0 tok r t' ->
  (r = r0 /\ t' = tok) \/ (r = Err EOther /\ t' = t0) \/ (r = Err EOther /\ t' = tok /\ exists x, r0 = Ok x).
Proof. destruct 1 as [| |x Hx]; [left; auto|right; left; auto|right; right; eauto]. Qed.

Lemma txn_fault_atomic A E pl (p : prog A) : commit_last A p -> forall n w,
  sw_committed w = false ->
  txn_outcome (sw_base w) (fst (fst (run_prog SqliteB E p w))) (sq_end (snd (fst (run_prog SqliteB E p w))))
              (fst (fst (run_prog_f SqliteB E pl n p w))) (sq_end (snd (fst (run_prog_f SqliteB E pl n p w)))).
Proof.
  intros Hcl. induction Hcl as [A a|A e|A k Hk|A X e k He Hk IH|A k Hk IH|A k Hk IH]; intros n w Hcm; cbn [run_prog_f run_prog].
  - cbn. rewrite (sq_end_uncommitted w Hcm). constructor.
  - cbn. rewrite (sq_end_uncommitted w Hcm). constructor.
  - (* commit *)
    change (b_eff SqliteB unit ECommit w) with (sq_eff ECommit w).
    assert (Hce : sq_eff ECommit w = (Ok tt, mkSqWs (sw_cid w) (sw_tabs w) (sw_base w) true)) by reflexivity.
    rewrite Hce. cbn [snd]. set (w1 := mkSqWs (sw_cid w) (sw_tabs w) (sw_base w) true).
    destruct (pure_ret_run A E pl (S n) (k tt) w1 (Hk tt)) as (x & Hf & H0).
    destruct (run_prog SqliteB E (k tt) w1) as [[r0 w0] t0] eqn:Hr. cbn [fst snd] in *. inversion H0; subst r0 w0.
    destruct (pl n).
    + rewrite Hf. cbn [fst snd]. constructor.
    + cbn [fst snd]. rewrite (sq_end_uncommitted w Hcm). constructor.
    + cbn [fst snd]. apply TO_ack_lost with (x := x). reflexivity.
  - (* any other statement *)
    change (b_eff SqliteB X e w) with (sq_eff e w).
    destruct (sq_eff_keeps_base X e w He) as [Hb Hc].
    destruct (sq_eff e w) as [[x|er] w1] eqn:Hq; cbn [snd] in Hb, Hc.
    + specialize (IH x (S n) w1). rewrite Hc in IH. specialize (IH Hcm). rewrite Hb in IH.
      destruct (run_prog SqliteB E (k x) w1) as [[r0 w0] t0]. cbn [fst snd] in *.
      destruct (pl n); cbn [fst snd].
      * exact IH.
      * rewrite (sq_end_uncommitted w Hcm). constructor.
      * rewrite (sq_end_uncommitted w1) by (rewrite Hc; exact Hcm). rewrite Hb. constructor.
    + cbn [fst snd]. destruct (pl n); cbn [fst snd].
      * constructor.
      * rewrite (sq_end_uncommitted w Hcm), (sq_end_uncommitted w1) by (rewrite Hc; exact Hcm). rewrite Hb. constructor.
      * rewrite (sq_end_uncommitted w1) by (rewrite Hc; exact Hcm). rewrite Hb. constructor.
  - apply IH. exact Hcm.
  - apply IH. exact Hcm.
Qed.

(* ---------------- the server's programs are commit-last ---------------- *)
Inductive no_commit : forall A, prog A -> Prop :=
| NC_Ret A (a : A) : no_commit A (Ret a)
| NC_Throw A e : no_commit A (Throw e)
| NC_Do A X (e : seff X) (k : X -> prog A) : is_commit e = false -> (forall x, no_commit A (k x)) -> no_commit A (Do e k)
| NC_Fresh A (k : id -> prog A) : (forall x, no_commit A (k x)) -> no_commit A (Fresh k)
| NC_Now A (k : Z -> prog A) : (forall x, no_commit A (k x)) -> no_commit A (Now k).

Lemma no_commit_last A p : no_commit A p -> commit_last A p.
Proof. intros H. induction H; constructor; auto. Qed.

Lemma pbind_commit_last A C (p : prog A) (f : A -> prog C) :
  no_commit A p -> (forall x, commit_last C (f x)) -> commit_last C (pbind p f).
Proof. intros Hp Hf. induction Hp; cbn; try (constructor; auto; fail). apply Hf. Qed.

Lemma gcv_commit_last p : commit_last _ (p_get_child_version p).
Proof.
  apply no_commit_last. unfold p_get_child_version. constructor; [reflexivity|]. intros [cl|]; [|constructor].
  constructor; [reflexivity|]. intros [v|]; constructor.
Qed.
Lemma gs_commit_last : commit_last _ p_get_snapshot.
Proof.
  apply no_commit_last. unfold p_get_snapshot. constructor; [reflexivity|]. intros [cl|]; [|constructor].
  destruct (c_snap cl); [|constructor]. constructor; [reflexivity|]. intros od. constructor.
Qed.
Lemma av_commit_last cfg p d : commit_last _ (p_add_version cfg p d).
Proof.
  unfold p_add_version. apply CL_Do; [reflexivity|]. intros [cl|]; [|constructor].
  destruct (negb (N.eqb (c_latest cl) nil_id) && negb (N.eqb p (c_latest cl))); [constructor|].
  constructor. intros vid. apply CL_Do; [reflexivity|]. intros _. apply CL_Commit. intros _.
  destruct (c_snap cl); [|constructor]. constructor. intros now. constructor.
Qed.
Lemma snap_search_no_commit n v last vid : no_commit _ (snap_search n v last vid).
Proof.
  revert vid. induction n as [|n IH]; intros vid; cbn [snap_search].
  - destruct (N.eqb vid v && negb (N.eqb v nil_id)); [constructor|]. destruct (oid_eqb (Some vid) last); constructor.
  - destruct (N.eqb vid v && negb (N.eqb v nil_id)); [constructor|]. destruct (oid_eqb (Some vid) last); [constructor|].
    destruct (Nat.eqb n 0 || N.eqb vid nil_id); [constructor|]. constructor; [reflexivity|].
    intros [ver|]; [apply IH|constructor].
Qed.
Lemma as_commit_last v d : commit_last _ (p_add_snapshot v d).
Proof.
  unfold p_add_snapshot. apply CL_Do; [reflexivity|]. intros [cl|]; [|constructor].
  destruct (oid_eqb (Some v) (option_map sm_version (c_snap cl))); [constructor|].
  apply pbind_commit_last; [apply snap_search_no_commit|]. intros [|]; [|constructor].
  constructor. intros now. apply CL_Do; [reflexivity|]. intros _. apply CL_Commit. intros _. constructor.
Qed.
Lemma ensure_commit_last : commit_last _ p_ensure.
Proof.
  unfold p_ensure. apply CL_Do; [reflexivity|]. intros [cl|]; [constructor|].
  apply CL_Do; [reflexivity|]. intros _. apply CL_Commit. intros _. constructor.
Qed.

(* ---------------- one protocol operation (library entry point) ---------------- *)
Definition protocol_op (o : op) : bool :=
  match o with OAddVersion _ _ _ | OGetChild _ _ | OAddSnapshot _ _ _ | OGetSnapshot _ | OEnsure _ => true | _ => false end.

Definition is_error (r : resp) : bool := match r with RError => true | _ => false end.

Inductive op_outcome (t : tables) (r0 : resp) (t_ok : tables) : resp -> tables -> Prop :=
| OO_same : op_outcome t r0 t_ok r0 t_ok
| OO_nothing : op_outcome t r0 t_ok RError t
| OO_ack_lost : is_error r0 = false -> r0 <> RNoClient -> op_outcome t r0 t_ok RError t_ok.

Lemma single_txn_outcome A X pl E c (body : prog X) (f : res X -> A) (t : tables) :
  commit_last X body ->
  let '(a, t', _) := run_hprog_f SqliteB E pl 0 (HTxn c body (fun r => HRet (f r))) t in
  let '(a0, t0, _) := run_hprog SqliteB E (HTxn c body (fun r => HRet (f r))) t in
  (a = a0 /\ t' = t0) \/
  (a = f (Err EOther) /\ t' = t) \/
  (a = f (Err EOther) /\ t' = t0 /\ exists x, a0 = f (Ok x)).
Proof.
  intros Hcl. cbn [run_hprog_f run_hprog].
  pose proof (txn_fault_atomic X E pl body Hcl 1%nat (sq_begin t c) eq_refl) as Ho.
  change (b_begin SqliteB t c) with (sq_begin t c). change (b_end SqliteB) with sq_end.
  destruct (run_prog SqliteB E body (sq_begin t c)) as [[r0 w0] tr0].
  destruct (pl 0%nat).
  - destruct (run_prog_f SqliteB E pl 1 body (sq_begin t c)) as [[r w] n']. cbn [fst snd run_hprog_f run_hprog] in *.
    apply txn_outcome_cases in Ho. cbn [sq_begin sw_base] in Ho.
    destruct Ho as [[-> ->]|[[-> ->]|(-> & -> & x & ->)]]; eauto 6.
  - cbn. right. left. auto.
  - cbn. right. left. auto.
Qed.

Theorem lib_fault_atomic cfg pl t o E : protocol_op o = true ->
  op_outcome t (fst (fst (step SqliteB cfg t (o, E)))) (snd (fst (step SqliteB cfg t (o, E))))
             (fst (fst (fstep SqliteB cfg pl t (o, E)))) (snd (fst (fstep SqliteB cfg pl t (o, E)))).
Proof.
  intros Hp. unfold fstep, step. cbn [fst snd].
  destruct o; try discriminate; cbn [lib_handler].
  - pose proof (single_txn_outcome resp _ pl E c (p_add_version cfg p d)
      (fun r => match r with Ok (AVOk v, u) => RAdded v u | Ok (AVConflict l, _) => RConflict l | Err e => err_resp e end) t (av_commit_last cfg p d)) as H.
    cbv beta in H.
    destruct (run_hprog_f SqliteB E pl 0 _ t) as [[a t'] n']. destruct (run_hprog SqliteB E _ t) as [[a0 t0] tr]. cbn [fst snd].
    destruct H as [[-> ->]|[[-> ->]|(-> & -> & x & ->)]]; [constructor|constructor|].
    apply OO_ack_lost; destruct x as [[v|l] u]; cbn; congruence.
  - pose proof (single_txn_outcome resp _ pl E c (p_get_child_version p)
      (fun r => match r with Ok (GFound v) => RFound v | Ok GNotFound => RNotFound | Ok GGone => RGone | Err e => err_resp e end) t (gcv_commit_last p)) as H.
    cbv beta in H.
    destruct (run_hprog_f SqliteB E pl 0 _ t) as [[a t'] n']. destruct (run_hprog SqliteB E _ t) as [[a0 t0] tr]. cbn [fst snd].
    destruct H as [[-> ->]|[[-> ->]|(-> & -> & x & ->)]]; [constructor|constructor|].
    apply OO_ack_lost; destruct x as [v| |]; cbn; congruence.
  - pose proof (single_txn_outcome resp _ pl E c (p_add_snapshot v d)
      (fun r => match r with Ok _ => RSnapAck | Err e => err_resp e end) t (as_commit_last v d)) as H.
    cbv beta in H.
    destruct (run_hprog_f SqliteB E pl 0 _ t) as [[a t'] n']. destruct (run_hprog SqliteB E _ t) as [[a0 t0] tr]. cbn [fst snd].
    destruct H as [[-> ->]|[[-> ->]|(-> & -> & x & ->)]]; [constructor|constructor|].
    apply OO_ack_lost; cbn; congruence.
  - pose proof (single_txn_outcome resp _ pl E c p_get_snapshot
      (fun r => match r with Ok (Some (v, d)) => RSnap v d | Ok None => RNoSnap | Err e => err_resp e end) t gs_commit_last) as H.
    cbv beta in H.
    destruct (run_hprog_f SqliteB E pl 0 _ t) as [[a t'] n']. destruct (run_hprog SqliteB E _ t) as [[a0 t0] tr]. cbn [fst snd].
    destruct H as [[-> ->]|[[-> ->]|(-> & -> & x & ->)]]; [constructor|constructor|].
    apply OO_ack_lost; destruct x as [[v d]|]; cbn; congruence.
  - pose proof (single_txn_outcome resp _ pl E c p_ensure
      (fun r => match r with Ok _ => RUnit | Err e => err_resp e end) t ensure_commit_last) as H.
    cbv beta in H.
    destruct (run_hprog_f SqliteB E pl 0 _ t) as [[a t'] n']. destruct (run_hprog SqliteB E _ t) as [[a0 t0] tr]. cbn [fst snd].
    destruct H as [[-> ->]|[[-> ->]|(-> & -> & x & ->)]]; [constructor|constructor|].
    apply OO_ack_lost; cbn; congruence.
Qed.

(* a success response is only ever produced when no call failed and the change is committed *)
Corollary ack_implies_commit cfg pl t o E : protocol_op o = true ->
  is_error (fst (fst (fstep SqliteB cfg pl t (o, E)))) = false ->
  fst (fstep SqliteB cfg pl t (o, E)) = fst (step SqliteB cfg t (o, E)).
Proof.
  intros Hp Hne. pose proof (lib_fault_atomic cfg pl t o E Hp) as H.
  destruct (fstep SqliteB cfg pl t (o, E)) as [[r t'] n]. destruct (step SqliteB cfg t (o, E)) as [[r0 t0] tr].
  cbn [fst snd] in *. inversion H; subst; try discriminate. reflexivity.
Qed.

(* with no fault the faulty semantics is the ordinary one *)
Lemma run_prog_f_none B A E n (p : prog A) w :
  fst (run_prog_f B E no_faults n p w) = fst (run_prog B E p w).
Proof.
  revert n w. induction p as [a|e|X e k IH|k IH|k IH]; intros n w; cbn; auto.
  destruct (b_eff B X e w) as [[x|er] w1]; cbn; [|reflexivity].
  rewrite IH. destruct (run_prog B E (k x) w1) as [[r w2] t]. reflexivity.
Qed.
Lemma run_hprog_f_none B A E n (h : hprog A) s :
  fst (run_hprog_f B E no_faults n h s) = fst (run_hprog B E h s).
Proof.
  revert n s. induction h as [a|X c body k IH]; intros n s; cbn; auto.
  pose proof (run_prog_f_none B X E (S n) body (b_begin B s c)) as Hp.
  destruct (run_prog_f B E no_faults (S n) body (b_begin B s c)) as [[r w] n'].
  destruct (run_prog B E body (b_begin B s c)) as [[r0 w0] t0]. cbn in Hp. inversion Hp; subst.
  rewrite IH. destruct (run_hprog B E (k r0) (b_end B w0)) as [[a s'] t']. reflexivity.
Qed.

(* ---------------- whole request handlers (several transactions) ---------------- *)
(* committed database after each transaction of the FAULT-FREE run, the initial one first *)
Fixpoint ff_states {A} (E : env) (h : hprog A) (t : tables) : list tables :=
  match h with
  | HRet _ => [t]
  | HTxn c body k =>
      let '(r, w, _) := run_prog SqliteB E body (sq_begin t c) in
      t :: ff_states E (k r) (sq_end w)
  end.

(* every transaction is commit-last and a failed transaction ends the request with e500 *)
Inductive robust {A} (e500 : A) : hprog A -> Prop :=
| RB_Ret a : robust e500 (HRet a)
| RB_Txn X c (body : prog X) k :
    commit_last X body -> k (Err EOther) = HRet e500 -> (forall r, robust e500 (k r)) ->
    robust e500 (HTxn c body k).

Lemma ff_states_last_in A E (h : hprog A) t : In (snd (fst (run_hprog SqliteB E h t))) (ff_states E h t).
Proof.
  revert t. induction h as [a|X c body k IH]; intros t; cbn; [auto|].
  change (b_begin SqliteB t c) with (sq_begin t c).
  destruct (run_prog SqliteB E body (sq_begin t c)) as [[r w] tr]. specialize (IH r (sq_end w)).
  change (b_end SqliteB w) with (sq_end w).
  destruct (run_hprog SqliteB E (k r) (sq_end w)) as [[a t'] tr']. cbn in *. auto.
Qed.

Theorem handler_fault_atomic A (e500 : A) E pl (h : hprog A) : robust e500 h -> forall n t,
  let '(a, t', _) := run_hprog_f SqliteB E pl n h t in
  let '(a0, t0, _) := run_hprog SqliteB E h t in
  (a = a0 /\ t' = t0) \/ (a = e500 /\ In t' (ff_states E h t)).
Proof.
  intros Hr. induction Hr as [a|X c body k Hcl Hk Hrk IH]; intros n t; cbn [run_hprog_f run_hprog ff_states].
  - left. auto.
  - change (b_begin SqliteB t c) with (sq_begin t c). change (b_end SqliteB) with sq_end.
    pose proof (txn_fault_atomic X E pl body Hcl (S n) (sq_begin t c) eq_refl) as Ho.
    apply txn_outcome_cases in Ho. cbn [sq_begin sw_base] in Ho.
    destruct (run_prog SqliteB E body (sq_begin t c)) as [[r0 w0] tr0]. cbn [fst snd] in Ho.
    destruct (pl n).
    + destruct (run_prog_f SqliteB E pl (S n) body (sq_begin t c)) as [[r w] n']. cbn [fst snd] in Ho.
      destruct Ho as [[-> ->]|[[-> ->]|(-> & -> & x & ->)]].
      * specialize (IH r0 n' (sq_end w0)).
        destruct (run_hprog_f SqliteB E pl n' (k r0) (sq_end w0)) as [[a t'] n''].
        destruct (run_hprog SqliteB E (k r0) (sq_end w0)) as [[a0 t0] tr']. cbn in *.
        destruct IH as [[-> ->]|[-> Hin]]; [left; auto|right; auto].
      * rewrite Hk. cbn. destruct (run_hprog SqliteB E (k r0) (sq_end w0)) as [[a0 t0] tr']. right. cbn. auto.
      * rewrite Hk. cbn. pose proof (ff_states_last_in A E (k (Ok x)) (sq_end w0)) as Hin.
        destruct (run_hprog SqliteB E (k (Ok x)) (sq_end w0)) as [[a0 t0] tr']. right. cbn in *. split; [reflexivity|].
        right. destruct (k (Ok x)); cbn; auto.
        change (b_begin SqliteB (sq_end w0) c0) with (sq_begin (sq_end w0) c0).
        destruct (run_prog SqliteB E body0 (sq_begin (sq_end w0) c0)) as [[r1 w1] tr1]. cbn. auto.
    + rewrite Hk. cbn. destruct (run_hprog SqliteB E (k r0) (sq_end w0)) as [[a0 t0] tr']. right. cbn. auto.
    + rewrite Hk. cbn. destruct (run_hprog SqliteB E (k r0) (sq_end w0)) as [[a0 t0] tr']. right. cbn. auto.
Qed.

Lemma robust_hmap A C (f : A -> C) e500 (h : hprog A) : robust e500 h -> robust (f e500) (hmap f h).
Proof.
  intros H. induction H as [a|X c body k Hcl Hk Hrk IH]; cbn; constructor; auto.
  rewrite Hk. reflexivity.
Qed.

Lemma av_loop_robust n cfg c p d : robust (plain 500) (av_loop n cfg c p d).
Proof.
  induction n as [|n IH]; cbn [av_loop]; [constructor|].
  constructor; [apply av_commit_last|reflexivity|].
  intros [[[v|l] u]|[| |]]; try constructor.
  - destruct (urg_header u); constructor.
  - apply ensure_commit_last.
  - reflexivity.
  - intros [u|e]; [exact IH|constructor].
Qed.

Lemma route_robust cfg allow rq : robust (plain 500) (route cfg allow rq).
Proof.
  unfold route. destruct (rq_method rq), (rq_path rq); try constructor.
  - unfold h_get_child_version. destruct s; [|constructor].
    destruct (client_id_header allow (rq_cid rq)); [|constructor].
    constructor; [apply gcv_commit_last|reflexivity|]. intros r. constructor.
  - unfold h_get_snapshot. destruct (client_id_header allow (rq_cid rq)); [|constructor].
    constructor; [apply gs_commit_last|reflexivity|]. intros r. constructor.
  - unfold h_add_version. destruct s; [|constructor]. destruct (rq_ctype rq); try constructor.
    destruct (client_id_header allow (rq_cid rq)); [|constructor].
    destruct (read_body (rq_chunks rq) 0 []) as [[len body]|]; [|constructor].
    destruct (N.eqb len 0); [constructor|]. apply av_loop_robust.
  - unfold h_add_snapshot. destruct s; [|constructor]. destruct (rq_ctype rq); try constructor.
    destruct (client_id_header allow (rq_cid rq)); [|constructor].
    destruct (read_body (rq_chunks rq) 0 []) as [[len body]|]; [|constructor].
    destruct (N.eqb len 0); [constructor|].
    constructor; [apply as_commit_last|reflexivity|]. intros r. constructor.
Qed.

(* every HTTP request under every fault plan: either exactly the fault-free response and
   database, or a 500 with the database as it was after some transaction boundary of the
   fault-free run (before the request; after the handler created the still-empty client; or
   after the whole request when only the acknowledgement was lost) *)
Theorem http_fault_atomic cfg allow pl t rq E :
  let '(hr, t', _) := http_fstep SqliteB cfg allow pl t (rq, E) in
  let '(hr0, t0, _) := http_step SqliteB cfg allow t (rq, E) in
  (hr = hr0 /\ t' = t0) \/
  (hr = default_headers (plain 500) /\ In t' (ff_states E (http_handler cfg allow rq) t)).
Proof.
  unfold http_fstep, http_step. cbn [fst snd].
  apply (handler_fault_atomic hresp (default_headers (plain 500)) E pl (http_handler cfg allow rq)).
  unfold http_handler. apply robust_hmap. apply route_robust.
Qed.
