(* Counter.v — the snapshot bookkeeping (time stored, versions since) recomputed from requests
   and responses, and the urgency reported with every accepted version (C12, history half). *)
From TSS Require Import AStore Seq proofs.ListAux proofs.Chain proofs.Steps proofs.Refine
  proofs.RefineInMem proofs.Inv proofs.Agree proofs.Hist proofs.Cas proofs.Snapshot.
From Coq Require Import Lia.
Open Scope N_scope.

Definition snapmeta_of (a : astore) (c : id) : option snapmeta :=
  match a_cl a c with Some x => option_map fst (a_snap x) | None => None end.

(* bookkeeping: reset to (v, now, 0) when an upload is accepted by the rule, +1 per accepted
   version of this client; Backdate / SetCounter are the harness's clock and counter knobs *)
Definition meta_step (c : id) (o : op) (E : env) (r : resp) (acc : list version) (cur : option snapmeta)
  : option snapmeta :=
  match o, r with
  | OAddVersion c' _ _, RAdded _ _ =>
      if N.eqb c' c then option_map (fun m => mkSnap (sm_version m) (sm_time m) (sm_since m + 1)) cur else cur
  | OAddSnapshot c' v _, RSnapAck =>
      if N.eqb c' c && rule_b acc (option_map sm_version cur) v then Some (mkSnap v (e_now E) 0) else cur
  | OBackdate c' secs, RUnit =>
      if N.eqb c' c then option_map (fun m => mkSnap (sm_version m) (sm_time m - secs) (sm_since m)) cur else cur
  | OSetCounter c' n, RUnit =>
      if N.eqb c' c then option_map (fun m => mkSnap (sm_version m) (sm_time m) n) cur else cur
  | _, _ => cur
  end.

Fixpoint ghost_meta (c : id) (h : list (op * env)) (rs : list resp) (acc : list version)
  (cur : option snapmeta) : option snapmeta :=
  match h, rs with
  | oe :: h', r :: rs' =>
      ghost_meta c h' rs' (acc ++ acc_of c (fst oe) r) (meta_step c (fst oe) (snd oe) r acc cur)
  | _, _ => cur
  end.

Lemma snapmeta_set a c x ids c2 :
  snapmeta_of (a_set a c x ids) c2 = if N.eqb c2 c then option_map fst (a_snap x) else snapmeta_of a c2.
Proof. unfold snapmeta_of. rewrite a_set_lookup. destruct (N.eqb c2 c); reflexivity. Qed.

Lemma snapmeta_last a c x : a_cl a c = Some x -> option_map sm_version (snapmeta_of a c) = snap_last x.
Proof. unfold snapmeta_of, snap_last. intros ->. destruct (a_snap x) as [[m d]|]; reflexivity. Qed.

Lemma meta_step_ok cfg U a o E c :
  Inv U a -> fresh_ok U o E ->
  snapmeta_of (snd (astep cfg a o E)) c = meta_step c o E (fst (astep cfg a o E)) (vers_a a c) (snapmeta_of a c).
Proof.
  intros HI Hf. assert (HI0 := HI). destruct HI as (Hok & Hcl & Hids & Hvs).
  destruct o as [c1 p d|c1 p|c1 v d|c1|c1|c1 secs|c1 n| |c1 ids]; cbn [meta_step].
  - destruct (a_cl a c1) as [x|] eqn:Hc.
    + destruct (av_accepts x p) eqn:Hacc.
      * rewrite (av_accept cfg a c1 x p d E Hok Hc Hacc (fresh_mem_false U a _ _ HI0 Hf)
                  (cinv_no_child_of_target U x p (Hcl c1 x Hc) Hacc)).
        cbn [fst snd]. unfold av_new_state. rewrite snapmeta_set. rewrite (N.eqb_sym c1 c).
        destruct (N.eqb_spec c c1) as [->|Hne]; [|reflexivity]. cbn [a_snap]. unfold snapmeta_of. rewrite Hc.
        destruct (a_snap x) as [[m dd]|]; reflexivity.
      * rewrite (av_conflict cfg a c1 x p d E Hok Hc Hacc). reflexivity.
    + rewrite (av_noclient cfg a c1 p d E Hok Hc). reflexivity.
  - rewrite gcv_step by assumption. cbn [fst snd]. destruct (a_cl a c1); [destruct (gcv_answer c0 p)|]; reflexivity.
  - rewrite as_step by assumption. destruct (a_cl a c1) as [x|] eqn:Hc; cbn [fst snd]; [|reflexivity].
    destruct (N.eqb_spec c1 c) as [->|Hne]; cbn [andb].
    + rewrite (snapmeta_last a c x Hc), (vers_a_some a c x Hc).
      assert (Hr : rule_b (a_vers x) (snap_last x) v = as_accepts x v).
      { rewrite (as_accepts_scan U x v (Hcl c x Hc)). reflexivity. }
      rewrite Hr. destruct (as_accepts x v); [|reflexivity].
      unfold as_new_state. rewrite snapmeta_set, N.eqb_refl. reflexivity.
    + destruct (as_accepts x v); [|reflexivity]. unfold as_new_state. rewrite snapmeta_set.
      destruct (N.eqb_spec c c1); [congruence|reflexivity].
  - rewrite gs_step by assumption. cbn [fst snd].
    destruct (a_cl a c1) as [x|]; [destruct (a_snap x) as [[m d]|]|]; reflexivity.
  - rewrite ensure_step by assumption. cbn [fst snd]. destruct (a_cl a c1) as [x|] eqn:Hc; [reflexivity|].
    rewrite snapmeta_set. destruct (N.eqb_spec c c1) as [->|Hne]; [|reflexivity]. unfold snapmeta_of. rewrite Hc. reflexivity.
  - rewrite backdate_step by assumption. cbn [fst snd]. unfold rewrite_state.
    destruct (a_cl a c1) as [x|] eqn:Hc.
    + rewrite (N.eqb_sym c1 c). destruct (a_snap x) as [[m d]|] eqn:Hs.
      * rewrite snapmeta_set. destruct (N.eqb_spec c c1) as [->|Hne]; [|reflexivity]. unfold snapmeta_of. rewrite Hc, Hs. reflexivity.
      * destruct (N.eqb_spec c c1) as [->|Hne]; [|reflexivity]. unfold snapmeta_of. rewrite Hc, Hs. reflexivity.
    + reflexivity.
  - rewrite setcounter_step by assumption. cbn [fst snd]. unfold rewrite_state.
    destruct (a_cl a c1) as [x|] eqn:Hc.
    + rewrite (N.eqb_sym c1 c). destruct (a_snap x) as [[m d]|] eqn:Hs.
      * rewrite snapmeta_set. destruct (N.eqb_spec c c1) as [->|Hne]; [|reflexivity]. unfold snapmeta_of. rewrite Hc, Hs. reflexivity.
      * destruct (N.eqb_spec c c1) as [->|Hne]; [|reflexivity]. unfold snapmeta_of. rewrite Hc, Hs. reflexivity.
    + reflexivity.
  - rewrite reopen_step. reflexivity.
  - rewrite dump_full by assumption. reflexivity.
Qed.

Lemma meta_hist cfg U a h c :
  Inv U a -> oracle_ok_from U h ->
  snapmeta_of (snd (arun cfg a h)) c = ghost_meta c h (fst (arun cfg a h)) (vers_a a c) (snapmeta_of a c).
Proof.
  revert U a. induction h as [|[o E] h IH]; intros U a HI Hor; [reflexivity|].
  cbn [oracle_ok_from] in Hor. destruct Hor as [Hf Hor]. rewrite arun_cons. cbn [fst snd ghost_meta].
  rewrite (IH _ _ (inv_step cfg U a o E HI Hf) Hor), (vers_step cfg U a o E c HI Hf), (meta_step_ok cfg U a o E c HI Hf).
  reflexivity.
Qed.

(* the urgency sent with an accepted version is computed from the configuration, the clock,
   and the snapshot record as it was BEFORE the request: time stored and versions since *)
Theorem urgency_from_pre_request_record k cfg h c p d E u : 
  oracle_ok (h ++ [(OAddVersion c p d, E)]) ->
  responses k cfg (h ++ [(OAddVersion c p d, E)]) = responses k cfg h ++ [RAdded (e_fresh E) u] ->
  u = urgency_of cfg (ghost_meta c h (responses k cfg h) [] None) (e_now E).
Proof.
  intros Hor. assert (Hor' := Hor). apply oracle_ok_from_app in Hor'. destruct Hor' as [Hor1 Hf].
  cbn [oracle_ok_from] in Hf. destruct Hf as [Hf _].
  rewrite (last_step k cfg h _ E Hor), (responses_agree k cfg h Hor1). intros Hr.
  apply app_inv_head in Hr. inversion Hr as [Hr']. clear Hr.
  pose proof (reachable_inv cfg h Hor1) as HI.
  pose proof (meta_hist cfg [] a_empty h c (Inv_empty []) Hor1) as Hg.
  change (vers_a a_empty c) with (@nil version) in Hg. change (snapmeta_of a_empty c) with (@None snapmeta) in Hg.
  unfold aresponses. rewrite <- Hg. set (a := snd (arun cfg a_empty h)) in *.
  assert (HI0 := HI). destruct HI as (Hok & Hcl & Hids & Hvs).
  destruct (a_cl a c) as [x|] eqn:Hc.
  - destruct (av_accepts x p) eqn:Hacc.
    + rewrite (av_accept cfg a c x p d E Hok Hc Hacc (fresh_mem_false _ a _ _ HI0 Hf)
                (cinv_no_child_of_target _ x p (Hcl c x Hc) Hacc)) in Hr'.
      cbn in Hr'. inversion Hr'. unfold snapmeta_of. rewrite Hc. reflexivity.
    + rewrite (av_conflict cfg a c x p d E Hok Hc Hacc) in Hr'. discriminate.
  - rewrite (av_noclient cfg a c p d E Hok Hc) in Hr'. discriminate.
Qed.
