(* Cas.v — AddVersion is a compare-and-append on the latest version (C02), and
   GetChildVersion's found / not-found / gone agrees with it (C08). *)
From TSS Require Import AStore Seq proofs.ListAux proofs.Chain proofs.Steps proofs.Refine
  proofs.RefineInMem proofs.Inv proofs.Agree proofs.Hist.
From Coq Require Import Lia.
Open Scope N_scope.

(* the response to the last request of a history is the abstract step from the state before *)
Lemma last_step_a cfg h o E :
  aresponses cfg (h ++ [(o, E)]) = aresponses cfg h ++ [fst (astep cfg (snd (arun cfg a_empty h)) o E)].
Proof. unfold aresponses. rewrite arun_app. cbn [fst]. f_equal. rewrite arun_cons. reflexivity. Qed.

Lemma last_step k cfg h o E : oracle_ok (h ++ [(o, E)]) ->
  responses k cfg (h ++ [(o, E)]) =
  responses k cfg h ++ [fst (astep cfg (snd (arun cfg a_empty h)) o E)].
Proof.
  intros Hor. assert (Hor1 : oracle_ok h) by (apply oracle_ok_from_app in Hor; tauto).
  rewrite (responses_agree k cfg _ Hor), (responses_agree k cfg _ Hor1). apply last_step_a.
Qed.

(* latest id of a list of versions, nil when empty *)
Definition latest_of (l : list version) : id := last_id l nil_id.

Lemma av_accepts_spec U x p : cinv U x ->
  av_accepts x p = true <-> (a_vers x = [] \/ p = latest_of (a_vers x)).
Proof.
  intros Hi. unfold av_accepts, latest_of. rewrite Bool.orb_true_iff, !N.eqb_eq. rewrite (ci_latest U x Hi).
  split.
  - intros [H|H]; [left|right; exact H]. rewrite <- (ci_latest U x Hi) in H. apply (cinv_latest_nil U x Hi H).
  - intros [H|H]; [left; rewrite H; reflexivity|right; exact H].
Qed.

(* ---------------- C02, state level ---------------- *)
Lemma cas_step cfg U a c x p d E :
  Inv U a -> a_cl a c = Some x -> fresh_ok U (OAddVersion c p d) E ->
  let l := a_vers x in
  (l = [] \/ p = latest_of l ->
     astep cfg a (OAddVersion c p d) E =
     (RAdded (e_fresh E) (urgency_of cfg (option_map fst (a_snap x)) (e_now E)),
      av_new_state a c x (e_fresh E) p d)) /\
  (~ (l = [] \/ p = latest_of l) ->
     astep cfg a (OAddVersion c p d) E = (RConflict (latest_of l), a)).
Proof.
  intros HI Hc Hf l. assert (HI0 := HI). destruct HI as (Hok & Hcl & Hids & Hvs). pose proof (Hcl c x Hc) as Hi.
  split; intros H.
  - apply (av_accepts_spec U x p Hi) in H.
    apply av_accept; auto.
    + eapply fresh_mem_false; [exact HI0|exact Hf].
    + apply (cinv_no_child_of_target U x p Hi H).
  - assert (Hacc : av_accepts x p = false).
    { destruct (av_accepts x p) eqn:E1; [|reflexivity]. exfalso. apply H. apply (av_accepts_spec U x p Hi). exact E1. }
    rewrite (av_conflict cfg a c x p d E Hok Hc Hacc). unfold latest_of, l. rewrite (ci_latest U x Hi). reflexivity.
Qed.

(* ---------------- C08, state level ---------------- *)
Lemma gcv_vs_av U x p : cinv U x ->
  match gcv_answer x p with
  | RFound v => In v (a_vers x) /\ v_parent v = p
  | RNotFound => by_parent p (a_vers x) = None /\ av_accepts x p = true
  | RGone => by_parent p (a_vers x) = None /\ av_accepts x p = false
  | _ => False
  end.
Proof.
  intros Hi. unfold gcv_answer, av_accepts.
  destruct (by_parent p (a_vers x)) as [v|] eqn:Hb.
  - apply by_parent_in in Hb. exact Hb.
  - rewrite (N.eqb_sym (a_latest x) p), Bool.orb_comm.
    destruct (N.eqb (a_latest x) nil_id || N.eqb p (a_latest x)); auto.
Qed.

(* ---------------- history level, on every backend ---------------- *)
Definition state_after cfg h := snd (arun cfg a_empty h).

Theorem add_version_cas k cfg h c p d E :
  oracle_ok (h ++ [(OAddVersion c p d, E)]) ->
  let acc := accepted c h (responses k cfg h) in
  exists r, responses k cfg (h ++ [(OAddVersion c p d, E)]) = responses k cfg h ++ [r] /\
  (r = RNoClient \/
   ((acc = [] \/ p = latest_of acc) /\ exists u, r = RAdded (e_fresh E) u) \/
   (~ (acc = [] \/ p = latest_of acc) /\ r = RConflict (latest_of acc))).
Proof.
  intros Hor. assert (Hor' := Hor). apply oracle_ok_from_app in Hor'. destruct Hor' as [Hor1 Hf].
  cbn [oracle_ok_from] in Hf. destruct Hf as [Hf _].
  rewrite (last_step k cfg h _ E Hor), (responses_agree k cfg h Hor1). intros acc.
  eexists. split; [reflexivity|].
  pose proof (reachable_inv cfg h Hor1) as HI. pose proof (stored_is_accepted cfg h c Hor1) as Hst.
  fold acc in Hst. set (a := snd (arun cfg a_empty h)) in *.
  destruct (a_cl a c) as [x|] eqn:Hc.
  - right. rewrite (vers_a_some a c x Hc) in Hst.
    destruct (cas_step cfg _ a c x p d E HI Hc Hf) as [Hacc Hrej]. rewrite Hst in Hacc, Hrej.
    destruct (list_eq_dec N.eq_dec (ids_of acc) []) as [He|He].
    + left. assert (acc = []) by (destruct acc; [reflexivity|discriminate]).
      split; [auto|]. rewrite (Hacc (or_introl H)). cbn. eauto.
    + destruct (N.eq_dec p (latest_of acc)) as [Ep|Ep].
      * left. split; [auto|]. rewrite (Hacc (or_intror Ep)). cbn. eauto.
      * right. assert (Hn : ~ (acc = [] \/ p = latest_of acc)).
        { intros [H|H]; [apply He; rewrite H; reflexivity|contradiction]. }
        split; [exact Hn|]. rewrite (Hrej Hn). reflexivity.
  - left. destruct HI as (Hok & _). rewrite (av_noclient cfg a c p d E Hok Hc). reflexivity.
Qed.

(* a rejected AddVersion leaves no trace: every later response is what it would have been
   had the request never been made *)
Theorem rejected_add_version_no_effect k cfg h c p d E h2 l :
  oracle_ok (h ++ (OAddVersion c p d, E) :: h2) -> oracle_ok (h ++ h2) ->
  responses k cfg (h ++ [(OAddVersion c p d, E)]) = responses k cfg h ++ [RConflict l] ->
  responses k cfg (h ++ (OAddVersion c p d, E) :: h2) =
  responses k cfg h ++ RConflict l :: skipn (length h) (responses k cfg (h ++ h2)).
Proof.
  intros Hor Hor2 Hr.
  assert (Hor1 : oracle_ok (h ++ [(OAddVersion c p d, E)])).
  { apply oracle_ok_from_app in Hor. destruct Hor as [H1 H2]. apply oracle_ok_from_app. split; [exact H1|].
    cbn [oracle_ok_from] in *. tauto. }
  assert (Hor0 : oracle_ok h) by (apply oracle_ok_from_app in Hor; tauto).
  rewrite (responses_agree k cfg _ Hor), (responses_agree k cfg _ Hor2), (responses_agree k cfg _ Hor0).
  rewrite (responses_agree k cfg _ Hor1), (responses_agree k cfg _ Hor0), last_step_a in Hr.
  apply app_inv_head in Hr. inversion Hr as [Hr'].
  unfold aresponses. rewrite !arun_app. cbn [fst]. f_equal.
  rewrite skipn_app, skipn_all2 by (rewrite arun_length; lia).
  rewrite arun_length, Nat.sub_diag. cbn [skipn app].
  rewrite arun_cons. cbn [fst]. rewrite Hr'. f_equal.
  (* the state after the rejected request is the state before it *)
  pose proof (reachable_inv cfg h Hor0) as HI. set (a := snd (arun cfg a_empty h)) in *.
  assert (Hsame : snd (astep cfg a (OAddVersion c p d) E) = a).
  { assert (HI' := HI). destruct HI as (Hok & Hcl & Hids & Hvs).
    destruct (a_cl a c) as [x|] eqn:Hc.
    - destruct (av_accepts x p) eqn:Hacc.
      + exfalso. apply oracle_ok_from_app in Hor1. destruct Hor1 as [_ [Hf _]].
        rewrite (av_accept cfg a c x p d E Hok Hc Hacc (fresh_mem_false _ a _ _ HI' Hf)
                   (cinv_no_child_of_target _ x p (Hcl c x Hc) Hacc)) in Hr'. discriminate.
      + rewrite (av_conflict cfg a c x p d E Hok Hc Hacc). reflexivity.
    - rewrite (av_noclient cfg a c p d E Hok Hc). reflexivity. }
  rewrite Hsame. reflexivity.
Qed.

(* C08 *)
Theorem child_vs_add k cfg h c p d E :
  oracle_ok (h ++ [(OAddVersion c p d, E)]) ->
  let acc := accepted c h (responses k cfg h) in
  exists rg ra,
    responses k cfg (h ++ [(OGetChild c p, noenv)]) = responses k cfg h ++ [rg] /\
    responses k cfg (h ++ [(OAddVersion c p d, E)]) = responses k cfg h ++ [ra] /\
    ((rg = RNoClient /\ ra = RNoClient) \/
     (exists v, rg = RFound v /\ In v acc /\ v_parent v = p) \/
     (rg = RNotFound /\ by_parent p acc = None /\ exists u, ra = RAdded (e_fresh E) u) \/
     (rg = RGone /\ by_parent p acc = None /\ exists l, ra = RConflict l)).
Proof.
  intros Hor. assert (Hor' := Hor). apply oracle_ok_from_app in Hor'. destruct Hor' as [Hor1 Hf].
  cbn [oracle_ok_from] in Hf. destruct Hf as [Hf _].
  assert (Horg : oracle_ok (h ++ [(OGetChild c p, noenv)])) by (apply (oracle_ok_gcv h c [p] Hor1)).
  rewrite (last_step k cfg h _ E Hor), (last_step k cfg h _ noenv Horg), (responses_agree k cfg h Hor1).
  intros acc. eexists. eexists. split; [reflexivity|]. split; [reflexivity|].
  pose proof (reachable_inv cfg h Hor1) as HI. pose proof (stored_is_accepted cfg h c Hor1) as Hst.
  fold acc in Hst. set (a := snd (arun cfg a_empty h)) in *.
  assert (HI0 := HI). destruct HI as (Hok & Hcl & Hids & Hvs).
  rewrite gcv_step by assumption. cbn [fst].
  destruct (a_cl a c) as [x|] eqn:Hc.
  - right. rewrite (vers_a_some a c x Hc) in Hst. pose proof (Hcl c x Hc) as Hi.
    pose proof (gcv_vs_av _ x p Hi) as Hg. rewrite Hst in Hg.
    destruct (gcv_answer x p) as [| |v| | | | | | | | |] eqn:Ega; try contradiction.
    + left. exists v. auto.
    + right. left. destruct Hg as [Hb Hacc]. repeat split; auto.
      rewrite (av_accept cfg a c x p d E Hok Hc Hacc (fresh_mem_false _ a _ _ HI0 Hf)
                 (cinv_no_child_of_target _ x p Hi Hacc)). cbn. eauto.
    + right. right. destruct Hg as [Hb Hacc]. repeat split; auto.
      rewrite (av_conflict cfg a c x p d E Hok Hc Hacc). cbn. eauto.
  - left. rewrite (av_noclient cfg a c p d E Hok Hc). auto.
Qed.
