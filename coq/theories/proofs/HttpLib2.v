(* HttpLib2.v — further properties as HTTP clients see them, by transport along
   HttpLib.http_is_lib_a: the state an HTTP history reaches is the state its library history
   reaches, so the state-level lemmas (gcv_step, cas_step, as_step, …) speak about the next
   HTTP response.  Statements are about `hresponses` only: what is observable over HTTP. *)
From TSS Require Import AStore Seq Http proofs.ListAux proofs.Chain proofs.Steps proofs.Sim proofs.Refine proofs.RefineInMem proofs.Inv proofs.Agree
  proofs.Hist proofs.Cas proofs.UrgencyArith proofs.HttpProps proofs.HttpReach proofs.HttpLib proofs.ConcHttp.
From Coq Require Import Lia.
Open Scope N_scope.

(* the state after an HTTP history, its invariant, and what it holds for a client *)
Lemma hstate_lib cfg allow h : cfg_ok cfg -> horacle_ok h ->
  snd (hrun AStoreB cfg allow a_empty h) = snd (arun cfg a_empty (lib_of allow h)).
Proof. intros Hcfg Hor. destruct (http_is_lib_a cfg allow h Hcfg [] a_empty (Inv_empty []) Hor) as [_ H]. exact H. Qed.

Lemma hstate_client cfg allow h c : cfg_ok cfg -> horacle_ok h ->
  let a := snd (hrun AStoreB cfg allow a_empty h) in
  let acc := accepted c (lib_of allow h) (aresponses cfg (lib_of allow h)) in
  exists W, Inv W a /\
    match a_cl a c with
    | Some x => a_vers x = acc /\ a_latest x = latest_of acc
    | None => acc = []
    end.
Proof.
  intros Hcfg Hor a acc.
  assert (HolL : oracle_ok (lib_of allow h)) by (apply (lib_oracle allow h [] []); [auto|exact Hor]).
  pose proof (reachable_inv cfg _ HolL) as HI.
  pose proof (stored_is_accepted cfg (lib_of allow h) c HolL) as Hst. fold acc in Hst.
  unfold a. rewrite (hstate_lib cfg allow h Hcfg Hor).
  eexists. split; [exact HI|].
  unfold vers_a in Hst. destruct (a_cl (snd (arun cfg a_empty (lib_of allow h))) c) as [x|] eqn:Hc.
  - split; [exact Hst|]. destruct HI as (_ & Hcl & _). rewrite (ci_latest _ x (Hcl c x Hc)), Hst. reflexivity.
  - symmetry. exact Hst.
Qed.

Lemma by_parent_some p l v : by_parent p l = Some v -> In v l /\ v_parent v = p.
Proof. unfold by_parent. intros H. apply find_some in H. destruct H as [H1 H2]. apply N.eqb_eq in H2. auto. Qed.

(* ---- C08 as HTTP clients see it: get-child-version versus add-version on the same state ----
   After ANY HTTP history h (any routes, methods, headers, bodies, clients, refusals) a listed client c
   asks for the child of p (answer rg) or, from the same state, uploads a version on p (answer ra):
   - if a version with parent p was accepted for c, rg is 200 carrying exactly that version;
   - otherwise rg is 404 exactly when the upload is accepted (200 with the new id) and 410 exactly
     when it is refused (409 naming the latest accepted version).
   `acc` = the versions accepted for c so far, read off the responses (C14). *)
Theorem http_child_vs_add_a cfg allow h c p cs E E' :
  cfg_ok cfg -> client_id_header allow (COk c) = inl c -> body_refused cs = false ->
  let gcv := gcv_req c p in
  let av := mkReq MPost (PAddVersion (IdOk p)) (COk c) CTHistory cs in
  horacle_ok (h ++ [(gcv, E')]) -> horacle_ok (h ++ [(av, E)]) ->
  let acc := accepted c (lib_of allow h) (aresponses cfg (lib_of allow h)) in
  exists rg ra,
    haresponses cfg allow (h ++ [(gcv, E')]) = haresponses cfg allow h ++ [rg] /\
    haresponses cfg allow (h ++ [(av, E)]) = haresponses cfg allow h ++ [ra] /\
    ((exists v, In v acc /\ v_parent v = p /\
                rg = mkResp 200 (Some (v_id v)) (Some p) None (Some RTHistory) (v_data v) true) \/
     (by_parent p acc = None /\ rg = mkResp 404 None None None None [] true /\
      exists xs, ra = mkResp 200 (Some (e_fresh E)) None xs None [] true) \/
     (by_parent p acc = None /\ rg = mkResp 410 None None None None [] true /\
      ra = mkResp 409 None (Some (latest_of acc)) None None [] true)).
Proof.
  intros Hcfg Hc Hb gcv av Horg Hora acc.
  assert (HorH : horacle_ok h) by (apply horacle_ok_from_app in Hora; tauto).
  destruct (http_add_version_cas_a cfg allow h c p cs E Hcfg Hc Hb Hora) as (ra & Hra & Hcase). fold acc in Hcase.
  (* the read *)
  assert (Hsvg : served gcv) by (unfold gcv, gcv_req; constructor).
  assert (Hcidg : exists c0, rq_cid gcv = COk c0 /\ client_id_header allow (COk c0) = inl c0) by (exists c; auto).
  destruct (http_encodes_outcome BInMem cfg allow h gcv E' Hcfg Horg Hsvg Hcidg) as (r & a' & Hl & Hrg).
  rewrite (hresponses_agree BInMem cfg allow _ Hcfg Horg), (hresponses_agree BInMem cfg allow _ Hcfg HorH) in Hrg.
  destruct (hstate_client cfg allow h c Hcfg HorH) as (W & HI & Hcl). fold acc in Hcl.
  set (a := snd (hrun AStoreB cfg allow a_empty h)) in *.
  assert (Hok : a_ok a = true) by (destruct HI; assumption).
  unfold lib_outcome, gcv, gcv_req in Hl. cbn [rq_method rq_path rq_cid] in Hl.
  rewrite gcv_step in Hl by exact Hok. inversion Hl as [[Hr Ha']]. clear Hl Ha'.
  exists (default_headers (encode r)), ra. split; [exact Hrg|]. split; [exact Hra|].
  destruct (a_cl a c) as [x|] eqn:Hx.
  - destruct Hcl as [Hv Hlat]. subst r. unfold gcv_answer. rewrite Hv.
    destruct (by_parent p acc) as [v|] eqn:Hbp.
    + left. destruct (by_parent_some p acc v Hbp) as [Hin Hp]. exists v. split; [exact Hin|]. split; [exact Hp|].
      cbn [encode]. rewrite Hp. reflexivity.
    + right. rewrite Hlat.
      destruct Hcase as [[Hyes Hr200]|[Hno Hr409]].
      * left. split; [reflexivity|]. split; [|exact Hr200].
        assert (Hb2 : N.eqb (latest_of acc) p || N.eqb (latest_of acc) nil_id = true).
        { apply Bool.orb_true_iff. destruct Hyes as [He|He].
          - right. rewrite He. reflexivity.
          - left. apply N.eqb_eq. auto. }
        rewrite Hb2. reflexivity.
      * right. split; [reflexivity|]. split; [|exact Hr409].
        assert (Hb2 : N.eqb (latest_of acc) p || N.eqb (latest_of acc) nil_id = false).
        { apply Bool.orb_false_iff. split; apply N.eqb_neq; intros He; apply Hno.
          - right. auto.
          - left. destruct HI as (_ & Hcl' & _). pose proof (Hcl' c x Hx) as Hci.
            rewrite <- Hlat in He. rewrite <- Hv. apply (cinv_latest_nil W x Hci He). }
        rewrite Hb2. reflexivity.
  - (* never seen: 404, and the upload creates the client and is accepted *)
    subst r. right. left. rewrite Hcl. split; [reflexivity|]. split; [reflexivity|].
    destruct Hcase as [[_ Hr200]|[Hno _]]; [exact Hr200|]. exfalso. apply Hno. left. exact Hcl.
Qed.

Theorem http_child_vs_add k cfg allow h c p cs E E' :
  cfg_ok cfg -> client_id_header allow (COk c) = inl c -> body_refused cs = false ->
  let gcv := gcv_req c p in
  let av := mkReq MPost (PAddVersion (IdOk p)) (COk c) CTHistory cs in
  horacle_ok (h ++ [(gcv, E')]) -> horacle_ok (h ++ [(av, E)]) ->
  let acc := accepted c (lib_of allow h) (responses k cfg (lib_of allow h)) in
  exists rg ra,
    hresponses k cfg allow (h ++ [(gcv, E')]) = hresponses k cfg allow h ++ [rg] /\
    hresponses k cfg allow (h ++ [(av, E)]) = hresponses k cfg allow h ++ [ra] /\
    ((exists v, In v acc /\ v_parent v = p /\
                rg = mkResp 200 (Some (v_id v)) (Some p) None (Some RTHistory) (v_data v) true) \/
     (by_parent p acc = None /\ rg = mkResp 404 None None None None [] true /\
      exists xs, ra = mkResp 200 (Some (e_fresh E)) None xs None [] true) \/
     (by_parent p acc = None /\ rg = mkResp 410 None None None None [] true /\
      ra = mkResp 409 None (Some (latest_of acc)) None None [] true)).
Proof.
  intros Hcfg Hc Hb gcv av Horg Hora acc.
  assert (HorH : horacle_ok h) by (apply horacle_ok_from_app in Hora; tauto).
  assert (HolL : oracle_ok (lib_of allow h)) by (apply (lib_oracle allow h [] []); [auto|exact HorH]).
  unfold acc. rewrite (responses_agree k cfg _ HolL).
  rewrite (hresponses_agree k cfg allow _ Hcfg Horg), (hresponses_agree k cfg allow _ Hcfg Hora), (hresponses_agree k cfg allow _ Hcfg HorH).
  apply (http_child_vs_add_a cfg allow h c p cs E E' Hcfg Hc Hb Horg Hora).
Qed.

(* ---- C18 as HTTP clients see it: reads, refusals and rejected writes change nothing ----
   Every GET request, and every request answered with a status other than 200 (400, 403, 404, 409,
   410), leaves no trace: all later responses are what they would have been had the request never
   been made. *)
Lemma hstep_pure cfg allow W a rq E : cfg_ok cfg -> Inv W a -> hfresh_ok W rq E ->
  rq_method rq = MGet \/ rs_status (fst (hstep_a cfg allow a rq E)) <> 200 ->
  snd (hstep_a cfg allow a rq E) = a.
Proof.
  intros Hcfg HI Hf Hcond.
  destruct (not_served_refused cfg allow rq) as [(st & Hst & Hr)|(Hsv & c & Hcid & Hc)].
  - unfold hstep_a. rewrite http_step_route.
    destruct Hr as [Hr|[Hr _]]; rewrite Hr; reflexivity.
  - destruct (hstep_reach cfg allow W a rq E Hcfg HI Hf) as (_ & _ & Ho).
    destruct (Ho Hsv (ex_intro _ c (conj Hcid Hc))) as (r & a' & Hl & Hs).
    rewrite Hs in *. cbn [fst snd] in *. clear Ho Hs.
    assert (HI0 := HI). destruct HI as (Hok & Hcl & _).
    unfold lib_outcome in Hl.
    destruct Hsv as [c' p cs Hb|c' p ct cs|c' v cs Hb|c' ct cs]; cbn [rq_cid] in Hcid; inversion Hcid; subst c';
      cbn [rq_method rq_path rq_cid rq_chunks] in Hl, Hcond; inversion Hl as [Hl1]; clear Hl.
    + (* add-version: not a GET, so the status is not 200 *)
      destruct Hcond as [Hm|Hst]; [discriminate Hm|].
      destruct (a_cl a c) as [x|] eqn:Hx.
      * assert (Hfo : fresh_ok W (OAddVersion c p (body_of cs)) E) by exact Hf.
        destruct (cas_step cfg W a c x p (body_of cs) E HI0 Hx Hfo) as [Hacc Hrej].
        destruct (classic_cas (a_vers x) p) as [Hyes|Hno].
        -- rewrite (Hacc Hyes) in Hl1. rewrite urgency_no_overflow in Hl1 by exact Hcfg.
           inversion Hl1; subst r a'. exfalso. apply Hst.
           cbn [encode urg_header].
           match goal with |- context [match ?u with UNone => _ | ULow => _ | UHigh => _ end] => destruct u end; reflexivity.
        -- rewrite (Hrej Hno) in Hl1. inversion Hl1. reflexivity.
      * (* never seen: created, then accepted *)
        exfalso. apply Hst.
        set (a1 := a_set a c (mkCS nil_id None []) (a_allids a)) in *.
        assert (HI1 : Inv W a1).
        { pose proof (inv_ensure cfg W a c E HI0) as H. rewrite ensure_step in H by exact Hok. rewrite Hx in H. exact H. }
        assert (Hx1 : a_cl a1 c = Some (mkCS nil_id None [])) by (unfold a1; rewrite a_set_lookup, N.eqb_refl; reflexivity).
        assert (Hfo : fresh_ok W (OAddVersion c p (body_of cs)) E) by exact Hf.
        destruct (cas_step cfg W a1 c _ p (body_of cs) E HI1 Hx1 Hfo) as [Hacc _].
        rewrite (Hacc (or_introl eq_refl)) in Hl1. rewrite urgency_no_overflow in Hl1 by exact Hcfg.
        inversion Hl1; subst r a'.
        cbn [encode urg_header a_snap option_map]. reflexivity.
    + rewrite gcv_step in Hl1 by exact Hok. inversion Hl1. reflexivity.
    + destruct Hcond as [Hm|Hst]; [discriminate Hm|].
      rewrite as_step in Hl1 by exact Hok. destruct (a_cl a c) as [x|].
      * inversion Hl1; subst r. exfalso. apply Hst. reflexivity.
      * inversion Hl1. reflexivity.
    + rewrite gs_step in Hl1 by exact Hok. inversion Hl1. reflexivity.
Qed.

Theorem http_nonmutating_no_effect_a cfg allow h rq E h2 :
  cfg_ok cfg -> horacle_ok (h ++ (rq, E) :: h2) ->
  exists r, haresponses cfg allow (h ++ [(rq, E)]) = haresponses cfg allow h ++ [r] /\
    (rq_method rq = MGet \/ rs_status r <> 200 ->
     haresponses cfg allow (h ++ (rq, E) :: h2) =
     haresponses cfg allow h ++ r :: skipn (length h) (haresponses cfg allow (h ++ h2))).
Proof.
  intros Hcfg Hor. apply horacle_ok_from_app in Hor. destruct Hor as [HorH Hor2].
  cbn [horacle_ok_from] in Hor2. destruct Hor2 as [Hf _].
  destruct (hreach_from cfg allow [] a_empty h Hcfg (Inv_empty []) HorH) as [HI _].
  set (a := snd (hrun AStoreB cfg allow a_empty h)) in *.
  exists (fst (hstep_a cfg allow a rq E)). unfold haresponses. split.
  - rewrite hrun_app_a. cbn [fst]. fold a. rewrite hrun_cons_a. reflexivity.
  - intros Hcond. pose proof (hstep_pure cfg allow _ a rq E Hcfg HI Hf Hcond) as Hp.
    rewrite !hrun_app_a. cbn [fst]. fold a. rewrite hrun_cons_a. cbn [fst]. rewrite Hp.
    f_equal. f_equal.
    assert (Hlen : length (fst (hrun AStoreB cfg allow a_empty h)) = length h).
    { clear. generalize a_empty. induction h as [|[rq0 E0] h IH]; intros a0; [reflexivity|].
      rewrite hrun_cons_a. cbn [fst length]. rewrite IH. reflexivity. }
    rewrite <- Hlen, skipn_app_len. reflexivity.
Qed.

Theorem http_nonmutating_no_effect k cfg allow h rq E h2 :
  cfg_ok cfg -> horacle_ok (h ++ (rq, E) :: h2) -> horacle_ok (h ++ h2) ->
  exists r, hresponses k cfg allow (h ++ [(rq, E)]) = hresponses k cfg allow h ++ [r] /\
    (rq_method rq = MGet \/ rs_status r <> 200 ->
     hresponses k cfg allow (h ++ (rq, E) :: h2) =
     hresponses k cfg allow h ++ r :: skipn (length h) (hresponses k cfg allow (h ++ h2))).
Proof.
  intros Hcfg Hor Hor2.
  assert (HorH : horacle_ok h) by (apply horacle_ok_from_app in Hor; tauto).
  assert (Hor1 : horacle_ok (h ++ [(rq, E)])).
  { apply horacle_ok_from_app in Hor. destruct Hor as [H1 H2]. apply horacle_ok_from_app. split; [exact H1|].
    cbn [horacle_ok_from] in *. tauto. }
  rewrite (hresponses_agree k cfg allow _ Hcfg Hor), (hresponses_agree k cfg allow _ Hcfg Hor2),
          (hresponses_agree k cfg allow _ Hcfg HorH), (hresponses_agree k cfg allow _ Hcfg Hor1).
  apply (http_nonmutating_no_effect_a cfg allow h rq E h2 Hcfg Hor).
Qed.

(* ---- C11 as HTTP clients see it: get-snapshot returns the most recently accepted upload ---- *)
From TSS Require Import proofs.Snapshot proofs.Counter.

Definition gs_req (c : id) : hreq := mkReq MGet PSnapshot (COk c) CTAbsent [].

Theorem http_get_snapshot_latest_a cfg allow h c E :
  cfg_ok cfg -> client_id_header allow (COk c) = inl c -> horacle_ok (h ++ [(gs_req c, E)]) ->
  exists r, haresponses cfg allow (h ++ [(gs_req c, E)]) = haresponses cfg allow h ++ [r] /\
    match ghost_snapshot c (lib_of allow h) (aresponses cfg (lib_of allow h)) [] None with
    | Some (v, d) => r = mkResp 200 (Some v) None None (Some RTSnapshot) d true
    | None => r = mkResp 404 None None None None [] true
    end.
Proof.
  intros Hcfg Hc Hor.
  assert (HorH : horacle_ok h) by (apply horacle_ok_from_app in Hor; tauto).
  assert (Hsv : served (gs_req c)) by (unfold gs_req; constructor).
  assert (Hcid : exists c0, rq_cid (gs_req c) = COk c0 /\ client_id_header allow (COk c0) = inl c0) by (exists c; auto).
  destruct (http_encodes_outcome BInMem cfg allow h (gs_req c) E Hcfg Hor Hsv Hcid) as (r & a' & Hl & Hrg).
  rewrite (hresponses_agree BInMem cfg allow _ Hcfg Hor), (hresponses_agree BInMem cfg allow _ Hcfg HorH) in Hrg.
  exists (default_headers (encode r)). split; [exact Hrg|].
  assert (HolL : oracle_ok (lib_of allow h)) by (apply (lib_oracle allow h [] []); [auto|exact HorH]).
  pose proof (snapdata_hist cfg [] a_empty (lib_of allow h) c (Inv_empty []) HolL) as Hg.
  change (vers_a a_empty c) with (@nil version) in Hg. change (snapdata a_empty c) with (@None (id * payload)) in Hg.
  unfold aresponses. rewrite <- Hg. rewrite <- (hstate_lib cfg allow h Hcfg HorH).
  destruct (hreach_from cfg allow [] a_empty h Hcfg (Inv_empty []) HorH) as [(Hok & _) _].
  set (a := snd (hrun AStoreB cfg allow a_empty h)) in *.
  unfold lib_outcome, gs_req in Hl. cbn [rq_method rq_path rq_cid] in Hl.
  rewrite gs_step in Hl by exact Hok. inversion Hl as [[Hr Ha']]. clear Hl Ha'. subst r.
  unfold snapdata. destruct (a_cl a c) as [x|]; [|reflexivity].
  destruct (a_snap x) as [[m d]|]; reflexivity.
Qed.

Theorem http_get_snapshot_latest k cfg allow h c E :
  cfg_ok cfg -> client_id_header allow (COk c) = inl c -> horacle_ok (h ++ [(gs_req c, E)]) ->
  exists r, hresponses k cfg allow (h ++ [(gs_req c, E)]) = hresponses k cfg allow h ++ [r] /\
    match ghost_snapshot c (lib_of allow h) (responses k cfg (lib_of allow h)) [] None with
    | Some (v, d) => r = mkResp 200 (Some v) None None (Some RTSnapshot) d true
    | None => r = mkResp 404 None None None None [] true
    end.
Proof.
  intros Hcfg Hc Hor.
  assert (HorH : horacle_ok h) by (apply horacle_ok_from_app in Hor; tauto).
  assert (HolL : oracle_ok (lib_of allow h)) by (apply (lib_oracle allow h [] []); [auto|exact HorH]).
  rewrite (responses_agree k cfg _ HolL).
  rewrite (hresponses_agree k cfg allow _ Hcfg Hor), (hresponses_agree k cfg allow _ Hcfg HorH).
  apply (http_get_snapshot_latest_a cfg allow h c E Hcfg Hc Hor).
Qed.

(* ---- C12 as HTTP clients see it: the X-Snapshot-Request header of an accepted upload ----
   is decided by the snapshot record as it was BEFORE the request — recomputed by ghost_meta from the
   requests and responses alone: reset to (version, time, 0) by every accepted snapshot upload, +1 for
   every accepted version of the client; none at all for a client that has no snapshot: high. *)
Definition urgency_header_of (u : option urgency) : option urgency :=
  match u with Some ULow => Some ULow | Some UHigh => Some UHigh | _ => None end.

Theorem http_urgency_header_a cfg allow h c p cs E r :
  cfg_ok cfg -> client_id_header allow (COk c) = inl c -> body_refused cs = false ->
  let av := mkReq MPost (PAddVersion (IdOk p)) (COk c) CTHistory cs in
  horacle_ok (h ++ [(av, E)]) ->
  haresponses cfg allow (h ++ [(av, E)]) = haresponses cfg allow h ++ [r] -> rs_status r = 200 ->
  rs_snapshot_req r =
  urgency_header_of (urgency_of cfg (ghost_meta c (lib_of allow h) (aresponses cfg (lib_of allow h)) [] None) (e_now E)).
Proof.
  intros Hcfg Hc Hb av Hor Hr Hst.
  assert (HorH : horacle_ok h) by (apply horacle_ok_from_app in Hor; tauto).
  assert (Hsv : served av) by (unfold av; constructor; exact Hb).
  assert (Hcid : exists c0, rq_cid av = COk c0 /\ client_id_header allow (COk c0) = inl c0) by (exists c; auto).
  destruct (http_encodes_outcome BInMem cfg allow h av E Hcfg Hor Hsv Hcid) as (r0 & a' & Hl & Hrg).
  rewrite (hresponses_agree BInMem cfg allow _ Hcfg Hor), (hresponses_agree BInMem cfg allow _ Hcfg HorH) in Hrg.
  rewrite Hrg in Hr. apply app_inv_head in Hr. inversion Hr as [Hr']. clear Hr Hrg. subst r.
  assert (HolL : oracle_ok (lib_of allow h)) by (apply (lib_oracle allow h [] []); [auto|exact HorH]).
  pose proof (meta_hist cfg [] a_empty (lib_of allow h) c (Inv_empty []) HolL) as Hg.
  change (vers_a a_empty c) with (@nil version) in Hg. change (snapmeta_of a_empty c) with (@None snapmeta) in Hg.
  unfold aresponses. rewrite <- Hg. rewrite <- (hstate_lib cfg allow h Hcfg HorH).
  destruct (hreach_from cfg allow [] a_empty h Hcfg (Inv_empty []) HorH) as [HI _].
  apply horacle_ok_from_app in Hor. destruct Hor as [_ [Hf _]].
  set (a := snd (hrun AStoreB cfg allow a_empty h)) in *. set (W := hused_after [] h) in *.
  assert (HI0 := HI). destruct HI as (Hok & Hcl & _).
  assert (Hfo : fresh_ok W (OAddVersion c p (body_of cs)) E) by exact Hf.
  unfold lib_outcome, av in Hl. cbn [rq_method rq_path rq_cid rq_chunks] in Hl. inversion Hl as [Hl1]. clear Hl.
  unfold snapmeta_of. destruct (a_cl a c) as [x|] eqn:Hx.
  - destruct (cas_step cfg W a c x p (body_of cs) E HI0 Hx Hfo) as [Hacc Hrej].
    destruct (classic_cas (a_vers x) p) as [Hyes|Hno].
    + rewrite (Hacc Hyes) in Hl1. inversion Hl1; subst r0 a'. cbn [encode].
      rewrite urgency_no_overflow by exact Hcfg. cbn [urg_header].
      match goal with |- context [match ?u with UNone => _ | ULow => _ | UHigh => _ end] => destruct u end; reflexivity.
    + rewrite (Hrej Hno) in Hl1. inversion Hl1; subst r0. discriminate Hst.
  - set (a1 := a_set a c (mkCS nil_id None []) (a_allids a)) in *.
    assert (HI1 : Inv W a1).
    { pose proof (inv_ensure cfg W a c E HI0) as H. rewrite ensure_step in H by exact Hok. rewrite Hx in H. exact H. }
    assert (Hx1 : a_cl a1 c = Some (mkCS nil_id None [])) by (unfold a1; rewrite a_set_lookup, N.eqb_refl; reflexivity).
    destruct (cas_step cfg W a1 c _ p (body_of cs) E HI1 Hx1 Hfo) as [Hacc _].
    rewrite (Hacc (or_introl eq_refl)) in Hl1. inversion Hl1; subst r0 a'. reflexivity.
Qed.

Theorem http_urgency_header k cfg allow h c p cs E r :
  cfg_ok cfg -> client_id_header allow (COk c) = inl c -> body_refused cs = false ->
  let av := mkReq MPost (PAddVersion (IdOk p)) (COk c) CTHistory cs in
  horacle_ok (h ++ [(av, E)]) ->
  hresponses k cfg allow (h ++ [(av, E)]) = hresponses k cfg allow h ++ [r] -> rs_status r = 200 ->
  rs_snapshot_req r =
  urgency_header_of (urgency_of cfg (ghost_meta c (lib_of allow h) (responses k cfg (lib_of allow h)) [] None) (e_now E)).
Proof.
  intros Hcfg Hc Hb av Hor Hr Hst.
  assert (HorH : horacle_ok h) by (apply horacle_ok_from_app in Hor; tauto).
  assert (HolL : oracle_ok (lib_of allow h)) by (apply (lib_oracle allow h [] []); [auto|exact HorH]).
  rewrite (responses_agree k cfg _ HolL).
  rewrite (hresponses_agree k cfg allow _ Hcfg Hor), (hresponses_agree k cfg allow _ Hcfg HorH) in Hr.
  apply (http_urgency_header_a cfg allow h c p cs E r Hcfg Hc Hb Hor Hr Hst).
Qed.

(* ---- C09 as HTTP clients see it: clients are isolated ----
   The responses a client gets within ANY HTTP history (other clients' requests, refused requests and
   requests without a usable client id interleaved anywhere) are exactly the responses it gets when
   its own requests are sent alone. *)
From TSS Require Import proofs.NonInterf.

Definition hkeep (c : id) (re : hreq * env) : bool :=
  match rq_cid (fst re) with COk c' => N.eqb c' c | _ => false end.
Fixpoint hproject (c : id) (h : list (hreq * env)) (rs : list hresp) : list hresp :=
  match h, rs with
  | re :: h', r :: rs' => if hkeep c re then r :: hproject c h' rs' else hproject c h' rs'
  | _, _ => []
  end.

Lemma hfresh_ok_antitone U1 U2 rq E : incl U2 U1 -> hfresh_ok U1 rq E -> hfresh_ok U2 rq E.
Proof.
  intros Hinc Hf [Hn|Hin]; apply Hf; [left; exact Hn|right].
  apply in_app_iff in Hin. apply in_app_iff. destruct Hin as [Hin|Hin]; [left; exact Hin|right; apply Hinc; exact Hin].
Qed.
Lemma hused_step_incl U1 U2 rq E : incl U2 U1 -> incl (hused_step U2 rq E) (hused_step U1 rq E).
Proof.
  intros Hinc i [Hi|Hi]; [left; exact Hi|right]. apply in_app_iff in Hi. apply in_app_iff.
  destruct Hi as [Hi|Hi]; [left; exact Hi|right; apply Hinc; exact Hi].
Qed.
Lemma hused_step_grows U rq E : incl U (hused_step U rq E).
Proof. intros i Hi. right. apply in_app_iff. right. exact Hi. Qed.

Lemma horacle_filter f h : forall U1 U2, incl U2 U1 -> horacle_ok_from U1 h -> horacle_ok_from U2 (filter f h).
Proof.
  induction h as [|[rq E] h IH]; intros U1 U2 Hinc Hor; [exact I|].
  cbn [horacle_ok_from] in Hor. destruct Hor as [Hf Hor]. cbn [filter]. destruct (f (rq, E)).
  - cbn [horacle_ok_from]. split; [apply (hfresh_ok_antitone U1 U2 rq E Hinc Hf)|].
    apply (IH _ _ (hused_step_incl U1 U2 rq E Hinc) Hor).
  - apply (IH (hused_step U1 rq E) U2); [|exact Hor]. intros i Hi. apply hused_step_grows. apply Hinc. exact Hi.
Qed.

(* the library operations of a request are operations of the client named in its header *)
Lemma lib_of_req_keep allow c rq E oe : In oe (lib_of_req allow rq E) -> keep c oe = hkeep c (rq, E).
Proof.
  unfold lib_of_req, hkeep. cbn [fst]. destruct (rq_cid rq) as [| | |c']; try (intros Hin; exact (False_ind _ Hin)).
  destruct (client_id_header allow (COk c')) as [c2|st]; [|intros Hin; exact (False_ind _ Hin)].
  destruct (rq_method rq), (rq_path rq) as [|[p|]|[p|]|[p|]| |]; try (intros Hin; exact (False_ind _ Hin)).
  all: try (destruct (rq_ctype rq); try (intros Hin; exact (False_ind _ Hin)); destruct (body_refused (rq_chunks rq)); try (intros Hin; exact (False_ind _ Hin))).
  all: cbn [In]; intros Hin; repeat (destruct Hin as [Hin|Hin]; [subst oe; reflexivity|]); try contradiction.
Qed.

Lemma filter_all {A} (f : A -> bool) l : (forall x, In x l -> f x = true) -> filter f l = l.
Proof. induction l as [|x l IH]; intros H; [reflexivity|]. cbn. rewrite (H x (or_introl eq_refl)). f_equal. apply IH. intros y Hy. apply H. right. exact Hy. Qed.
Lemma filter_none {A} (f : A -> bool) l : (forall x, In x l -> f x = false) -> filter f l = [].
Proof. induction l as [|x l IH]; intros H; [reflexivity|]. cbn. rewrite (H x (or_introl eq_refl)). apply IH. intros y Hy. apply H. right. exact Hy. Qed.

Lemma lib_of_filter allow c h : lib_of allow (filter (hkeep c) h) = filter (keep c) (lib_of allow h).
Proof.
  induction h as [|[rq E] h IH]; [reflexivity|]. cbn [filter lib_of]. rewrite filter_app, <- IH.
  destruct (hkeep c (rq, E)) eqn:Hk.
  - cbn [lib_of]. f_equal. symmetry. apply filter_all. intros oe Hoe. rewrite (lib_of_req_keep allow c rq E oe Hoe). exact Hk.
  - rewrite (filter_none (keep c) (lib_of_req allow rq E)); [reflexivity|]. intros oe Hoe. rewrite (lib_of_req_keep allow c rq E oe Hoe). exact Hk.
Qed.

Lemma combine_app' {A B} (l1 l2 : list A) (r1 r2 : list B) : length r1 = length l1 ->
  combine (l1 ++ l2) (r1 ++ r2) = combine l1 r1 ++ combine l2 r2.
Proof.
  revert r1. induction l1 as [|x l1 IH]; intros r1 Hlen; destruct r1 as [|y r1]; try discriminate; [reflexivity|].
  cbn. f_equal. apply IH. cbn in Hlen. lia.
Qed.
Lemma project_app c h1 h2 rs1 rs2 : length rs1 = length h1 ->
  project c (h1 ++ h2) (rs1 ++ rs2) = project c h1 rs1 ++ project c h2 rs2.
Proof.
  intros Hlen. unfold project. rewrite combine_app' by exact Hlen. rewrite filter_app, map_app. reflexivity.
Qed.
Lemma project_all c h rs : length rs = length h -> (forall oe, In oe h -> keep c oe = true) -> project c h rs = rs.
Proof.
  revert rs. induction h as [|oe h IH]; intros rs Hlen Hall; destruct rs as [|r rs]; try discriminate; [reflexivity|].
  unfold project. cbn [combine filter fst]. pose proof (Hall oe (or_introl eq_refl)) as Hk. unfold keep in Hk. rewrite Hk.
  cbn [map snd]. f_equal. apply IH; [cbn in Hlen; lia|]. intros x Hx. apply Hall. right. exact Hx.
Qed.
Lemma project_none c h rs : (forall oe, In oe h -> keep c oe = false) -> project c h rs = [].
Proof.
  revert rs. induction h as [|oe h IH]; intros rs Hall; [reflexivity|]. destruct rs as [|r rs]; [reflexivity|].
  unfold project. cbn [combine filter fst]. pose proof (Hall oe (or_introl eq_refl)) as Hk. unfold keep in Hk. rewrite Hk.
  apply IH. intros x Hx. apply Hall. right. exact Hx.
Qed.

Lemma hresps_of_project cfg allow c h : forall rs, length rs = length (lib_of allow h) ->
  hresps_of cfg allow (filter (hkeep c) h) (project c (lib_of allow h) rs) = hproject c h (hresps_of cfg allow h rs).
Proof.
  induction h as [|[rq E] h IH]; intros rs Hlen; [reflexivity|].
  cbn [lib_of] in *. rewrite app_length in Hlen.
  set (lr := lib_of_req allow rq E) in *. set (n := length lr) in *.
  rewrite <- (firstn_skipn n rs) at 1.
  assert (Hl1 : length (firstn n rs) = n) by (rewrite firstn_length; lia).
  rewrite (project_app c lr (lib_of allow h) (firstn n rs) (skipn n rs) Hl1).
  cbn [filter hresps_of hproject]. fold lr. fold n.
  destruct (hkeep c (rq, E)) eqn:Hk.
  - rewrite (project_all c lr (firstn n rs) Hl1) by (intros oe Hoe; rewrite (lib_of_req_keep allow c rq E oe Hoe); exact Hk).
    cbn [hresps_of]. fold lr. fold n.
    set (X := project c (lib_of allow h) (skipn n rs)).
    assert (H1 : firstn n (firstn n rs ++ X) = firstn n rs).
    { pose proof (firstn_app_len (firstn n rs) X) as Hx. rewrite Hl1 in Hx. exact Hx. }
    assert (H2 : skipn n (firstn n rs ++ X) = X).
    { pose proof (skipn_app_len (firstn n rs) X) as Hx. rewrite Hl1 in Hx. exact Hx. }
    rewrite H1, H2. unfold X. f_equal.
    apply IH. rewrite skipn_length. lia.
  - rewrite (project_none c lr (firstn n rs)) by (intros oe Hoe; rewrite (lib_of_req_keep allow c rq E oe Hoe); exact Hk).
    cbn [app]. apply IH. rewrite skipn_length. lia.
Qed.

Theorem http_noninterference_a cfg allow h c : cfg_ok cfg -> horacle_ok h ->
  horacle_ok (filter (hkeep c) h) /\
  hproject c h (haresponses cfg allow h) = haresponses cfg allow (filter (hkeep c) h).
Proof.
  intros Hcfg Hor.
  assert (Horf : horacle_ok (filter (hkeep c) h)) by (apply (horacle_filter (hkeep c) h [] []); [intros i Hi; exact Hi|exact Hor]).
  split; [exact Horf|].
  destruct (http_is_lib_a cfg allow h Hcfg [] a_empty (Inv_empty []) Hor) as [Hr _].
  destruct (http_is_lib_a cfg allow _ Hcfg [] a_empty (Inv_empty []) Horf) as [Hrf _].
  unfold haresponses. rewrite Hr, Hrf. rewrite lib_of_filter.
  assert (HolL : oracle_ok (lib_of allow h)) by (apply (lib_oracle allow h [] []); [auto|exact Hor]).
  destruct (noninterference_a cfg (lib_of allow h) c HolL) as [_ Hp]. unfold aresponses in Hp. rewrite <- Hp.
  symmetry. apply hresps_of_project. apply arun_length.
Qed.

Theorem http_noninterference k cfg allow h c : cfg_ok cfg -> horacle_ok h ->
  hproject c h (hresponses k cfg allow h) = hresponses k cfg allow (filter (hkeep c) h).
Proof.
  intros Hcfg Hor. destruct (http_noninterference_a cfg allow h c Hcfg Hor) as [Horf Hp].
  rewrite (hresponses_agree k cfg allow h Hcfg Hor), (hresponses_agree k cfg allow _ Hcfg Horf). exact Hp.
Qed.

(* ---- C16 at the level of whole histories: the allow-list is invisible to listed clients ----
   For ANY backend, ANY store and ANY HTTP history (no freshness assumption needed: this is an equality
   of programs): the responses to the requests that carry a listed client id (or no usable id at all)
   are exactly the responses a server WITHOUT a list gives when the requests of unlisted clients are
   never sent — and those unlisted requests touch nothing. *)
Definition hlisted (allow : option (list id)) (re : hreq * env) : bool :=
  match rq_cid (fst re) with COk c => listed allow c | _ => true end.
Fixpoint hsel (f : hreq * env -> bool) (h : list (hreq * env)) (rs : list hresp) : list hresp :=
  match h, rs with
  | re :: h', r :: rs' => if f re then r :: hsel f h' rs' else hsel f h' rs'
  | _, _ => []
  end.

Lemma unlisted_step_state B cfg allow s rq E c : rq_cid rq = COk c -> listed allow c = false ->
  snd (fst (http_step B cfg allow s (rq, E))) = s.
Proof.
  intros Hc Hl. destruct (unlisted_never_reaches_storage B cfg allow s rq E c Hc Hl) as (st & [[_ Hs]|[Hm Hp]]).
  - rewrite Hs. reflexivity.
  - rewrite http_step_route. unfold route. rewrite Hm, Hp. reflexivity.
Qed.

Theorem allow_list_transparent B cfg allow h : forall s,
  hsel (hlisted allow) h (fst (hrun B cfg allow s h)) = fst (hrun B cfg None s (filter (hlisted allow) h)) /\
  snd (hrun B cfg allow s h) = snd (hrun B cfg None s (filter (hlisted allow) h)).
Proof.
  induction h as [|[rq E] h IH]; intros s; [split; reflexivity|].
  cbn [filter hrun]. destruct (hlisted allow (rq, E)) eqn:Hk.
  - assert (Hh : http_handler cfg allow rq = http_handler cfg None rq).
    { apply listed_transparent. intros c Hc. unfold hlisted in Hk. cbn [fst] in Hk. rewrite Hc in Hk. exact Hk. }
    cbn [hrun]. unfold http_step. cbn [fst snd]. rewrite Hh.
    destruct (run_hprog B E (http_handler cfg None rq) s) as [[r s1] t].
    destruct (IH s1) as [IH1 IH2].
    destruct (hrun B cfg allow s1 h) as [l s2]. destruct (hrun B cfg None s1 (filter (hlisted allow) h)) as [l' s2'].
    cbn [fst snd hsel] in *. rewrite Hk. split; [f_equal; exact IH1|exact IH2].
  - unfold hlisted in Hk. cbn [fst] in Hk. destruct (rq_cid rq) as [| | |c] eqn:Hc; try discriminate.
    pose proof (unlisted_step_state B cfg allow s rq E c Hc Hk) as Hs.
    destruct (http_step B cfg allow s (rq, E)) as [[r s1] t]. cbn [fst snd] in Hs. subst s1.
    destruct (IH s) as [IH1 IH2].
    destruct (hrun B cfg allow s h) as [l s2]. cbn [fst snd hsel] in *.
    unfold hlisted at 1. cbn [fst]. rewrite Hc, Hk. split; [exact IH1|exact IH2].
Qed.

(* ---- C20 for whole histories (any backend, store, history; faulty storage included, see FaultProps) ---- *)
Theorem cache_control_history B cfg allow h : forall s,
  Forall (fun r => rs_cache r = true) (fst (hrun B cfg allow s h)).
Proof.
  induction h as [|[rq E] h IH]; intros s; [constructor|].
  cbn [hrun]. pose proof (cache_control_everywhere B cfg allow s rq E) as Hc.
  destruct (http_step B cfg allow s (rq, E)) as [[r s1] t]. specialize (IH s1).
  destruct (hrun B cfg allow s1 h) as [l s2]. cbn [fst] in *. constructor; assumption.
Qed.

(* ---- C10 as HTTP clients see it: the acceptance rule of add-snapshot ----
   After ANY HTTP history, for a listed client c, a version id v and a well-formed snapshot body:
   - a client the server has never seen: get-snapshot 404, add-snapshot 404, get-snapshot 404;
   - otherwise add-snapshot answers 200 whatever it decides, and get-snapshot afterwards returns the new
     upload (id v, exactly the uploaded bytes) when the rule of C10 accepts v against the versions accepted so
     far and the snapshot version get-snapshot reported before — and exactly what it returned before when the
     rule declines v.  (The corner v = non-nil chain base is left open here as in C10_snapshot_rule.) *)
Definition as_req (c v : id) (cs : list chunk) : hreq := mkReq MPost (PAddSnapshot (IdOk v)) (COk c) CTSnapshot cs.
Definition hsnap_of (r : hresp) : option id := if N.eqb (rs_status r) 200 then rs_version_id r else None.

Theorem http_add_snapshot_rule_a cfg allow h c v cs E1 E2 E3 :
  cfg_ok cfg -> client_id_header allow (COk c) = inl c -> body_refused cs = false ->
  horacle_ok (h ++ [(gs_req c, E1)]) -> horacle_ok (h ++ [(as_req c v cs, E2); (gs_req c, E3)]) ->
  let acc := accepted c (lib_of allow h) (aresponses cfg (lib_of allow h)) in
  exists rs ra rs',
    haresponses cfg allow (h ++ [(gs_req c, E1)]) = haresponses cfg allow h ++ [rs] /\
    haresponses cfg allow (h ++ [(as_req c v cs, E2); (gs_req c, E3)]) = haresponses cfg allow h ++ [ra; rs'] /\
    ((acc = [] /\ rs_status rs = 404 /\ (rs_status ra = 404 \/ rs_status ra = 200) /\ rs_status rs' = 404) \/
     (ra = mkResp 200 None None None None [] true /\
      ((v <> base_of acc \/ base_of acc = nil_id) ->
       (accept_rule acc (hsnap_of rs) v -> rs' = mkResp 200 (Some v) None None (Some RTSnapshot) (body_of cs) true) /\
       (~ accept_rule acc (hsnap_of rs) v -> rs' = rs)))).
Proof.
  intros Hcfg Hc Hb Hor1 Hor2 acc.
  assert (HorH : horacle_ok h) by (apply horacle_ok_from_app in Hor1; tauto).
  destruct (hstate_client cfg allow h c Hcfg HorH) as (W0 & _ & Hcl). fold acc in Hcl.
  destruct (hreach_from cfg allow [] a_empty h Hcfg (Inv_empty []) HorH) as [HI _].
  set (a := snd (hrun AStoreB cfg allow a_empty h)) in *. set (W := hused_after [] h) in *.
  assert (HI0 := HI). destruct HI as (Hok & Hclinv & _).
  apply horacle_ok_from_app in Hor1. destruct Hor1 as [_ [Hf1 _]]. fold W in Hf1.
  apply horacle_ok_from_app in Hor2. destruct Hor2 as [_ [Hf2 [Hf3 _]]]. fold W in Hf2, Hf3.
  assert (Hsvg : served (gs_req c)) by (unfold gs_req; constructor).
  assert (Hsva : served (as_req c v cs)) by (unfold as_req; constructor; exact Hb).
  assert (Hcidg : exists c0, rq_cid (gs_req c) = COk c0 /\ client_id_header allow (COk c0) = inl c0) by (exists c; auto).
  assert (Hcida : exists c0, rq_cid (as_req c v cs) = COk c0 /\ client_id_header allow (COk c0) = inl c0) by (exists c; auto).
  (* the three steps *)
  destruct (hstep_reach cfg allow W a (gs_req c) E1 Hcfg HI0 Hf1) as (_ & _ & Ho1).
  destruct (Ho1 Hsvg Hcidg) as (r1 & a1' & Hl1 & Hs1). clear Ho1.
  destruct (hstep_reach cfg allow W a (as_req c v cs) E2 Hcfg HI0 Hf2) as (HI2 & _ & Ho2).
  destruct (Ho2 Hsva Hcida) as (r2 & a2 & Hl2 & Hs2). clear Ho2.
  rewrite Hs2 in HI2. cbn [snd] in HI2.
  destruct (hstep_reach cfg allow _ a2 (gs_req c) E3 Hcfg HI2 Hf3) as (_ & _ & Ho3).
  destruct (Ho3 Hsvg Hcidg) as (r3 & a3 & Hl3 & Hs3). clear Ho3.
  exists (default_headers (encode r1)), (default_headers (encode r2)), (default_headers (encode r3)).
  unfold haresponses. split; [|split].
  - rewrite hrun_app_a. cbn [fst]. fold a. rewrite hrun_cons_a, Hs1. reflexivity.
  - rewrite hrun_app_a. cbn [fst]. fold a. rewrite hrun_cons_a, Hs2. cbn [fst snd]. rewrite hrun_cons_a, Hs3. reflexivity.
  - unfold lib_outcome, gs_req, as_req in Hl1, Hl2, Hl3. cbn [rq_method rq_path rq_cid rq_chunks] in Hl1, Hl2, Hl3.
    rewrite gs_step in Hl1 by exact Hok. rewrite as_step in Hl2 by exact Hok.
    injection Hl1 as Hr1 _. symmetry in Hr1.
    destruct (a_cl a c) as [x|] eqn:Hxc.
    + destruct Hcl as [Hv Hlat]. injection Hl2 as Hr2 Ha2. symmetry in Hr2, Ha2.
      assert (Hok2 : a_ok a2 = true) by (destruct HI2; assumption).
      rewrite gs_step in Hl3 by exact Hok2. injection Hl3 as Hr3 _. symmetry in Hr3.
      right. split; [rewrite Hr2; reflexivity|]. intros Hbase.
      pose proof (Hclinv c x Hxc) as Hci. rewrite <- Hv in Hbase.
      pose proof (snapshot_rule_state W x v Hci Hbase) as Hrule. rewrite Hv in Hrule.
      assert (Hsn : hsnap_of (default_headers (encode r1)) = snap_last x).
      { rewrite Hr1. unfold snap_last. destruct (a_snap x) as [[m d0]|]; reflexivity. }
      rewrite Hsn.
      destruct (as_accepts x v) eqn:Hacc.
      * split; [intros _|intros Hn; exfalso; apply Hn; apply Hrule; reflexivity].
        rewrite Hr3, Ha2. unfold as_new_state. rewrite a_set_lookup, N.eqb_refl. reflexivity.
      * split; [intros Hr; apply Hrule in Hr; discriminate|intros _].
        rewrite Hr3, Ha2, Hr1, Hxc. reflexivity.
    + injection Hl2 as Hr2 Ha2. symmetry in Hr2, Ha2. rewrite Ha2 in Hl3.
      rewrite gs_step in Hl3 by exact Hok. rewrite Hxc in Hl3. injection Hl3 as Hr3 _. symmetry in Hr3.
      left. rewrite Hr1, Hr2, Hr3. split; [exact Hcl|]. cbn. auto.
Qed.

Theorem http_add_snapshot_rule k cfg allow h c v cs E1 E2 E3 :
  cfg_ok cfg -> client_id_header allow (COk c) = inl c -> body_refused cs = false ->
  horacle_ok (h ++ [(gs_req c, E1)]) -> horacle_ok (h ++ [(as_req c v cs, E2); (gs_req c, E3)]) ->
  let acc := accepted c (lib_of allow h) (responses k cfg (lib_of allow h)) in
  exists rs ra rs',
    hresponses k cfg allow (h ++ [(gs_req c, E1)]) = hresponses k cfg allow h ++ [rs] /\
    hresponses k cfg allow (h ++ [(as_req c v cs, E2); (gs_req c, E3)]) = hresponses k cfg allow h ++ [ra; rs'] /\
    ((acc = [] /\ rs_status rs = 404 /\ (rs_status ra = 404 \/ rs_status ra = 200) /\ rs_status rs' = 404) \/
     (ra = mkResp 200 None None None None [] true /\
      ((v <> base_of acc \/ base_of acc = nil_id) ->
       (accept_rule acc (hsnap_of rs) v -> rs' = mkResp 200 (Some v) None None (Some RTSnapshot) (body_of cs) true) /\
       (~ accept_rule acc (hsnap_of rs) v -> rs' = rs)))).
Proof.
  intros Hcfg Hc Hb Hor1 Hor2 acc.
  assert (HorH : horacle_ok h) by (apply horacle_ok_from_app in Hor1; tauto).
  assert (HolL : oracle_ok (lib_of allow h)) by (apply (lib_oracle allow h [] []); [auto|exact HorH]).
  unfold acc. rewrite (responses_agree k cfg _ HolL).
  rewrite (hresponses_agree k cfg allow _ Hcfg Hor1), (hresponses_agree k cfg allow _ Hcfg Hor2), (hresponses_agree k cfg allow _ Hcfg HorH).
  apply (http_add_snapshot_rule_a cfg allow h c v cs E1 E2 E3 Hcfg Hc Hb Hor1 Hor2).
Qed.

(* ---- C13 as HTTP clients see it: the two backends answer every HTTP history alike ---- *)
Theorem http_backends_agree cfg allow h : cfg_ok cfg -> horacle_ok h ->
  hresponses BInMem cfg allow h = hresponses BSqlite cfg allow h.
Proof. intros Hcfg Hor. rewrite !(hresponses_agree _ cfg allow h Hcfg Hor). reflexivity. Qed.
