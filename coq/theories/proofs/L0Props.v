(* L0Props.v — the storage interface, call by call: as long as a sequence of StorageTxn calls stays
   inside the storage contract (the abstract store is not poisoned), each backend model answers
   every call exactly like the abstract store and ends in a related store.  This is the statement
   the storage-trait rig (check C13, L0.l0_txn) leans on: inside the contract the two backends
   cannot be told apart, call by call. *)
From TSS Require Import AStore L0 InMem Sqlite proofs.Sim proofs.RefineSqlite proofs.RefineInMem proofs.Agree.
Open Scope N_scope.

Section L0Sim.
  Variable B : backend.
  Variable Rs : astore -> b_st B -> Prop.
  Variable Rw : a_ws -> b_ws B -> Prop.
  Hypothesis begin_sim : forall a s c, a_ok a = true -> Rs a s -> Rw (a_begin a c) (b_begin B s c).
  Hypothesis eff_sim : forall X (e : seff X) aw w, Rw aw w -> okW (snd (a_eff e aw)) ->
    fst (b_eff B X e w) = fst (a_eff e aw) /\ Rw (snd (a_eff e aw)) (snd (b_eff B X e w)).
  Hypothesis end_sim : forall aw w, Rw aw w -> a_ok (a_end aw) = true -> Rs (a_end aw) (b_end B w).

  Lemma run_call_sim c aw w : Rw aw w -> okW (snd (run_call AStoreB c aw)) ->
    fst (run_call B c w) = fst (run_call AStoreB c aw) /\ Rw (snd (run_call AStoreB c aw)) (snd (run_call B c w)).
  Proof.
    intros HR Hok. destruct c; cbn [run_call] in *;
      match goal with
      | |- context [b_eff AStoreB ?X ?e aw] =>
          change (b_eff AStoreB X e aw) with (a_eff e aw) in *;
          pose proof (eff_sim X e aw w HR) as Hs;
          destruct (a_eff e aw) as [[x|er] aw1] eqn:Ha; destruct (b_eff B X e w) as [rb w1] eqn:Hb;
          cbn [fst snd] in *; destruct (Hs Hok) as [H1 H2]; subst rb; auto
      end.
  Qed.

  Lemma run_call_sticky c aw : okW (snd (run_call AStoreB c aw)) -> okW aw.
  Proof.
    destruct c; cbn [run_call];
      match goal with
      | |- context [b_eff AStoreB ?X ?e aw] =>
          change (b_eff AStoreB X e aw) with (a_eff e aw);
          pose proof (a_eff_sticky X e aw) as Hs; destruct (a_eff e aw) as [[x|er] aw1]; cbn [snd] in *; exact Hs
      end.
  Qed.

  Lemma run_calls_sticky cs : forall aw, okW (snd (run_calls AStoreB cs aw)) -> okW aw.
  Proof.
    induction cs as [|c cs IH]; intros aw Hok; cbn [run_calls] in *; [exact Hok|].
    destruct (run_call AStoreB c aw) as [x aw1] eqn:Hc. specialize (IH aw1).
    destruct (run_calls AStoreB cs aw1) as [l aw2]. cbn [snd] in *.
    apply (run_call_sticky c aw). rewrite Hc. cbn [snd]. apply IH. exact Hok.
  Qed.

  Lemma run_calls_sim cs : forall aw w, Rw aw w -> okW (snd (run_calls AStoreB cs aw)) ->
    fst (run_calls B cs w) = fst (run_calls AStoreB cs aw) /\ Rw (snd (run_calls AStoreB cs aw)) (snd (run_calls B cs w)).
  Proof.
    induction cs as [|c cs IH]; intros aw w HR Hok; cbn [run_calls] in *; [auto|].
    pose proof (run_call_sim c aw w HR) as Hs.
    destruct (run_call AStoreB c aw) as [x aw1] eqn:Ha. destruct (run_call B c w) as [y w1] eqn:Hb.
    specialize (IH aw1 w1).
    destruct (run_calls AStoreB cs aw1) as [l aw2] eqn:Ha2. destruct (run_calls B cs w1) as [l' w2] eqn:Hb2.
    cbn [fst snd] in *.
    assert (Hok1 : okW aw1) by (apply (run_calls_sticky cs aw1); rewrite Ha2; exact Hok).
    destruct (Hs Hok1) as [H1 H2]. subst y. destruct (IH H2 Hok) as [I1 I2]. subst l'. auto.
  Qed.

  (* one whole transaction of storage calls *)
  Theorem l0_txn_sim a s cid cs : Rs a s -> a_ok (snd (l0_txn AStoreB a cid cs)) = true ->
    fst (l0_txn B s cid cs) = fst (l0_txn AStoreB a cid cs) /\ Rs (snd (l0_txn AStoreB a cid cs)) (snd (l0_txn B s cid cs)).
  Proof.
    intros HR Hok. unfold l0_txn in *.
    change (b_begin AStoreB a cid) with (a_begin a cid) in *.
    destruct (run_calls AStoreB cs (a_begin a cid)) as [l aw] eqn:Ha. cbn [snd fst] in Hok.
    change (b_end AStoreB aw) with (a_end aw) in *.
    assert (Hokw : okW aw) by (apply a_end_sticky; exact Hok).
    assert (Hoka : a_ok a = true).
    { pose proof (run_calls_sticky cs (a_begin a cid)) as Hst. rewrite Ha in Hst. apply Hst. exact Hokw. }
    pose proof (run_calls_sim cs (a_begin a cid) (b_begin B s cid) (begin_sim a s cid Hoka HR)) as Hs. rewrite Ha in Hs.
    destruct (run_calls B cs (b_begin B s cid)) as [l' w]. cbn [fst snd] in *.
    destruct (Hs Hokw) as [H1 H2]. subst l'. split; [reflexivity|]. apply end_sim; assumption.
  Qed.
End L0Sim.

(* both backends: inside the contract, every storage-call transaction gives the abstract store's
   answers, so the two backends give each other's *)
Theorem storage_calls_refine_contract k a (s : b_st (bk_backend k)) cid cs :
  match k return b_st (bk_backend k) -> Prop with BInMem => Rs_im a | BSqlite => Rs_sq a end s ->
  a_ok (snd (l0_txn AStoreB a cid cs)) = true ->
  fst (l0_txn (bk_backend k) s cid cs) = fst (l0_txn AStoreB a cid cs) /\
  match k return b_st (bk_backend k) -> Prop with BInMem => Rs_im (snd (l0_txn AStoreB a cid cs)) | BSqlite => Rs_sq (snd (l0_txn AStoreB a cid cs)) end
    (snd (l0_txn (bk_backend k) s cid cs)).
Proof.
  destruct k; cbn [bk_backend].
  - apply (l0_txn_sim InMemB Rs_im Rw_im im_begin_sim im_eff_sim im_end_sim).
  - apply (l0_txn_sim SqliteB Rs_sq Rw_sq sq_begin_sim sq_eff_sim sq_end_sim).
Qed.

Corollary storage_calls_backends_agree a (s1 : b_st InMemB) (s2 : b_st SqliteB) cid cs :
  Rs_im a s1 -> Rs_sq a s2 -> a_ok (snd (l0_txn AStoreB a cid cs)) = true ->
  fst (l0_txn InMemB s1 cid cs) = fst (l0_txn SqliteB s2 cid cs).
Proof.
  intros H1 H2 Hok.
  destruct (l0_txn_sim InMemB Rs_im Rw_im im_begin_sim im_eff_sim im_end_sim a s1 cid cs H1 Hok) as [E1 _].
  destruct (l0_txn_sim SqliteB Rs_sq Rw_sq sq_begin_sim sq_eff_sim sq_end_sim a s2 cid cs H2 Hok) as [E2 _].
  congruence.
Qed.
