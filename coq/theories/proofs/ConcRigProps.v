(* ConcRigProps.v — every run the rig's scheduler function performs is a coarse run of the model
   under SOME schedule, so whatever is proved of all schedules holds of the runs compared with
   the implementation. *)
From TSS Require Import Conc ConcRig.
From Coq Require Import Arith.

Section P.
  Variable B : backend.
  Variable R : Type.
  Local Notation sys := (sys B R).

  Definition reach (s s' : sys) : Prop := exists sch, s' = crun B R s sch.

  Lemma crun_app (s : sys) a b : crun B R s (a ++ b) = crun B R (crun B R s a) b.
  Proof.
    revert s. induction a as [|i a IH]; intros s; cbn [app crun]; [reflexivity|].
    destruct (cstep B R s i); apply IH.
  Qed.
  Lemma reach_refl s : reach s s. Proof. exists []. reflexivity. Qed.
  Lemma reach_trans s1 s2 s3 : reach s1 s2 -> reach s2 s3 -> reach s1 s3.
  Proof. intros [a ->] [b ->]. exists (a ++ b). symmetry. apply crun_app. Qed.
  Lemma reach_try s i : reach s (try B R s i).
  Proof. exists [i]. unfold try. cbn. destruct (cstep B R s i); reflexivity. Qed.
  Lemma reach_settle s i : reach s (settle B R s i).
  Proof. unfold settle. destruct (at_txn B R s i); [apply reach_refl|apply reach_try]. Qed.
  Lemma reach_run_txn s i : reach s (run_txn B R s i).
  Proof.
    unfold run_txn. destruct (at_txn B R s i); [|apply reach_refl].
    eapply reach_trans; [apply reach_try|apply reach_settle].
  Qed.
  Lemma reach_fold {T} (f : sys -> T -> sys) : (forall s i, reach s (f s i)) ->
    forall l s, reach s (fold_left f l s).
  Proof.
    intros Hf l. induction l as [|i l IH]; intros s; cbn [fold_left]; [apply reach_refl|].
    eapply reach_trans; [apply Hf|apply IH].
  Qed.
  Lemma reach_tok s t : reach s (rig_tok B R s t).
  Proof.
    destruct t as [i|i k j]; cbn [rig_tok]; [apply reach_run_txn|].
    destruct (at_txn B R s i); [|apply reach_refl].
    destruct (Nat.ltb k (txn_calls B R s i) && at_txn B R (run_txn B R s i) j)%bool.
    - eapply reach_trans; apply reach_run_txn.
    - apply reach_run_txn.
  Qed.
  Lemma reach_drain fuel : forall s, reach s (drain B R fuel s).
  Proof.
    induction fuel as [|f IH]; intros s; cbn [drain]; [apply reach_refl|].
    destruct (forallb (finished B R) (th s)); [apply reach_refl|].
    eapply reach_trans; [apply (reach_fold (run_txn B R) reach_run_txn)|apply IH].
  Qed.

  Theorem rig_run_is_crun s toks : exists sch, rig_run B R s toks = crun B R s sch.
  Proof.
    change (reach s (rig_run B R s toks)). unfold rig_run.
    set (s1 := fold_left (settle B R) (seq 0 (length (th s))) s).
    set (s2 := fold_left (rig_tok B R) toks s1).
    apply (reach_trans s s1); [apply (reach_fold (settle B R) reach_settle)|].
    apply (reach_trans s1 s2); [apply (reach_fold (rig_tok B R) reach_tok)|apply reach_drain].
  Qed.
End P.
