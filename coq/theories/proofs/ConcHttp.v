(* ConcHttp.v — overlapping HTTP requests on the abstract store, at the granularity of whole
   transactions (which is all that matters, by Atomic.txn_atomic): for ANY number of requests
   and ANY interleaving of their transactions — the three transactions of an add-version for a
   new client included — the store invariant is kept at every point (each client's versions
   stay one unbranched chain: no fork, no orphan) and no request is ever answered 5xx. *)
From TSS Require Import AStore Http Conc proofs.Sim proofs.ListAux proofs.Chain proofs.Steps proofs.Inv proofs.Hist
  proofs.UrgencyArith proofs.HttpProps proofs.HttpReach proofs.Atomic proofs.NonInterf.
From Coq Require Import Arith Lia.
Open Scope N_scope.

Definition dh := default_headers.

(* the continuation of the add-version handler after NoSuchClient: create the client, retry *)
Definition ensure_node (n : nat) (cfg : config) (c p : id) (d : payload) : hprog hresp :=
  HTxn c p_ensure (fun r2 => match r2 with Ok _ => av_loop n cfg c p d | Err _ => HRet (plain 500) end).

(* clients never disappear *)
Lemma presence_mono cfg U a o E c : Inv U a -> fresh_ok U o E ->
  a_cl a c <> None -> a_cl (snd (astep cfg a o E)) c <> None.
Proof.
  intros HI Hf Hp.
  destruct (of_client c o) eqn:Hoc.
  - assert (HI0 := HI). destruct HI as (Hok & Hcl & Hids & Hvs).
    apply of_client_true in Hoc.
    destruct o as [c1 p d|c1 p|c1 v d|c1|c1|c1 secs|c1 n| |c1 ids]; cbn [op_client] in Hoc; inversion Hoc; subst c1.
    + destruct (a_cl a c) as [x|] eqn:Hc; [|contradiction].
      destruct (av_accepts x p) eqn:Hacc.
      * rewrite (av_accept cfg a c x p d E Hok Hc Hacc (fresh_mem_false U a _ _ HI0 Hf)
                  (cinv_no_child_of_target U x p (Hcl c x Hc) Hacc)).
        cbn [snd]. unfold av_new_state. rewrite a_set_lookup, N.eqb_refl. discriminate.
      * rewrite (av_conflict cfg a c x p d E Hok Hc Hacc). cbn. congruence.
    + rewrite gcv_step by assumption. exact Hp.
    + rewrite as_step by assumption. destruct (a_cl a c) as [x|] eqn:Hc; [|contradiction]. cbn [snd].
      destruct (as_accepts x v); [|congruence]. unfold as_new_state. rewrite a_set_lookup, N.eqb_refl. discriminate.
    + rewrite gs_step by assumption. exact Hp.
    + rewrite ensure_step by assumption. cbn [snd]. destruct (a_cl a c) eqn:Hc; [rewrite Hc; discriminate|contradiction].
    + rewrite backdate_step by assumption. cbn [snd]. unfold rewrite_state.
      destruct (a_cl a c) as [x|] eqn:Hc; [|contradiction]. destruct (a_snap x) as [[m d]|]; [|congruence].
      rewrite a_set_lookup, N.eqb_refl. discriminate.
    + rewrite setcounter_step by assumption. cbn [snd]. unfold rewrite_state.
      destruct (a_cl a c) as [x|] eqn:Hc; [|contradiction]. destruct (a_snap x) as [[m d]|]; [|congruence].
      rewrite a_set_lookup, N.eqb_refl. discriminate.
    + rewrite dump_step by assumption. exact Hp.
  - rewrite (step_other cfg U a o E c HI Hf Hoc). exact Hp.
Qed.

(* ---- one transaction of a handler, in terms of the library step ---- *)
Lemma finish_lib_av B cfg E c p d s :
  let '(r, w) := finish B E (b_begin B s c) (p_add_version cfg p d) in
  step B cfg s (OAddVersion c p d, E) =
  (match r with Ok (AVOk v, u) => RAdded v u | Ok (AVConflict l, _) => RConflict l | Err e => err_resp e end,
   b_end B w, snd (step B cfg s (OAddVersion c p d, E))).
Proof.
  unfold finish, step. cbn [lib_handler fst snd run_hprog].
  destruct (run_prog B E (p_add_version cfg p d) (b_begin B s c)) as [[r w] t]. reflexivity.
Qed.
Lemma finish_lib_ensure B cfg E c s :
  let '(r, w) := finish B E (b_begin B s c) p_ensure in
  step B cfg s (OEnsure c, E) =
  (match r with Ok _ => RUnit | Err e => err_resp e end, b_end B w, snd (step B cfg s (OEnsure c, E))).
Proof.
  unfold finish, step. cbn [lib_handler fst snd run_hprog].
  destruct (run_prog B E p_ensure (b_begin B s c)) as [[r w] t]. reflexivity.
Qed.

(* ---- thread invariant ---- *)
Inductive tinv (cfg : config) (allow : option (list id)) (G W : list id) (a : astore) (E : env) (rq : hreq)
  : tstate AStoreB hresp -> Prop :=
| TI_start : ~ usedp W (e_fresh E) ->
    tinv cfg allow G W a E rq (TIdle E (http_handler cfg allow rq))
| TI_create c p d : ~ usedp W (e_fresh E) -> In c G -> In p G ->
    tinv cfg allow G W a E rq (TIdle E (hmap dh (ensure_node 1 cfg c p d)))
| TI_retry c p d : ~ usedp W (e_fresh E) -> In c G -> In p G -> a_cl a c <> None ->
    tinv cfg allow G W a E rq (TIdle E (hmap dh (av_loop 1 cfg c p d)))
| TI_answered r : ok_status (rs_status r) -> tinv cfg allow G W a E rq (TIdle E (HRet r))
| TI_done r : ok_status (rs_status r) -> tinv cfg allow G W a E rq (TDone r).

Definition all_mentioned (reqs : list (env * hreq)) : list id := concat (map (fun er => hmentioned (snd er)) reqs).

(* invariant of a coarse state: store invariant w.r.t. some used-set W that contains every id any
   request mentions; every thread in one of the five situations above; a thread whose fresh id is
   already in W has been answered *)
Definition cinv_sys (cfg : config) (allow : option (list id)) (reqs : list (env * hreq)) (c : sys AStoreB hresp) : Prop :=
  owner c = None /\ length (th c) = length reqs /\
  exists W, Inv W (db c) /\ incl (all_mentioned reqs) W /\
    (forall i er t, nth_error reqs i = Some er -> nth_error (th c) i = Some t ->
                    tinv cfg allow (all_mentioned reqs) W (db c) (fst er) (snd er) t).

(* what is assumed of the ids the generator hands to the requests: non-nil, pairwise distinct,
   not mentioned by any request, not yet in the store *)
Definition fresh_distinct (U0 : list id) (reqs : list (env * hreq)) : Prop :=
  NoDup (map (fun er => e_fresh (fst er)) reqs) /\
  forall er, In er reqs -> e_fresh (fst er) <> nil_id /\ ~ In (e_fresh (fst er)) (all_mentioned reqs) /\ ~ In (e_fresh (fst er)) U0.

Lemma hmentioned_in reqs i er x : nth_error reqs i = Some er -> In x (hmentioned (snd er)) -> In x (all_mentioned reqs).
Proof.
  intros Hi Hx. unfold all_mentioned. apply in_concat. exists (hmentioned (snd er)). split; [|exact Hx].
  apply in_map_iff. exists er. split; [reflexivity|]. eapply nth_error_In; eauto.
Qed.

Lemma inv_ensure cfg U a c E : Inv U a -> Inv U (snd (astep cfg a (OEnsure c) E)).
Proof.
  intros HI. assert (HI0 := HI). destruct HI as (Hok & Hcl & Hids & Hvs).
  rewrite ensure_step by exact Hok. cbn [snd]. destruct (a_cl a c) as [x|] eqn:Hc; [exact HI0|].
  apply (Inv_set U U a c _ _ HI0 (fun i H0 => H0)).
  - constructor; cbn; auto.
    + constructor; [intros []|constructor].
    + intros m d0 Hd; discriminate.
    + intros i [<-|[]]. left. reflexivity.
  - exact Hids.
  - auto.
  - cbn. intros v [].
Qed.

(* the state of a thread stays valid when another thread's transaction changes the store *)
Lemma tinv_other cfg allow G W W' a a' E rq t :
  tinv cfg allow G W a E rq t ->
  (forall c, a_cl a c <> None -> a_cl a' c <> None) ->
  (~ usedp W (e_fresh E) -> ~ usedp W' (e_fresh E)) ->
  tinv cfg allow G W' a' E rq t.
Proof.
  intros Ht Hpres Hfr. destruct Ht as [Hf|c p d Hf Hc Hp|c p d Hf Hc Hp Hcl|r Hr|r Hr].
  - apply TI_start. auto.
  - apply TI_create; auto.
  - apply TI_retry; auto.
  - apply TI_answered. exact Hr.
  - apply TI_done. exact Hr.
Qed.

(* ---- the shape of a request handler ---- *)
Lemma handler_shape cfg allow rq :
  (exists r, http_handler cfg allow rq = HRet r) \/
  (exists X c (body : prog X) f, http_handler cfg allow rq = HTxn c body (fun r => HRet (f r))) \/
  (exists c p d, http_handler cfg allow rq = hmap dh (av_loop AV_FUEL cfg c p d) /\
                 rq_cid rq = COk c /\ rq_path rq = PAddVersion (IdOk p)).
Proof.
  destruct (not_served_refused cfg allow rq) as [(st & Hst & [Hr|[Hr _]])|(Hsv & c & Hcid & Hc)].
  - left. unfold http_handler. rewrite Hr. eexists. reflexivity.
  - left. unfold http_handler. rewrite Hr. eexists. reflexivity.
  - destruct Hsv as [c' p cs Hb|c' p ct cs|c' v cs Hb|c' ct cs]; cbn [rq_cid] in Hcid; inversion Hcid; subst c'.
    + right. right. exists c, p, (body_of cs). split; [|split; reflexivity].
      unfold http_handler, route, h_add_version. cbn [rq_method rq_path rq_ctype rq_cid rq_chunks].
      rewrite Hc. unfold body_refused in Hb. rewrite read_body_total in *.
      destruct (N.ltb MAX_SIZE (total_len cs)); [discriminate|]. rewrite Hb. reflexivity.
    + right. left. unfold http_handler, route, h_get_child_version. cbn [rq_method rq_path rq_cid]. rewrite Hc.
      cbn [hmap]. eexists. eexists. eexists. eexists. reflexivity.
    + right. left. unfold http_handler, route, h_add_snapshot. cbn [rq_method rq_path rq_ctype rq_cid rq_chunks].
      rewrite Hc. unfold body_refused in Hb. rewrite read_body_total in *.
      destruct (N.ltb MAX_SIZE (total_len cs)); [discriminate|]. rewrite Hb.
      cbn [hmap]. eexists. eexists. eexists. eexists. reflexivity.
    + right. left. unfold http_handler, route, h_get_snapshot. cbn [rq_method rq_path rq_cid]. rewrite Hc.
      cbn [hmap]. eexists. eexists. eexists. eexists. reflexivity.
Qed.

(* a coarse step of a single-transaction handler is the whole request *)
Lemma single_txn_run X E c (body : prog X) (f : res X -> hresp) a :
  let '(r, w) := finish AStoreB E (a_begin a c) body in
  fst (run_hprog AStoreB E (HTxn c body (fun r => HRet (f r))) a) = (f r, a_end w).
Proof.
  unfold finish. cbn [run_hprog]. change (b_begin AStoreB a c) with (a_begin a c).
  destruct (run_prog AStoreB E body (a_begin a c)) as [[r w] t]. reflexivity.
Qed.

(* shapes reached inside the add-version loop *)
Lemma av_loop_unfold n cfg c p d :
  hmap dh (av_loop (S n) cfg c p d) =
  HTxn c (p_add_version cfg p d) (fun r =>
    hmap dh match r with
            | Ok (AVOk v, u) => match urg_header u with
                                | Some h => HRet (mkResp 200 (Some v) None h None [] false)
                                | None => HRet (plain 500)
                                end
            | Ok (AVConflict l, _) => HRet (mkResp 409 None (Some l) None None [] false)
            | Err ENoSuchClient => ensure_node n cfg c p d
            | Err _ => HRet (plain 500)
            end).
Proof. reflexivity. Qed.

Lemma lib_av_result (r : res (av_result * option urgency)) lr :
  match r with Ok (AVOk v, u) => RAdded v u | Ok (AVConflict l, _) => RConflict l | Err e => err_resp e end = lr ->
  match lr with
  | RAdded v u => r = Ok (AVOk v, u)
  | RConflict l => exists u, r = Ok (AVConflict l, u)
  | RNoClient => r = Err ENoSuchClient
  | _ => True
  end.
Proof.
  intros <-. destruct r as [[[v|l] u]|[| |]]; cbn; eauto.
Qed.

(* one transaction of the add-version loop on a store satisfying the invariant *)
Lemma av_txn cfg U a c p d E n : cfg_ok cfg -> Inv U a -> ~ usedp ([c; p] ++ U) (e_fresh E) ->
  let '(r, w) := finish AStoreB E (a_begin a c) (p_add_version cfg p d) in
  let k := match r with
           | Ok (AVOk v, u) => match urg_header u with
                               | Some h => HRet (mkResp 200 (Some v) None h None [] false)
                               | None => HRet (plain 500)
                               end
           | Ok (AVConflict l, _) => HRet (mkResp 409 None (Some l) None None [] false)
           | Err ENoSuchClient => ensure_node n cfg c p d
           | Err _ => HRet (plain 500)
           end in
  (a_cl a c = None /\ a_end w = a /\ k = ensure_node n cfg c p d) \/
  (a_cl a c <> None /\ Inv (e_fresh E :: [c; p] ++ U) (a_end w) /\
   (forall c2, a_cl a c2 <> None -> a_cl (a_end w) c2 <> None) /\ exists rr, k = HRet rr /\ ok_status (rs_status rr)).
Proof.
  intros Hcfg HI Hf.
  pose proof (finish_lib_av AStoreB cfg E c p d a) as Hl.
  destruct (finish AStoreB E (b_begin AStoreB a c) (p_add_version cfg p d)) as [r w] eqn:Hfin.
  change (b_begin AStoreB a c) with (a_begin a c) in Hfin. rewrite Hfin. cbv zeta.
  assert (HI0 := HI). destruct HI as (Hok & Hcl & Hids & Hvs).
  pose proof (astep_eq cfg a (OAddVersion c p d) E) as Hae. rewrite Hl in Hae.
  inversion Hae as [[Hresp Hstate]]. clear Hae Hl.
  change (b_end AStoreB w) with (a_end w) in Hstate.
  assert (Hpres : forall c2, a_cl a c2 <> None -> a_cl (a_end w) c2 <> None).
  { intros c2 Hp2. rewrite Hstate. apply (presence_mono cfg U a (OAddVersion c p d) E c2 HI0 Hf Hp2). }
  destruct (a_cl a c) as [x|] eqn:Hc.
  - right. split; [discriminate|].
    destruct (av_accepts x p) eqn:Hacc.
    + rewrite (av_accept cfg a c x p d E Hok Hc Hacc (fresh_mem_false U a (OAddVersion c p d) _ HI0 Hf)
                 (cinv_no_child_of_target U x p (Hcl c x Hc) Hacc)) in Hresp, Hstate. cbn [fst snd] in Hresp, Hstate.
      pose proof (lib_av_result r _ Hresp) as Hr. cbn in Hr. subst r.
      split; [|split; [exact Hpres|]].
      * rewrite Hstate. pose proof (inv_step cfg U a (OAddVersion c p d) E HI0 Hf) as Hn.
        rewrite (av_accept cfg a c x p d E Hok Hc Hacc (fresh_mem_false U a (OAddVersion c p d) _ HI0 Hf)
                   (cinv_no_child_of_target U x p (Hcl c x Hc) Hacc)) in Hn. exact Hn.
      * rewrite urgency_no_overflow by exact Hcfg. cbn [urg_header].
        match goal with |- context [match ?u with UNone => _ | ULow => _ | UHigh => _ end] => destruct u end;
          eexists; (split; [reflexivity|unfold ok_status; cbn; auto 10]).
    + rewrite (av_conflict cfg a c x p d E Hok Hc Hacc) in Hresp, Hstate. cbn [fst snd] in Hresp, Hstate.
      pose proof (lib_av_result r _ Hresp) as Hr. cbn in Hr. destruct Hr as [u ->].
      split; [rewrite Hstate; eapply Inv_mono; [|exact HI0]; intros i Hi; right; apply in_app_iff; auto|].
      split; [exact Hpres|].
      eexists. split; [reflexivity|unfold ok_status; cbn; auto 10].
  - left. rewrite (av_noclient cfg a c p d E Hok Hc) in Hresp, Hstate. cbn [fst snd] in Hresp, Hstate.
    pose proof (lib_av_result r _ Hresp) as Hr. cbn in Hr. subst r. auto.
Qed.

Lemma ensure_txn (cfg : config) U a c E :
  Inv U a ->
  let '(r, w) := finish AStoreB E (a_begin a c) p_ensure in
  r = Ok tt /\ Inv U (a_end w) /\ a_cl (a_end w) c <> None /\ (forall c2, a_cl a c2 <> None -> a_cl (a_end w) c2 <> None).
Proof.
  intros HI. pose proof (finish_lib_ensure AStoreB cfg E c a) as Hl.
  destruct (finish AStoreB E (b_begin AStoreB a c) p_ensure) as [r w] eqn:Hfin.
  change (b_begin AStoreB a c) with (a_begin a c) in Hfin. rewrite Hfin.
  assert (HI0 := HI). destruct HI as (Hok & Hcl & Hids & Hvs).
  pose proof (astep_eq cfg a (OEnsure c) E) as Hae. rewrite Hl in Hae.
  inversion Hae as [[Hresp Hstate]]. clear Hae Hl. change (b_end AStoreB w) with (a_end w) in Hstate.
  rewrite ensure_step in Hresp, Hstate by exact Hok. cbn [fst snd] in Hresp, Hstate.
  split; [destruct r as [[]|[| |]]; cbn in Hresp; try discriminate; reflexivity|].
  split; [rewrite Hstate; pose proof (inv_ensure cfg U a c E HI0) as H; rewrite ensure_step in H by exact Hok; exact H|].
  rewrite Hstate. split.
  - destruct (a_cl a c) eqn:Hc; [rewrite Hc; discriminate|]. rewrite a_set_lookup, N.eqb_refl. discriminate.
  - intros c2 Hp. destruct (a_cl a c) eqn:Hc; [exact Hp|]. rewrite a_set_lookup.
    destruct (N.eqb c2 c); [discriminate|exact Hp].
Qed.

Lemma nodup_fresh_ne (reqs : list (env * hreq)) i j ei ej :
  NoDup (map (fun er => e_fresh (fst er)) reqs) -> nth_error reqs i = Some ei -> nth_error reqs j = Some ej ->
  i <> j -> e_fresh (fst ei) <> e_fresh (fst ej).
Proof.
  intros Hnd Hi Hj Hne Heq. apply Hne.
  apply (proj1 (NoDup_nth_error (map (fun er => e_fresh (fst er)) reqs)) Hnd i j).
  - rewrite map_length. apply nth_error_Some. congruence.
  - rewrite !nth_error_map, Hi, Hj. cbn. congruence.
Qed.

(* clients never disappear through a whole HTTP request *)
Lemma hstep_presence cfg allow U a rq E c2 : cfg_ok cfg -> Inv U a -> hfresh_ok U rq E ->
  a_cl a c2 <> None -> a_cl (snd (hstep_a cfg allow a rq E)) c2 <> None.
Proof.
  intros Hcfg HI Hf Hp.
  destruct (not_served_refused cfg allow rq) as [(st & Hst & Hr)|(Hsv & c & Hcid & Hc)].
  - unfold hstep_a. rewrite http_step_route. destruct Hr as [Hr|[Hr _]]; rewrite Hr; cbn [run_hprog fst snd]; exact Hp.
  - destruct (hstep_reach cfg allow U a rq E Hcfg HI Hf) as (_ & _ & Hout).
    destruct (Hout Hsv (ex_intro _ c (conj Hcid Hc))) as (r & a' & Hlo & Heq). rewrite Heq. cbn [snd].
    assert (HI0 := HI). destruct HI as (Hok & Hcl & Hids & Hvs).
    unfold lib_outcome in Hlo.
    destruct Hsv as [c' p cs Hb|c' p ct cs|c' v cs Hb|c' ct cs]; cbn [rq_method rq_path rq_cid rq_chunks] in Hlo;
      inversion Hlo as [Hlo']; clear Hlo.
    + set (a1 := match a_cl a c' with Some _ => a | None => a_set a c' (mkCS nil_id None []) (a_allids a) end) in *.
      assert (HI1 : Inv U a1).
      { pose proof (inv_ensure cfg U a c' E HI0) as H. rewrite ensure_step in H by exact Hok. exact H. }
      assert (Hp1 : a_cl a1 c2 <> None).
      { unfold a1. destruct (a_cl a c') eqn:Hcc; [exact Hp|]. rewrite a_set_lookup. destruct (N.eqb c2 c'); [discriminate|exact Hp]. }
      replace a' with (snd (astep cfg a1 (OAddVersion c' p (body_of cs)) E)) by (rewrite Hlo'; reflexivity).
      apply (presence_mono cfg U a1 (OAddVersion c' p (body_of cs)) E c2 HI1 Hf Hp1).
    + replace a' with (snd (astep cfg a (OGetChild c' p) E)) by (rewrite Hlo'; reflexivity).
      apply (presence_mono cfg U a (OGetChild c' p) E c2 HI0 I Hp).
    + replace a' with (snd (astep cfg a (OAddSnapshot c' v (body_of cs)) E)) by (rewrite Hlo'; reflexivity).
      apply (presence_mono cfg U a (OAddSnapshot c' v (body_of cs)) E c2 HI0 I Hp).
    + replace a' with (snd (astep cfg a (OGetSnapshot c') E)) by (rewrite Hlo'; reflexivity).
      apply (presence_mono cfg U a (OGetSnapshot c') E c2 HI0 I Hp).
Qed.

Lemma dh_status r : rs_status (dh r) = rs_status r.
Proof. reflexivity. Qed.

(* ---- one coarse step keeps the invariant ---- *)
Lemma cinv_step cfg allow U0 reqs c i c' : cfg_ok cfg -> fresh_distinct U0 reqs ->
  cinv_sys cfg allow reqs c -> cstep AStoreB hresp c i = Some c' -> cinv_sys cfg allow reqs c'.
Proof.
  intros Hcfg [Hnd Hfr] (Hown & Hlen & W & HI & HG & Hth) Hst.
  unfold cstep in Hst. destruct (nth_error (th c) i) as [t|] eqn:Hi; [|discriminate].
  assert (Hlt : (i < length reqs)%nat) by (rewrite <- Hlen; apply nth_error_Some; congruence).
  destruct (nth_error reqs i) as [er|] eqn:Hri; [|apply nth_error_None in Hri; lia].
  pose proof (Hth i er t Hri Hi) as Hti.
  set (G := all_mentioned reqs) in *.
  destruct (Hfr er (nth_error_In _ _ Hri)) as (Hfnil & HfG & _).
  (* re-establishing the invariant after thread i moved to t' over store a' with used-set W' *)
  assert (Hfinish : forall a' W' t',
            Inv W' a' -> incl W W' ->
            (forall c2, a_cl (db c) c2 <> None -> a_cl a' c2 <> None) ->
            (forall f, f <> e_fresh (fst er) -> ~ In f G -> ~ usedp W f -> ~ usedp W' f) ->
            tinv cfg allow G W' a' (fst er) (snd er) t' ->
            cinv_sys cfg allow reqs (@mkSys AStoreB hresp a' None (upd (th c) i t'))).
  { intros a' W' t' HI' Hinc Hpres Hothers Ht'. split; [reflexivity|]. split; [cbn [th]; rewrite len_upd; exact Hlen|].
    exists W'. split; [exact HI'|]. split; [intros x Hx; apply Hinc, HG; exact Hx|].
    cbn [th db]. intros j ej tj Hrj Hj. destruct (Nat.eq_dec i j) as [Heq|Hne].
    - subst j. rewrite nth_upd_eq in Hj by (apply nth_error_Some; congruence). inversion Hj; subst tj.
      rewrite Hri in Hrj. inversion Hrj; subst ej. exact Ht'.
    - rewrite nth_upd_ne in Hj by exact Hne.
      apply (tinv_other cfg allow G W W' (db c) a' (fst ej) (snd ej) tj (Hth j ej tj Hrj Hj) Hpres).
      destruct (Hfr ej (nth_error_In _ _ Hrj)) as (_ & HjG & _).
      apply Hothers; [|exact HjG]. intros Heq. apply (nodup_fresh_ne reqs i j er ej Hnd Hri Hrj Hne). congruence. }
  (* the outcome of an add-version transaction that found its client *)
  assert (Havok : forall cc p w rr, In cc G -> In p G ->
            Inv (e_fresh (fst er) :: [cc; p] ++ W) (a_end w) ->
            (forall c2, a_cl (db c) c2 <> None -> a_cl (a_end w) c2 <> None) ->
            ok_status (rs_status rr) ->
            cinv_sys cfg allow reqs (@mkSys AStoreB hresp (a_end w) None (upd (th c) i (TIdle (fst er) (HRet (dh rr)))))).
  { intros cc p w rr Hc Hp HI' Hpres Hok.
    apply (Hfinish (a_end w) (e_fresh (fst er) :: [cc; p] ++ W) _ HI').
    - intros x Hx. right. apply in_app_iff. auto.
    - exact Hpres.
    - intros g Hg HgG Hgu [Hn0|[Hin|Hin]]; [apply Hgu; left; exact Hn0|congruence|].
      apply in_app_iff in Hin. destruct Hin as [[Heq|[Heq|[]]]|Hin]; [apply HgG; rewrite <- Heq; exact Hc|apply HgG; rewrite <- Heq; exact Hp|apply Hgu; right; exact Hin].
    - apply TI_answered. rewrite dh_status. exact Hok. }
  destruct Hti as [Hf|cc p d Hf Hc Hp|cc p d Hf Hc Hp Hcl|r Hr|r Hr].
  - (* not started *)
    assert (Hfo : hfresh_ok W (snd er) (fst er)).
    { unfold hfresh_ok. intros [Hn|Hin]; [contradiction|]. apply in_app_iff in Hin. destruct Hin as [Hin|Hin].
      - apply HfG. eapply hmentioned_in; eauto.
      - apply Hf. right. exact Hin. }
    destruct (handler_shape cfg allow (snd er)) as [[r Hh]|[(X & cc & body & f & Hh)|(cc & p & d & Hh & Hcid & Hpath)]]; rewrite Hh in Hst.
    + (* answered by the routing function alone *)
      inversion Hst; subst c'. apply (Hfinish (db c) W (TDone r) HI (incl_refl _)); auto.
      apply TI_done.
      destruct (hstep_reach cfg allow W (db c) (snd er) (fst er) Hcfg HI Hfo) as (_ & Hs & _).
      unfold hstep_a, http_step in Hs. cbn [fst snd] in Hs. rewrite Hh in Hs. exact Hs.
    + (* a single-transaction request: the coarse step is the whole request *)
      pose proof (single_txn_run X (fst er) cc body f (db c)) as Hrun.
      change (b_begin AStoreB (db c) cc) with (a_begin (db c) cc) in Hst.
      destruct (finish AStoreB (fst er) (a_begin (db c) cc) body) as [r w] eqn:Hfin.
      inversion Hst; subst c'. change (b_end AStoreB w) with (a_end w).
      destruct (hstep_reach cfg allow W (db c) (snd er) (fst er) Hcfg HI Hfo) as (Hn & Hs & _).
      pose proof (hstep_presence cfg allow W (db c) (snd er) (fst er)) as Hpr.
      unfold hstep_a, http_step in Hn, Hs, Hpr. cbn [fst snd] in Hn, Hs, Hpr. rewrite Hh, Hrun in Hn, Hs, Hpr. cbn [fst snd] in Hn, Hs, Hpr.
      apply (Hfinish (a_end w) (hused_step W (snd er) (fst er)) (TIdle (fst er) (HRet (f r)))); auto.
      * intros x Hx. unfold hused_step. right. apply in_app_iff. auto.
      * intros g Hg HgG Hgu [Hn0|Hin]; [apply Hgu; left; exact Hn0|].
        unfold hused_step in Hin. destruct Hin as [Hin|Hin]; [congruence|].
        apply in_app_iff in Hin. destruct Hin as [Hin|Hin]; [apply HgG; eapply hmentioned_in; eauto|apply Hgu; right; exact Hin].
      * apply TI_answered. exact Hs.
    + (* add-version: first transaction *)
      assert (Hc : In cc G) by (eapply hmentioned_in; [exact Hri|]; unfold hmentioned; rewrite Hcid, Hpath; cbn; auto).
      assert (Hp : In p G) by (eapply hmentioned_in; [exact Hri|]; unfold hmentioned; rewrite Hcid, Hpath; cbn; auto).
      assert (Hf2 : ~ usedp ([cc; p] ++ W) (e_fresh (fst er))).
      { intros [Hn|Hin]; [contradiction|]. apply in_app_iff in Hin.
        destruct Hin as [[Heq|[Heq|[]]]|Hin]; [apply HfG; rewrite <- Heq; exact Hc|apply HfG; rewrite <- Heq; exact Hp|apply Hf; right; exact Hin]. }
      change AV_FUEL with 2%nat in Hst. rewrite av_loop_unfold in Hst.
      pose proof (av_txn cfg W (db c) cc p d (fst er) 1 Hcfg HI Hf2) as Hav.
      change (b_begin AStoreB (db c) cc) with (a_begin (db c) cc) in Hst.
      destruct (finish AStoreB (fst er) (a_begin (db c) cc) (p_add_version cfg p d)) as [r w] eqn:Hfin.
      cbv zeta in Hav. inversion Hst; subst c'. change (b_end AStoreB w) with (a_end w).
      destruct Hav as [(Hnone & Hsame & Hk)|(Hsome & HI' & Hpres & rr & Hk & Hok)]; rewrite Hk.
      * rewrite Hsame. apply (Hfinish (db c) W _ HI (incl_refl _)); auto. apply TI_create; auto.
      * cbn [hmap]. apply (Havok cc p w rr Hc Hp HI' Hpres Hok).
  - (* about to create the client *)
    cbn [ensure_node hmap] in Hst.
    pose proof (ensure_txn cfg W (db c) cc (fst er) HI) as Hen.
    change (b_begin AStoreB (db c) cc) with (a_begin (db c) cc) in Hst.
    destruct (finish AStoreB (fst er) (a_begin (db c) cc) p_ensure) as [r w] eqn:Hfin.
    destruct Hen as (Hr & HI' & Hcl & Hpres). subst r.
    inversion Hst; subst c'. change (b_end AStoreB w) with (a_end w).
    apply (Hfinish (a_end w) W _ HI' (incl_refl _)); auto. apply TI_retry; auto.
  - (* retry after creating the client *)
    assert (Hf2 : ~ usedp ([cc; p] ++ W) (e_fresh (fst er))).
    { intros [Hn|Hin]; [contradiction|]. apply in_app_iff in Hin.
      destruct Hin as [[Heq|[Heq|[]]]|Hin]; [apply HfG; rewrite <- Heq; exact Hc|apply HfG; rewrite <- Heq; exact Hp|apply Hf; right; exact Hin]. }
    rewrite av_loop_unfold in Hst.
    pose proof (av_txn cfg W (db c) cc p d (fst er) 0 Hcfg HI Hf2) as Hav.
    change (b_begin AStoreB (db c) cc) with (a_begin (db c) cc) in Hst.
    destruct (finish AStoreB (fst er) (a_begin (db c) cc) (p_add_version cfg p d)) as [r w] eqn:Hfin.
    cbv zeta in Hav. inversion Hst; subst c'. change (b_end AStoreB w) with (a_end w).
    destruct Hav as [(Hnone & _)|(Hsome & HI' & Hpres & rr & Hk & Hok)]; [contradiction|]. rewrite Hk.
    cbn [hmap]. apply (Havok cc p w rr Hc Hp HI' Hpres Hok).
  - inversion Hst; subst c'. apply (Hfinish (db c) W (TDone r) HI (incl_refl _)); auto. apply TI_done. exact Hr.
  - discriminate.
Qed.

(* ---- every coarse run from a store satisfying the invariant ---- *)
Definition handlers (cfg : config) (allow : option (list id)) (reqs : list (env * hreq)) : list (env * hprog hresp) :=
  map (fun er => (fst er, http_handler cfg allow (snd er))) reqs.

Lemma cinv_init cfg allow U0 a0 reqs : Inv U0 a0 -> fresh_distinct U0 reqs ->
  cinv_sys cfg allow reqs (init_sys AStoreB hresp a0 (handlers cfg allow reqs)).
Proof.
  intros HI [Hnd Hfr]. split; [reflexivity|]. split; [unfold init_sys, handlers; cbn [th]; rewrite !map_length; reflexivity|].
  exists (all_mentioned reqs ++ U0). split; [eapply Inv_mono; [|exact HI]; intros x Hx; apply in_app_iff; auto|].
  split; [intros x Hx; apply in_app_iff; auto|].
  intros i er t Hri Hi. unfold init_sys, handlers in Hi. cbn [th] in Hi. rewrite !nth_error_map, Hri in Hi. cbn in Hi.
  inversion Hi; subst t. apply TI_start.
  destruct (Hfr er (nth_error_In _ _ Hri)) as (Hn & HG & HU).
  intros [H|H]; [contradiction|]. apply in_app_iff in H. tauto.
Qed.

Lemma cinv_run cfg allow U0 reqs sch : cfg_ok cfg -> fresh_distinct U0 reqs ->
  forall c, cinv_sys cfg allow reqs c -> cinv_sys cfg allow reqs (crun AStoreB hresp c sch).
Proof.
  intros Hcfg Hfd. induction sch as [|i sch IH]; intros c Hc; cbn [crun]; [exact Hc|].
  destruct (cstep AStoreB hresp c i) as [c'|] eqn:Hst; [|apply IH; exact Hc].
  apply IH. apply (cinv_step cfg allow U0 reqs c i c' Hcfg Hfd Hc Hst).
Qed.

(* what the invariant says to a reader: the store was never used against its contract, every
   client's versions are one chain from its base with pairwise distinct ids, `latest` is the
   last of them; and every request answered so far has a non-5xx status *)
Definition chains_ok (a : astore) : Prop :=
  a_ok a = true /\
  forall c x, a_cl a c = Some x ->
    chain_from (base_of (a_vers x)) (a_vers x) /\ NoDup (base_of (a_vers x) :: ids_of (a_vers x)) /\
    a_latest x = last_id (a_vers x) nil_id.
Definition answers_ok {B} (l : list (tstate B hresp)) : Prop :=
  forall i r, nth_error l i = Some (TDone r) -> ok_status (rs_status r).

Lemma cinv_sys_safe cfg allow reqs c : cinv_sys cfg allow reqs c -> chains_ok (db c) /\ answers_ok (th c).
Proof.
  intros (_ & Hlen & W & (Hok & Hcl & _) & _ & Hth). split.
  - split; [exact Hok|]. intros cc x Hx. destruct (Hcl cc x Hx) as [H1 H2 _ H4 _ _]. auto.
  - intros i r Hi. destruct (nth_error reqs i) as [er|] eqn:Hri.
    + pose proof (Hth i er _ Hri Hi) as Ht. inversion Ht; assumption.
    + apply nth_error_None in Hri. assert (i < length (th c))%nat by (apply nth_error_Some; congruence). lia.
Qed.

Theorem conc_http_safe_abstract cfg allow reqs sch : cfg_ok cfg -> fresh_distinct [] reqs ->
  let c := crun AStoreB hresp (init_sys AStoreB hresp a_empty (handlers cfg allow reqs)) sch in
  chains_ok (db c) /\ answers_ok (th c).
Proof.
  intros Hcfg Hfd. apply (cinv_sys_safe cfg allow reqs).
  apply (cinv_run cfg allow [] reqs sch Hcfg Hfd). apply (cinv_init cfg allow [] a_empty reqs); [apply Inv_empty|exact Hfd].
Qed.

(* ---- transport to a concrete backend ---- *)
Section ConcSim.
  Variable B : backend.
  Variable Rs : astore -> b_st B -> Prop.
  Variable Rw : a_ws -> b_ws B -> Prop.
  Hypothesis begin_sim : forall a s c, a_ok a = true -> Rs a s -> Rw (a_begin a c) (b_begin B s c).
  Hypothesis eff_sim : forall X (e : seff X) aw w, Rw aw w -> okW (snd (a_eff e aw)) ->
    fst (b_eff B X e w) = fst (a_eff e aw) /\ Rw (snd (a_eff e aw)) (snd (b_eff B X e w)).
  Hypothesis end_sim : forall aw w, Rw aw w -> a_ok (a_end aw) = true -> Rs (a_end aw) (b_end B w).
  Variable R : Type.

  Inductive trel : tstate AStoreB R -> tstate B R -> Prop :=
  | TR_idle E h : trel (TIdle E h) (TIdle E h)
  | TR_done r : trel (TDone r) (TDone r).
  Definition srel (ca : sys AStoreB R) (cb : sys B R) : Prop :=
    Rs (db ca) (db cb) /\ Forall2 trel (th ca) (th cb).

  Lemma forall2_nth {X Y} (P : X -> Y -> Prop) l1 l2 i : Forall2 P l1 l2 ->
    match nth_error l1 i, nth_error l2 i with
    | Some x, Some y => P x y | None, None => True | _, _ => False end.
  Proof. intros H. revert i. induction H as [|x y l1 l2 Hxy H IH]; intros [|i]; cbn; auto. apply IH. Qed.
  Lemma forall2_upd {X Y} (P : X -> Y -> Prop) l1 l2 i x y : Forall2 P l1 l2 -> P x y ->
    Forall2 P (upd l1 i x) (upd l2 i y).
  Proof. intros H Hxy. revert i. induction H as [|x0 y0 l1 l2 H0 H IH]; intros [|i]; cbn; constructor; auto. Qed.

  Lemma cstep_sim ca cb i : srel ca cb -> a_ok (db ca) = true ->
    match cstep AStoreB R ca i with
    | Some ca' => a_ok (db ca') = true -> exists cb', cstep B R cb i = Some cb' /\ srel ca' cb'
    | None => cstep B R cb i = None
    end.
  Proof.
    intros [Hdb Hth] Hok. unfold cstep. pose proof (forall2_nth trel _ _ i Hth) as Hn.
    destruct (nth_error (th ca) i) as [ta|]; destruct (nth_error (th cb) i) as [tb|]; try contradiction; [|reflexivity].
    destruct Hn as [E h|r]; [|reflexivity]. destruct h as [r|X c body k].
    - intros _. eexists. split; [reflexivity|]. split; [exact Hdb|]. apply forall2_upd; [exact Hth|constructor].
    - unfold finish.
      pose proof (run_prog_sim B Rw eff_sim X E body (a_begin (db ca) c) (b_begin B (db cb) c)
                    (begin_sim _ _ c Hok Hdb)) as Hs.
      change (b_begin AStoreB (db ca) c) with (a_begin (db ca) c).
      destruct (run_prog AStoreB E body (a_begin (db ca) c)) as [[ra wa] ta] eqn:Ha.
      destruct (run_prog B E body (b_begin B (db cb) c)) as [[rb wb] tb] eqn:Hb. cbn [fst snd] in *.
      change (b_end AStoreB wa) with (a_end wa). intros Hok'.
      destruct (Hs (a_end_sticky wa Hok')) as (Hr & _ & Hw). subst rb.
      eexists. split; [reflexivity|]. split; [cbn [db]; apply end_sim; assumption|].
      cbn [th]. apply forall2_upd; [exact Hth|constructor].
  Qed.

  Lemma cstep_ok_sticky (ca ca' : sys AStoreB R) i : cstep AStoreB R ca i = Some ca' -> a_ok (db ca') = true -> a_ok (db ca) = true.
  Proof.
    unfold cstep. destruct (nth_error (th ca) i) as [[E [r|X c body k]| |]|]; try discriminate.
    - intros H; inversion H; subst; auto.
    - unfold finish. destruct (run_prog AStoreB E body (b_begin AStoreB (db ca) c)) as [[r w] t] eqn:Hrun. cbn [fst].
      intros H; inversion H; subst. cbn [db]. intros Hok.
      change (b_end AStoreB w) with (a_end w) in Hok. apply a_end_sticky in Hok.
      pose proof (run_prog_sticky X E body (b_begin AStoreB (db ca) c)) as Hst. rewrite Hrun in Hst. cbn [fst snd] in Hst.
      specialize (Hst Hok). unfold okW in Hst. exact Hst.
  Qed.

  Lemma crun_ok_sticky sch : forall ca : sys AStoreB R, a_ok (db (crun AStoreB R ca sch)) = true -> a_ok (db ca) = true.
  Proof.
    induction sch as [|i sch IH]; intros ca; cbn [crun]; [auto|].
    destruct (cstep AStoreB R ca i) as [ca'|] eqn:Hst; [|apply IH].
    intros H. apply (cstep_ok_sticky ca ca' i Hst). apply IH. exact H.
  Qed.

  Lemma crun_sim sch : forall ca cb, srel ca cb -> a_ok (db (crun AStoreB R ca sch)) = true ->
    srel (crun AStoreB R ca sch) (crun B R cb sch).
  Proof.
    induction sch as [|i sch IH]; intros ca cb Hrel Hok; cbn [crun] in *; [exact Hrel|].
    pose proof (cstep_sim ca cb i Hrel) as Hs.
    destruct (cstep AStoreB R ca i) as [ca'|] eqn:Hst.
    - assert (Hok' : a_ok (db ca') = true) by (apply (crun_ok_sticky sch); exact Hok).
      destruct (Hs (cstep_ok_sticky ca ca' i Hst Hok') Hok') as (cb' & Hcb & Hrel'). rewrite Hcb. apply IH; assumption.
    - rewrite (Hs (crun_ok_sticky sch ca Hok)). apply IH; assumption.
  Qed.
End ConcSim.

(* ---- the concrete backends, fine-grained schedules ---- *)
From TSS Require Import InMem Sqlite proofs.RefineSqlite proofs.RefineInMem proofs.Agree.

Definition bk_rel (k : bk) : astore -> b_st (bk_backend k) -> Prop :=
  match k with BInMem => Rs_im | BSqlite => Rs_sq end.

Lemma bk_crun_sim k R sch (ca : sys AStoreB R) (cb : sys (bk_backend k) R) :
  (bk_rel k (db ca) (db cb) /\ Forall2 (trel (bk_backend k) R) (th ca) (th cb)) ->
  a_ok (db (crun AStoreB R ca sch)) = true ->
  bk_rel k (db (crun AStoreB R ca sch)) (db (crun (bk_backend k) R cb sch)) /\
  Forall2 (trel (bk_backend k) R) (th (crun AStoreB R ca sch)) (th (crun (bk_backend k) R cb sch)).
Proof.
  destruct k; cbn [bk_rel bk_backend].
  - apply (crun_sim InMemB Rs_im Rw_im im_begin_sim im_eff_sim im_end_sim R sch ca cb).
  - apply (crun_sim SqliteB Rs_sq Rw_sq sq_begin_sim sq_eff_sim sq_end_sim R sch ca cb).
Qed.

Lemma bk_rel_empty k : bk_rel k a_empty (bk_empty k).
Proof. destruct k; [exact Rs_im_empty|exact Rs_sq_empty]. Qed.

Lemma init_trel B R (reqs : list (env * hprog R)) :
  Forall2 (trel B R) (map (fun eh => TIdle (fst eh) (snd eh)) reqs) (map (fun eh => TIdle (fst eh) (snd eh)) reqs).
Proof. induction reqs as [|eh reqs IH]; cbn; constructor; [constructor|exact IH]. Qed.

(* every coarse schedule on a concrete backend *)
Theorem conc_http_safe_coarse k cfg allow reqs sch : cfg_ok cfg -> fresh_distinct [] reqs ->
  let c := crun (bk_backend k) hresp (init_sys (bk_backend k) hresp (bk_empty k) (handlers cfg allow reqs)) sch in
  (exists a, bk_rel k a (db c) /\ chains_ok a) /\ answers_ok (th c).
Proof.
  intros Hcfg Hfd.
  pose proof (conc_http_safe_abstract cfg allow reqs sch Hcfg Hfd) as Habs. cbv zeta in *.
  set (ca := crun AStoreB hresp (init_sys AStoreB hresp a_empty (handlers cfg allow reqs)) sch) in *.
  destruct Habs as [[Hok Hch] Hans].
  pose proof (bk_crun_sim k hresp sch (init_sys AStoreB hresp a_empty (handlers cfg allow reqs))
                (init_sys (bk_backend k) hresp (bk_empty k) (handlers cfg allow reqs))) as Hsim. cbv zeta in Hsim.
  destruct (Hsim (conj (bk_rel_empty k) (init_trel (bk_backend k) hresp _)) Hok) as [Hdb Hth]. fold ca in Hdb, Hth.
  split.
  - exists (db ca). split; [exact Hdb|split; assumption].
  - intros i r Hi. pose proof (forall2_nth (trel (bk_backend k) hresp) _ _ i Hth) as Hn. rewrite Hi in Hn.
    destruct (nth_error (th ca) i) as [ta|] eqn:Hta; [|contradiction]. inversion Hn; subst. apply (Hans i r Hta).
Qed.

(* every fine-grained schedule (one step per storage call), whenever no transaction is open *)
Theorem conc_http_safe k cfg allow reqs sch : cfg_ok cfg -> fresh_distinct [] reqs ->
  let f := frun (bk_backend k) hresp (init_sys (bk_backend k) hresp (bk_empty k) (handlers cfg allow reqs)) sch in
  owner f = None ->
  (exists a, bk_rel k a (db f) /\ chains_ok a) /\ answers_ok (th f).
Proof.
  intros Hcfg Hfd f Hq. subst f.
  destruct (txn_atomic_quiescent (bk_backend k) hresp sch _ (init_wf _ _ (bk_empty k) (handlers cfg allow reqs)) eq_refl Hq) as [Hdb Hth].
  rewrite Hdb, Hth. apply (conc_http_safe_coarse k cfg allow reqs _ Hcfg Hfd).
Qed.

(* the hypotheses are met by three overlapping requests for one NEW client — two add-versions
   racing from the nil parent and a get-child-version — and the first add-version spans three
   transactions (schedule: 0 starts and sees no client, 1 runs to completion, 0 resumes) *)
Definition ex_reqs : list (env * hreq) :=
  [ (mkEnv 10 0, mkReq MPost (PAddVersion (IdOk 0)) (COk 5) CTHistory [mkChunk 1 [1]]);
    (mkEnv 11 0, mkReq MPost (PAddVersion (IdOk 0)) (COk 5) CTHistory [mkChunk 1 [2]]);
    (mkEnv 12 0, mkReq MGet (PGetChild (IdOk 0)) (COk 5) CTAbsent []) ].
Example conc_http_nonvacuous :
  cfg_ok default_config /\ fresh_distinct [] ex_reqs /\
  map (fun t => option_map rs_status (result_of SqliteB hresp t))
      (th (crun SqliteB hresp (init_sys SqliteB hresp sq_empty (handlers default_config None ex_reqs)) [0; 1; 1; 1; 1; 0; 0; 0; 2; 2]%nat))
  = [Some 409; Some 200; Some 200].
Proof.
  split; [vm_compute; repeat split; intros H; discriminate H|]. split; [|vm_compute; reflexivity].
  split.
  - cbn. repeat constructor; cbn; intros H; repeat (destruct H as [H|H]; try discriminate); auto.
  - intros er Her. cbn in Her.
    repeat (destruct Her as [Her|Her]; [subst er; cbn; repeat split; try discriminate;
      intros H; repeat (destruct H as [H|H]; try discriminate); auto|]). contradiction.
Qed.
