(* Sim.v — if a concrete backend simulates the abstract store effect by effect, then every
   program and every handler behaves identically on both, as long as the abstract run stays
   inside the storage contract (ends unpoisoned). *)
From TSS Require Import AStore.
Open Scope N_scope.

Definition okW (aw : a_ws) : Prop := a_ok (aw_cur aw) = true.

Lemma a_eff_sticky X (e : seff X) aw : okW (snd (a_eff e aw)) -> okW aw.
Proof.
  unfold okW. destruct e; cbn;
    repeat match goal with
           | |- context [match ?x with _ => _ end] => destruct x; cbn
           end; auto; try discriminate.
Qed.

Lemma run_prog_sticky A E (p : prog A) aw :
  okW (snd (fst (run_prog AStoreB E p aw))) -> okW aw.
Proof.
  revert aw. induction p as [a|e|X e k IH|k IH|k IH]; intros aw; cbn; auto; try apply IH.
  pose proof (a_eff_sticky X e aw) as Hs.
  destruct (a_eff e aw) as [[x|er] aw1] eqn:He; cbn in *.
  - specialize (IH x aw1). destruct (run_prog AStoreB E (k x) aw1) as [[r w2] t]; cbn in *. auto.
  - auto.
Qed.

Lemma a_end_sticky aw : a_ok (a_end aw) = true -> okW aw.
Proof.
  unfold a_end, okW. destruct (aw_committed aw); auto.
  destruct (aw_written aw); cbn; try discriminate.
  destruct (a_ok (aw_cur aw)); cbn; auto.
Qed.

Lemma run_hprog_sticky A E (h : hprog A) a :
  a_ok (snd (fst (run_hprog AStoreB E h a))) = true -> a_ok a = true.
Proof.
  revert a. induction h as [z|Z c body k IH]; intros a Hok; cbn in *; auto.
  destruct (run_prog AStoreB E body (a_begin a c)) as [[r1 aw1] t1] eqn:Hp.
  destruct (run_hprog AStoreB E (k r1) (a_end aw1)) as [[y1 a3] t3] eqn:Hh.
  cbn in Hok. specialize (IH r1 (a_end aw1)). rewrite Hh in IH. cbn in IH. specialize (IH Hok).
  apply a_end_sticky in IH.
  pose proof (run_prog_sticky _ E body (a_begin a c)) as Hs. rewrite Hp in Hs. cbn in Hs.
  specialize (Hs IH). exact Hs.
Qed.

Section Sim.
  Variable B : backend.
  Variable Rs : astore -> b_st B -> Prop.
  Variable Rw : a_ws -> b_ws B -> Prop.
  Hypothesis begin_sim : forall a s c, a_ok a = true -> Rs a s -> Rw (a_begin a c) (b_begin B s c).
  Hypothesis eff_sim : forall X (e : seff X) aw w, Rw aw w -> okW (snd (a_eff e aw)) ->
    fst (b_eff B X e w) = fst (a_eff e aw) /\ Rw (snd (a_eff e aw)) (snd (b_eff B X e w)).
  Hypothesis end_sim : forall aw w, Rw aw w -> a_ok (a_end aw) = true -> Rs (a_end aw) (b_end B w).

  Lemma run_prog_sim A E (p : prog A) aw w :
    Rw aw w -> okW (snd (fst (run_prog AStoreB E p aw))) ->
    fst (fst (run_prog B E p w)) = fst (fst (run_prog AStoreB E p aw)) /\
    snd (run_prog B E p w) = snd (run_prog AStoreB E p aw) /\
    Rw (snd (fst (run_prog AStoreB E p aw))) (snd (fst (run_prog B E p w))).
  Proof.
    revert aw w. induction p as [a|e|X e k IH|k IH|k IH]; intros aw w HR Hok; cbn in *; auto;
      try (apply IH; assumption).
    assert (Hok1 : okW (snd (a_eff e aw))).
    { destruct (a_eff e aw) as [[x|er] aw1] eqn:He; cbn in *; auto.
      apply (run_prog_sticky _ E (k x)).
      destruct (run_prog AStoreB E (k x) aw1) as [[r w2] t]; cbn in *. exact Hok. }
    destruct (eff_sim X e aw w HR Hok1) as [Hres HR1].
    destruct (a_eff e aw) as [ra aw1] eqn:He. destruct (b_eff B X e w) as [rb w1] eqn:Hb.
    cbn in *. subst rb.
    destruct ra as [x|er].
    - specialize (IH x aw1 w1 HR1).
      destruct (run_prog AStoreB E (k x) aw1) as [[r aw2] t] eqn:Ha2.
      destruct (run_prog B E (k x) w1) as [[r' w2] t'] eqn:Hb2. cbn in *.
      destruct (IH Hok) as (H1 & H2 & H3). subst. auto.
    - cbn. auto.
  Qed.

  Lemma run_hprog_sim A E (h : hprog A) a s :
    Rs a s -> a_ok (snd (fst (run_hprog AStoreB E h a))) = true ->
    fst (fst (run_hprog B E h s)) = fst (fst (run_hprog AStoreB E h a)) /\
    snd (run_hprog B E h s) = snd (run_hprog AStoreB E h a) /\
    Rs (snd (fst (run_hprog AStoreB E h a))) (snd (fst (run_hprog B E h s))).
  Proof.
    revert a s. induction h as [x|X c body k IH]; intros a s HR Hok; cbn in *; auto.
    destruct (run_prog AStoreB E body (a_begin a c)) as [[r aw] t] eqn:Ha.
    destruct (run_prog B E body (b_begin B s c)) as [[r' w] t'] eqn:Hb.
    destruct (run_hprog AStoreB E (k r) (a_end aw)) as [[y a2] t2] eqn:Ha2.
    cbn in Hok.
    (* the abstract store after the transaction is unpoisoned, because the final one is *)
    assert (Hoke : a_ok (a_end aw) = true).
    { clear - Ha2 Hok. revert Ha2 Hok. generalize (a_end aw) as a1. generalize (k r) as h.
      intros h. revert y a2 t2. induction h as [z|Z c' body' k' IHh]; intros y a2 t2 a1 Hrun Hok; cbn in *.
      - inversion Hrun; subst; auto.
      - destruct (run_prog AStoreB E body' (a_begin a1 c')) as [[r1 aw1] t1] eqn:Hp.
        destruct (run_hprog AStoreB E (k' r1) (a_end aw1)) as [[y1 a3] t3] eqn:Hh.
        inversion Hrun; subst.
        specialize (IHh r1 _ _ _ _ Hh Hok).
        apply a_end_sticky in IHh.
        pose proof (run_prog_sticky _ E body' (a_begin a1 c')) as Hs. rewrite Hp in Hs. cbn in Hs.
        specialize (Hs IHh). unfold okW in Hs. cbn in Hs. exact Hs. }
    assert (Hokw : okW aw) by (apply a_end_sticky; exact Hoke).
    assert (Hoka : a_ok a = true).
    { pose proof (run_prog_sticky _ E body (a_begin a c)) as Hs. rewrite Ha in Hs. cbn in Hs.
      specialize (Hs Hokw). exact Hs. }
    pose proof (run_prog_sim _ E body (a_begin a c) (b_begin B s c) (begin_sim a s c Hoka HR)) as Hsim.
    rewrite Ha, Hb in Hsim. cbn in Hsim. destruct (Hsim Hokw) as (H1 & H2 & H3). subst r' t'.
    specialize (IH r (a_end aw) (b_end B w) (end_sim aw w H3 Hoke)).
    rewrite Ha2 in IH. cbn in IH.
    destruct (run_hprog B E (k r) (b_end B w)) as [[y' s2] t2'] eqn:Hb2. cbn in *.
    destruct (IH Hok) as (I1 & I2 & I3). subst. auto.
  Qed.
End Sim.
