(* ConcLin.v — overlapping HTTP requests are LINEARIZABLE, the add-version handler with its up
   to three transactions included: every interleaving of whole transactions (which is all that
   matters, by Atomic.txn_atomic) gives every request the response, and leaves the store, that
   running the requests one at a time in the order `lin_order` gives — the order in which the
   requests executed their LAST transaction, which lies inside each request's own interval, so
   real-time order is respected.

   The one exception is delimited exactly (finding F3): an AddSnapshot transaction that runs on a
   client whose row exists but holds nothing yet — i.e. between the add-version handler's
   client-creating transaction and its append.  `window_free` excludes those schedules and
   nothing else; ConcHttp.conc_http_safe still covers them for safety (no fork, no 5xx).

   "The store that ordering leaves" is up to clients that exist but are empty: `ext a' a` says
   the coarse store a is the sequential store a' plus possibly some clients holding nothing; each
   of them is owned by an add-version request that is still in flight (it created the client and
   has not appended yet), so when all requests are finished the two stores hold exactly the same
   clients with exactly the same records. *)
From TSS Require Import AStore Http Conc proofs.Sim proofs.ListAux proofs.Chain proofs.Steps proofs.Inv proofs.Hist
  proofs.UrgencyArith proofs.HttpProps proofs.HttpReach proofs.Atomic proofs.NonInterf proofs.ConcLib proofs.ConcHttp
  proofs.Refine proofs.RefineInMem proofs.Cas proofs.HttpLib.
From Coq Require Import Arith Lia.
Open Scope N_scope.

Definition empty_cs : cstate := mkCS nil_id None [].

(* a is a' plus possibly some empty clients *)
Definition ext (a' a : astore) : Prop :=
  forall c, a_cl a' c = a_cl a c \/ (a_cl a' c = None /\ a_cl a c = Some empty_cs).

Definition ensured (a : astore) (c : id) : astore :=
  match a_cl a c with Some _ => a | None => a_set a c empty_cs (a_allids a) end.

Lemma ext_refl a : ext a a.
Proof. intros c. left. reflexivity. Qed.

Lemma ensured_lookup a c c2 :
  a_cl (ensured a c) c2 = if N.eqb c2 c then (match a_cl a c with Some x => Some x | None => Some empty_cs end) else a_cl a c2.
Proof.
  unfold ensured. destruct (a_cl a c) as [x|] eqn:Hc.
  - destruct (N.eqb_spec c2 c) as [->|Hne]; [exact Hc|reflexivity].
  - apply a_set_lookup.
Qed.

Lemma ext_ensure_r a' a c : ext a' a -> ext a' (ensured a c).
Proof.
  intros He c2. rewrite ensured_lookup. destruct (N.eqb_spec c2 c) as [->|Hne]; [|apply He].
  destruct (He c) as [Heq|[H1 H2]].
  - destruct (a_cl a c) as [x|] eqn:Hc; [left; exact Heq|right; auto].
  - rewrite H2. right. auto.
Qed.

Lemma ext_ensure_both a' a c : ext a' a -> ext (ensured a' c) (ensured a c) /\ a_cl (ensured a' c) c = a_cl (ensured a c) c.
Proof.
  intros He. split.
  - intros c2. rewrite !ensured_lookup. destruct (N.eqb_spec c2 c) as [->|Hne]; [|apply He].
    left. destruct (He c) as [Heq|[H1 H2]]; [rewrite Heq; reflexivity|rewrite H1, H2; reflexivity].
  - rewrite !ensured_lookup, N.eqb_refl.
    destruct (He c) as [Heq|[H1 H2]]; [rewrite Heq; reflexivity|rewrite H1, H2; reflexivity].
Qed.

Lemma inv_ensured U a c : Inv U a -> Inv U (ensured a c).
Proof.
  intros HI. pose proof (inv_ensure default_config U a c (mkEnv 0 0) HI) as H.
  rewrite ensure_step in H by (destruct HI; assumption). exact H.
Qed.

Lemma of_client_other c c2 o : of_client c o = true -> c2 <> c -> of_client c2 o = false.
Proof.
  unfold of_client. destruct (op_client o) as [c'|]; [|discriminate].
  intros H Hne. apply N.eqb_eq in H. subst c'. apply N.eqb_neq. congruence.
Qed.

(* the outcome of one step on both stores, client by client: the records agree afterwards, or
   the client was and stays an extra empty client *)
Definition ext_after (a' a a1' a1 : astore) : Prop :=
  forall c, a_cl a1' c = a_cl a1 c \/
            (a_cl a' c = None /\ a_cl a c = Some empty_cs /\ a_cl a1' c = None /\ a_cl a1 c = Some empty_cs).

Lemma ext_after_ext a' a a1' a1 : ext_after a' a a1' a1 -> ext a1' a1.
Proof. intros H c. destruct (H c) as [He|(_ & _ & H1 & H2)]; [left; exact He|right; auto]. Qed.

Lemma ext_after_same a' a : ext a' a -> ext_after a' a a' a.
Proof. intros He c. destruct (He c) as [H|[H1 H2]]; [left; exact H|right; auto]. Qed.

(* a library step of client c whose record is the same in both stores *)
Lemma ext_step cfg W a' a o E c : Inv W a' -> Inv W a -> fresh_ok W o E -> of_client c o = true ->
  ext a' a -> a_cl a' c = a_cl a c ->
  fst (astep cfg a' o E) = fst (astep cfg a o E) /\
  ext_after a' a (snd (astep cfg a' o E)) (snd (astep cfg a o E)) /\
  a_cl (snd (astep cfg a' o E)) c = a_cl (snd (astep cfg a o E)) c.
Proof.
  intros HI' HI Hf Hoc He Heq.
  destruct (step_local cfg W W a' a o E c HI' HI Hf Hf Hoc Heq) as [Hr Hc].
  split; [exact Hr|]. split; [|exact Hc]. intros c2. destruct (N.eq_dec c2 c) as [->|Hne]; [left; exact Hc|].
  rewrite (step_other cfg W a' o E c2 HI' Hf (of_client_other c c2 o Hoc Hne)).
  rewrite (step_other cfg W a o E c2 HI Hf (of_client_other c c2 o Hoc Hne)).
  destruct (He c2) as [H|[H1 H2]]; [left; exact H|right; auto].
Qed.

(* the client an AddSnapshot / AddVersion request is about *)
Definition as_client (rq : hreq) : option id :=
  match rq_method rq, rq_path rq, rq_cid rq with MPost, PAddSnapshot _, COk c => Some c | _, _, _ => None end.
Definition av_client (rq : hreq) : option id :=
  match rq_method rq, rq_path rq, rq_cid rq with MPost, PAddVersion _, COk c => Some c | _, _, _ => None end.
Definition is_served (allow : option (list id)) (rq : hreq) : Prop :=
  served rq /\ exists c, rq_cid rq = COk c /\ client_id_header allow (COk c) = inl c.

Lemma as_accepts_empty v : as_accepts empty_cs v = false.
Proof.
  unfold as_accepts, empty_cs, snap_last. cbn [a_snap a_vers a_latest option_map oid_eqb negb andb].
  unfold SNAPSHOT_SEARCH_LEN. cbn [search_spec].
  destruct (N.eqb nil_id v) eqn:Ev.
  - apply N.eqb_eq in Ev. subst v. rewrite N.eqb_refl. reflexivity.
  - cbn [andb oid_eqb]. rewrite N.eqb_refl. cbn. reflexivity.
Qed.

(* the request is an AddSnapshot for a client that the coarse store holds empty and the
   sequential store does not hold at all (the creation window of finding F3) *)
Definition in_window (allow : option (list id)) (a' a : astore) (rq : hreq) : Prop :=
  is_served allow rq /\ exists c, as_client rq = Some c /\ a_cl a' c = None /\ a_cl a c = Some empty_cs.

(* ---- a whole request on the sequential store a' and on the coarse store a ---- *)
Lemma hstep_ext_g cfg allow W a' a rq E : cfg_ok cfg -> Inv W a' -> Inv W a -> hfresh_ok W rq E -> ext a' a ->
  (fst (hstep_a cfg allow a' rq E) = fst (hstep_a cfg allow a rq E) \/
   (in_window allow a' a rq /\ fst (hstep_a cfg allow a' rq E) = default_headers (encode RNoClient) /\
    fst (hstep_a cfg allow a rq E) = default_headers (encode RSnapAck))) /\
  ext_after a' a (snd (hstep_a cfg allow a' rq E)) (snd (hstep_a cfg allow a rq E)) /\
  (is_served allow rq -> forall c, av_client rq = Some c ->
     a_cl (snd (hstep_a cfg allow a' rq E)) c = a_cl (snd (hstep_a cfg allow a rq E)) c).
Proof.
  intros Hcfg HI' HI Hf He.
  destruct (not_served_refused cfg allow rq) as [(st & Hst & Hr)|(Hsv & c & Hcid & Hc)].
  - (* answered by the routing function: the store is not consulted *)
    assert (Hns : ~ is_served allow rq).
    { intros [Hsv (c & Hcid & Hc)]. destruct Hsv as [c' p cs Hb|c' p ct cs|c' v cs Hb|c' ct cs];
        cbn [rq_cid] in Hcid; inversion Hcid; subst c';
        unfold route in Hr; cbn [rq_method rq_path] in Hr.
      - unfold h_add_version in Hr. cbn [rq_ctype rq_cid rq_chunks] in Hr. rewrite Hc in Hr.
        unfold body_refused in Hb. destruct (read_body cs 0 []) as [[len body]|]; [|discriminate]. rewrite Hb in Hr.
        destruct Hr as [Hr|[Hr _]]; discriminate.
      - unfold h_get_child_version in Hr. cbn [rq_cid] in Hr. rewrite Hc in Hr. destruct Hr as [Hr|[Hr _]]; discriminate.
      - unfold h_add_snapshot in Hr. cbn [rq_ctype rq_cid rq_chunks] in Hr. rewrite Hc in Hr.
        unfold body_refused in Hb. destruct (read_body cs 0 []) as [[len body]|]; [|discriminate]. rewrite Hb in Hr.
        destruct Hr as [Hr|[Hr _]]; discriminate.
      - unfold h_get_snapshot in Hr. cbn [rq_cid] in Hr. rewrite Hc in Hr. destruct Hr as [Hr|[Hr _]]; discriminate. }
    unfold hstep_a. rewrite !http_step_route.
    destruct Hr as [Hr|[Hr _]]; rewrite Hr; cbn [run_hprog fst snd];
      (split; [left; reflexivity|split; [apply ext_after_same; exact He|intros H; contradiction]]).
  - (* one of the four protocol operations *)
    assert (Hsd : is_served allow rq) by (split; [exact Hsv|eauto]).
    destruct (hstep_reach cfg allow W a' rq E Hcfg HI' Hf) as (_ & _ & Ho').
    destruct (hstep_reach cfg allow W a rq E Hcfg HI Hf) as (_ & _ & Ho).
    destruct (Ho' Hsv (ex_intro _ c (conj Hcid Hc))) as (r' & a1' & Hl' & Hs').
    destruct (Ho Hsv (ex_intro _ c (conj Hcid Hc))) as (r & a1 & Hl & Hs).
    rewrite Hs', Hs. cbn [fst snd]. clear Ho Ho' Hs Hs'.
    assert (HI0' := HI'). assert (HI0 := HI).
    destruct HI' as (Hok' & Hcl' & _). destruct HI as (Hok & Hcl & _).
    unfold lib_outcome in Hl', Hl.
    destruct Hsv as [c' p cs Hb|c' p ct cs|c' v cs Hb|c' ct cs]; cbn [rq_cid] in Hcid; inversion Hcid; subst c';
      cbn [rq_method rq_path rq_cid rq_chunks] in Hl', Hl; inversion Hl' as [Hl1']; inversion Hl as [Hl1]; clear Hl Hl'.
    + (* add-version: both stores first get the client if it is missing *)
      change (match a_cl a' c with Some _ => a' | None => a_set a' c (mkCS nil_id None []) (a_allids a') end) with (ensured a' c) in Hl1'.
      change (match a_cl a c with Some _ => a | None => a_set a c (mkCS nil_id None []) (a_allids a) end) with (ensured a c) in Hl1.
      destruct (ext_ensure_both a' a c He) as [He1 Heq1].
      assert (Hf1 : fresh_ok W (OAddVersion c p (body_of cs)) E) by exact Hf.
      destruct (ext_step cfg W (ensured a' c) (ensured a c) (OAddVersion c p (body_of cs)) E c
                  (inv_ensured W a' c HI0') (inv_ensured W a c HI0) Hf1) as (Hr & Hea & Hcc); auto.
      { unfold of_client. cbn. apply N.eqb_refl. }
      rewrite Hl1', Hl1 in Hr, Hea, Hcc. cbn [fst snd] in Hr, Hea, Hcc.
      split; [left; rewrite Hr; reflexivity|]. split.
      * intros c2. destruct (Hea c2) as [H|(H1 & H2 & H3 & H4)]; [left; exact H|].
        rewrite ensured_lookup in H1, H2. destruct (N.eqb_spec c2 c) as [Heqc|Hne].
        -- destruct (a_cl a' c); discriminate.
        -- right. auto.
      * intros _ c2 Hc2. unfold av_client in Hc2. cbn in Hc2. inversion Hc2; subst c2. exact Hcc.
    + (* get-child-version *)
      destruct (He c) as [Heq|[H1 H2]].
      * destruct (ext_step cfg W a' a (OGetChild c p) E c HI0' HI0 I) as (Hr & Hea & _); auto.
        { unfold of_client. cbn. apply N.eqb_refl. }
        rewrite Hl1', Hl1 in Hr, Hea. cbn [fst snd] in Hr, Hea.
        split; [left; rewrite Hr; reflexivity|]. split; [exact Hea|]. intros _ c2 Hc2. discriminate Hc2.
      * rewrite gcv_step in Hl1', Hl1 by assumption. rewrite H1 in Hl1'. rewrite H2 in Hl1.
        assert (Hg : gcv_answer empty_cs p = RNotFound).
        { unfold gcv_answer, empty_cs. cbn [a_vers a_latest by_parent find]. rewrite N.eqb_refl, Bool.orb_true_r. reflexivity. }
        rewrite Hg in Hl1. inversion Hl1'; inversion Hl1; subst. split; [left; reflexivity|].
        split; [apply ext_after_same; exact He|]. intros _ c2 Hc2. discriminate Hc2.
    + (* add-snapshot: in a creation window the coarse run declines (200) what the sequential run answers 404 *)
      destruct (He c) as [Heq|[H1 H2]].
      * destruct (ext_step cfg W a' a (OAddSnapshot c v (body_of cs)) E c HI0' HI0 I) as (Hr & Hea & _); auto.
        { unfold of_client. cbn. apply N.eqb_refl. }
        rewrite Hl1', Hl1 in Hr, Hea. cbn [fst snd] in Hr, Hea.
        split; [left; rewrite Hr; reflexivity|]. split; [exact Hea|]. intros _ c2 Hc2. discriminate Hc2.
      * rewrite as_step in Hl1', Hl1 by assumption. rewrite H1 in Hl1'. rewrite H2 in Hl1.
        rewrite as_accepts_empty in Hl1. inversion Hl1'; inversion Hl1; subst.
        split; [right; split; [split; [exact Hsd|exists c; split; [reflexivity|split; assumption]]|split; reflexivity]|].
        split; [apply ext_after_same; exact He|]. intros _ c2 Hc2. discriminate Hc2.
    + (* get-snapshot *)
      destruct (He c) as [Heq|[H1 H2]].
      * destruct (ext_step cfg W a' a (OGetSnapshot c) E c HI0' HI0 I) as (Hr & Hea & _); auto.
        { unfold of_client. cbn. apply N.eqb_refl. }
        rewrite Hl1', Hl1 in Hr, Hea. cbn [fst snd] in Hr, Hea.
        split; [left; rewrite Hr; reflexivity|]. split; [exact Hea|]. intros _ c2 Hc2. discriminate Hc2.
      * rewrite gs_step in Hl1', Hl1 by assumption. rewrite H1 in Hl1'. rewrite H2 in Hl1.
        inversion Hl1'; inversion Hl1; subst. split; [left; reflexivity|].
        split; [apply ext_after_same; exact He|]. intros _ c2 Hc2. discriminate Hc2.
Qed.

Lemma hstep_ext cfg allow W a' a rq E : cfg_ok cfg -> Inv W a' -> Inv W a -> hfresh_ok W rq E -> ext a' a ->
  (is_served allow rq -> forall c, as_client rq = Some c -> a_cl a c <> Some empty_cs) ->
  fst (hstep_a cfg allow a' rq E) = fst (hstep_a cfg allow a rq E) /\
  ext_after a' a (snd (hstep_a cfg allow a' rq E)) (snd (hstep_a cfg allow a rq E)) /\
  (is_served allow rq -> forall c, av_client rq = Some c ->
     a_cl (snd (hstep_a cfg allow a' rq E)) c = a_cl (snd (hstep_a cfg allow a rq E)) c).
Proof.
  intros Hcfg HI' HI Hf He Hwin.
  destruct (hstep_ext_g cfg allow W a' a rq E Hcfg HI' HI Hf He) as ([Hr|((Hsd & c & Has & _ & Hemp) & _)] & H2 & H3).
  - auto.
  - exfalso. apply (Hwin Hsd c Has Hemp).
Qed.

(* ---- the add-version loop, one transaction at a time ---- *)
Definition av_k (n : nat) (cfg : config) (c p : id) (d : payload) (r : res (av_result * option urgency)) : hprog hresp :=
  match r with
  | Ok (AVOk v, u) => match urg_header u with
                      | Some h => HRet (mkResp 200 (Some v) None h None [] false)
                      | None => HRet (plain 500)
                      end
  | Ok (AVConflict l, _) => HRet (mkResp 409 None (Some l) None None [] false)
  | Err ENoSuchClient => ensure_node n cfg c p d
  | Err _ => HRet (plain 500)
  end.

Lemma av_loop_unfold' n cfg c p d :
  hmap dh (av_loop (S n) cfg c p d) = HTxn c (p_add_version cfg p d) (fun r => hmap dh (av_k n cfg c p d r)).
Proof. reflexivity. Qed.

(* an add-version transaction that finds its client completes the request: its outcome is the
   outcome of the whole handler run from that store *)
Lemma av_present cfg allow W a rq E c p d : cfg_ok cfg -> Inv W a -> ~ usedp ([c; p] ++ W) (e_fresh E) ->
  http_handler cfg allow rq = hmap dh (av_loop AV_FUEL cfg c p d) -> a_cl a c <> None ->
  forall n,
  hmap dh (av_k n cfg c p d (fst (finish AStoreB E (a_begin a c) (p_add_version cfg p d)))) = HRet (fst (hstep_a cfg allow a rq E)) /\
  a_end (snd (finish AStoreB E (a_begin a c) (p_add_version cfg p d))) = snd (hstep_a cfg allow a rq E).
Proof.
  intros Hcfg HI Hf Hh Hp n.
  pose proof (av_txn cfg W a c p d E 1 Hcfg HI Hf) as Hav1.
  pose proof (av_txn cfg W a c p d E n Hcfg HI Hf) as Havn.
  unfold hstep_a, http_step. cbn [fst snd]. rewrite Hh. change AV_FUEL with 2%nat. rewrite av_loop_unfold'.
  cbn [run_hprog]. change (b_begin AStoreB a c) with (a_begin a c).
  unfold finish in *.
  destruct (run_prog AStoreB E (p_add_version cfg p d) (a_begin a c)) as [[r w] t] eqn:Hrun. cbn [fst snd] in *.
  destruct Hav1 as [(Hnone & _)|(_ & _ & _ & rr1 & Hk1 & _)]; [contradiction|].
  destruct Havn as [(Hnone & _)|(_ & _ & _ & rrn & Hkn & _)]; [contradiction|].
  change (av_k 1 cfg c p d r = HRet rr1) in Hk1. change (av_k n cfg c p d r = HRet rrn) in Hkn.
  assert (Heq : rrn = rr1).
  { destruct r as [[[v|l] u]|[| |]]; cbn [av_k] in Hk1, Hkn; try (rewrite Hk1 in Hkn; inversion Hkn; reflexivity).
    unfold ensure_node in Hk1. discriminate Hk1. }
  subst rrn. rewrite Hk1, Hkn. cbn [hmap run_hprog fst snd]. split; reflexivity.
Qed.

(* an add-version transaction that does not find its client changes nothing *)
Lemma av_absent cfg W a c p d E n : cfg_ok cfg -> Inv W a -> ~ usedp ([c; p] ++ W) (e_fresh E) -> a_cl a c = None ->
  av_k n cfg c p d (fst (finish AStoreB E (a_begin a c) (p_add_version cfg p d))) = ensure_node n cfg c p d /\
  a_end (snd (finish AStoreB E (a_begin a c) (p_add_version cfg p d))) = a.
Proof.
  intros Hcfg HI Hf Hc. pose proof (av_txn cfg W a c p d E n Hcfg HI Hf) as Hav.
  destruct (finish AStoreB E (a_begin a c) (p_add_version cfg p d)) as [r w]. cbn [fst snd].
  destruct Hav as [(_ & Hs & Hk)|(Hp & _)]; [split; assumption|contradiction].
Qed.

(* the create-if-absent transaction *)
Lemma ensure_result (cfg : config) U a c E : Inv U a ->
  fst (finish AStoreB E (a_begin a c) p_ensure) = Ok tt /\
  a_end (snd (finish AStoreB E (a_begin a c) p_ensure)) = ensured a c.
Proof.
  intros HI. pose proof (finish_lib_ensure AStoreB cfg E c a) as Hl.
  change (b_begin AStoreB a c) with (a_begin a c) in Hl.
  destruct (finish AStoreB E (a_begin a c) p_ensure) as [r w]. cbn [fst snd].
  destruct HI as (Hok & _).
  pose proof (astep_eq cfg a (OEnsure c) E) as Hae. rewrite Hl in Hae.
  inversion Hae as [[Hresp Hstate]]. clear Hae Hl. change (b_end AStoreB w) with (a_end w) in Hstate.
  rewrite ensure_step in Hresp, Hstate by exact Hok. cbn [fst snd] in Hresp, Hstate.
  split; [destruct r as [[]|[| |]]; cbn in Hresp; try discriminate; reflexivity|exact Hstate].
Qed.

(* ---- phases of a request, the linearization order, the invariant ---- *)
Inductive phase :=
| PhStart | PhCreate (c p : id) (d : payload) | PhRetry (c p : id) (d : payload)
| PhAnswered (r : hresp) | PhDone (r : hresp).

Definition pstate (cfg : config) (allow : option (list id)) (E : env) (rq : hreq) (ph : phase) : tstate AStoreB hresp :=
  match ph with
  | PhStart => TIdle E (http_handler cfg allow rq)
  | PhCreate c p d => TIdle E (hmap dh (ensure_node 1 cfg c p d))
  | PhRetry c p d => TIdle E (hmap dh (av_loop 1 cfg c p d))
  | PhAnswered r => TIdle E (HRet r)
  | PhDone r => TDone r
  end.

Definition avreq (cfg : config) (allow : option (list id)) (G : list id) (rq : hreq) (c p : id) (d : payload) : Prop :=
  In c G /\ In p G /\ http_handler cfg allow rq = hmap dh (av_loop AV_FUEL cfg c p d) /\
  as_client rq = None /\ av_client rq = Some c /\ is_served allow rq.

(* Rr rq r0 r: the response r the overlapping run gave request rq is related to the response r0
   of the one-at-a-time run (equality for the strict theorem; `win_rel` for the theorem that
   delimits finding F3) *)
Definition resp_rel := hreq -> hresp -> hresp -> Prop.
Definition strict_rel : resp_rel := fun _ r0 r => r0 = r.
Definition win_rel (allow : option (list id)) : resp_rel := fun rq r0 r =>
  r0 = r \/ (is_served allow rq /\ as_client rq <> None /\
             r0 = default_headers (encode RNoClient) /\ r = default_headers (encode RSnapAck)).
(* the relation admits the one deviation of the creation window *)
Definition admits_window (Rr : resp_rel) (allow : option (list id)) : Prop :=
  forall rq, is_served allow rq -> as_client rq <> None ->
    Rr rq (default_headers (encode RNoClient)) (default_headers (encode RSnapAck)).

Definition pok (Rr : resp_rel) (cfg : config) (allow : option (list id)) (G W : list id) (a : astore) (E : env) (rq : hreq)
  (ro : option hresp) (ph : phase) : Prop :=
  match ph with
  | PhStart => ~ usedp W (e_fresh E) /\ ro = None
  | PhCreate c p d => ~ usedp W (e_fresh E) /\ ro = None /\ avreq cfg allow G rq c p d
  | PhRetry c p d => ~ usedp W (e_fresh E) /\ ro = None /\ avreq cfg allow G rq c p d /\ a_cl a c <> None
  | PhAnswered r | PhDone r => exists r0, ro = Some r0 /\ Rr rq r0 r
  end.

Lemma pok_other (Rr : resp_rel) cfg allow G W W' a a' E rq ro ph :
  pok Rr cfg allow G W a E rq ro ph ->
  (forall c, a_cl a c <> None -> a_cl a' c <> None) ->
  (~ usedp W (e_fresh E) -> ~ usedp W' (e_fresh E)) ->
  pok Rr cfg allow G W' a' E rq ro ph.
Proof.
  intros Hp Hpres Hfr. destruct ph as [|c p d|c p d|r|r]; cbn [pok] in *.
  - destruct Hp as [H1 H2]. auto.
  - destruct Hp as (H1 & H2 & H3). auto.
  - destruct Hp as (H1 & H2 & H3 & H4). auto.
  - exact Hp.
  - exact Hp.
Qed.

Definition is_answered {B R} (t : tstate B R) : bool :=
  match t with TIdle _ (HRet _) | TDone _ => true | _ => false end.
Definition is_at_txn {B R} (t : tstate B R) : bool :=
  match t with TIdle _ (HTxn _ _ _) => true | _ => false end.

(* the order is extended by thread i when, after a step of its own, it is answered for the first time *)
Definition next_done {B R} (c' : sys B R) (i : nat) (done : list nat) : list nat :=
  if existsb (Nat.eqb i) done then done
  else match nth_error (th c') i with
       | Some t => if is_answered t then done ++ [i] else done
       | None => done
       end.

Fixpoint lin_order {B R} (c : sys B R) (sch : list nat) (done : list nat) : list nat :=
  match sch with
  | [] => done
  | i :: r => match cstep B R c i with
              | Some c' => lin_order c' r (next_done c' i done)
              | None => lin_order c r done
              end
  end.

(* no AddSnapshot transaction begins while its client exists but holds nothing (get_client
   answers a client with no latest version and no snapshot) — stated for any backend *)
Definition holds_nothing (B : backend) (d : b_st B) (c : id) : Prop :=
  fst (b_eff B _ EGetClient (b_begin B d c)) = Ok (Some (mkClient nil_id None)).
Definition wfree_at (B : backend) (reqs : list (env * hreq)) (c : sys B hresp) (i : nat) : Prop :=
  forall er cc t, nth_error reqs i = Some er -> as_client (snd er) = Some cc ->
    nth_error (th c) i = Some t -> is_at_txn t = true -> ~ holds_nothing B (db c) cc.
Fixpoint wfree (B : backend) (reqs : list (env * hreq)) (c : sys B hresp) (sch : list nat) : Prop :=
  match sch with
  | [] => True
  | i :: r => wfree_at B reqs c i /\
              wfree B reqs (match cstep B hresp c i with Some c' => c' | None => c end) r
  end.
Definition window_free_at := wfree_at AStoreB.

Lemma empty_holds_nothing a c : a_cl a c = Some empty_cs -> holds_nothing AStoreB a c.
Proof. intros H. unfold holds_nothing. cbn. rewrite H. reflexivity. Qed.

(* ---- what one whole request does to the stored versions ---- *)
Lemma hstep_vers cfg allow W a rq E c : cfg_ok cfg -> Inv W a -> hfresh_ok W rq E ->
  vers_a (snd (hstep_a cfg allow a rq E)) c =
  vers_a a c ++ accepted c (lib_of_req allow rq E) (fst (arun cfg a (lib_of_req allow rq E))).
Proof.
  intros Hcfg HI Hf. destruct (hstep_lib cfg allow W a rq E Hcfg HI Hf) as [Hs _]. rewrite Hs.
  assert (Hor : oracle_ok_from W (lib_of_req allow rq E)).
  { pose proof (lib_oracle allow [(rq, E)] W W (fun i H => H)) as Hl. cbn [lib_of horacle_ok_from] in Hl.
    rewrite app_nil_r in Hl. apply Hl. split; [exact Hf|exact I]. }
  apply (vers_hist cfg W a _ c HI Hor).
Qed.

Lemma hstep_vers_mono cfg allow W a rq E c v : cfg_ok cfg -> Inv W a -> hfresh_ok W rq E ->
  In v (vers_a a c) -> In v (vers_a (snd (hstep_a cfg allow a rq E)) c).
Proof. intros Hcfg HI Hf Hin. rewrite (hstep_vers cfg allow W a rq E c Hcfg HI Hf). apply in_app_iff. left. exact Hin. Qed.

(* an upload answered 200 is stored, with the id the generator supplied, the submitted parent and payload *)
Lemma hstep_av_200 cfg allow W a E cl p cs : cfg_ok cfg -> Inv W a ->
  let rq := mkReq MPost (PAddVersion (IdOk p)) (COk cl) CTHistory cs in
  hfresh_ok W rq E -> client_id_header allow (COk cl) = inl cl -> body_refused cs = false ->
  rs_status (fst (hstep_a cfg allow a rq E)) = 200 ->
  In (mkVersion (e_fresh E) p (body_of cs)) (vers_a (snd (hstep_a cfg allow a rq E)) cl).
Proof.
  intros Hcfg HI rq Hf Hc Hb Hst.
  rewrite (hstep_vers cfg allow W a rq E cl Hcfg HI Hf). apply in_app_iff. right.
  destruct (hstep_lib cfg allow W a rq E Hcfg HI Hf) as [_ Hr]. rewrite Hr in Hst. clear Hr.
  assert (Hl : lib_of_req allow rq E = [(OEnsure cl, Hist.noenv); (OAddVersion cl p (body_of cs), E)]).
  { unfold lib_of_req, rq. cbn [rq_cid rq_method rq_path rq_ctype rq_chunks]. rewrite Hc, Hb. reflexivity. }
  rewrite Hl in *. rewrite arun_cons in *. cbn [fst snd] in *.
  assert (Hok : a_ok a = true) by (destruct HI; assumption).
  rewrite ensure_step in * by exact Hok. cbn [fst snd] in *.
  set (a1 := match a_cl a cl with Some _ => a | None => a_set a cl (mkCS nil_id None []) (a_allids a) end) in *.
  assert (HI1 : Inv W a1).
  { pose proof (inv_ensure cfg W a cl E HI) as H. rewrite ensure_step in H by exact Hok. exact H. }
  assert (Hx : exists x, a_cl a1 cl = Some x).
  { unfold a1. destruct (a_cl a cl) as [x|] eqn:Hcl; [exists x; exact Hcl|]. eexists. rewrite a_set_lookup, N.eqb_refl. reflexivity. }
  destruct Hx as [x Hx].
  assert (Hfo : fresh_ok W (OAddVersion cl p (body_of cs)) E) by exact Hf.
  destruct (cas_step cfg W a1 cl x p (body_of cs) E HI1 Hx Hfo) as [Hacc Hrej].
  rewrite arun_one in *. cbn [fst snd accepted acc_of app] in *.
  destruct (classic_cas (a_vers x) p) as [Hyes|Hno].
  - rewrite (Hacc Hyes). cbn [fst acc_of]. rewrite N.eqb_refl. left. reflexivity.
  - exfalso. rewrite (Hrej Hno) in Hst. cbn in Hst. discriminate Hst.
Qed.

(* every upload the one-at-a-time run answered 200 is stored in the one-at-a-time store *)
Definition av_stored (allow : option (list id)) (reqs : list (env * hreq)) (rs : list (nat * hresp)) (a : astore) : Prop :=
  forall i E cl p cs r,
    nth_error reqs i = Some (E, mkReq MPost (PAddVersion (IdOk p)) (COk cl) CTHistory cs) ->
    client_id_header allow (COk cl) = inl cl -> body_refused cs = false ->
    resp_in hresp rs i = Some r -> rs_status r = 200 ->
    In (mkVersion (e_fresh E) p (body_of cs)) (vers_a a cl).

Definition linv (Rr : resp_rel) (cfg : config) (allow : option (list id)) (reqs : list (env * hreq)) (a0 : astore)
  (c : sys AStoreB hresp) (done : list nat) : Prop :=
  let sr := seq_run AStoreB hresp a0 (handlers cfg allow reqs) done in
  owner c = None /\ length (th c) = length reqs /\ NoDup done /\
  exists W phs, length phs = length reqs /\
    Inv W (db c) /\ Inv W (snd sr) /\ incl (all_mentioned reqs) W /\ ext (snd sr) (db c) /\
    (forall i er ph, nth_error reqs i = Some er -> nth_error phs i = Some ph ->
       nth_error (th c) i = Some (pstate cfg allow (fst er) (snd er) ph) /\
       pok Rr cfg allow (all_mentioned reqs) W (db c) (fst er) (snd er) (resp_in hresp (fst sr) i) ph) /\
    (forall cc, a_cl (snd sr) cc = None -> a_cl (db c) cc <> None ->
       exists j p d, nth_error phs j = Some (PhRetry cc p d)) /\
    av_stored allow reqs (fst sr) (snd sr).

Lemma nth_handlers cfg allow reqs i er : nth_error reqs i = Some er ->
  nth_error (handlers cfg allow reqs) i = Some (fst er, http_handler cfg allow (snd er)).
Proof. intros H. unfold handlers. rewrite nth_error_map, H. reflexivity. Qed.

Lemma resp_in_done B R d0 reqs done i eh : In i done -> nth_error reqs i = Some eh ->
  resp_in R (fst (seq_run B R d0 reqs done)) i <> None.
Proof.
  revert d0. induction done as [|j r IH]; intros d0 Hin Hi; [contradiction|]. cbn [seq_run].
  destruct (Nat.eq_dec j i) as [->|Hne].
  - rewrite Hi. destruct (run_req B R d0 eh) as [a d']. destruct (seq_run B R d' reqs r) as [l d''].
    cbn [fst]. unfold resp_in. cbn [find fst]. rewrite Nat.eqb_refl. discriminate.
  - destruct Hin as [Hin|Hin]; [contradiction|].
    destruct (nth_error reqs j) as [ej|]; [|apply IH; assumption].
    destruct (run_req B R d0 ej) as [a d']. specialize (IH d' Hin Hi).
    destruct (seq_run B R d' reqs r) as [l d'']. cbn [fst] in *. unfold resp_in in *. cbn [find fst].
    destruct (Nat.eqb_spec j i); [contradiction|exact IH].
Qed.

Lemma run_req_hstep cfg allow a E rq :
  run_req AStoreB hresp a (E, http_handler cfg allow rq) = hstep_a cfg allow a rq E.
Proof. reflexivity. Qed.

Lemma in_done_existsb i done : existsb (Nat.eqb i) done = true <-> In i done.
Proof.
  rewrite existsb_exists. split.
  - intros (x & Hx & He). apply Nat.eqb_eq in He. subst x. exact Hx.
  - intros H. exists i. split; [exact H|apply Nat.eqb_refl].
Qed.

Lemma next_done_complete {B R} (c' : sys B R) i done t : ~ In i done ->
  nth_error (th c') i = Some t -> is_answered t = true -> next_done c' i done = done ++ [i].
Proof.
  intros Hn Ht Ha. unfold next_done. destruct (existsb (Nat.eqb i) done) eqn:Ex.
  - apply in_done_existsb in Ex. contradiction.
  - rewrite Ht, Ha. reflexivity.
Qed.
Lemma next_done_in {B R} (c' : sys B R) i done : In i done -> next_done c' i done = done.
Proof. intros Hin. unfold next_done. apply in_done_existsb in Hin. rewrite Hin. reflexivity. Qed.
Lemma next_done_unanswered {B R} (c' : sys B R) i done t :
  nth_error (th c') i = Some t -> is_answered t = false -> next_done c' i done = done.
Proof. intros Ht Ha. unfold next_done. rewrite Ht, Ha. destruct (existsb (Nat.eqb i) done); reflexivity. Qed.

Lemma handler_shape' cfg allow rq :
  (exists r, http_handler cfg allow rq = HRet r) \/
  (exists X c (body : prog X) f, http_handler cfg allow rq = HTxn c body (fun r => HRet (f r))) \/
  (exists c p d, http_handler cfg allow rq = hmap dh (av_loop AV_FUEL cfg c p d) /\
                 rq_cid rq = COk c /\ rq_path rq = PAddVersion (IdOk p) /\ rq_method rq = MPost /\ is_served allow rq).
Proof.
  destruct (not_served_refused cfg allow rq) as [(st & Hst & [Hr|[Hr _]])|(Hsv & c & Hcid & Hc)].
  - left. unfold http_handler. rewrite Hr. eexists. reflexivity.
  - left. unfold http_handler. rewrite Hr. eexists. reflexivity.
  - assert (Hsd : is_served allow rq) by (split; [exact Hsv|eauto]).
    destruct Hsv as [c' p cs Hb|c' p ct cs|c' v cs Hb|c' ct cs]; cbn [rq_cid] in Hcid; inversion Hcid; subst c'.
    + right. right. exists c, p, (body_of cs). split; [|split; [reflexivity|split; [reflexivity|split; [reflexivity|exact Hsd]]]].
      unfold http_handler, route, h_add_version. cbn [rq_method rq_path rq_ctype rq_cid rq_chunks].
      rewrite Hc. unfold body_refused in Hb. rewrite read_body_total in *.
      destruct (N.ltb MAX_SIZE (total_len cs)); [discriminate|]. rewrite Hb. reflexivity.
    + right. left. unfold http_handler, route, h_get_child_version. cbn [rq_method rq_path rq_cid]. rewrite Hc.
      cbn [hmap]. eexists. eexists. eexists. eexists. reflexivity.
    + right. left. unfold http_handler, route, h_add_snapshot. cbn [rq_method rq_path rq_ctype rq_cid rq_chunks].
      rewrite Hc. unfold body_refused in Hb. rewrite read_body_total in *.
      destruct (N.ltb MAX_SIZE (total_len cs)); [discriminate|]. rewrite Hb.
      cbn [hmap]. eexists. eexists. eexists. eexists. reflexivity.
    + right. left. unfold http_handler, route, h_get_snapshot. cbn [rq_method rq_path rq_cid]. rewrite Hc.
      cbn [hmap]. eexists. eexists. eexists. eexists. reflexivity.
Qed.

Lemma served_at_txn cfg allow rq E : is_served allow rq ->
  is_at_txn (TIdle E (http_handler cfg allow rq) : tstate AStoreB hresp) = true.
Proof.
  intros [Hsv (c & Hcid & Hc)].
  destruct Hsv as [c' p cs Hb|c' p ct cs|c' v cs Hb|c' ct cs]; cbn [rq_cid] in Hcid; inversion Hcid; subst c'.
  - unfold http_handler, route, h_add_version. cbn [rq_method rq_path rq_ctype rq_cid rq_chunks].
    rewrite Hc. unfold body_refused in Hb. rewrite read_body_total in *.
    destruct (N.ltb MAX_SIZE (total_len cs)); [discriminate|]. rewrite Hb. reflexivity.
  - unfold http_handler, route, h_get_child_version. cbn [rq_method rq_path rq_cid]. rewrite Hc. reflexivity.
  - unfold http_handler, route, h_add_snapshot. cbn [rq_method rq_path rq_ctype rq_cid rq_chunks].
    rewrite Hc. unfold body_refused in Hb. rewrite read_body_total in *.
    destruct (N.ltb MAX_SIZE (total_len cs)); [discriminate|]. rewrite Hb. reflexivity.
  - unfold http_handler, route, h_get_snapshot. cbn [rq_method rq_path rq_cid]. rewrite Hc. reflexivity.
Qed.

Lemma usedp_cp W G c p f : ~ usedp W f -> In c G -> In p G -> ~ In f G -> ~ usedp ([c; p] ++ W) f.
Proof.
  intros Hf Hc Hp HfG [Hn|Hin]; [apply Hf; left; exact Hn|]. apply in_app_iff in Hin.
  destruct Hin as [[Heq|[Heq|[]]]|Hin]; [apply HfG; rewrite <- Heq; exact Hc|apply HfG; rewrite <- Heq; exact Hp|apply Hf; right; exact Hin].
Qed.

(* ---- one coarse step keeps the linearization invariant ---- *)
Lemma lin_step (Rr : resp_rel) cfg allow U0 reqs a0 c done i c' :
  (forall rq r, Rr rq r r) ->
  cfg_ok cfg -> fresh_distinct U0 reqs ->
  linv Rr cfg allow reqs a0 c done -> cstep AStoreB hresp c i = Some c' ->
  window_free_at reqs c i \/ admits_window Rr allow ->
  linv Rr cfg allow reqs a0 c' (next_done c' i done).
Proof.
  intros Hrefl Hcfg [Hnd Hfr] (Hown & Hlen & Hndd & W & phs & Hlp & HI & HI' & HG & He & Hth & Hex & Hsto) Hst Hwin.
  set (H := handlers cfg allow reqs) in *.
  set (G := all_mentioned reqs) in *.
  set (sr := seq_run AStoreB hresp a0 H done) in *.
  unfold cstep in Hst. destruct (nth_error (th c) i) as [t|] eqn:Hi; [|discriminate].
  assert (Hlt : (i < length reqs)%nat) by (rewrite <- Hlen; apply nth_error_Some; congruence).
  destruct (nth_error reqs i) as [er|] eqn:Hri; [|apply nth_error_None in Hri; lia].
  destruct (nth_error phs i) as [ph|] eqn:Hpi; [|apply nth_error_None in Hpi; lia].
  destruct (Hth i er ph Hri Hpi) as [Hti Hpk]. rewrite Hi in Hti. inversion Hti; subst t; clear Hti.
  destruct er as [E rq]. cbn [fst snd] in *.
  destruct (Hfr (E, rq) (nth_error_In _ _ Hri)) as (Hfnil & HfG & _). cbn [fst snd] in *.
  assert (HiH : nth_error H i = Some (E, http_handler cfg allow rq)) by (apply (nth_handlers cfg allow reqs i (E, rq) Hri)).
  (* other threads after the used-set grew by the ids of request i *)
  assert (Hothers : forall j ej, nth_error reqs j = Some ej -> i <> j ->
            ~ usedp W (e_fresh (fst ej)) -> ~ usedp (hused_step W rq E) (e_fresh (fst ej))).
  { intros j ej Hrj Hne Hgu [Hn0|Hin]; [apply Hgu; left; exact Hn0|].
    destruct (Hfr ej (nth_error_In _ _ Hrj)) as (_ & HjG & _).
    unfold hused_step in Hin. destruct Hin as [Hin|Hin].
    - apply (nodup_fresh_ne reqs i j (E, rq) ej Hnd Hri Hrj Hne). exact Hin.
    - apply in_app_iff in Hin. destruct Hin as [Hin|Hin]; [apply HjG; apply (hmentioned_in reqs i (E, rq) _ Hri Hin)|apply Hgu; right; exact Hin]. }
  (* (A) a step that does not complete the request *)
  assert (Hstutter : forall a1 ph',
            Inv W a1 -> ext (snd sr) a1 -> (forall c2, a_cl (db c) c2 <> None -> a_cl a1 c2 <> None) ->
            pok Rr cfg allow G W a1 E rq (resp_in hresp (fst sr) i) ph' ->
            (forall cc p d, ph <> PhRetry cc p d) ->
            (forall cc, a_cl (snd sr) cc = None -> a_cl a1 cc <> None -> a_cl (db c) cc <> None \/ exists p d, ph' = PhRetry cc p d) ->
            linv Rr cfg allow reqs a0 (@mkSys AStoreB hresp a1 None (upd (th c) i (pstate cfg allow E rq ph'))) done).
  { intros a1 ph' HI1 He1 Hpres Hpk' Hnr Hnew. unfold linv. fold H. fold sr. cbn [owner th db].
    split; [reflexivity|]. split; [rewrite len_upd; exact Hlen|]. split; [exact Hndd|].
    exists W, (upd phs i ph'). split; [rewrite len_upd; exact Hlp|]. split; [exact HI1|]. split; [exact HI'|].
    split; [exact HG|]. split; [exact He1|]. split; [|split; [|exact Hsto]].
    - intros j ej phj Hrj Hpj. destruct (Nat.eq_dec i j) as [Heq|Hne].
      + subst j. rewrite nth_upd_eq in Hpj by lia. inversion Hpj; subst phj.
        rewrite Hri in Hrj. inversion Hrj; subst ej. cbn [fst snd].
        split; [apply nth_upd_eq; lia|exact Hpk'].
      + rewrite nth_upd_ne in Hpj by exact Hne. rewrite nth_upd_ne by exact Hne.
        destruct (Hth j ej phj Hrj Hpj) as [Htj Hpj']. split; [exact Htj|].
        apply (pok_other Rr cfg allow G W W (db c) a1 _ _ _ _ Hpj' Hpres). auto.
    - intros cc Hn1 Hn2. destruct (Hnew cc Hn1 Hn2) as [Hold|(p & d & Hph)].
      + destruct (Hex cc Hn1 Hold) as (j & p & d & Hj). exists j, p, d.
        destruct (Nat.eq_dec i j) as [Heq|Hne]; [subst j; rewrite Hpi in Hj; inversion Hj; exfalso; eapply Hnr; eauto|].
        rewrite nth_upd_ne by exact Hne. exact Hj.
      + exists i, p, d. rewrite nth_upd_eq by lia. rewrite Hph. reflexivity. }
  (* (B) a step that completes the request: the whole request, as run from the coarse store *)
  assert (Hcomplete : forall ph',
            ~ usedp W (e_fresh E) -> resp_in hresp (fst sr) i = None ->
            (ph' = PhAnswered (fst (hstep_a cfg allow (db c) rq E)) \/ ph' = PhDone (fst (hstep_a cfg allow (db c) rq E))) ->
            (forall cc p d, ph = PhRetry cc p d -> av_client rq = Some cc /\ is_served allow rq) ->
            ((is_served allow rq -> forall cc, as_client rq = Some cc -> a_cl (db c) cc <> Some empty_cs) \/ admits_window Rr allow) ->
            linv Rr cfg allow reqs a0 (@mkSys AStoreB hresp (snd (hstep_a cfg allow (db c) rq E)) None
                                      (upd (th c) i (pstate cfg allow E rq ph'))) (done ++ [i])).
  { intros ph' Hf Hro Hph' Howner Hw.
    assert (Hfo : hfresh_ok W rq E).
    { unfold hfresh_ok. intros [Hn|Hin]; [contradiction|]. apply in_app_iff in Hin. destruct Hin as [Hin|Hin].
      - apply HfG. apply (hmentioned_in reqs i (E, rq) _ Hri Hin).
      - apply Hf. right. exact Hin. }
    destruct (hstep_reach cfg allow W (db c) rq E Hcfg HI Hfo) as (HIn & _ & _).
    destruct (hstep_reach cfg allow W (snd sr) rq E Hcfg HI' Hfo) as (HIn' & _ & _).
    destruct (hstep_ext_g cfg allow W (snd sr) (db c) rq E Hcfg HI' HI Hfo He) as (Hr0 & Hea & Hav).
    assert (Hr : Rr rq (fst (hstep_a cfg allow (snd sr) rq E)) (fst (hstep_a cfg allow (db c) rq E))).
    { destruct Hr0 as [Hr0|((Hsd & cw & Has & _ & Hemp) & Hr1 & Hr2)]; [rewrite Hr0; apply Hrefl|].
      destruct Hw as [Hw|Hw]; [exfalso; apply (Hw Hsd cw Has Hemp)|].
      rewrite Hr1, Hr2. apply Hw; [exact Hsd|congruence]. }
    assert (Hnin : ~ In i done).
    { intros Hin. apply (resp_in_done AStoreB hresp a0 H done i _ Hin HiH). exact Hro. }
    unfold linv. fold H. rewrite (seq_run_snoc AStoreB hresp a0 H done i _ HiH). fold sr.
    rewrite run_req_hstep. cbn [fst snd owner th db].
    split; [reflexivity|]. split; [rewrite len_upd; exact Hlen|]. split; [apply NoDup_snoc; assumption|].
    exists (hused_step W rq E), (upd phs i ph'). split; [rewrite len_upd; exact Hlp|].
    split; [exact HIn|]. split; [exact HIn'|].
    split; [intros x Hx; unfold hused_step; right; apply in_app_iff; right; apply HG; exact Hx|].
    split; [apply (ext_after_ext _ _ _ _ Hea)|]. split; [|split].
    - intros j ej phj Hrj Hpj. destruct (Nat.eq_dec i j) as [Heq|Hne].
      + subst j. rewrite nth_upd_eq in Hpj by lia. inversion Hpj; subst phj.
        rewrite Hri in Hrj. inversion Hrj; subst ej. cbn [fst snd].
        split; [apply nth_upd_eq; lia|].
        rewrite (resp_in_app_new hresp _ i _ Hro). destruct Hph' as [-> | ->]; cbn [pok]; eexists; (split; [reflexivity|exact Hr]).
      + rewrite nth_upd_ne in Hpj by exact Hne. rewrite nth_upd_ne by exact Hne.
        destruct (Hth j ej phj Hrj Hpj) as [Htj Hpj']. split; [exact Htj|].
        rewrite (resp_in_app_other hresp) by exact (not_eq_sym Hne).
        apply (pok_other Rr cfg allow G W (hused_step W rq E) (db c) _ _ _ _ _ Hpj').
        * intros c2 Hc2. apply (hstep_presence cfg allow W (db c) rq E c2 Hcfg HI Hfo Hc2).
        * apply (Hothers j ej Hrj Hne).
    - intros cc Hn1 Hn2. destruct (Hea cc) as [Heq|(H1 & H2 & H3 & H4)]; [exfalso; apply Hn2; rewrite <- Heq; exact Hn1|].
      assert (Hold : a_cl (db c) cc <> None) by congruence.
      destruct (Hex cc H1 Hold) as (j & p & d & Hj). exists j, p, d.
      destruct (Nat.eq_dec i j) as [Heqj|Hne]; [|rewrite nth_upd_ne by exact Hne; exact Hj].
      subst j. rewrite Hpi in Hj. inversion Hj as [Hphe].
      destruct (Howner cc p d Hphe) as [Hac Hsd]. specialize (Hav Hsd cc Hac). exfalso. apply Hn2. rewrite <- Hav. exact Hn1.
    - (* uploads answered 200 by the one-at-a-time run stay stored, and the new one is stored *)
      intros j Ej clj pj csj rj Hrj Hcj Hbj Hresp Hstj.
      destruct (Nat.eq_dec i j) as [Heqj|Hne].
      + subst j. rewrite Hri in Hrj. inversion Hrj; subst E rq.
        rewrite (resp_in_app_new hresp _ i _ Hro) in Hresp. inversion Hresp; subst rj.
        apply (hstep_av_200 cfg allow W (snd sr) Ej clj pj csj Hcfg HI' Hfo Hcj Hbj Hstj).
      + rewrite (resp_in_app_other hresp) in Hresp by exact (not_eq_sym Hne).
        apply (hstep_vers_mono cfg allow W (snd sr) rq E clj _ Hcfg HI' Hfo).
        apply (Hsto j Ej clj pj csj rj Hrj Hcj Hbj Hresp Hstj). }
  assert (Hin_done : forall r, resp_in hresp (fst sr) i = Some r -> In i done).
  { intros r Hr. destruct (in_dec Nat.eq_dec i done) as [Hin|Hnin]; [exact Hin|].
    pose proof (resp_in_not_done AStoreB hresp a0 H done i Hnin) as Hx. fold sr in Hx. congruence. }
  assert (Hnin_done : resp_in hresp (fst sr) i = None -> ~ In i done).
  { intros Hro Hin. apply (resp_in_done AStoreB hresp a0 H done i _ Hin HiH). exact Hro. }
  destruct ph as [|cc p d|cc p d|r|r]; cbn [pstate pok] in *.
  - (* the request has not started *)
    destruct Hpk as [Hf Hro].
    assert (Hw : (is_served allow rq -> forall c2, as_client rq = Some c2 -> a_cl (db c) c2 <> Some empty_cs) \/ admits_window Rr allow).
    { destruct Hwin as [Hwin|Hadm]; [left|right; exact Hadm].
      intros Hsd c2 Hc2 Hemp. apply (Hwin (E, rq) c2 _ Hri Hc2 Hi); [apply served_at_txn; exact Hsd|].
      apply empty_holds_nothing. exact Hemp. }
    assert (Hnr : forall c2 p2 d2, PhStart = PhRetry c2 p2 d2 -> av_client rq = Some c2 /\ is_served allow rq)
      by (intros c2 p2 d2 Hx; discriminate Hx).
    destruct (handler_shape' cfg allow rq) as [[r Hh]|[(X & cc & body & f & Hh)|(cc & p & d & Hh & Hcid & Hpath & Hmeth & Hsd)]];
      rewrite Hh in Hst.
    + (* answered without any transaction *)
      inversion Hst; subst c'; clear Hst.
      assert (Hs : hstep_a cfg allow (db c) rq E = (r, db c)).
      { unfold hstep_a, http_step. cbn [fst snd]. rewrite Hh. reflexivity. }
      pose proof (Hcomplete (PhDone r) Hf Hro) as Hc. rewrite Hs in Hc. cbn [fst snd pstate] in Hc.
      rewrite (next_done_complete _ i done (TDone r) (Hnin_done Hro)); [|cbn [th]; apply nth_upd_eq; apply nth_error_Some; congruence|reflexivity].
      apply Hc; auto.
    + (* a single-transaction request: the coarse step is the whole request *)
      pose proof (single_txn_run X E cc body f (db c)) as Hrun.
      change (b_begin AStoreB (db c) cc) with (a_begin (db c) cc) in Hst.
      destruct (finish AStoreB E (a_begin (db c) cc) body) as [r w] eqn:Hfin.
      inversion Hst; subst c'; clear Hst. change (b_end AStoreB w) with (a_end w).
      assert (Hs : hstep_a cfg allow (db c) rq E = (f r, a_end w)).
      { unfold hstep_a, http_step. cbn [fst snd]. rewrite Hh. exact Hrun. }
      pose proof (Hcomplete (PhAnswered (f r)) Hf Hro) as Hc. rewrite Hs in Hc. cbn [fst snd pstate] in Hc.
      rewrite (next_done_complete _ i done (TIdle E (HRet (f r))) (Hnin_done Hro)); [|cbn [th]; apply nth_upd_eq; apply nth_error_Some; congruence|reflexivity].
      apply Hc; auto.
    + (* add-version: first transaction *)
      assert (Hc : In cc G) by (apply (hmentioned_in reqs i (E, rq) _ Hri); unfold hmentioned; cbn [snd]; rewrite Hcid, Hpath; cbn; auto).
      assert (Hp : In p G) by (apply (hmentioned_in reqs i (E, rq) _ Hri); unfold hmentioned; cbn [snd]; rewrite Hcid, Hpath; cbn; auto).
      assert (Hf2 := usedp_cp W G cc p (e_fresh E) Hf Hc Hp HfG).
      assert (Havr : avreq cfg allow G rq cc p d).
      { split; [exact Hc|]. split; [exact Hp|]. split; [exact Hh|]. split; [|split; [|exact Hsd]].
        - unfold as_client. rewrite Hmeth, Hpath. reflexivity.
        - unfold av_client. rewrite Hmeth, Hpath, Hcid. reflexivity. }
      change AV_FUEL with 2%nat in Hst. rewrite av_loop_unfold' in Hst.
      change (b_begin AStoreB (db c) cc) with (a_begin (db c) cc) in Hst.
      destruct (a_cl (db c) cc) as [x|] eqn:Hcl.
      * (* the client exists: this transaction is the whole request *)
        assert (Hpres : a_cl (db c) cc <> None) by congruence.
        destruct (av_present cfg allow W (db c) rq E cc p d Hcfg HI Hf2 Hh Hpres 1%nat) as [Hk Hs].
        destruct (finish AStoreB E (a_begin (db c) cc) (p_add_version cfg p d)) as [r w] eqn:Hfin. cbn [fst snd] in Hk, Hs.
        inversion Hst; subst c'; clear Hst. change (b_end AStoreB w) with (a_end w). rewrite Hk, Hs.
        pose proof (Hcomplete (PhAnswered (fst (hstep_a cfg allow (db c) rq E))) Hf Hro) as Hcm. cbn [pstate] in Hcm.
        rewrite (next_done_complete _ i done (TIdle E (HRet (fst (hstep_a cfg allow (db c) rq E)))) (Hnin_done Hro));
          [|cbn [th]; apply nth_upd_eq; apply nth_error_Some; congruence|reflexivity].
        apply Hcm; auto.
      * (* never seen: nothing changes, the handler goes on to create the client *)
        destruct (av_absent cfg W (db c) cc p d E 1%nat Hcfg HI Hf2 Hcl) as [Hk Hs].
        destruct (finish AStoreB E (a_begin (db c) cc) (p_add_version cfg p d)) as [r w] eqn:Hfin. cbn [fst snd] in Hk, Hs.
        inversion Hst; subst c'; clear Hst. change (b_end AStoreB w) with (a_end w). rewrite Hk, Hs.
        rewrite (next_done_unanswered _ i done (TIdle E (hmap dh (ensure_node 1 cfg cc p d))));
          [|cbn [th]; apply nth_upd_eq; apply nth_error_Some; congruence|reflexivity].
        apply (Hstutter (db c) (PhCreate cc p d)); auto.
        -- cbn [pok]. auto.
        -- intros c2 p2 d2 Hx. discriminate Hx.
  - (* about to create the client *)
    destruct Hpk as (Hf & Hro & Havr).
    cbn [ensure_node hmap] in Hst.
    change (b_begin AStoreB (db c) cc) with (a_begin (db c) cc) in Hst.
    destruct (ensure_result cfg W (db c) cc E HI) as [Hr Hs].
    destruct (finish AStoreB E (a_begin (db c) cc) p_ensure) as [r w] eqn:Hfin. cbn [fst snd] in Hr, Hs. subst r.
    inversion Hst; subst c'; clear Hst. change (b_end AStoreB w) with (a_end w). rewrite Hs.
    rewrite (next_done_unanswered _ i done (TIdle E (hmap dh (av_loop 1 cfg cc p d))));
      [|cbn [th]; apply nth_upd_eq; apply nth_error_Some; congruence|reflexivity].
    apply (Hstutter (ensured (db c) cc) (PhRetry cc p d)).
    + apply inv_ensured. exact HI.
    + apply ext_ensure_r. exact He.
    + intros c2 Hc2. rewrite ensured_lookup. destruct (N.eqb c2 cc); [destruct (a_cl (db c) cc); discriminate|exact Hc2].
    + cbn [pok]. split; [exact Hf|]. split; [exact Hro|]. split; [exact Havr|].
      rewrite ensured_lookup, N.eqb_refl. destruct (a_cl (db c) cc); discriminate.
    + intros c2 p2 d2 Hx. discriminate Hx.
    + intros c2 Hn1 Hn2. rewrite ensured_lookup in Hn2. destruct (N.eqb_spec c2 cc) as [Heq|Hne].
      * right. subst c2. eauto.
      * left. exact Hn2.
  - (* retry after creating the client: this transaction is the whole request *)
    destruct Hpk as (Hf & Hro & Havr & Hpres).
    destruct Havr as (Hc & Hp & Hh & Has & Hac & Hsd).
    assert (Hf2 := usedp_cp W G cc p (e_fresh E) Hf Hc Hp HfG).
    rewrite av_loop_unfold' in Hst.
    change (b_begin AStoreB (db c) cc) with (a_begin (db c) cc) in Hst.
    destruct (av_present cfg allow W (db c) rq E cc p d Hcfg HI Hf2 Hh Hpres 0%nat) as [Hk Hs].
    destruct (finish AStoreB E (a_begin (db c) cc) (p_add_version cfg p d)) as [r w] eqn:Hfin. cbn [fst snd] in Hk, Hs.
    inversion Hst; subst c'; clear Hst. change (b_end AStoreB w) with (a_end w). rewrite Hk, Hs.
    pose proof (Hcomplete (PhAnswered (fst (hstep_a cfg allow (db c) rq E))) Hf Hro) as Hcm. cbn [pstate] in Hcm.
    rewrite (next_done_complete _ i done (TIdle E (HRet (fst (hstep_a cfg allow (db c) rq E)))) (Hnin_done Hro));
      [|cbn [th]; apply nth_upd_eq; apply nth_error_Some; congruence|reflexivity].
    apply Hcm; auto.
    + intros c2 p2 d2 Hx. inversion Hx; subst. auto.
    + left. intros _ c2 Hc2. rewrite Has in Hc2. discriminate Hc2.
  - (* answered: the thread retires *)
    inversion Hst; subst c'; clear Hst.
    destruct Hpk as (r0 & Hr0 & HRr).
    assert (Hpk : exists r0, resp_in hresp (fst sr) i = Some r0 /\ Rr rq r0 r) by eauto.
    rewrite (next_done_in _ i done (Hin_done r0 Hr0)).
    apply (Hstutter (db c) (PhDone r)); auto.
    + intros c2 p2 d2 Hx. discriminate Hx.
  - discriminate Hst.
Qed.

(* ---- every coarse run from a store satisfying the invariant ---- *)
Lemma lin_init (Rr : resp_rel) cfg allow U0 a0 reqs : Inv U0 a0 -> fresh_distinct U0 reqs ->
  linv Rr cfg allow reqs a0 (init_sys AStoreB hresp a0 (handlers cfg allow reqs)) [].
Proof.
  intros HI [Hnd Hfr]. unfold linv. cbn [seq_run fst snd owner db th init_sys].
  split; [reflexivity|]. split; [unfold handlers; rewrite !map_length; reflexivity|]. split; [constructor|].
  assert (HIW : Inv (all_mentioned reqs ++ U0) a0) by (eapply Inv_mono; [|exact HI]; intros x Hx; apply in_app_iff; auto).
  exists (all_mentioned reqs ++ U0), (map (fun _ => PhStart) reqs).
  split; [apply map_length|]. split; [exact HIW|]. split; [exact HIW|].
  split; [intros x Hx; apply in_app_iff; auto|]. split; [apply ext_refl|]. split; [|split].
  - intros i er ph Hri Hpi. rewrite nth_error_map, Hri in Hpi. cbn in Hpi. inversion Hpi; subst ph.
    unfold handlers. rewrite !nth_error_map, Hri. cbn [option_map fst snd pstate pok]. split; [reflexivity|].
    split; [|reflexivity].
    destruct (Hfr er (nth_error_In _ _ Hri)) as (Hn & HG & HU).
    intros [Hx|Hx]; [contradiction|]. apply in_app_iff in Hx. tauto.
  - intros cc H1 H2. contradiction.
  - intros i E cl p cs r _ _ _ Hr _. discriminate Hr.
Qed.

Lemma lin_run (Rr : resp_rel) cfg allow U0 reqs a0 sch : (forall rq r, Rr rq r r) -> cfg_ok cfg -> fresh_distinct U0 reqs ->
  forall c done, linv Rr cfg allow reqs a0 c done -> wfree AStoreB reqs c sch \/ admits_window Rr allow ->
  linv Rr cfg allow reqs a0 (crun AStoreB hresp c sch) (lin_order c sch done).
Proof.
  intros Hrefl Hcfg Hfd. induction sch as [|i sch IH]; intros c done Hl Hw; cbn [crun lin_order]; [exact Hl|].
  assert (Hw1 : window_free_at reqs c i \/ admits_window Rr allow).
  { destruct Hw as [Hw|Hw]; [left; cbn [wfree] in Hw; destruct Hw as [Hw _]; exact Hw|right; exact Hw]. }
  destruct (cstep AStoreB hresp c i) as [c'|] eqn:Hst.
  - apply IH.
    + apply (lin_step Rr cfg allow U0 reqs a0 c done i c' Hrefl Hcfg Hfd Hl Hst Hw1).
    + destruct Hw as [Hw|Hw]; [left; cbn [wfree] in Hw; rewrite Hst in Hw; destruct Hw as [_ Hw]; exact Hw|right; exact Hw].
  - apply IH; [exact Hl|].
    destruct Hw as [Hw|Hw]; [left; cbn [wfree] in Hw; rewrite Hst in Hw; destruct Hw as [_ Hw]; exact Hw|right; exact Hw].
Qed.

(* what the invariant says to a reader *)
Definition all_done {B R} (c : sys B R) : Prop := forall i t, nth_error (th c) i = Some t -> exists r, t = TDone r.

Lemma linv_reading (Rr : resp_rel) cfg allow reqs a0 c done : linv Rr cfg allow reqs a0 c done ->
  let sr := seq_run AStoreB hresp a0 (handlers cfg allow reqs) done in
  NoDup done /\
  (forall i r, nth_error (th c) i = Some (TDone r) ->
     In i done /\ exists er r0, nth_error reqs i = Some er /\ resp_in hresp (fst sr) i = Some r0 /\ Rr (snd er) r0 r) /\
  ext (snd sr) (db c) /\ a_ok (snd sr) = true /\ a_ok (db c) = true /\
  (all_done c -> forall cc, a_cl (snd sr) cc = a_cl (db c) cc).
Proof.
  intros (Hown & Hlen & Hnd & W & phs & Hlp & HI & HI' & HG & He & Hth & Hex & Hsto). cbv zeta.
  set (sr := seq_run AStoreB hresp a0 (handlers cfg allow reqs) done) in *.
  split; [exact Hnd|]. split; [|split; [exact He|split; [destruct HI'; assumption|split; [destruct HI; assumption|]]]].
  - intros i r Hi.
    assert (Hlt : (i < length reqs)%nat) by (rewrite <- Hlen; apply nth_error_Some; congruence).
    destruct (nth_error reqs i) as [er|] eqn:Hri; [|apply nth_error_None in Hri; lia].
    destruct (nth_error phs i) as [ph|] eqn:Hpi; [|apply nth_error_None in Hpi; lia].
    destruct (Hth i er ph Hri Hpi) as [Hti Hpk]. rewrite Hi in Hti.
    destruct ph as [|cc p d|cc p d|r'|r']; cbn [pstate] in Hti; inversion Hti; subst r'. cbn [pok] in Hpk.
    destruct Hpk as (r0 & Hr0 & HRr).
    split; [|exists er, r0; auto].
    destruct (in_dec Nat.eq_dec i done) as [Hin|Hnin]; [exact Hin|].
    pose proof (resp_in_not_done AStoreB hresp a0 (handlers cfg allow reqs) done i Hnin) as Hx. fold sr in Hx. congruence.
  - intros Hall cc. destruct (He cc) as [Heq|[H1 H2]]; [exact Heq|]. exfalso.
    assert (Hne : a_cl (db c) cc <> None) by congruence.
    destruct (Hex cc H1 Hne) as (j & p & d & Hj).
    assert (Hlt : (j < length reqs)%nat) by (rewrite <- Hlp; apply nth_error_Some; congruence).
    destruct (nth_error reqs j) as [er|] eqn:Hrj; [|apply nth_error_None in Hrj; lia].
    destruct (Hth j er _ Hrj Hj) as [Htj _]. destruct (Hall j _ Htj) as [r Hr]. cbn [pstate] in Hr. discriminate Hr.
Qed.

(* LINEARIZABILITY on the abstract store, at the granularity of whole transactions *)
Theorem lin_abstract (Rr : resp_rel) cfg allow U0 a0 reqs sch : (forall rq r, Rr rq r r) -> cfg_ok cfg -> Inv U0 a0 -> fresh_distinct U0 reqs ->
  let c0 := init_sys AStoreB hresp a0 (handlers cfg allow reqs) in
  wfree AStoreB reqs c0 sch \/ admits_window Rr allow ->
  linv Rr cfg allow reqs a0 (crun AStoreB hresp c0 sch) (lin_order c0 sch []).
Proof.
  intros Hrefl Hcfg HI Hfd c0 Hw. apply (lin_run Rr cfg allow U0 reqs a0 sch Hrefl Hcfg Hfd); [|exact Hw].
  apply (lin_init Rr cfg allow U0 a0 reqs HI Hfd).
Qed.

(* ---- the order respects real time ---- *)
Section Order.
  Variable B : backend.
  Variable R : Type.
  Local Notation sys := (sys B R).

  Lemma next_done_ext (c' : sys) i done : exists l, next_done c' i done = done ++ l /\ (forall j, In j l -> j = i).
  Proof.
    unfold next_done. destruct (existsb (Nat.eqb i) done).
    - exists []. rewrite app_nil_r. split; [reflexivity|intros j []].
    - destruct (nth_error (th c') i) as [t|].
      + destruct (is_answered t).
        * exists [i]. split; [reflexivity|]. intros j [Hj|[]]. auto.
        * exists []. rewrite app_nil_r. split; [reflexivity|intros j []].
      + exists []. rewrite app_nil_r. split; [reflexivity|intros j []].
  Qed.

  (* the order only grows, and only by threads that are scheduled *)
  Lemma lin_order_ext sch : forall (c : sys) done,
    exists l, lin_order c sch done = done ++ l /\ (forall j, In j l -> In j sch).
  Proof.
    induction sch as [|i sch IH]; intros c done; cbn [lin_order].
    - exists []. rewrite app_nil_r. split; [reflexivity|intros j []].
    - destruct (cstep B R c i) as [c'|].
      + destruct (next_done_ext c' i done) as (l1 & H1 & H1i). destruct (IH c' (next_done c' i done)) as (l2 & H2 & H2i).
        exists (l1 ++ l2). rewrite H2, H1, app_assoc. split; [reflexivity|].
        intros j Hj. apply in_app_iff in Hj. destruct Hj as [Hj|Hj]; [left; symmetry; apply H1i; exact Hj|right; apply H2i; exact Hj].
      + destruct (IH c done) as (l & H1 & H2). exists l. split; [exact H1|]. intros j Hj. right. apply H2. exact Hj.
  Qed.

  Lemma lin_order_app sch1 sch2 : forall (c : sys) done,
    lin_order c (sch1 ++ sch2) done = lin_order (crun B R c sch1) sch2 (lin_order c sch1 done).
  Proof.
    induction sch1 as [|i sch1 IH]; intros c done; cbn [app lin_order crun]; [reflexivity|].
    destruct (cstep B R c i) as [c'|]; apply IH.
  Qed.

  (* a finished thread is in the order *)
  Definition done_in (c : sys) (done : list nat) : Prop :=
    forall i r, nth_error (th c) i = Some (TDone r) -> In i done.

  Lemma cstep_done_in (c c' : sys) i done : done_in c done -> cstep B R c i = Some c' -> done_in c' (next_done c' i done).
  Proof.
    intros Hd Hst j r Hj.
    destruct (next_done_ext c' i done) as (l & Hl & _).
    destruct (Nat.eq_dec i j) as [Heq|Hne].
    - subst j. unfold next_done. destruct (existsb (Nat.eqb i) done) eqn:Ex; [apply in_done_existsb; exact Ex|].
      rewrite Hj. cbn [is_answered]. apply in_app_iff. right. left. reflexivity.
    - rewrite Hl. apply in_app_iff. left. apply (Hd j r).
      unfold cstep in Hst. destruct (nth_error (th c) i) as [[E [r0|X c0 body k]| |]|]; try discriminate.
      + inversion Hst; subst c'. cbn [th] in Hj. rewrite nth_upd_ne in Hj by exact Hne. exact Hj.
      + destruct (finish B E (b_begin B (db c) c0) body) as [r0 w]. inversion Hst; subst c'. cbn [th] in Hj.
        rewrite nth_upd_ne in Hj by exact Hne. exact Hj.
  Qed.

  Lemma crun_done_in sch : forall (c : sys) done, done_in c done -> done_in (crun B R c sch) (lin_order c sch done).
  Proof.
    induction sch as [|i sch IH]; intros c done Hd; cbn [crun lin_order]; [exact Hd|].
    destruct (cstep B R c i) as [c'|] eqn:Hst; [|apply IH; exact Hd].
    apply IH. apply (cstep_done_in c c' i done Hd Hst).
  Qed.

  (* REAL-TIME ORDER: if request i has finished (its thread has retired) at a point of the
     schedule up to which request j has not taken a single step, then i comes before j in the
     linearization order of every continuation of the schedule *)
  Theorem lin_order_real_time d reqs sch1 sch2 i j r :
    let c0 := init_sys B R d reqs in
    nth_error (th (crun B R c0 sch1)) i = Some (TDone r) -> ~ In j sch1 ->
    exists l1 l2, lin_order c0 (sch1 ++ sch2) [] = l1 ++ l2 /\ In i l1 /\ ~ In j l1.
  Proof.
    intros c0 Hi Hj. rewrite lin_order_app.
    destruct (lin_order_ext sch2 (crun B R c0 sch1) (lin_order c0 sch1 [])) as (l2 & H2 & _).
    exists (lin_order c0 sch1 []), l2. split; [exact H2|]. split.
    - apply (crun_done_in sch1 c0 []) with (r := r); [|exact Hi].
      intros k rk Hk. unfold c0, init_sys in Hk. cbn [th] in Hk. rewrite nth_error_map in Hk.
      destruct (nth_error reqs k); cbn in Hk; inversion Hk.
    - destruct (lin_order_ext sch1 c0 []) as (l1 & H1 & H1i). rewrite H1. cbn [app]. intros Hin. apply Hj. apply H1i. exact Hin.
  Qed.
End Order.

(* ---- transport to a concrete backend ---- *)
Section LinSim.
  Variable B : backend.
  Variable Rs : astore -> b_st B -> Prop.
  Variable Rw : a_ws -> b_ws B -> Prop.
  Hypothesis begin_sim : forall a s c, a_ok a = true -> Rs a s -> Rw (a_begin a c) (b_begin B s c).
  Hypothesis eff_sim : forall X (e : seff X) aw w, Rw aw w -> okW (snd (a_eff e aw)) ->
    fst (b_eff B X e w) = fst (a_eff e aw) /\ Rw (snd (a_eff e aw)) (snd (b_eff B X e w)).
  Hypothesis end_sim : forall aw w, Rw aw w -> a_ok (a_end aw) = true -> Rs (a_end aw) (b_end B w).
  Local Notation srel := (srel B Rs hresp).
  Local Notation trel := (trel B hresp).

  Lemma holds_nothing_sim a s c : a_ok a = true -> Rs a s -> holds_nothing AStoreB a c -> holds_nothing B s c.
  Proof.
    intros Hok HR. unfold holds_nothing.
    destruct (eff_sim _ EGetClient (a_begin a c) (b_begin B s c) (begin_sim a s c Hok HR)) as [Hf _]; [exact Hok|].
    change (b_begin AStoreB a c) with (a_begin a c). change (b_eff AStoreB (option client) EGetClient) with (@a_eff (option client) EGetClient).
    rewrite Hf. auto.
  Qed.

  Lemma trel_at_txn ta tb : trel ta tb -> is_at_txn ta = is_at_txn tb /\ is_answered ta = is_answered tb.
  Proof. intros [E h|r]; split; reflexivity. Qed.

  Lemma wfree_at_sim reqs ca cb i : srel ca cb -> a_ok (db ca) = true -> wfree_at B reqs cb i -> wfree_at AStoreB reqs ca i.
  Proof.
    intros [Hdb Hth] Hok Hw er cc t Hri Has Ht Hat Hn.
    pose proof (forall2_nth trel _ _ i Hth) as Hnth. rewrite Ht in Hnth.
    destruct (nth_error (th cb) i) as [tb|] eqn:Htb; [|contradiction].
    destruct (trel_at_txn _ _ Hnth) as [Ha _].
    apply (Hw er cc tb Hri Has Htb); [congruence|].
    apply (holds_nothing_sim (db ca) (db cb) cc Hok Hdb Hn).
  Qed.

  Lemma wfree_sim reqs sch : forall ca cb, srel ca cb -> a_ok (db (crun AStoreB hresp ca sch)) = true ->
    wfree B reqs cb sch -> wfree AStoreB reqs ca sch.
  Proof.
    induction sch as [|i sch IH]; intros ca cb Hrel Hok Hw; cbn [wfree crun] in *; [exact I|].
    destruct Hw as [Hw1 Hw2].
    pose proof (cstep_sim B Rs Rw begin_sim eff_sim end_sim hresp ca cb i Hrel) as Hs.
    destruct (cstep AStoreB hresp ca i) as [ca'|] eqn:Hst.
    - assert (Hok' : a_ok (db ca') = true) by (apply (crun_ok_sticky hresp sch); exact Hok).
      assert (Hok0 : a_ok (db ca) = true) by (apply (cstep_ok_sticky hresp ca ca' i Hst Hok')).
      destruct (Hs Hok0 Hok') as (cb' & Hcb & Hrel'). rewrite Hcb in Hw2.
      split; [apply (wfree_at_sim reqs ca cb i Hrel Hok0 Hw1)|apply (IH ca' cb' Hrel' Hok Hw2)].
    - assert (Hok0 : a_ok (db ca) = true) by (apply (crun_ok_sticky hresp sch ca Hok)).
      rewrite (Hs Hok0) in Hw2.
      split; [apply (wfree_at_sim reqs ca cb i Hrel Hok0 Hw1)|apply (IH ca cb Hrel Hok Hw2)].
  Qed.

  Lemma next_done_sim (ca : sys AStoreB hresp) (cb : sys B hresp) i done : srel ca cb -> next_done cb i done = next_done ca i done.
  Proof.
    intros [_ Hth]. unfold next_done. destruct (existsb (Nat.eqb i) done); [reflexivity|].
    pose proof (forall2_nth trel _ _ i Hth) as Hnth.
    destruct (nth_error (th ca) i) as [ta|]; destruct (nth_error (th cb) i) as [tb|]; try contradiction; [|reflexivity].
    destruct (trel_at_txn _ _ Hnth) as [_ Ha]. rewrite Ha. reflexivity.
  Qed.

  Lemma lin_order_sim sch : forall ca cb done, srel ca cb -> a_ok (db (crun AStoreB hresp ca sch)) = true ->
    lin_order cb sch done = lin_order ca sch done.
  Proof.
    induction sch as [|i sch IH]; intros ca cb done Hrel Hok; cbn [lin_order crun] in *; [reflexivity|].
    pose proof (cstep_sim B Rs Rw begin_sim eff_sim end_sim hresp ca cb i Hrel) as Hs.
    destruct (cstep AStoreB hresp ca i) as [ca'|] eqn:Hst.
    - assert (Hok' : a_ok (db ca') = true) by (apply (crun_ok_sticky hresp sch); exact Hok).
      assert (Hok0 : a_ok (db ca) = true) by (apply (cstep_ok_sticky hresp ca ca' i Hst Hok')).
      destruct (Hs Hok0 Hok') as (cb' & Hcb & Hrel'). rewrite Hcb.
      rewrite (next_done_sim ca' cb' i done Hrel'). apply (IH ca' cb' _ Hrel' Hok).
    - assert (Hok0 : a_ok (db ca) = true) by (apply (crun_ok_sticky hresp sch ca Hok)).
      rewrite (Hs Hok0). apply (IH ca cb _ Hrel Hok).
  Qed.

  Lemma seq_run_ok_sticky H order : forall a, a_ok (snd (seq_run AStoreB hresp a H order)) = true -> a_ok a = true.
  Proof.
    induction order as [|i r IH]; intros a Hok; cbn [seq_run] in Hok; [exact Hok|].
    destruct (nth_error H i) as [eh|]; [|apply IH; exact Hok].
    unfold run_req in Hok.
    destruct (run_hprog AStoreB (fst eh) (snd eh) a) as [[x a1] t] eqn:Hrun. cbn [fst] in Hok.
    destruct (seq_run AStoreB hresp a1 H r) as [l a2] eqn:Hsr. cbn [snd] in Hok.
    pose proof (run_hprog_sticky _ (fst eh) (snd eh) a) as Hst. rewrite Hrun in Hst. cbn [fst snd] in Hst.
    apply Hst. apply IH. rewrite Hsr. exact Hok.
  Qed.

  Lemma seq_run_sim H order : forall a d, Rs a d -> a_ok (snd (seq_run AStoreB hresp a H order)) = true ->
    fst (seq_run B hresp d H order) = fst (seq_run AStoreB hresp a H order) /\
    Rs (snd (seq_run AStoreB hresp a H order)) (snd (seq_run B hresp d H order)).
  Proof.
    induction order as [|i r IH]; intros a d HR Hok; cbn [seq_run] in *; [auto|].
    destruct (nth_error H i) as [eh|]; [|apply IH; assumption].
    unfold run_req in *.
    pose proof (run_hprog_sim B Rs Rw begin_sim eff_sim end_sim _ (fst eh) (snd eh) a d HR) as Hsim.
    destruct (run_hprog AStoreB (fst eh) (snd eh) a) as [[x a1] t] eqn:Hra.
    destruct (run_hprog B (fst eh) (snd eh) d) as [[x' d1] t'] eqn:Hrb. cbn [fst snd] in *.
    assert (Hok1 : a_ok a1 = true).
    { apply (seq_run_ok_sticky H r). destruct (seq_run AStoreB hresp a1 H r); exact Hok. }
    destruct (Hsim Hok1) as (H1 & _ & H3). subst x'.
    specialize (IH a1 d1 H3).
    destruct (seq_run AStoreB hresp a1 H r) as [l a2]. destruct (seq_run B hresp d1 H r) as [l' d2]. cbn [fst snd] in *.
    destruct (IH Hok) as [I1 I2]. subst l'. auto.
  Qed.
End LinSim.

(* ---- the concrete backends ---- *)
From TSS Require Import InMem Sqlite proofs.RefineSqlite proofs.RefineInMem proofs.Agree.

Lemma bk_wfree_sim k reqs sch (ca : sys AStoreB hresp) (cb : sys (bk_backend k) hresp) :
  (bk_rel k (db ca) (db cb) /\ Forall2 (trel (bk_backend k) hresp) (th ca) (th cb)) ->
  a_ok (db (crun AStoreB hresp ca sch)) = true ->
  wfree (bk_backend k) reqs cb sch -> wfree AStoreB reqs ca sch.
Proof.
  destruct k; cbn [bk_rel bk_backend].
  - apply (wfree_sim InMemB Rs_im Rw_im im_begin_sim im_eff_sim im_end_sim reqs sch ca cb).
  - apply (wfree_sim SqliteB Rs_sq Rw_sq sq_begin_sim sq_eff_sim sq_end_sim reqs sch ca cb).
Qed.
Lemma bk_lin_order_sim k sch (ca : sys AStoreB hresp) (cb : sys (bk_backend k) hresp) done :
  (bk_rel k (db ca) (db cb) /\ Forall2 (trel (bk_backend k) hresp) (th ca) (th cb)) ->
  a_ok (db (crun AStoreB hresp ca sch)) = true ->
  lin_order cb sch done = lin_order ca sch done.
Proof.
  destruct k; cbn [bk_rel bk_backend].
  - apply (lin_order_sim InMemB Rs_im Rw_im im_begin_sim im_eff_sim im_end_sim sch ca cb done).
  - apply (lin_order_sim SqliteB Rs_sq Rw_sq sq_begin_sim sq_eff_sim sq_end_sim sch ca cb done).
Qed.
Lemma bk_seq_run_sim k H order a (d : b_st (bk_backend k)) : bk_rel k a d ->
  a_ok (snd (seq_run AStoreB hresp a H order)) = true ->
  fst (seq_run (bk_backend k) hresp d H order) = fst (seq_run AStoreB hresp a H order) /\
  bk_rel k (snd (seq_run AStoreB hresp a H order)) (snd (seq_run (bk_backend k) hresp d H order)).
Proof.
  destruct k; cbn [bk_rel bk_backend].
  - apply (seq_run_sim InMemB Rs_im Rw_im im_begin_sim im_eff_sim im_end_sim H order a d).
  - apply (seq_run_sim SqliteB Rs_sq Rw_sq sq_begin_sim sq_eff_sim sq_end_sim H order a d).
Qed.

(* what "behaves as if executed one at a time, in the order `order`" means *)
Definition linearized (k : bk) (cfg : config) (allow : option (list id)) (reqs : list (env * hreq))
  (d0 : b_st (bk_backend k)) (c : sys (bk_backend k) hresp) (order : list nat) : Prop :=
  let sr := seq_run (bk_backend k) hresp d0 (handlers cfg allow reqs) order in
  NoDup order /\
  (forall i r, nth_error (th c) i = Some (TDone r) -> In i order /\ resp_in hresp (fst sr) i = Some r) /\
  exists a' a, bk_rel k a' (snd sr) /\ bk_rel k a (db c) /\ a_ok a' = true /\ a_ok a = true /\ ext a' a /\
    (all_done c -> forall cc, a_cl a' cc = a_cl a cc).

(* the same with the responses related by Rr instead of equal *)
Definition linearized_g (Rr : resp_rel) (k : bk) (cfg : config) (allow : option (list id)) (reqs : list (env * hreq))
  (d0 : b_st (bk_backend k)) (c : sys (bk_backend k) hresp) (order : list nat) : Prop :=
  let sr := seq_run (bk_backend k) hresp d0 (handlers cfg allow reqs) order in
  NoDup order /\
  (forall i r, nth_error (th c) i = Some (TDone r) ->
     In i order /\ exists er r0, nth_error reqs i = Some er /\ resp_in hresp (fst sr) i = Some r0 /\ Rr (snd er) r0 r) /\
  exists a' a, bk_rel k a' (snd sr) /\ bk_rel k a (db c) /\ a_ok a' = true /\ a_ok a = true /\ ext a' a /\
    (all_done c -> forall cc, a_cl a' cc = a_cl a cc).

Lemma linearized_strict k cfg allow reqs d0 c order :
  linearized_g strict_rel k cfg allow reqs d0 c order -> linearized k cfg allow reqs d0 c order.
Proof.
  intros (Hnd & Hr & Hs). split; [exact Hnd|]. split; [|exact Hs].
  intros i r Hi. destruct (Hr i r Hi) as (Hin & er & r0 & _ & Hr0 & Heq). unfold strict_rel in Heq. subst r0. auto.
Qed.

(* every interleaving of whole transactions on a concrete backend, from any reachable store;
   the hypothesis on the schedule is stated on the run of the abstract store *)
Theorem lin_coarse_g (Rr : resp_rel) k cfg allow U0 a0 d0 reqs sch : (forall rq r, Rr rq r r) ->
  cfg_ok cfg -> Inv U0 a0 -> bk_rel k a0 d0 -> fresh_distinct U0 reqs ->
  wfree AStoreB reqs (init_sys AStoreB hresp a0 (handlers cfg allow reqs)) sch \/ admits_window Rr allow ->
  let s0 := init_sys (bk_backend k) hresp d0 (handlers cfg allow reqs) in
  linearized_g Rr k cfg allow reqs d0 (crun (bk_backend k) hresp s0 sch) (lin_order s0 sch []).
Proof.
  intros Hrefl Hcfg HI HR Hfd Hwa s0.
  set (H := handlers cfg allow reqs) in *.
  set (ca0 := init_sys AStoreB hresp a0 H) in *.
  assert (Hrel0 : bk_rel k (db ca0) (db s0) /\ Forall2 (trel (bk_backend k) hresp) (th ca0) (th s0))
    by (split; [exact HR|apply init_trel]).
  assert (Hok : a_ok (db (crun AStoreB hresp ca0 sch)) = true).
  { pose proof (cinv_run cfg allow U0 reqs sch Hcfg Hfd ca0 (cinv_init cfg allow U0 a0 reqs HI Hfd)) as Hc.
    destruct Hc as (_ & _ & W & (Hok & _) & _). exact Hok. }
  destruct (bk_crun_sim k hresp sch ca0 s0 Hrel0 Hok) as [Hdb Hth].
  pose proof (lin_abstract Rr cfg allow U0 a0 reqs sch Hrefl Hcfg HI Hfd Hwa) as Hl. fold H in Hl. fold ca0 in Hl.
  rewrite (bk_lin_order_sim k sch ca0 s0 [] Hrel0 Hok).
  destruct (linv_reading Rr cfg allow reqs a0 _ _ Hl) as (Hnd & Hresp & He & Hok' & Hoka & Hall). fold H in Hresp, He, Hok', Hall.
  destruct (bk_seq_run_sim k H (lin_order ca0 sch []) a0 d0 HR Hok') as [Hf Hs].
  unfold linearized_g. fold H. rewrite Hf.
  split; [exact Hnd|]. split.
  - intros i r Hi. apply Hresp.
    pose proof (forall2_nth (trel (bk_backend k) hresp) _ _ i Hth) as Hn. rewrite Hi in Hn.
    destruct (nth_error (th (crun AStoreB hresp ca0 sch)) i) as [ta|]; [|contradiction]. inversion Hn; subst. reflexivity.
  - eexists. eexists. split; [exact Hs|]. split; [exact Hdb|]. split; [exact Hok'|]. split; [exact Hoka|]. split; [exact He|].
    intros Hd. apply Hall. intros i t Hi.
    pose proof (forall2_nth (trel (bk_backend k) hresp) _ _ i Hth) as Hn. rewrite Hi in Hn.
    destruct (nth_error (th (crun (bk_backend k) hresp s0 sch)) i) as [tb|] eqn:Htb; [|contradiction].
    destruct (Hd i tb Htb) as [r Hr]. subst tb. inversion Hn; subst. eauto.
Qed.

Lemma strict_refl : forall (rq : hreq) (r : hresp), strict_rel rq r r.
Proof. intros rq r. reflexivity. Qed.
Lemma win_refl allow : forall (rq : hreq) (r : hresp), win_rel allow rq r r.
Proof. intros rq r. left. reflexivity. Qed.
Lemma win_admits allow : admits_window (win_rel allow) allow.
Proof. intros rq Hs Ha. right. auto. Qed.

(* every interleaving of whole transactions, on a concrete backend, from any reachable store *)
Theorem lin_coarse k cfg allow U0 a0 d0 reqs sch : cfg_ok cfg -> Inv U0 a0 -> bk_rel k a0 d0 -> fresh_distinct U0 reqs ->
  let s0 := init_sys (bk_backend k) hresp d0 (handlers cfg allow reqs) in
  wfree (bk_backend k) reqs s0 sch ->
  linearized k cfg allow reqs d0 (crun (bk_backend k) hresp s0 sch) (lin_order s0 sch []).
Proof.
  intros Hcfg HI HR Hfd s0 Hw.
  set (H := handlers cfg allow reqs) in *.
  set (ca0 := init_sys AStoreB hresp a0 H).
  assert (Hrel0 : bk_rel k (db ca0) (db s0) /\ Forall2 (trel (bk_backend k) hresp) (th ca0) (th s0))
    by (split; [exact HR|apply init_trel]).
  assert (Hok : a_ok (db (crun AStoreB hresp ca0 sch)) = true).
  { pose proof (cinv_run cfg allow U0 reqs sch Hcfg Hfd ca0 (cinv_init cfg allow U0 a0 reqs HI Hfd)) as Hc.
    destruct Hc as (_ & _ & W & (Hok & _) & _). exact Hok. }
  pose proof (bk_wfree_sim k reqs sch ca0 s0 Hrel0 Hok Hw) as Hwa.
  apply linearized_strict.
  apply (lin_coarse_g strict_rel k cfg allow U0 a0 d0 reqs sch strict_refl Hcfg HI HR Hfd). left. exact Hwa.
Qed.

(* every fine-grained schedule (one step per storage call), whenever no transaction is open: the
   order is that of the coarse run in which each transaction executes when it begins *)
Theorem lin_fine k cfg allow U0 a0 d0 reqs sch : cfg_ok cfg -> Inv U0 a0 -> bk_rel k a0 d0 -> fresh_distinct U0 reqs ->
  let s0 := init_sys (bk_backend k) hresp d0 (handlers cfg allow reqs) in
  owner (frun (bk_backend k) hresp s0 sch) = None ->
  wfree (bk_backend k) reqs s0 (csched (bk_backend k) hresp s0 sch) ->
  linearized k cfg allow reqs d0 (frun (bk_backend k) hresp s0 sch)
             (lin_order s0 (csched (bk_backend k) hresp s0 sch) []).
Proof.
  intros Hcfg HI HR Hfd s0 Hq Hw.
  destruct (txn_atomic_quiescent (bk_backend k) hresp sch s0 (init_wf _ _ d0 (handlers cfg allow reqs)) eq_refl Hq) as [Hdb Hth].
  pose proof (lin_coarse k cfg allow U0 a0 d0 reqs _ Hcfg HI HR Hfd Hw) as Hl. fold s0 in Hl.
  unfold linearized in *. unfold all_done in *. rewrite Hdb, Hth. exact Hl.
Qed.

(* ---- real-time order for fine-grained schedules ---- *)
Section FineOrder.
  Variable B : backend.
  Variable R : Type.

  Lemma csched_app a : forall (f : sys B R) b,
    csched B R f (a ++ b) = csched B R f a ++ csched B R (frun B R f a) b.
  Proof.
    induction a as [|i a IH]; intros f b; cbn [app csched frun]; [reflexivity|].
    destruct (fstep B R f i) as [f'|]; [|apply IH].
    destruct (Conc.keep B R f i); [cbn [app]; f_equal|]; apply IH.
  Qed.

  Lemma csched_sub sch : forall (f : sys B R) j, In j (csched B R f sch) -> In j sch.
  Proof.
    induction sch as [|i sch IH]; intros f j Hj; cbn [csched] in Hj; [contradiction|].
    destruct (fstep B R f i) as [f'|]; [|right; eapply IH; eauto].
    destruct (Conc.keep B R f i); [destruct Hj as [Hj|Hj]; [left; exact Hj|right; eapply IH; eauto]|right; eapply IH; eauto].
  Qed.

  Lemma rel_done (f c : sys B R) i r : Rel B R f c -> nth_error (th f) i = Some (TDone r) -> nth_error (th c) i = Some (TDone r).
  Proof.
    intros (_ & _ & HR) Hi. destruct (owner f) as [o|].
    - destruct (nth_error (th f) o) as [[?|X E w p k|?]|] eqn:Ho; try contradiction.
      destruct HR as (_ & _ & Hoth). rewrite <- Hoth; [exact Hi|]. intros ->. rewrite Ho in Hi. discriminate.
    - destruct HR as [_ Hth]. rewrite <- Hth. exact Hi.
  Qed.

  (* if request i has been answered and its thread has retired at a point of the fine-grained
     schedule up to which request j has not been scheduled at all, then i precedes j in the
     linearization order of every continuation *)
  Theorem lin_fine_real_time d reqs sch1 sch2 i j r :
    let s0 := init_sys B R d reqs in
    nth_error (th (frun B R s0 sch1)) i = Some (TDone r) -> ~ In j sch1 ->
    exists l1 l2, lin_order s0 (csched B R s0 (sch1 ++ sch2)) [] = l1 ++ l2 /\ In i l1 /\ ~ In j l1.
  Proof.
    intros s0 Hi Hj. rewrite csched_app.
    assert (HR : Rel B R s0 s0) by (split; [reflexivity|split; [reflexivity|cbn; split; reflexivity]]).
    pose proof (txn_atomic B R sch1 s0 s0 (init_wf B R d reqs) HR) as Hrel.
    apply (lin_order_real_time B R d reqs (csched B R s0 sch1) (csched B R (frun B R s0 sch1) sch2) i j r).
    - apply (rel_done _ _ i r Hrel Hi).
    - intros Hin. apply Hj. apply (csched_sub sch1 s0 j Hin).
  Qed.
End FineOrder.

(* ---- which schedules are window-free ---- *)
(* no AddSnapshot request at all: every schedule *)
Lemma wfree_no_as B reqs sch : (forall er, In er reqs -> as_client (snd er) = None) ->
  forall c, wfree B reqs c sch.
Proof.
  intros Hno. induction sch as [|i sch IH]; intros c; cbn [wfree]; [exact I|]. split; [|apply IH].
  intros er cc t Hri Has. rewrite (Hno er (nth_error_In _ _ Hri)) in Has. discriminate.
Qed.

(* ---- request sets whose AddSnapshot requests address clients that already have a version are
   window-free under EVERY schedule (so C03's linearizability needs no hypothesis on the schedule
   for them): a client that has a version keeps having one ---- *)
Definition has_version (a : astore) (c : id) : Prop := exists x, a_cl a c = Some x /\ a_latest x <> nil_id.

Lemma has_version_step cfg U a o E c : Inv U a -> fresh_ok U o E -> has_version a c ->
  has_version (snd (astep cfg a o E)) c.
Proof.
  intros HI Hf (x & Hx & Hl).
  destruct (of_client c o) eqn:Hoc.
  - assert (HI0 := HI). destruct HI as (Hok & Hcl & Hids & Hvs).
    apply of_client_true in Hoc.
    destruct o as [c1 p d|c1 p|c1 v d|c1|c1|c1 secs|c1 n| |c1 ids]; cbn [op_client] in Hoc; inversion Hoc; subst c1.
    + destruct (av_accepts x p) eqn:Hacc.
      * rewrite (av_accept cfg a c x p d E Hok Hx Hacc (fresh_mem_false U a _ _ HI0 Hf)
                  (cinv_no_child_of_target U x p (Hcl c x Hx) Hacc)).
        cbn [snd]. unfold av_new_state. eexists. rewrite a_set_lookup, N.eqb_refl. split; [reflexivity|]. cbn [a_latest].
        cbn [fresh_ok] in Hf. intros Hn. apply Hf. left. exact Hn.
      * rewrite (av_conflict cfg a c x p d E Hok Hx Hacc). cbn [snd]. exists x. auto.
    + rewrite gcv_step by assumption. exists x. auto.
    + rewrite as_step by assumption. rewrite Hx. cbn [snd]. destruct (as_accepts x v); [|exists x; auto].
      unfold as_new_state. eexists. rewrite a_set_lookup, N.eqb_refl. split; [reflexivity|exact Hl].
    + rewrite gs_step by assumption. exists x. auto.
    + rewrite ensure_step by assumption. cbn [snd]. rewrite Hx. exists x. auto.
    + rewrite backdate_step by assumption. cbn [snd]. unfold rewrite_state. rewrite Hx.
      destruct (a_snap x) as [[m d]|]; [|exists x; auto]. eexists. rewrite a_set_lookup, N.eqb_refl. split; [reflexivity|exact Hl].
    + rewrite setcounter_step by assumption. cbn [snd]. unfold rewrite_state. rewrite Hx.
      destruct (a_snap x) as [[m d]|]; [|exists x; auto]. eexists. rewrite a_set_lookup, N.eqb_refl. split; [reflexivity|exact Hl].
    + rewrite dump_step by assumption. exists x. auto.
  - exists x. rewrite (step_other cfg U a o E c HI Hf Hoc). auto.
Qed.

Lemma has_version_not_nothing a c : has_version a c -> ~ holds_nothing AStoreB a c.
Proof.
  intros (x & Hx & Hl) Hn. unfold holds_nothing in Hn. cbn in Hn. rewrite Hx in Hn. cbn in Hn.
  inversion Hn as [H0]. apply Hl. exact H0.
Qed.

(* the transactions of the handlers, as library steps *)
Lemma av_txn_state cfg a c p d E :
  a_end (snd (finish AStoreB E (a_begin a c) (p_add_version cfg p d))) = snd (astep cfg a (OAddVersion c p d) E).
Proof.
  pose proof (finish_lib_av AStoreB cfg E c p d a) as Hl. change (b_begin AStoreB a c) with (a_begin a c) in Hl.
  destruct (finish AStoreB E (a_begin a c) (p_add_version cfg p d)) as [r w]. cbn [snd].
  pose proof (astep_eq cfg a (OAddVersion c p d) E) as Hae. rewrite Hl in Hae. inversion Hae as [[Hr Hs]]. first [exact Hs|reflexivity].
Qed.
Lemma ensure_txn_state cfg a c E :
  a_end (snd (finish AStoreB E (a_begin a c) p_ensure)) = snd (astep cfg a (OEnsure c) E).
Proof.
  pose proof (finish_lib_ensure AStoreB cfg E c a) as Hl. change (b_begin AStoreB a c) with (a_begin a c) in Hl.
  destruct (finish AStoreB E (a_begin a c) p_ensure) as [r w]. cbn [snd].
  pose proof (astep_eq cfg a (OEnsure c) E) as Hae. rewrite Hl in Hae. inversion Hae as [[Hr Hs]]. first [exact Hs|reflexivity].
Qed.

Lemma has_version_hstep cfg allow U a rq E c : cfg_ok cfg -> Inv U a -> hfresh_ok U rq E -> has_version a c ->
  has_version (snd (hstep_a cfg allow a rq E)) c.
Proof.
  intros Hcfg HI Hf Hv.
  destruct (not_served_refused cfg allow rq) as [(st & Hst & Hr)|(Hsv & c0 & Hcid & Hc)].
  - unfold hstep_a. rewrite http_step_route. destruct Hr as [Hr|[Hr _]]; rewrite Hr; cbn [run_hprog fst snd]; exact Hv.
  - destruct (hstep_reach cfg allow U a rq E Hcfg HI Hf) as (_ & _ & Hout).
    destruct (Hout Hsv (ex_intro _ c0 (conj Hcid Hc))) as (r & a' & Hlo & Heq). rewrite Heq. cbn [snd].
    assert (HI0 := HI). destruct HI as (Hok & _).
    unfold lib_outcome in Hlo.
    destruct Hsv as [c' p cs Hb|c' p ct cs|c' v cs Hb|c' ct cs]; cbn [rq_method rq_path rq_cid rq_chunks] in Hlo;
      inversion Hlo as [Hlo']; clear Hlo.
    + change (match a_cl a c' with Some _ => a | None => a_set a c' (mkCS nil_id None []) (a_allids a) end) with (ensured a c') in Hlo'.
      replace a' with (snd (astep cfg (ensured a c') (OAddVersion c' p (body_of cs)) E)) by (rewrite Hlo'; reflexivity).
      assert (Hf1 : fresh_ok U (OAddVersion c' p (body_of cs)) E) by exact Hf.
      apply (has_version_step cfg U (ensured a c') (OAddVersion c' p (body_of cs)) E c (inv_ensured U a c' HI0) Hf1).
      destruct Hv as (x & Hx & Hl). exists x. split; [|exact Hl]. rewrite ensured_lookup.
      destruct (N.eqb_spec c c') as [->|Hne]; [rewrite Hx; reflexivity|exact Hx].
    + replace a' with (snd (astep cfg a (OGetChild c' p) E)) by (rewrite Hlo'; reflexivity).
      apply (has_version_step cfg U a (OGetChild c' p) E c HI0 I Hv).
    + replace a' with (snd (astep cfg a (OAddSnapshot c' v (body_of cs)) E)) by (rewrite Hlo'; reflexivity).
      apply (has_version_step cfg U a (OAddSnapshot c' v (body_of cs)) E c HI0 I Hv).
    + replace a' with (snd (astep cfg a (OGetSnapshot c') E)) by (rewrite Hlo'; reflexivity).
      apply (has_version_step cfg U a (OGetSnapshot c') E c HI0 I Hv).
Qed.

Lemma cstep_has_version cfg allow U0 reqs c i c' cc : cfg_ok cfg -> fresh_distinct U0 reqs ->
  cinv_sys cfg allow reqs c -> cstep AStoreB hresp c i = Some c' -> has_version (db c) cc -> has_version (db c') cc.
Proof.
  intros Hcfg [Hnd Hfr] (Hown & Hlen & W & HI & HG & Hth) Hst Hv.
  unfold cstep in Hst. destruct (nth_error (th c) i) as [t|] eqn:Hi; [|discriminate].
  assert (Hlt : (i < length reqs)%nat) by (rewrite <- Hlen; apply nth_error_Some; congruence).
  destruct (nth_error reqs i) as [er|] eqn:Hri; [|apply nth_error_None in Hri; lia].
  pose proof (Hth i er t Hri Hi) as Hti.
  set (G := all_mentioned reqs) in *.
  destruct (Hfr er (nth_error_In _ _ Hri)) as (Hfnil & HfG & _).
  assert (Hav : forall c0 p d, In c0 G -> In p G -> ~ usedp W (e_fresh (fst er)) ->
            forall k : res (av_result * option urgency) -> hprog hresp,
              (let '(r, w) := finish AStoreB (fst er) (b_begin AStoreB (db c) c0) (p_add_version cfg p d) in
               Some (@mkSys AStoreB hresp (b_end AStoreB w) None (upd (th c) i (TIdle (fst er) (k r))))) = Some c' ->
            has_version (db c') cc).
  { intros c0 p d Hc0 Hp Hf k Hk.
    pose proof (av_txn_state cfg (db c) c0 p d (fst er)) as Hs.
    change (b_begin AStoreB (db c) c0) with (a_begin (db c) c0) in Hk.
    destruct (finish AStoreB (fst er) (a_begin (db c) c0) (p_add_version cfg p d)) as [r w]. cbn [snd] in Hs.
    inversion Hk; subst c'. cbn [db]. change (b_end AStoreB w) with (a_end w). rewrite Hs.
    apply (has_version_step cfg W (db c) (OAddVersion c0 p d) (fst er) cc HI); [|exact Hv].
    apply (usedp_cp W G c0 p (e_fresh (fst er)) Hf Hc0 Hp HfG). }
  destruct Hti as [Hf|c0 p d Hf Hc0 Hp|c0 p d Hf Hc0 Hp Hcl|r Hr|r Hr].
  - assert (Hfo : hfresh_ok W (snd er) (fst er)).
    { unfold hfresh_ok. intros [Hn|Hin]; [contradiction|]. apply in_app_iff in Hin. destruct Hin as [Hin|Hin].
      - apply HfG. eapply hmentioned_in; eauto.
      - apply Hf. right. exact Hin. }
    destruct (handler_shape cfg allow (snd er)) as [[r Hh]|[(X & c0 & body & f & Hh)|(c0 & p & d & Hh & Hcid & Hpath)]]; rewrite Hh in Hst.
    + inversion Hst; subst c'. exact Hv.
    + pose proof (single_txn_run X (fst er) c0 body f (db c)) as Hrun.
      change (b_begin AStoreB (db c) c0) with (a_begin (db c) c0) in Hst.
      destruct (finish AStoreB (fst er) (a_begin (db c) c0) body) as [r w] eqn:Hfin.
      inversion Hst; subst c'. cbn [db]. change (b_end AStoreB w) with (a_end w).
      pose proof (has_version_hstep cfg allow W (db c) (snd er) (fst er) cc Hcfg HI Hfo Hv) as Hh2.
      unfold hstep_a, http_step in Hh2. cbn [fst snd] in Hh2. rewrite Hh, Hrun in Hh2. exact Hh2.
    + assert (Hc0 : In c0 G) by (eapply hmentioned_in; [exact Hri|]; unfold hmentioned; rewrite Hcid, Hpath; cbn; auto).
      assert (Hp : In p G) by (eapply hmentioned_in; [exact Hri|]; unfold hmentioned; rewrite Hcid, Hpath; cbn; auto).
      change AV_FUEL with 2%nat in Hst. rewrite av_loop_unfold' in Hst.
      apply (Hav c0 p d Hc0 Hp Hf (fun r => hmap dh (av_k 1 cfg c0 p d r)) Hst).
  - cbn [ensure_node hmap] in Hst.
    pose proof (ensure_txn_state cfg (db c) c0 (fst er)) as Hs.
    change (b_begin AStoreB (db c) c0) with (a_begin (db c) c0) in Hst.
    destruct (finish AStoreB (fst er) (a_begin (db c) c0) p_ensure) as [r w]. cbn [snd] in Hs.
    inversion Hst; subst c'. cbn [db]. change (b_end AStoreB w) with (a_end w). rewrite Hs.
    apply (has_version_step cfg W (db c) (OEnsure c0) (fst er) cc HI I Hv).
  - rewrite av_loop_unfold' in Hst.
    apply (Hav c0 p d Hc0 Hp Hf (fun r => hmap dh (av_k 0 cfg c0 p d r)) Hst).
  - inversion Hst; subst c'. exact Hv.
  - discriminate.
Qed.

(* every schedule is window-free when each AddSnapshot request addresses a client that already
   has a version *)
Theorem wfree_existing cfg allow U0 a0 reqs sch : cfg_ok cfg -> Inv U0 a0 -> fresh_distinct U0 reqs ->
  (forall er c, In er reqs -> as_client (snd er) = Some c -> has_version a0 c) ->
  wfree AStoreB reqs (init_sys AStoreB hresp a0 (handlers cfg allow reqs)) sch.
Proof.
  intros Hcfg HI Hfd Hex.
  assert (Hgen : forall c : sys AStoreB hresp, cinv_sys cfg allow reqs c ->
            (forall er cl, In er reqs -> as_client (snd er) = Some cl -> has_version (db c) cl) ->
            wfree AStoreB reqs c sch).
  { induction sch as [|i sch IH]; intros c Hc Hv; cbn [wfree]; [exact I|]. split.
    - intros er cl t Hri Has _ _. apply has_version_not_nothing. apply (Hv er cl (nth_error_In _ _ Hri) Has).
    - destruct (cstep AStoreB hresp c i) as [c'|] eqn:Hst; [|apply IH; assumption].
      apply IH.
      + apply (cinv_step cfg allow U0 reqs c i c' Hcfg Hfd Hc Hst).
      + intros er cl Hin Has. apply (cstep_has_version cfg allow U0 reqs c i c' cl Hcfg Hfd Hc Hst). apply (Hv er cl Hin Has). }
  apply Hgen; [apply (cinv_init cfg allow U0 a0 reqs HI Hfd)|exact Hex].
Qed.

(* ---- concrete backends, every schedule, no hypothesis on the schedule ---- *)
Theorem lin_coarse_a k cfg allow U0 a0 d0 reqs sch : cfg_ok cfg -> Inv U0 a0 -> bk_rel k a0 d0 -> fresh_distinct U0 reqs ->
  wfree AStoreB reqs (init_sys AStoreB hresp a0 (handlers cfg allow reqs)) sch ->
  let s0 := init_sys (bk_backend k) hresp d0 (handlers cfg allow reqs) in
  linearized k cfg allow reqs d0 (crun (bk_backend k) hresp s0 sch) (lin_order s0 sch []).
Proof.
  intros Hcfg HI HR Hfd Hwa s0. apply linearized_strict.
  apply (lin_coarse_g strict_rel k cfg allow U0 a0 d0 reqs sch strict_refl Hcfg HI HR Hfd). left. exact Hwa.
Qed.

(* requests whose AddSnapshot clients already have a version: linearizable under EVERY
   fine-grained schedule *)
Theorem lin_fine_existing k cfg allow U0 a0 d0 reqs sch : cfg_ok cfg -> Inv U0 a0 -> bk_rel k a0 d0 -> fresh_distinct U0 reqs ->
  (forall er c, In er reqs -> as_client (snd er) = Some c -> has_version a0 c) ->
  let s0 := init_sys (bk_backend k) hresp d0 (handlers cfg allow reqs) in
  owner (frun (bk_backend k) hresp s0 sch) = None ->
  linearized k cfg allow reqs d0 (frun (bk_backend k) hresp s0 sch)
             (lin_order s0 (csched (bk_backend k) hresp s0 sch) []).
Proof.
  intros Hcfg HI HR Hfd Hex s0 Hq.
  destruct (txn_atomic_quiescent (bk_backend k) hresp sch s0 (init_wf _ _ d0 (handlers cfg allow reqs)) eq_refl Hq) as [Hdb Hth].
  pose proof (lin_coarse_a k cfg allow U0 a0 d0 reqs (csched (bk_backend k) hresp s0 sch) Hcfg HI HR Hfd
                (wfree_existing cfg allow U0 a0 reqs _ Hcfg HI Hfd Hex)) as Hl. fold s0 in Hl.
  unfold linearized in *. unfold all_done in *. rewrite Hdb, Hth. exact Hl.
Qed.


(* ---- EVERY schedule, new clients and AddSnapshot requests included: finding F3 is the only deviation ----
   With no hypothesis on the schedule at all, the overlapping run is linearized up to `win_rel`: the
   final store is the one-at-a-time store, every response equals the one-at-a-time response, except
   that an AddSnapshot request may have been answered 200 (declined, nothing stored) where the
   one-at-a-time run answers it 404 (no such client). *)
Theorem lin_coarse_window k cfg allow U0 a0 d0 reqs sch : cfg_ok cfg -> Inv U0 a0 -> bk_rel k a0 d0 -> fresh_distinct U0 reqs ->
  let s0 := init_sys (bk_backend k) hresp d0 (handlers cfg allow reqs) in
  linearized_g (win_rel allow) k cfg allow reqs d0 (crun (bk_backend k) hresp s0 sch) (lin_order s0 sch []).
Proof.
  intros Hcfg HI HR Hfd s0.
  apply (lin_coarse_g (win_rel allow) k cfg allow U0 a0 d0 reqs sch (win_refl allow) Hcfg HI HR Hfd).
  right. apply win_admits.
Qed.

Theorem lin_fine_window k cfg allow U0 a0 d0 reqs sch : cfg_ok cfg -> Inv U0 a0 -> bk_rel k a0 d0 -> fresh_distinct U0 reqs ->
  let s0 := init_sys (bk_backend k) hresp d0 (handlers cfg allow reqs) in
  owner (frun (bk_backend k) hresp s0 sch) = None ->
  linearized_g (win_rel allow) k cfg allow reqs d0 (frun (bk_backend k) hresp s0 sch)
               (lin_order s0 (csched (bk_backend k) hresp s0 sch) []).
Proof.
  intros Hcfg HI HR Hfd s0 Hq.
  destruct (txn_atomic_quiescent (bk_backend k) hresp sch s0 (init_wf _ _ d0 (handlers cfg allow reqs)) eq_refl Hq) as [Hdb Hth].
  pose proof (lin_coarse_window k cfg allow U0 a0 d0 reqs (csched (bk_backend k) hresp s0 sch) Hcfg HI HR Hfd) as Hl. fold s0 in Hl.
  unfold linearized_g in *. unfold all_done in *. rewrite Hdb, Hth. exact Hl.
Qed.

(* ---- no accepted version is orphaned, no parent is given two children — under EVERY schedule ----
   (the property's "in particular" clause).  When all requests have finished: every upload that was
   answered 200 — whatever overlapped it, new clients and the F3 window included — is stored in its
   client's chain with the id it was given, the parent and the payload it submitted, and it is THE child
   of its parent. *)
Lemma linv_stored Rr cfg allow reqs a0 c done : linv Rr cfg allow reqs a0 c done ->
  av_stored allow reqs (fst (seq_run AStoreB hresp a0 (handlers cfg allow reqs) done))
                       (snd (seq_run AStoreB hresp a0 (handlers cfg allow reqs) done)).
Proof. intros (_ & _ & _ & W & phs & _ & _ & _ & _ & _ & _ & _ & Hsto). exact Hsto. Qed.

Lemma linv_inv Rr cfg allow reqs a0 c done : linv Rr cfg allow reqs a0 c done -> exists W, Inv W (db c).
Proof. intros (_ & _ & _ & W & phs & _ & HIc & _). exists W. exact HIc. Qed.

Definition is_av (rq : hreq) (cl p : id) (cs : list chunk) : Prop :=
  rq = mkReq MPost (PAddVersion (IdOk p)) (COk cl) CTHistory cs.

Theorem accepted_is_stored_a cfg allow U0 a0 reqs sch : cfg_ok cfg -> Inv U0 a0 -> fresh_distinct U0 reqs ->
  let c := crun AStoreB hresp (init_sys AStoreB hresp a0 (handlers cfg allow reqs)) sch in
  all_done c -> a_ok (db c) = true /\
  forall i E rq cl p cs r, nth_error reqs i = Some (E, rq) -> is_av rq cl p cs ->
    client_id_header allow (COk cl) = inl cl -> body_refused cs = false ->
    nth_error (th c) i = Some (TDone r) -> rs_status r = 200 ->
    exists x, a_cl (db c) cl = Some x /\ In (mkVersion (e_fresh E) p (body_of cs)) (a_vers x) /\
              by_parent p (a_vers x) = Some (mkVersion (e_fresh E) p (body_of cs)).
Proof.
  intros Hcfg HI Hfd c Hall.
  pose proof (lin_abstract (win_rel allow) cfg allow U0 a0 reqs sch (win_refl allow) Hcfg HI Hfd (or_intror (win_admits allow))) as Hl.
  cbv zeta in Hl. fold c in Hl.
  set (done := lin_order (init_sys AStoreB hresp a0 (handlers cfg allow reqs)) sch []) in *.
  pose proof (linv_stored _ _ _ _ _ _ _ Hl) as Hsto.
  destruct (linv_inv _ _ _ _ _ _ _ Hl) as [W HIc].
  destruct (linv_reading _ _ _ _ _ _ _ Hl) as (_ & Hresp & _ & _ & Hokc & Heqall).
  split; [exact Hokc|].
  intros i E rq cl p cs r Hri Hav Hc Hb Hi Hst. unfold is_av in Hav. subst rq.
  destruct (Hresp i r Hi) as (_ & er & r0 & Her & Hr0 & Hrel). rewrite Hri in Her. inversion Her; subst er. cbn [snd] in Hrel.
  assert (r0 = r).
  { destruct Hrel as [He|(_ & Has & _)]; [exact He|]. exfalso. apply Has. reflexivity. }
  subst r0.
  pose proof (Hsto i E cl p cs r Hri Hc Hb Hr0 Hst) as Hin.
  pose proof (Heqall Hall cl) as Hcl. unfold vers_a in Hin. rewrite Hcl in Hin.
  destruct (a_cl (db c) cl) as [x|] eqn:Hx; [|contradiction].
  exists x. split; [reflexivity|]. split; [exact Hin|].
  destruct HIc as (_ & Hclinv & _). pose proof (Hclinv cl x Hx) as Hci.
  apply (by_parent_unique (a_vers x) (mkVersion (e_fresh E) p (body_of cs))); [|exact Hin].
  apply (chain_parents_nodup (base_of (a_vers x))); [apply (ci_chain _ _ Hci)|apply (ci_nodup _ _ Hci)].
Qed.

(* two uploads on one parent of one client are never both answered 200 *)
Theorem never_both_accepted_a cfg allow U0 a0 reqs sch : cfg_ok cfg -> Inv U0 a0 -> fresh_distinct U0 reqs ->
  let c := crun AStoreB hresp (init_sys AStoreB hresp a0 (handlers cfg allow reqs)) sch in
  all_done c ->
  forall i j Ei Ej rqi rqj cl p csi csj ri rj, i <> j ->
    nth_error reqs i = Some (Ei, rqi) -> nth_error reqs j = Some (Ej, rqj) -> is_av rqi cl p csi -> is_av rqj cl p csj ->
    client_id_header allow (COk cl) = inl cl -> body_refused csi = false -> body_refused csj = false ->
    nth_error (th c) i = Some (TDone ri) -> nth_error (th c) j = Some (TDone rj) ->
    ~ (rs_status ri = 200 /\ rs_status rj = 200).
Proof.
  intros Hcfg HI Hfd c Hall i j Ei Ej rqi rqj cl p csi csj ri rj Hne Hri Hrj Havi Havj Hc Hbi Hbj Hi Hj [Hsi Hsj].
  destruct (accepted_is_stored_a cfg allow U0 a0 reqs sch Hcfg HI Hfd Hall) as [_ Hacc]. fold c in Hacc.
  destruct (Hacc i Ei rqi cl p csi ri Hri Havi Hc Hbi Hi Hsi) as (x & Hx & _ & Hbpi).
  destruct (Hacc j Ej rqj cl p csj rj Hrj Havj Hc Hbj Hj Hsj) as (x' & Hx' & _ & Hbpj).
  rewrite Hx in Hx'. inversion Hx'; subst x'. rewrite Hbpi in Hbpj. inversion Hbpj as [Hfr].
  destruct Hfd as [Hnd _].
  apply (nodup_fresh_ne reqs i j (Ei, rqi) (Ej, rqj) Hnd Hri Hrj Hne). cbn [fst]. exact Hfr.
Qed.

(* the same on a concrete backend under every fine-grained schedule (one step per storage call) *)
Theorem accepted_is_stored k cfg allow U0 a0 d0 reqs sch : cfg_ok cfg -> Inv U0 a0 -> bk_rel k a0 d0 -> fresh_distinct U0 reqs ->
  let s0 := init_sys (bk_backend k) hresp d0 (handlers cfg allow reqs) in
  let f := frun (bk_backend k) hresp s0 sch in
  owner f = None -> all_done f ->
  exists a, bk_rel k a (db f) /\ a_ok a = true /\
    (forall i E rq cl p cs r, nth_error reqs i = Some (E, rq) -> is_av rq cl p cs ->
       client_id_header allow (COk cl) = inl cl -> body_refused cs = false ->
       nth_error (th f) i = Some (TDone r) -> rs_status r = 200 ->
       exists x, a_cl a cl = Some x /\ In (mkVersion (e_fresh E) p (body_of cs)) (a_vers x) /\
                 by_parent p (a_vers x) = Some (mkVersion (e_fresh E) p (body_of cs))) /\
    (forall i j Ei Ej rqi rqj cl p csi csj ri rj, i <> j ->
       nth_error reqs i = Some (Ei, rqi) -> nth_error reqs j = Some (Ej, rqj) -> is_av rqi cl p csi -> is_av rqj cl p csj ->
       client_id_header allow (COk cl) = inl cl -> body_refused csi = false -> body_refused csj = false ->
       nth_error (th f) i = Some (TDone ri) -> nth_error (th f) j = Some (TDone rj) ->
       ~ (rs_status ri = 200 /\ rs_status rj = 200)).
Proof.
  intros Hcfg HI HR Hfd s0 f Hq Hall.
  destruct (txn_atomic_quiescent (bk_backend k) hresp sch s0 (init_wf _ _ d0 (handlers cfg allow reqs)) eq_refl Hq) as [Hdbf Hthf].
  fold f in Hdbf, Hthf.
  set (sch' := csched (bk_backend k) hresp s0 sch) in *.
  set (H := handlers cfg allow reqs) in *.
  set (ca0 := init_sys AStoreB hresp a0 H).
  assert (Hrel0 : bk_rel k (db ca0) (db s0) /\ Forall2 (trel (bk_backend k) hresp) (th ca0) (th s0))
    by (split; [exact HR|apply init_trel]).
  assert (Hok : a_ok (db (crun AStoreB hresp ca0 sch')) = true).
  { pose proof (cinv_run cfg allow U0 reqs sch' Hcfg Hfd ca0 (cinv_init cfg allow U0 a0 reqs HI Hfd)) as Hc.
    destruct Hc as (_ & _ & W & (Hok & _) & _). exact Hok. }
  destruct (bk_crun_sim k hresp sch' ca0 s0 Hrel0 Hok) as [Hdb Hth].
  rewrite <- Hdbf in Hdb. rewrite <- Hthf in Hth.
  assert (Hdone : forall i r, nth_error (th f) i = Some (TDone r) -> nth_error (th (crun AStoreB hresp ca0 sch')) i = Some (TDone r)).
  { intros i r Hi. pose proof (forall2_nth (trel (bk_backend k) hresp) _ _ i Hth) as Hn. rewrite Hi in Hn.
    destruct (nth_error (th (crun AStoreB hresp ca0 sch')) i) as [ta|]; [|contradiction]. inversion Hn; subst. reflexivity. }
  assert (Halla : all_done (crun AStoreB hresp ca0 sch')).
  { intros i t Hi. pose proof (forall2_nth (trel (bk_backend k) hresp) _ _ i Hth) as Hn. rewrite Hi in Hn.
    destruct (nth_error (th f) i) as [tb|] eqn:Htb; [|contradiction].
    destruct (Hall i tb Htb) as [r Hr]. subst tb. inversion Hn; subst. eauto. }
  destruct (accepted_is_stored_a cfg allow U0 a0 reqs sch' Hcfg HI Hfd Halla) as [Hoka Hacc].
  exists (db (crun AStoreB hresp ca0 sch')). split; [exact Hdb|]. split; [exact Hoka|]. split.
  - intros i E rq cl p cs r Hri Hav Hc Hb Hi Hst. apply (Hacc i E rq cl p cs r Hri Hav Hc Hb (Hdone i r Hi) Hst).
  - intros i j Ei Ej rqi rqj cl p csi csj ri rj Hne Hri Hrj Havi Havj Hc Hbi Hbj Hi Hj.
    apply (never_both_accepted_a cfg allow U0 a0 reqs sch' Hcfg HI Hfd Halla i j Ei Ej rqi rqj cl p csi csj ri rj Hne Hri Hrj Havi Havj Hc Hbi Hbj (Hdone i ri Hi) (Hdone j rj Hj)).
Qed.
