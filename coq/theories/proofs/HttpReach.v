(* HttpReach.v — HTTP-level histories: every reachable state satisfies the invariant, both
   backends answer like the abstract store, responses encode the library outcome (C14) and no
   request is ever answered 5xx (C15). *)
From TSS Require Import AStore Http proofs.ListAux proofs.Chain proofs.Steps proofs.Sim
  proofs.RefineSqlite proofs.RefineInMem proofs.Refine proofs.Inv proofs.Agree proofs.Hist
  proofs.UrgencyArith proofs.HttpProps.
From Coq Require Import Lia.
Open Scope N_scope.

(* the table of the property: how a library outcome appears on the wire *)
Definition encode (r : resp) : hresp :=
  match r with
  | RAdded v u =>
      match urg_header u with
      | Some h => mkResp 200 (Some v) None h None [] false
      | None => plain 500
      end
  | RConflict l => mkResp 409 None (Some l) None None [] false
  | RFound v => mkResp 200 (Some (v_id v)) (Some (v_parent v)) None (Some RTHistory) (v_data v) false
  | RNotFound => plain 404
  | RGone => plain 410
  | RSnapAck => plain 200
  | RSnap v d => mkResp 200 (Some v) None None (Some RTSnapshot) d false
  | RNoSnap => plain 404
  | RNoClient => plain 404
  | RError => plain 500
  | RUnit => plain 200
  | RDump _ => plain 200
  end.

(* ---- the three single-transaction endpoints: response = encode (library response), same
   store, same storage calls — on every backend and every store ---- *)
Lemma gcv_encodes B cfg allow c p cs ct s E : client_id_header allow (COk c) = inl c ->
  run_hprog B E (route cfg allow (mkReq MGet (PGetChild (IdOk p)) (COk c) ct cs)) s =
  let '(r, s', t) := step B cfg s (OGetChild c p, E) in (encode r, s', t).
Proof.
  intros Hc. unfold route, h_get_child_version, step. cbn [rq_method rq_path rq_cid fst snd lib_handler].
  rewrite Hc. cbn [run_hprog].
  destruct (run_prog B E (p_get_child_version p) (b_begin B s c)) as [[r w] t].
  destruct r as [[v| |]|[| |]]; reflexivity.
Qed.

Lemma gs_encodes B cfg allow c cs ct s E : client_id_header allow (COk c) = inl c ->
  run_hprog B E (route cfg allow (mkReq MGet PSnapshot (COk c) ct cs)) s =
  let '(r, s', t) := step B cfg s (OGetSnapshot c, E) in (encode r, s', t).
Proof.
  intros Hc. unfold route, h_get_snapshot, step. cbn [rq_method rq_path rq_cid fst snd lib_handler].
  rewrite Hc. cbn [run_hprog].
  destruct (run_prog B E p_get_snapshot (b_begin B s c)) as [[r w] t].
  destruct r as [[[v d]|]|[| |]]; reflexivity.
Qed.

Lemma as_encodes B cfg allow c v cs s E : client_id_header allow (COk c) = inl c ->
  Forall wf_chunk cs -> body_refused cs = false ->
  run_hprog B E (route cfg allow (mkReq MPost (PAddSnapshot (IdOk v)) (COk c) CTSnapshot cs)) s =
  let '(r, s', t) := step B cfg s (OAddSnapshot c v (body_of cs), E) in (encode r, s', t).
Proof.
  intros Hc Hw Hb. unfold route, h_add_snapshot, step. cbn [rq_method rq_path rq_cid rq_ctype rq_chunks fst snd lib_handler].
  rewrite Hc. unfold body_refused in Hb. rewrite (read_body_wf cs Hw) in *.
  destruct (N.ltb MAX_SIZE (N.of_nat (length (body_of cs)))); [discriminate|]. rewrite Hb. cbn [run_hprog].
  destruct (run_prog B E (p_add_snapshot v (body_of cs)) (b_begin B s c)) as [[r w] t].
  destruct r as [u|[| |]]; reflexivity.
Qed.

(* ---- add-version: the library call, and on NoSuchClient create-if-absent and retry ---- *)
Definition av_http_result B cfg E c p d (s : b_st B) : hresp * b_st B :=
  let '(r1, s1, _) := step B cfg s (OAddVersion c p d, E) in
  match r1 with
  | RNoClient =>
      let '(r2, s2, _) := step B cfg s1 (OEnsure c, E) in
      match r2 with
      | RUnit =>
          let '(r3, s3, _) := step B cfg s2 (OAddVersion c p d, E) in
          match r3 with
          | RNoClient =>
              let '(r4, s4, _) := step B cfg s3 (OEnsure c, E) in
              (match r4 with RUnit => plain FUEL_STATUS | _ => plain 500 end, s4)
          | _ => (encode r3, s3)
          end
      | _ => (plain 500, s2)
      end
  | _ => (encode r1, s1)
  end.

Lemma av_loop_result B cfg E c p d s :
  fst (run_hprog B E (av_loop AV_FUEL cfg c p d) s) = av_http_result B cfg E c p d s.
Proof.
  unfold av_http_result, step, AV_FUEL. cbn [av_loop lib_handler fst snd run_hprog].
  destruct (run_prog B E (p_add_version cfg p d) (b_begin B s c)) as [[r1 w1] t1].
  destruct r1 as [[[v|l] u]|[| |]]; cbn [run_hprog fst snd]; try reflexivity.
  - unfold encode. destruct (urg_header u); reflexivity.
  - destruct (run_prog B E p_ensure (b_begin B (b_end B w1) c)) as [[r2 w2] t2].
    destruct r2 as [u2|[| |]]; cbn [run_hprog fst snd err_resp]; try reflexivity.
    destruct (run_prog B E (p_add_version cfg p d) (b_begin B (b_end B w2) c)) as [[r3 w3] t3].
    destruct r3 as [[[v|l] u]|[| |]]; cbn [run_hprog fst snd err_resp]; try reflexivity.
    + unfold encode. destruct (urg_header u); reflexivity.
    + destruct (run_prog B E p_ensure (b_begin B (b_end B w3) c)) as [[r4 w4] t4].
      destruct r4 as [u4|[| |]]; reflexivity.
Qed.

(* ------------------------------------------------------------------ reachable states *)
Definition hstep_a (cfg : config) (allow : option (list id)) (a : astore) (rq : hreq) (E : env) : hresp * astore :=
  fst (http_step AStoreB cfg allow a (rq, E)).

Definition hmentioned (rq : hreq) : list id :=
  match rq_cid rq with COk c => [c] | _ => [] end ++
  match rq_path rq with
  | PAddVersion (IdOk p) | PGetChild (IdOk p) | PAddSnapshot (IdOk p) => [p]
  | _ => []
  end.

(* freshness is demanded of every request (simplest sufficient condition): the id the
   generator would hand out is non-nil and occurs nowhere before *)
Definition hfresh_ok (U : list id) (rq : hreq) (E : env) : Prop := ~ usedp (hmentioned rq ++ U) (e_fresh E).
Definition hused_step (U : list id) (rq : hreq) (E : env) : list id := e_fresh E :: hmentioned rq ++ U.

Lemma Inv_hused U a rq E : Inv U a -> Inv (hused_step U rq E) a.
Proof. apply Inv_mono. intros i Hi. unfold hused_step. right. apply in_app_iff. auto. Qed.

Lemma astep_eq cfg a o E : step AStoreB cfg a (o, E) = (fst (astep cfg a o E), snd (astep cfg a o E), snd (step AStoreB cfg a (o, E))).
Proof. unfold astep. destruct (step AStoreB cfg a (o, E)) as [[r s] t]. reflexivity. Qed.

Definition ok_status (st : N) : Prop := st = 200 \/ st = 400 \/ st = 403 \/ st = 404 \/ st = 409 \/ st = 410.

Lemma encode_status_ok r : r <> RError -> (forall v, r <> RAdded v None) -> ok_status (rs_status (encode r)).
Proof.
  unfold ok_status. destruct r; cbn; intros H1 H2; auto 10; try congruence.
  destruct u as [[| |]|]; cbn; auto 10. exfalso. apply (H2 v). reflexivity.
Qed.

(* what an add-version request does to a reachable abstract store *)
Lemma av_http_reach cfg U a c p d E : cfg_ok cfg ->
  Inv U a -> ~ usedp ([c; p] ++ U) (e_fresh E) ->
  let a1 := match a_cl a c with Some _ => a | None => a_set a c (mkCS nil_id None []) (a_allids a) end in
  let '(hr, a') := av_http_result AStoreB cfg E c p d a in
  Inv (e_fresh E :: [c; p] ++ U) a' /\ ok_status (rs_status hr) /\
  (hr, a') = (encode (fst (astep cfg a1 (OAddVersion c p d) E)), snd (astep cfg a1 (OAddVersion c p d) E)).
Proof.
  intros Hcfg HI Hf. cbv zeta. unfold av_http_result.
  assert (HI0 := HI). destruct HI as (Hok & Hcl & Hids & Hvs).
  assert (Hinc : incl U (e_fresh E :: [c; p] ++ U)) by (intros i Hi; right; apply in_app_iff; auto).
  assert (Hstep : forall a1 U1, Inv U1 a1 -> incl U1 U -> a_cl a1 c <> None ->
            Inv (e_fresh E :: [c; p] ++ U) (snd (astep cfg a1 (OAddVersion c p d) E)) /\
            fst (astep cfg a1 (OAddVersion c p d) E) <> RNoClient /\
            ok_status (rs_status (encode (fst (astep cfg a1 (OAddVersion c p d) E))))).
  { intros a1 U1 HI1 Hi1 Hne.
    assert (HI1' : Inv U a1) by (eapply Inv_mono; eauto).
    pose proof (inv_step cfg U a1 (OAddVersion c p d) E HI1' Hf) as Hn.
    split; [exact Hn|].
    destruct HI1' as (Hok1 & Hcl1 & Hids1 & Hvs1).
    destruct (a_cl a1 c) as [x|] eqn:Hc1; [|contradiction].
    destruct (av_accepts x p) eqn:Hacc.
    - rewrite (av_accept cfg a1 c x p d E Hok1 Hc1 Hacc (fresh_mem_false U a1 (OAddVersion c p d) _ (conj Hok1 (conj Hcl1 (conj Hids1 Hvs1))) Hf)
                 (cinv_no_child_of_target U x p (Hcl1 c x Hc1) Hacc)).
      cbn [fst]. split; [discriminate|]. apply encode_status_ok; [discriminate|].
      intros v Hv. inversion Hv as [[Hv1 Hv2]]. rewrite urgency_no_overflow in Hv2 by exact Hcfg. discriminate.
    - rewrite (av_conflict cfg a1 c x p d E Hok1 Hc1 Hacc). cbn. split; [discriminate|]. unfold ok_status. auto 10. }
  rewrite (astep_eq cfg a (OAddVersion c p d) E).
  destruct (a_cl a c) as [x|] eqn:Hc.
  - (* the client exists: one library call *)
    destruct (Hstep a U HI0 (fun i H => H)) as (Hn & Hne & Hst); [congruence|].
    destruct (fst (astep cfg a (OAddVersion c p d) E)) eqn:Er; try contradiction;
      (split; [exact Hn|]; split; [exact Hst|reflexivity]).
  - (* first request of a new client: NoSuchClient, create, retry *)
    rewrite (av_noclient cfg a c p d E Hok Hc). cbn [fst snd].
    rewrite (astep_eq cfg a (OEnsure c) E), ensure_step by exact Hok. rewrite Hc. cbn [fst snd].
    set (a1 := a_set a c (mkCS nil_id None []) (a_allids a)).
    assert (HI1 : Inv U a1).
    { pose proof (inv_step cfg U a (OEnsure c) E HI0 I) as H. rewrite ensure_step in H by exact Hok. rewrite Hc in H. cbn in H.
      (* the used set only grows by ids already accounted for *)
      unfold a1. apply (Inv_set U U a c _ _ HI0 (fun i H0 => H0)).
      - constructor; cbn; auto.
        + constructor; [intros []|constructor].
        + intros m d0 Hd; discriminate.
        + intros i [<-|[]]. left. reflexivity.
      - exact Hids.
      - auto.
      - cbn. intros v []. }
    assert (Hc1 : a_cl a1 c <> None) by (unfold a1; rewrite a_set_lookup, N.eqb_refl; discriminate).
    rewrite (astep_eq cfg a1 (OAddVersion c p d) E).
    destruct (Hstep a1 U HI1 (fun i H => H) Hc1) as (Hn & Hne & Hst).
    destruct (fst (astep cfg a1 (OAddVersion c p d) E)) eqn:Er; try contradiction;
      (split; [exact Hn|]; split; [exact Hst|reflexivity]).
Qed.

(* read_body without the well-formedness assumption: the body handed on is always the
   concatenation; only the size test uses the declared lengths *)
Lemma read_body_total cs :
  read_body cs 0 [] = if N.ltb MAX_SIZE (total_len cs) then None else Some (total_len cs, body_of cs).
Proof. rewrite read_body_spec by (unfold MAX_SIZE; lia). rewrite N.add_0_l. reflexivity. Qed.

Lemma as_encodes' B cfg allow c v cs s E : client_id_header allow (COk c) = inl c ->
  body_refused cs = false ->
  run_hprog B E (route cfg allow (mkReq MPost (PAddSnapshot (IdOk v)) (COk c) CTSnapshot cs)) s =
  let '(r, s', t) := step B cfg s (OAddSnapshot c v (body_of cs), E) in (encode r, s', t).
Proof.
  intros Hc Hb. unfold route, h_add_snapshot, step. cbn [rq_method rq_path rq_cid rq_ctype rq_chunks fst snd lib_handler].
  rewrite Hc. unfold body_refused in Hb. rewrite read_body_total in *.
  destruct (N.ltb MAX_SIZE (total_len cs)); [discriminate|]. rewrite Hb. cbn [run_hprog].
  destruct (run_prog B E (p_add_snapshot v (body_of cs)) (b_begin B s c)) as [[r w] t].
  destruct r as [u|[| |]]; reflexivity.
Qed.

Lemma av_route B cfg allow c p cs s E : client_id_header allow (COk c) = inl c ->
  body_refused cs = false ->
  fst (run_hprog B E (route cfg allow (mkReq MPost (PAddVersion (IdOk p)) (COk c) CTHistory cs)) s) =
  av_http_result B cfg E c p (body_of cs) s.
Proof.
  intros Hc Hb. unfold route, h_add_version. cbn [rq_method rq_path rq_cid rq_ctype rq_chunks].
  rewrite Hc. unfold body_refused in Hb. rewrite read_body_total in *.
  destruct (N.ltb MAX_SIZE (total_len cs)); [discriminate|]. rewrite Hb. apply av_loop_result.
Qed.

(* a request either is answered by the route function alone (no storage call) or is one of the
   four protocol operations on a well-formed request *)
Inductive served : hreq -> Prop :=
| S_av c p cs : body_refused cs = false -> served (mkReq MPost (PAddVersion (IdOk p)) (COk c) CTHistory cs)
| S_gcv c p ct cs : served (mkReq MGet (PGetChild (IdOk p)) (COk c) ct cs)
| S_as c v cs : body_refused cs = false -> served (mkReq MPost (PAddSnapshot (IdOk v)) (COk c) CTSnapshot cs)
| S_gs c ct cs : served (mkReq MGet PSnapshot (COk c) ct cs).

Lemma not_served_refused cfg allow rq :
  (exists st, (st = 200 \/ st = 400 \/ st = 403 \/ st = 404) /\
              (route cfg allow rq = HRet (plain st) \/ route cfg allow rq = HRet (mkResp 200 None None None (Some RTText) [] false) /\ st = 200)) \/
  (served rq /\ exists c, rq_cid rq = COk c /\ client_id_header allow (COk c) = inl c).
Proof.
  destruct rq as [m p cid ct cs]. unfold route. cbn [rq_method rq_path].
  assert (Hcid : forall (k : id -> hprog hresp),
     (exists st, (st = 200 \/ st = 400 \/ st = 403 \/ st = 404) /\
        match client_id_header allow cid with inr st0 => HRet (plain st0) | inl c => k c end = HRet (plain st)) \/
     (exists c, cid = COk c /\ client_id_header allow (COk c) = inl c)).
  { intros k. destruct cid as [| | |c]; cbn; [left; exists 400; auto|left; exists 400; auto|left; exists 400; auto|].
    destruct allow as [l|]; [|right; eauto]. destruct (existsb (N.eqb c) l) eqn:El.
    - right. exists c. cbn. rewrite El. auto.
    - left. exists 403. auto. }
  destruct m; destruct p as [|sg|sg|sg| |]; try (left; exists 404; auto; fail).
  - left. exists 200. auto.
  - unfold h_get_child_version. destruct sg as [p|]; [|left; exists 404; auto]. cbn [rq_cid].
    destruct (Hcid (fun c => HTxn c (p_get_child_version p) (fun r => HRet match r with
               | Ok (GFound v) => mkResp 200 (Some (v_id v)) (Some (v_parent v)) None (Some RTHistory) (v_data v) false
               | Ok GNotFound => plain 404 | Ok GGone => plain 410 | Err ENoSuchClient => plain 404 | Err _ => plain 500 end)))
      as [(st & Hs & Hr)|(c & -> & Hc)].
    + left. exists st. auto.
    + right. split; [constructor|eauto].
  - unfold h_get_snapshot. cbn [rq_cid].
    destruct (Hcid (fun c => HTxn c p_get_snapshot (fun r => HRet match r with
               | Ok (Some (v, d)) => mkResp 200 (Some v) None None (Some RTSnapshot) d false
               | Ok None => plain 404 | Err ENoSuchClient => plain 404 | Err _ => plain 500 end)))
      as [(st & Hs & Hr)|(c & -> & Hc)].
    + left. exists st. auto.
    + right. split; [constructor|eauto].
  - unfold h_add_version. destruct sg as [p|]; [|left; exists 404; auto]. cbn [rq_ctype rq_cid rq_chunks].
    destruct ct; try (left; exists 400; auto; fail).
    destruct (body_refused cs) eqn:Hb.
    + left. unfold body_refused in Hb. destruct (client_id_header allow cid) as [c|st0] eqn:Hh.
      * exists 400. split; [auto|left]. destruct (read_body cs 0 []) as [[len body]|]; [rewrite Hb|]; reflexivity.
      * destruct cid as [| | |c]; cbn in Hh; inversion Hh; subst; try (exists 400; auto; fail).
        destruct allow as [l|]; [|discriminate]. destruct (existsb (N.eqb c) l); inversion Hh. exists 403. auto.
    + destruct (Hcid (fun c => match read_body cs 0 [] with None => HRet (plain 400)
              | Some (len, body) => if N.eqb len 0 then HRet (plain 400) else av_loop AV_FUEL cfg c p body end))
        as [(st & Hs & Hr)|(c & -> & Hc)].
      * left. exists st. auto.
      * right. split; [constructor; exact Hb|eauto].
  - unfold h_add_snapshot. destruct sg as [v|]; [|left; exists 404; auto]. cbn [rq_ctype rq_cid rq_chunks].
    destruct ct; try (left; exists 400; auto; fail).
    destruct (body_refused cs) eqn:Hb.
    + left. unfold body_refused in Hb. destruct (client_id_header allow cid) as [c|st0] eqn:Hh.
      * exists 400. split; [auto|left]. destruct (read_body cs 0 []) as [[len body]|]; [rewrite Hb|]; reflexivity.
      * destruct cid as [| | |c]; cbn in Hh; inversion Hh; subst; try (exists 400; auto; fail).
        destruct allow as [l|]; [|discriminate]. destruct (existsb (N.eqb c) l); inversion Hh. exists 403. auto.
    + destruct (Hcid (fun c => match read_body cs 0 [] with None => HRet (plain 400)
              | Some (len, body) => if N.eqb len 0 then HRet (plain 400)
                  else HTxn c (p_add_snapshot v body) (fun r => HRet match r with Ok _ => plain 200 | Err ENoSuchClient => plain 404 | Err _ => plain 500 end) end))
        as [(st & Hs & Hr)|(c & -> & Hc)].
      * left. exists st. auto.
      * right. split; [constructor; exact Hb|eauto].
Qed.

(* ------------------------------------------------------------------ one HTTP request on a
   reachable abstract store: the invariant is kept, the status is never 5xx, and the response
   is the encoding of the library outcome *)
Definition lib_outcome (cfg : config) (a : astore) (rq : hreq) (E : env) : option (resp * astore) :=
  match rq_method rq, rq_path rq, rq_cid rq with
  | MGet, PGetChild (IdOk p), COk c => Some (astep cfg a (OGetChild c p) E)
  | MGet, PSnapshot, COk c => Some (astep cfg a (OGetSnapshot c) E)
  | MPost, PAddSnapshot (IdOk v), COk c => Some (astep cfg a (OAddSnapshot c v (body_of (rq_chunks rq))) E)
  | MPost, PAddVersion (IdOk p), COk c =>
      (* the client is created first when the server has never seen it *)
      let a1 := match a_cl a c with Some _ => a | None => a_set a c (mkCS nil_id None []) (a_allids a) end in
      Some (astep cfg a1 (OAddVersion c p (body_of (rq_chunks rq))) E)
  | _, _, _ => None
  end.

Lemma lib_resp_ok cfg U a o E : cfg_ok cfg -> Inv U a -> fresh_ok U o E ->
  (forall c p d, o <> OAddVersion c p d) ->
  match o with OGetChild _ _ | OGetSnapshot _ | OAddSnapshot _ _ _ => True | _ => False end ->
  ok_status (rs_status (encode (fst (astep cfg a o E)))).
Proof.
  intros Hcfg (Hok & Hcl & _) _ _ Ho. unfold ok_status. destruct o; try contradiction.
  - rewrite gcv_step by assumption. cbn [fst]. destruct (a_cl a c) as [x|]; [|cbn; auto 10].
    unfold gcv_answer. destruct (by_parent p (a_vers x)); [cbn; auto 10|].
    destruct (N.eqb (a_latest x) p || N.eqb (a_latest x) nil_id); cbn; auto 10.
  - rewrite as_step by assumption. destruct (a_cl a c); cbn; auto 10.
  - rewrite gs_step by assumption. cbn [fst]. destruct (a_cl a c) as [x|]; [|cbn; auto 10].
    destruct (a_snap x) as [[m d]|]; cbn; auto 10.
Qed.

Lemma hstep_reach cfg allow U a rq E : cfg_ok cfg -> Inv U a -> hfresh_ok U rq E ->
  Inv (hused_step U rq E) (snd (hstep_a cfg allow a rq E)) /\
  ok_status (rs_status (fst (hstep_a cfg allow a rq E))) /\
  (served rq -> (exists c, rq_cid rq = COk c /\ client_id_header allow (COk c) = inl c) ->
   exists r a', lib_outcome cfg a rq E = Some (r, a') /\
                hstep_a cfg allow a rq E = (default_headers (encode r), a')).
Proof.
  intros Hcfg HI Hf. unfold hstep_a. rewrite http_step_route.
  assert (HI0 := HI). destruct HI as (Hok & Hcl & Hids & Hvs).
  destruct (not_served_refused cfg allow rq) as [(st & Hst & Hr)|(Hsv & c & Hcid & Hc)].
  - (* refused by the route function *)
    assert (Hns : ~ (served rq /\ exists c, rq_cid rq = COk c /\ client_id_header allow (COk c) = inl c)).
    { intros [Hsv (c & Hcid & Hc)]. destruct Hsv as [c' p cs Hb|c' p ct cs|c' v cs Hb|c' ct cs];
        cbn [rq_cid] in Hcid; inversion Hcid; subst c';
        unfold route in Hr; cbn [rq_method rq_path] in Hr.
      - unfold h_add_version in Hr. cbn [rq_ctype rq_cid rq_chunks] in Hr. rewrite Hc in Hr.
        unfold body_refused in Hb. destruct (read_body cs 0 []) as [[len body]|]; [|discriminate]. rewrite Hb in Hr.
        destruct Hr as [Hr|[Hr _]]; discriminate.
      - unfold h_get_child_version in Hr. cbn [rq_cid] in Hr. rewrite Hc in Hr. destruct Hr as [Hr|[Hr _]]; discriminate.
      - unfold h_add_snapshot in Hr. cbn [rq_ctype rq_cid rq_chunks] in Hr. rewrite Hc in Hr.
        unfold body_refused in Hb. destruct (read_body cs 0 []) as [[len body]|]; [|discriminate]. rewrite Hb in Hr.
        destruct Hr as [Hr|[Hr _]]; discriminate.
      - unfold h_get_snapshot in Hr. cbn [rq_cid] in Hr. rewrite Hc in Hr. destruct Hr as [Hr|[Hr _]]; discriminate. }
    assert (Hstat : ok_status st) by (unfold ok_status; destruct Hst as [Hs|[Hs|[Hs|Hs]]]; subst st; auto 10).
    destruct Hr as [Hr|[Hr Hs2]]; rewrite Hr; cbn [run_hprog fst snd].
    + split; [apply Inv_hused; exact HI0|]. split; [exact Hstat|]. intros H1 H2. exfalso. apply Hns. auto.
    + split; [apply Inv_hused; exact HI0|]. split; [cbn; unfold ok_status; auto|]. intros H1 H2. exfalso. apply Hns. auto.
  - (* one of the four protocol operations *)
    destruct Hsv as [c' p cs Hb|c' p ct cs|c' v cs Hb|c' ct cs]; cbn [rq_cid] in Hcid; inversion Hcid; subst c'.
    + (* add-version *)
      pose proof (av_route AStoreB cfg allow c p cs a E Hc Hb) as Hav.
      destruct (run_hprog AStoreB E (route cfg allow (mkReq MPost (PAddVersion (IdOk p)) (COk c) CTHistory cs)) a) as [[hr a'] t].
      cbn [fst snd] in *.
      pose proof (av_http_reach cfg U a c p (body_of cs) E Hcfg HI0 Hf) as Hreach. cbv zeta in Hreach.
      rewrite <- Hav in Hreach. destruct Hreach as (Hn & Hs & Heq).
      split; [exact Hn|]. split; [exact Hs|]. intros _ _.
      inversion Heq; subst. eexists. eexists. split; [|reflexivity].
      unfold lib_outcome. cbn [rq_method rq_path rq_cid rq_chunks].
      match goal with |- Some ?x = _ => destruct x; reflexivity end.
    + (* get-child-version *)
      rewrite (gcv_encodes AStoreB cfg allow c p cs ct a E Hc), (astep_eq cfg a (OGetChild c p) E). cbn [fst snd].
      split; [|split].
      * apply (inv_step cfg U a (OGetChild c p) E HI0 I).
      * apply (lib_resp_ok cfg U a (OGetChild c p) E Hcfg HI0 I); [intros; discriminate|exact I].
      * intros _ _. eexists. eexists. split; [|reflexivity]. unfold lib_outcome. cbn [rq_method rq_path rq_cid rq_chunks].
        destruct (astep cfg a (OGetChild c p) E); reflexivity.
    + (* add-snapshot *)
      rewrite (as_encodes' AStoreB cfg allow c v cs a E Hc Hb), (astep_eq cfg a (OAddSnapshot c v (body_of cs)) E). cbn [fst snd].
      split; [|split].
      * apply (inv_step cfg U a (OAddSnapshot c v (body_of cs)) E HI0 I).
      * apply (lib_resp_ok cfg U a (OAddSnapshot c v (body_of cs)) E Hcfg HI0 I); [intros; discriminate|exact I].
      * intros _ _. eexists. eexists. split; [|reflexivity]. unfold lib_outcome. cbn [rq_method rq_path rq_cid rq_chunks].
        destruct (astep cfg a (OAddSnapshot c v (body_of cs)) E); reflexivity.
    + (* get-snapshot *)
      rewrite (gs_encodes AStoreB cfg allow c cs ct a E Hc), (astep_eq cfg a (OGetSnapshot c) E). cbn [fst snd].
      split; [|split].
      * eapply Inv_mono; [|apply (inv_step cfg U a (OGetSnapshot c) E HI0 I)].
        intros i Hi. unfold used_step, hused_step, hmentioned in *. cbn in *. tauto.
      * apply (lib_resp_ok cfg U a (OGetSnapshot c) E Hcfg HI0 I); [intros; discriminate|exact I].
      * intros _ _. eexists. eexists. split; [|reflexivity]. unfold lib_outcome. cbn [rq_method rq_path rq_cid rq_chunks].
        destruct (astep cfg a (OGetSnapshot c) E); reflexivity.
Qed.

(* ------------------------------------------------------------------ HTTP histories *)
Section HRun.
  Variable B : backend.
  Fixpoint hrun (cfg : config) (allow : option (list id)) (s : b_st B) (h : list (hreq * env))
    : list hresp * b_st B :=
    match h with
    | [] => ([], s)
    | re :: r =>
        let '(a, s', _) := http_step B cfg allow s re in
        let '(l, s'') := hrun cfg allow s' r in (a :: l, s'')
    end.
End HRun.

Fixpoint horacle_ok_from (U : list id) (h : list (hreq * env)) : Prop :=
  match h with
  | [] => True
  | (rq, E) :: r => hfresh_ok U rq E /\ horacle_ok_from (hused_step U rq E) r
  end.
Fixpoint hused_after (U : list id) (h : list (hreq * env)) : list id :=
  match h with [] => U | (rq, E) :: r => hused_after (hused_step U rq E) r end.
Definition horacle_ok h := horacle_ok_from [] h.

Lemma hrun_cons_a cfg allow a rq E h :
  hrun AStoreB cfg allow a ((rq, E) :: h) =
  (fst (hstep_a cfg allow a rq E) :: fst (hrun AStoreB cfg allow (snd (hstep_a cfg allow a rq E)) h),
   snd (hrun AStoreB cfg allow (snd (hstep_a cfg allow a rq E)) h)).
Proof.
  unfold hstep_a. cbn [hrun]. destruct (http_step AStoreB cfg allow a (rq, E)) as [[r a1] t]. cbn.
  destruct (hrun AStoreB cfg allow a1 h); reflexivity.
Qed.

Lemma hreach_from cfg allow U a h : cfg_ok cfg -> Inv U a -> horacle_ok_from U h ->
  Inv (hused_after U h) (snd (hrun AStoreB cfg allow a h)) /\
  Forall (fun r => ok_status (rs_status r)) (fst (hrun AStoreB cfg allow a h)).
Proof.
  intros Hcfg. revert U a. induction h as [|[rq E] h IH]; intros U a HI Hor.
  - split; [exact HI|constructor].
  - cbn [horacle_ok_from hused_after] in *. destruct Hor as [Hf Hor]. rewrite hrun_cons_a. cbn [fst snd].
    destruct (hstep_reach cfg allow U a rq E Hcfg HI Hf) as (Hn & Hs & _).
    destruct (IH _ _ Hn Hor) as [I1 I2]. split; [exact I1|constructor; assumption].
Qed.

(* both concrete backends answer HTTP histories like the abstract store *)
Section HTransport.
  Variable B : backend.
  Variable Rs : astore -> b_st B -> Prop.
  Variable Rw : a_ws -> b_ws B -> Prop.
  Hypothesis begin_sim : forall a s c, a_ok a = true -> Rs a s -> Rw (a_begin a c) (b_begin B s c).
  Hypothesis eff_sim : forall X (e : seff X) aw w, Rw aw w -> okW (snd (a_eff e aw)) ->
    fst (b_eff B X e w) = fst (a_eff e aw) /\ Rw (snd (a_eff e aw)) (snd (b_eff B X e w)).
  Hypothesis end_sim : forall aw w, Rw aw w -> a_ok (a_end aw) = true -> Rs (a_end aw) (b_end B w).

  Lemma hrun_sticky cfg allow a h : a_ok (snd (hrun AStoreB cfg allow a h)) = true -> a_ok a = true.
  Proof.
    revert a. induction h as [|[rq E] h IH]; intros a; cbn [hrun]; [auto|].
    destruct (http_step AStoreB cfg allow a (rq, E)) as [[r a1] t] eqn:Hs.
    specialize (IH a1). destruct (hrun AStoreB cfg allow a1 h) as [l a2]. cbn in *. intros Hok.
    specialize (IH Hok). unfold http_step in Hs.
    pose proof (run_hprog_sticky _ E (http_handler cfg allow rq) a) as Hst. cbn [fst snd] in Hs. rewrite Hs in Hst.
    apply Hst. exact IH.
  Qed.

  Lemma hhist_transport cfg allow a s h :
    Rs a s -> a_ok (snd (hrun AStoreB cfg allow a h)) = true ->
    fst (hrun B cfg allow s h) = fst (hrun AStoreB cfg allow a h) /\
    Rs (snd (hrun AStoreB cfg allow a h)) (snd (hrun B cfg allow s h)).
  Proof.
    revert a s. induction h as [|[rq E] h IH]; intros a s HR Hok; cbn [hrun] in *; auto.
    destruct (http_step AStoreB cfg allow a (rq, E)) as [[r a1] t] eqn:Ha.
    destruct (http_step B cfg allow s (rq, E)) as [[r' s1] t'] eqn:Hb.
    destruct (hrun AStoreB cfg allow a1 h) as [l a2] eqn:Ha2.
    destruct (hrun B cfg allow s1 h) as [l' s2] eqn:Hb2. cbn in *.
    assert (Hok1 : a_ok a1 = true).
    { apply (hrun_sticky cfg allow a1 h). rewrite Ha2. exact Hok. }
    unfold http_step in Ha, Hb. cbn [fst snd] in Ha, Hb.
    pose proof (run_hprog_sim B Rs Rw begin_sim eff_sim end_sim _ E (http_handler cfg allow rq) a s HR) as Hsim.
    rewrite Ha, Hb in Hsim. cbn in Hsim. destruct (Hsim Hok1) as (H1 & H2 & H3). subst r' t'.
    specialize (IH a1 s1 H3). rewrite Ha2, Hb2 in IH. cbn in IH.
    destruct (IH Hok) as [I1 I2]. subst l'. auto.
  Qed.
End HTransport.

Definition hresponses (k : bk) (cfg : config) (allow : option (list id)) (h : list (hreq * env)) : list hresp :=
  fst (hrun (bk_backend k) cfg allow (bk_empty k) h).
Definition haresponses cfg allow h := fst (hrun AStoreB cfg allow a_empty h).

Theorem hresponses_agree k cfg allow h : cfg_ok cfg -> horacle_ok h ->
  hresponses k cfg allow h = haresponses cfg allow h.
Proof.
  intros Hcfg Hor. destruct (hreach_from cfg allow [] a_empty h Hcfg (Inv_empty []) Hor) as [(Hok & _) _].
  unfold hresponses, haresponses. destruct k; cbn [bk_backend bk_empty].
  - apply (hhist_transport InMemB Rs_im Rw_im im_begin_sim im_eff_sim im_end_sim cfg allow a_empty im_empty h Rs_im_empty Hok).
  - apply (hhist_transport SqliteB Rs_sq Rw_sq sq_begin_sim sq_eff_sim sq_end_sim cfg allow a_empty sq_empty h Rs_sq_empty Hok).
Qed.

(* C15: no request whatsoever — malformed or not — is answered 5xx on any backend *)
Theorem no_5xx k cfg allow h : cfg_ok cfg -> horacle_ok h ->
  Forall (fun r => ok_status (rs_status r)) (hresponses k cfg allow h).
Proof.
  intros Hcfg Hor. rewrite (hresponses_agree k cfg allow h Hcfg Hor).
  apply (hreach_from cfg allow [] a_empty h Hcfg (Inv_empty []) Hor).
Qed.

Lemma hrun_app_a cfg allow a h1 h2 :
  hrun AStoreB cfg allow a (h1 ++ h2) =
  (fst (hrun AStoreB cfg allow a h1) ++ fst (hrun AStoreB cfg allow (snd (hrun AStoreB cfg allow a h1)) h2),
   snd (hrun AStoreB cfg allow (snd (hrun AStoreB cfg allow a h1)) h2)).
Proof.
  revert a. induction h1 as [|[rq E] h1 IH]; intros a.
  - cbn [app]. cbn. destruct (hrun AStoreB cfg allow a h2); reflexivity.
  - cbn [app]. rewrite !hrun_cons_a. cbn [fst snd]. rewrite IH. reflexivity.
Qed.

Lemma horacle_ok_from_app U h1 h2 :
  horacle_ok_from U (h1 ++ h2) <-> horacle_ok_from U h1 /\ horacle_ok_from (hused_after U h1) h2.
Proof.
  revert U. induction h1 as [|[o E] h1 IH]; intros U; cbn [app horacle_ok_from hused_after]; [tauto|].
  rewrite IH. tauto.
Qed.

(* C14: the response to a well-formed request is the encoding of the library outcome on the
   state the history has reached (for add-version: after creating the client if the server has
   never seen it), with the default headers added — on every backend *)
Theorem http_encodes_outcome k cfg allow h rq E : cfg_ok cfg -> horacle_ok (h ++ [(rq, E)]) ->
  served rq -> (exists c, rq_cid rq = COk c /\ client_id_header allow (COk c) = inl c) ->
  exists r a', lib_outcome cfg (snd (hrun AStoreB cfg allow a_empty h)) rq E = Some (r, a') /\
    hresponses k cfg allow (h ++ [(rq, E)]) = hresponses k cfg allow h ++ [default_headers (encode r)].
Proof.
  intros Hcfg Hor Hsv Hcid. assert (Hor' := Hor). apply horacle_ok_from_app in Hor'. destruct Hor' as [Hor1 [Hf _]].
  rewrite (hresponses_agree k cfg allow _ Hcfg Hor), (hresponses_agree k cfg allow _ Hcfg Hor1).
  unfold haresponses. rewrite hrun_app_a. cbn [fst].
  destruct (hreach_from cfg allow [] a_empty h Hcfg (Inv_empty []) Hor1) as [HI _].
  set (a := snd (hrun AStoreB cfg allow a_empty h)) in *.
  destruct (hstep_reach cfg allow _ a rq E Hcfg HI Hf) as (_ & _ & Henc).
  destruct (Henc Hsv Hcid) as (r & a' & Hl & Hst). exists r, a'. split; [exact Hl|].
  f_equal. rewrite hrun_cons_a. cbn [fst hrun]. rewrite Hst. reflexivity.
Qed.
