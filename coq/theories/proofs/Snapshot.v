(* Snapshot.v — the acceptance rule of AddSnapshot (C10) and what GetSnapshot returns (C11). *)
From TSS Require Import AStore Seq proofs.ListAux proofs.Chain proofs.Steps proofs.Refine
  proofs.RefineInMem proofs.Inv proofs.Agree proofs.Hist proofs.Cas.
From Coq Require Import Lia.
Open Scope N_scope.

(* scanning a list of ids, newest first: is v met before the current snapshot version? *)
Fixpoint scanv (W : list id) (v : id) (sl : option id) : bool :=
  match W with
  | [] => false
  | w :: r => if N.eqb w v && negb (N.eqb v nil_id) then true
              else if oid_eqb (Some w) sl then false else scanv r v sl
  end.

(* the walk order: ids newest first, then the base the chain started from *)
Definition back (l : list version) (b : id) : list id := rev (ids_of l) ++ [b].

Lemma back_snoc l ver b : back (l ++ [ver]) b = v_id ver :: back l b.
Proof. unfold back, ids_of. rewrite map_app, rev_app_distr. reflexivity. Qed.

Lemma by_id_app_r l1 ver l2 :
  NoDup (ids_of (l1 ++ ver :: l2)) -> by_id (v_id ver) (l1 ++ ver :: l2) = Some ver.
Proof.
  intros Hn. apply by_id_unique; [exact Hn|]. apply in_app_iff. right. left. reflexivity.
Qed.

(* the bounded search of add_snapshot visits exactly the first n elements of the walk order *)
Lemma search_is_scan n v sl l b suffix :
  chain_from b l -> NoDup (b :: ids_of (l ++ suffix)) -> ~ In nil_id (ids_of (l ++ suffix)) ->
  search_spec (S n) v sl (l ++ suffix) (last_id l b) = scanv (firstn (S n) (back l b)) v sl.
Proof.
  revert n suffix. induction l as [|ver l IH] using rev_ind; intros n suffix Hch Hnd Hnn.
  - cbn [app] in *. unfold last_id, back. cbn [ids_of map List.last rev app firstn scanv].
    cbn [search_spec].
    destruct (N.eqb b v && negb (N.eqb v nil_id)); [reflexivity|].
    destruct (oid_eqb (Some b) sl); [reflexivity|].
    destruct (Nat.eqb n 0 || N.eqb b nil_id); [destruct n; reflexivity|].
    assert (Hb : by_id b suffix = None).
    { apply by_id_none. inversion Hnd; assumption. }
    rewrite Hb. destruct n; reflexivity.
  - rewrite last_id_snoc, back_snoc. rewrite <- app_assoc in *. cbn [app] in *.
    apply chain_from_app in Hch. destruct Hch as [Hch1 [Hpar _]].
    cbn [search_spec firstn scanv].
    destruct (N.eqb (v_id ver) v && negb (N.eqb v nil_id)); [reflexivity|].
    destruct (oid_eqb (Some (v_id ver)) sl); [reflexivity|].
    assert (Hne : N.eqb (v_id ver) nil_id = false).
    { apply N.eqb_neq. intros E. apply Hnn. rewrite <- E. unfold ids_of. rewrite map_app. apply in_app_iff. right. left. reflexivity. }
    rewrite Hne, Bool.orb_false_r.
    destruct n as [|n]; [destruct (back l b); reflexivity|]. cbn [Nat.eqb].
    rewrite by_id_app_r by (inversion Hnd; assumption).
    rewrite Hpar. apply (IH n (ver :: suffix)); assumption.
Qed.

Definition walk_window (x : cstate) : list id :=
  firstn SNAPSHOT_SEARCH_LEN (back (a_vers x) (base_of (a_vers x))).

Lemma as_accepts_scan U x v : cinv U x ->
  as_accepts x v = negb (oid_eqb (Some v) (snap_last x)) && scanv (walk_window x) v (snap_last x).
Proof.
  intros Hi. unfold as_accepts, walk_window. f_equal.
  pose proof (search_is_scan 4 v (snap_last x) (a_vers x) (base_of (a_vers x)) []) as H.
  rewrite app_nil_r in H.
  destruct (cinv_latest_last U x Hi) as [Hl|He].
  - rewrite Hl. apply H; [apply (ci_chain U x Hi)|apply (ci_nodup U x Hi)|apply (ci_nonnil U x Hi)].
  - rewrite (ci_latest U x Hi), He. reflexivity.
Qed.

(* scanv in words *)
Lemma scanv_true W v sl : scanv W v sl = true <->
  v <> nil_id /\ exists pre post, W = pre ++ v :: post /\ ~ In v pre /\ (forall w, In w pre -> Some w <> sl).
Proof.
  induction W as [|w r IH]; cbn [scanv].
  - split; [discriminate|]. intros (_ & pre & post & E & _). destruct pre; discriminate.
  - destruct (N.eqb_spec w v) as [E|E]; cbn [andb].
    + destruct (N.eqb_spec v nil_id) as [E2|E2]; cbn [negb].
      * split.
        -- destruct (oid_eqb (Some w) sl); [discriminate|]. intros H. apply IH in H. tauto.
        -- intros (H & _). contradiction.
      * split; [|reflexivity]. intros _. split; [exact E2|]. exists [], r. subst w.
        split; [reflexivity|]. split; [intros []|intros w []].
    + destruct (oid_eqb (Some w) sl) eqn:Eo.
      * split; [discriminate|]. intros (Hn & pre & post & Ew & Hnin & Hpre). exfalso.
        destruct pre as [|p0 pre]; cbn in Ew; inversion Ew; subst; [congruence|].
        apply (Hpre p0 (or_introl eq_refl)). apply oid_eqb_eq. exact Eo.
      * rewrite IH. split.
        -- intros (Hn & pre & post & Ew & Hnin & Hpre). split; [exact Hn|]. exists (w :: pre), post.
           subst r. repeat split; auto.
           ++ intros [H|H]; [congruence|contradiction].
           ++ intros w0 [<-|H]; [|apply Hpre; exact H]. intros Hc. apply oid_eqb_eq in Hc. congruence.
        -- intros (Hn & pre & post & Ew & Hnin & Hpre). split; [exact Hn|].
           destruct pre as [|p0 pre]; cbn in Ew; inversion Ew; subst; [congruence|].
           exists pre, post. repeat split; auto.
           ++ intros H. apply Hnin. right. exact H.
           ++ intros w0 H. apply Hpre. right. exact H.
Qed.

(* the five most recent version ids, newest first *)
Definition five_most_recent (l : list version) : list id := firstn SNAPSHOT_SEARCH_LEN (rev (ids_of l)).

Lemma firstn_app_short {A} n (l1 l2 : list A) : (n <= length l1)%nat -> firstn n (l1 ++ l2) = firstn n l1.
Proof. intros H. rewrite firstn_app. replace (n - length l1)%nat with 0%nat by lia. cbn. apply app_nil_r. Qed.

Lemma scanv_app_miss W b v sl : N.eqb b v && negb (N.eqb v nil_id) = false ->
  scanv (W ++ [b]) v sl = scanv W v sl.
Proof.
  intros Hb. induction W as [|w r IH]; cbn [app scanv].
  - rewrite Hb. destruct sl as [y|]; cbn; [destruct (N.eqb b y)|]; reflexivity.
  - rewrite IH. reflexivity.
Qed.

Lemma window_vs_recent l b v sl : N.eqb b v && negb (N.eqb v nil_id) = false ->
  scanv (firstn SNAPSHOT_SEARCH_LEN (back l b)) v sl = scanv (five_most_recent l) v sl.
Proof.
  intros Hb. unfold back, five_most_recent.
  destruct (Nat.le_gt_cases SNAPSHOT_SEARCH_LEN (length (rev (ids_of l)))) as [Hlen|Hlen].
  - rewrite firstn_app_short by exact Hlen. reflexivity.
  - rewrite firstn_all2 by (rewrite app_length; cbn; lia).
    rewrite (firstn_all2 (rev (ids_of l))) by lia. apply scanv_app_miss. exact Hb.
Qed.

(* ---------------- C10: the acceptance rule ---------------- *)
Definition accept_rule (l : list version) (snap : option id) (v : id) : Prop :=
  v <> nil_id /\ Some v <> snap /\
  exists newer older, five_most_recent l = newer ++ v :: older /\ ~ In v newer /\
                      (forall w, In w newer -> Some w <> snap).

Lemma snapshot_rule_state U x v : cinv U x ->
  (v <> base_of (a_vers x) \/ base_of (a_vers x) = nil_id) ->
  (as_accepts x v = true <-> accept_rule (a_vers x) (snap_last x) v).
Proof.
  intros Hi Hv. rewrite (as_accepts_scan U x v Hi). unfold walk_window.
  assert (Hb : N.eqb (base_of (a_vers x)) v && negb (N.eqb v nil_id) = false).
  { destruct (N.eqb_spec (base_of (a_vers x)) v) as [E|E]; [|reflexivity]. cbn.
    destruct (N.eqb_spec v nil_id) as [E2|E2]; [reflexivity|]. exfalso. destruct Hv as [H|H]; congruence. }
  rewrite (window_vs_recent _ _ _ _ Hb). rewrite Bool.andb_true_iff, scanv_true, Bool.negb_true_iff.
  unfold accept_rule. split.
  - intros [H1 (H2 & pre & post & H3)]. split; [exact H2|]. split; [|exists pre, post; exact H3].
    intros Hc. apply oid_eqb_eq in Hc. congruence.
  - intros (H1 & H2 & pre & post & H3). split; [|split; [exact H1|exists pre, post; exact H3]].
    destruct (oid_eqb (Some v) (snap_last x)) eqn:Eo; [|reflexivity]. apply oid_eqb_eq in Eo. contradiction.
Qed.

(* the corner the property leaves open, characterised: v is the non-nil id the chain started from *)
Lemma base_corner_state U x v : cinv U x -> v = base_of (a_vers x) -> v <> nil_id ->
  as_accepts x v = negb (oid_eqb (Some v) (snap_last x)) && scanv (walk_window x) v (snap_last x).
Proof. intros Hi _ _. apply (as_accepts_scan U x v Hi). Qed.

(* ---------------- history level ---------------- *)
Definition snap_of (r : resp) : option id := match r with RSnap v _ => Some v | _ => None end.

Lemma gs_answer_snap x : snap_of (match a_snap x with Some (m, d) => RSnap (sm_version m) d | None => RNoSnap end) = snap_last x.
Proof. unfold snap_last. destruct (a_snap x) as [[m d]|]; reflexivity. Qed.

Lemma oracle_ok_snoc_noav h o E : oracle_ok h -> is_av o = false -> oracle_ok (h ++ [(o, E)]).
Proof.
  intros Hor Ho. apply oracle_ok_from_app. split; [exact Hor|]. apply oracle_ok_no_av. cbn. rewrite Ho. reflexivity.
Qed.

Lemma last_two_steps_a cfg h o1 E1 o2 E2 :
  aresponses cfg (h ++ [(o1, E1); (o2, E2)]) =
  aresponses cfg h ++ [fst (astep cfg (state_after cfg h) o1 E1);
                       fst (astep cfg (snd (astep cfg (state_after cfg h) o1 E1)) o2 E2)].
Proof.
  unfold aresponses, state_after. rewrite arun_app. cbn [fst]. f_equal. rewrite !arun_cons. reflexivity.
Qed.

Theorem add_snapshot_rule k cfg h c v d E : oracle_ok h ->
  let acc := accepted c h (responses k cfg h) in
  exists rs ra rs',
    responses k cfg (h ++ [(OGetSnapshot c, noenv)]) = responses k cfg h ++ [rs] /\
    responses k cfg (h ++ [(OAddSnapshot c v d, E); (OGetSnapshot c, noenv)]) = responses k cfg h ++ [ra; rs'] /\
    ((rs = RNoClient /\ ra = RNoClient /\ rs' = RNoClient) \/
     (ra = RSnapAck /\ rs <> RNoClient /\
      ((v <> base_of acc \/ base_of acc = nil_id) ->
       (accept_rule acc (snap_of rs) v -> rs' = RSnap v d) /\
       (~ accept_rule acc (snap_of rs) v -> rs' = rs)))).
Proof.
  intros Hor.
  assert (Hor1 : oracle_ok (h ++ [(OGetSnapshot c, noenv)])) by (apply oracle_ok_snoc_noav; auto).
  assert (Hor2 : oracle_ok (h ++ [(OAddSnapshot c v d, E); (OGetSnapshot c, noenv)])).
  { apply oracle_ok_from_app. split; [exact Hor|]. apply oracle_ok_no_av. reflexivity. }
  rewrite (last_step k cfg h _ noenv Hor1), (responses_agree k cfg _ Hor2), (responses_agree k cfg h Hor), last_two_steps_a.
  intros acc. eexists. eexists. eexists. split; [reflexivity|]. split; [reflexivity|].
  pose proof (reachable_inv cfg h Hor) as HI. pose proof (stored_is_accepted cfg h c Hor) as Hst.
  fold acc in Hst. unfold state_after. set (a := snd (arun cfg a_empty h)) in *.
  destruct HI as (Hok & Hcl & Hids & Hvs).
  rewrite gs_step, as_step by assumption. cbn [fst snd].
  destruct (a_cl a c) as [x|] eqn:Hc.
  - right. rewrite (vers_a_some a c x Hc) in Hst. pose proof (Hcl c x Hc) as Hi. cbn [fst snd].
    split; [reflexivity|]. split; [destruct (a_snap x) as [[m0 d0]|]; discriminate|].
    intros Hv. rewrite gs_answer_snap, <- Hst. rewrite <- Hst in Hv.
    pose proof (snapshot_rule_state _ x v Hi Hv) as Hrule.
    destruct (as_accepts x v) eqn:Hacc.
    + split; [intros _|intros Hn; exfalso; apply Hn; apply Hrule; reflexivity].
      rewrite gs_step by exact Hok. unfold as_new_state. rewrite a_set_lookup, N.eqb_refl. reflexivity.
    + split; [intros Hr; apply Hrule in Hr; discriminate|intros _].
      rewrite gs_step by exact Hok. rewrite Hc. reflexivity.
  - left. cbn [fst snd]. rewrite gs_step by exact Hok. rewrite Hc. auto.
Qed.

(* a declined snapshot leaves no trace *)
Theorem declined_snapshot_no_effect k cfg h c v d E h2 : 
  oracle_ok (h ++ (OAddSnapshot c v d, E) :: h2) -> oracle_ok (h ++ h2) ->
  responses k cfg (h ++ [(OAddSnapshot c v d, E); (OGetSnapshot c, noenv)]) =
    responses k cfg (h ++ [(OAddSnapshot c v d, E)]) ++ [last (responses k cfg (h ++ [(OGetSnapshot c, noenv)])) RError] ->
  (forall s ds, last (responses k cfg (h ++ [(OGetSnapshot c, noenv)])) RError = RSnap s ds -> (s, ds) <> (v, d)) ->
  responses k cfg (h ++ (OAddSnapshot c v d, E) :: h2) =
  responses k cfg h ++ last (responses k cfg (h ++ [(OAddSnapshot c v d, E)])) RError
                       :: skipn (length h) (responses k cfg (h ++ h2)).
Proof.
  intros Hor Hor2 Hsame Hdiff.
  assert (Hor0 : oracle_ok h) by (apply oracle_ok_from_app in Hor; tauto).
  assert (Hor1 : oracle_ok (h ++ [(OGetSnapshot c, noenv)])) by (apply oracle_ok_snoc_noav; auto).
  assert (Hor3 : oracle_ok (h ++ [(OAddSnapshot c v d, E)])) by (apply oracle_ok_snoc_noav; auto).
  assert (Hor4 : oracle_ok (h ++ [(OAddSnapshot c v d, E); (OGetSnapshot c, noenv)])).
  { apply oracle_ok_from_app. split; [exact Hor0|]. apply oracle_ok_no_av. reflexivity. }
  rewrite (responses_agree k cfg _ Hor4), (responses_agree k cfg _ Hor3), (responses_agree k cfg _ Hor1) in Hsame.
  rewrite (responses_agree k cfg _ Hor1) in Hdiff.
  rewrite (responses_agree k cfg _ Hor), (responses_agree k cfg _ Hor2), (responses_agree k cfg _ Hor0), (responses_agree k cfg _ Hor3).
  rewrite last_two_steps_a, !last_step_a, !last_snoc in Hsame. rewrite last_step_a, last_snoc in Hdiff.
  rewrite last_step_a, last_snoc.
  pose proof (reachable_inv cfg h Hor0) as HI. unfold state_after in *. set (a := snd (arun cfg a_empty h)) in *.
  destruct HI as (Hok & Hcl & Hids & Hvs).
  assert (Hst : snd (astep cfg a (OAddSnapshot c v d) E) = a).
  { rewrite as_step in * by assumption. rewrite gs_step in Hdiff by assumption.
    destruct (a_cl a c) as [x|] eqn:Hc; [|reflexivity]. cbn [fst snd] in *.
    destruct (as_accepts x v) eqn:Hacc; [|reflexivity]. exfalso.
    rewrite <- app_assoc in Hsame. apply app_inv_head in Hsame. cbn in Hsame. inversion Hsame as [Hs].
    rewrite gs_step in Hs by exact Hok. unfold as_new_state in Hs. rewrite a_set_lookup, N.eqb_refl in Hs. cbn in Hs.
    rewrite gs_step in Hs by exact Hok. rewrite Hc in Hs. cbn in Hs.
    cbn in Hdiff. apply (Hdiff v d); [symmetry; exact Hs|reflexivity]. }
  unfold aresponses. rewrite !arun_app. cbn [fst]. f_equal.
  rewrite skipn_app, skipn_all2 by (rewrite arun_length; lia).
  rewrite arun_length, Nat.sub_diag. cbn [skipn app]. rewrite arun_cons. cbn [fst]. fold a. f_equal.
  rewrite Hst. reflexivity.
Qed.

(* ---------------- the snapshot only moves forward ---------------- *)
Lemma snapshot_moves_forward U x v s : cinv U x -> as_accepts x v = true -> snap_last x = Some s ->
  exists l1 l2 l3, base_of (a_vers x) :: ids_of (a_vers x) = l1 ++ s :: l2 ++ v :: l3.
Proof.
  intros Hi Hacc Hs. rewrite (as_accepts_scan U x v Hi) in Hacc.
  apply Bool.andb_true_iff in Hacc. destruct Hacc as [Hne Hscan]. rewrite Hs in *.
  apply scanv_true in Hscan. destruct Hscan as (Hvn & pre & post & Hw & Hnin & Hpre).
  assert (Hsv : s <> v).
  { intros ->. apply Bool.negb_true_iff in Hne. cbn in Hne. rewrite N.eqb_refl in Hne. discriminate. }
  set (b := base_of (a_vers x)) in *. set (ids := ids_of (a_vers x)) in *.
  assert (HR : rev (b :: ids) = pre ++ v :: post ++ skipn SNAPSHOT_SEARCH_LEN (rev (b :: ids))).
  { rewrite <- (firstn_skipn SNAPSHOT_SEARCH_LEN (rev (b :: ids))) at 1.
    unfold walk_window, back in Hw. fold b ids in Hw. cbn [rev]. rewrite Hw, <- app_assoc. reflexivity. }
  assert (Hsin : In s (rev (b :: ids))).
  { apply in_rev. rewrite rev_involutive. unfold snap_last in Hs.
    destruct (a_snap x) as [[m d]|] eqn:Ea; [|discriminate]. cbn in Hs. inversion Hs; subst.
    apply (ci_snap U x Hi m d Ea). }
  rewrite HR in Hsin. apply in_app_iff in Hsin. destruct Hsin as [Hin|[Hin|Hin]].
  - exfalso. apply (Hpre s Hin). reflexivity.
  - congruence.
  - apply in_split in Hin. destruct Hin as (q1 & q2 & Hq). rewrite Hq in HR.
    exists (rev q2), (rev q1), (rev pre).
    rewrite <- (rev_involutive (b :: ids)), HR. rewrite !rev_app_distr. cbn [rev]. rewrite !rev_app_distr. cbn [rev app].
    rewrite <- !app_assoc. cbn [app]. reflexivity.
Qed.

(* ---------------- C11: a usable base ---------------- *)
Lemma walk_answers_from U x pre post : cinv U x -> a_vers x = pre ++ post -> a_vers x <> [] ->
  map (gcv_answer x) (last_id pre (base_of (a_vers x)) :: ids_of post) = map RFound post ++ [RNotFound].
Proof.
  intros Hi Hsplit Hne.
  pose proof (ci_chain U x Hi) as Hch. pose proof (ci_nodup U x Hi) as Hnd.
  set (b := base_of (a_vers x)) in *.
  assert (Hch2 : chain_from (last_id pre b) post).
  { rewrite Hsplit in Hch. apply chain_from_app in Hch. tauto. }
  rewrite (removelast_last_split (last_id pre b :: ids_of post) nil_id) by discriminate.
  rewrite <- (chain_parents _ _ Hch2), map_app. f_equal.
  - unfold parents_of. rewrite map_map. apply map_ext_in. intros w Hw. unfold gcv_answer.
    rewrite (by_parent_unique (a_vers x) w (chain_parents_nodup _ _ Hch Hnd)); [reflexivity|].
    rewrite Hsplit. apply in_app_iff. auto.
  - cbn [map]. f_equal.
    assert (El : last (last_id pre b :: ids_of post) nil_id = last_id (a_vers x) b).
    { rewrite Hsplit. unfold last_id at 2. unfold ids_of. rewrite map_app. fold (ids_of pre) (ids_of post).
      destruct (ids_of post) as [|i il] eqn:Ei.
      - rewrite app_nil_r. reflexivity.
      - rewrite last_cons_ne by discriminate.
        destruct (ids_of pre) as [|j jl]; cbn [app]; [apply last_default_irrel; discriminate|].
        change (j :: jl ++ i :: il) with ((j :: jl) ++ i :: il).
        assert (Hgen : forall (A : Type) (l1 l2 : list A) d d', l2 <> [] -> last (l1 ++ l2) d = last l2 d').
        { intros A l1. induction l1 as [|y l1 IH1]; intros l2 d0 d' Hl2; cbn [app].
          - apply last_default_irrel. exact Hl2.
          - rewrite last_cons_ne by (destruct l1; [exact Hl2|discriminate]). apply IH1. exact Hl2. }
        symmetry. apply Hgen. discriminate. }
    rewrite El. unfold gcv_answer. rewrite (chain_no_child_of_last _ _ Hch Hnd).
    destruct (cinv_latest_last U x Hi) as [Hl|He]; [|contradiction]. fold b in Hl.
    rewrite Hl, N.eqb_refl. reflexivity.
Qed.

Lemma snapshot_on_chain U x m d : cinv U x -> a_snap x = Some (m, d) ->
  a_vers x <> [] /\ exists pre post, a_vers x = pre ++ post /\ last_id pre (base_of (a_vers x)) = sm_version m.
Proof.
  intros Hi Hs. destruct (ci_snap U x Hi m d Hs) as [Hn Hin].
  assert (Hne : a_vers x <> []).
  { intros He. rewrite He in Hin. cbn in Hin. destruct Hin as [H|[]]. apply Hn. symmetry. exact H. }
  split; [exact Hne|]. destruct Hin as [Hb|Hin].
  - exists [], (a_vers x). split; [reflexivity|]. exact Hb.
  - unfold ids_of in Hin. apply in_map_iff in Hin. destruct Hin as (ver & Ev & Hin).
    apply in_split in Hin. destruct Hin as (l1 & l2 & Hl). exists (l1 ++ [ver]), l2.
    split; [rewrite Hl, <- app_assoc; reflexivity|]. rewrite last_id_snoc. exact Ev.
Qed.

Theorem snapshot_usable_base k cfg h c v d : oracle_ok h ->
  responses k cfg (h ++ [(OGetSnapshot c, noenv)]) = responses k cfg h ++ [RSnap v d] ->
  let acc := accepted c h (responses k cfg h) in
  exists pre post, acc = pre ++ post /\ last_id pre (base_of acc) = v /\ v <> nil_id /\
    responses k cfg (h ++ gcv_ops c (v :: ids_of post)) = responses k cfg h ++ map RFound post ++ [RNotFound].
Proof.
  intros Hor.
  assert (Hor1 : oracle_ok (h ++ [(OGetSnapshot c, noenv)])) by (apply oracle_ok_snoc_noav; auto).
  rewrite (last_step k cfg h _ noenv Hor1), (responses_agree k cfg h Hor). intros Hr acc.
  apply app_inv_head in Hr. inversion Hr as [Hr']. clear Hr.
  pose proof (reachable_inv cfg h Hor) as HI. pose proof (stored_is_accepted cfg h c Hor) as Hst.
  fold acc in Hst. set (a := snd (arun cfg a_empty h)) in *.
  destruct HI as (Hok & Hcl & Hids & Hvs). rewrite gs_step in Hr' by assumption. cbn [fst] in Hr'.
  destruct (a_cl a c) as [x|] eqn:Hc; [|discriminate].
  destruct (a_snap x) as [[m dd]|] eqn:Hs; [|discriminate]. inversion Hr'; subst v dd.
  rewrite (vers_a_some a c x Hc) in Hst. pose proof (Hcl c x Hc) as Hi.
  destruct (snapshot_on_chain _ x m d Hi Hs) as (Hne & pre & post & Hsplit & Hlast).
  exists pre, post. rewrite <- Hst. split; [exact Hsplit|]. split; [exact Hlast|].
  split; [apply (ci_snap _ x Hi m d Hs)|].
  rewrite (responses_agree k cfg _ (oracle_ok_gcv h c _ Hor)). unfold aresponses. rewrite arun_app. cbn [fst]. f_equal.
  fold a. rewrite (gcv_run cfg a c x _ Hok Hc). cbn [fst]. rewrite <- Hlast.
  apply (walk_answers_from _ x pre post Hi Hsplit Hne).
Qed.

(* ---------------- C11: GetSnapshot returns the most recently accepted upload ---------------- *)
Definition snapdata (a : astore) (c : id) : option (id * payload) :=
  match a_cl a c with
  | Some x => option_map (fun md => (sm_version (fst md), snd md)) (a_snap x)
  | None => None
  end.

(* the acceptance rule as a boolean on (accepted versions, current snapshot version) *)
Definition rule_b (acc : list version) (cur : option id) (v : id) : bool :=
  negb (oid_eqb (Some v) cur) && scanv (firstn SNAPSHOT_SEARCH_LEN (back acc (base_of acc))) v cur.

Definition ghost_step (c : id) (o : op) (r : resp) (acc : list version) (cur : option (id * payload))
  : option (id * payload) :=
  match o, r with
  | OAddSnapshot c' v d, RSnapAck => if N.eqb c' c && rule_b acc (option_map fst cur) v then Some (v, d) else cur
  | _, _ => cur
  end.

(* most recently accepted snapshot upload, computed from requests and responses only *)
Fixpoint ghost_snapshot (c : id) (h : list (op * env)) (rs : list resp) (acc : list version)
  (cur : option (id * payload)) : option (id * payload) :=
  match h, rs with
  | oe :: h', r :: rs' =>
      ghost_snapshot c h' rs' (acc ++ acc_of c (fst oe) r) (ghost_step c (fst oe) r acc cur)
  | _, _ => cur
  end.

Lemma snapdata_set a c x ids c2 :
  snapdata (a_set a c x ids) c2 =
  if N.eqb c2 c then option_map (fun md => (sm_version (fst md), snd md)) (a_snap x) else snapdata a c2.
Proof. unfold snapdata. rewrite a_set_lookup. destruct (N.eqb c2 c); reflexivity. Qed.

Lemma snapdata_last a c x : a_cl a c = Some x -> option_map fst (snapdata a c) = snap_last x.
Proof. unfold snapdata, snap_last. intros ->. destruct (a_snap x) as [[m d]|]; reflexivity. Qed.

Lemma snapdata_step cfg U a o E c :
  Inv U a -> fresh_ok U o E ->
  snapdata (snd (astep cfg a o E)) c = ghost_step c o (fst (astep cfg a o E)) (vers_a a c) (snapdata a c).
Proof.
  intros HI Hf. assert (HI0 := HI). destruct HI as (Hok & Hcl & Hids & Hvs).
  destruct o as [c1 p d|c1 p|c1 v d|c1|c1|c1 secs|c1 n| |c1 ids]; cbn [ghost_step].
  - destruct (a_cl a c1) as [x|] eqn:Hc.
    + destruct (av_accepts x p) eqn:Hacc.
      * rewrite (av_accept cfg a c1 x p d E Hok Hc Hacc (fresh_mem_false U a _ _ HI0 Hf)
                  (cinv_no_child_of_target U x p (Hcl c1 x Hc) Hacc)).
        cbn [fst snd]. unfold av_new_state. rewrite snapdata_set.
        destruct (N.eqb_spec c c1) as [->|Hne]; [|reflexivity]. cbn [a_snap]. unfold snapdata. rewrite Hc.
        destruct (a_snap x) as [[m dd]|]; reflexivity.
      * rewrite (av_conflict cfg a c1 x p d E Hok Hc Hacc). reflexivity.
    + rewrite (av_noclient cfg a c1 p d E Hok Hc). reflexivity.
  - rewrite gcv_step by assumption. cbn [fst snd]. destruct (a_cl a c1); [destruct (gcv_answer c0 p)|]; reflexivity.
  - rewrite as_step by assumption. destruct (a_cl a c1) as [x|] eqn:Hc; cbn [fst snd]; [|reflexivity].
    destruct (N.eqb_spec c1 c) as [->|Hne]; cbn [andb].
    + rewrite (snapdata_last a c x Hc), (vers_a_some a c x Hc).
      assert (Hr : rule_b (a_vers x) (snap_last x) v = as_accepts x v).
      { rewrite (as_accepts_scan U x v (Hcl c x Hc)). reflexivity. }
      rewrite Hr. destruct (as_accepts x v); [|reflexivity].
      unfold as_new_state. rewrite snapdata_set, N.eqb_refl. reflexivity.
    + destruct (as_accepts x v); [|reflexivity]. unfold as_new_state. rewrite snapdata_set.
      destruct (N.eqb_spec c c1); [congruence|reflexivity].
  - rewrite gs_step by assumption. cbn [fst snd].
    destruct (a_cl a c1) as [x|]; [destruct (a_snap x) as [[m d]|]|]; reflexivity.
  - rewrite ensure_step by assumption. cbn [fst snd]. destruct (a_cl a c1) as [x|] eqn:Hc; [reflexivity|].
    rewrite snapdata_set. destruct (N.eqb_spec c c1) as [->|Hne]; [|reflexivity]. unfold snapdata. rewrite Hc. reflexivity.
  - rewrite backdate_step by assumption. cbn [fst snd]. unfold rewrite_state.
    destruct (a_cl a c1) as [x|] eqn:Hc; [|reflexivity]. destruct (a_snap x) as [[m d]|] eqn:Hs; [|reflexivity].
    rewrite snapdata_set. destruct (N.eqb_spec c c1) as [->|Hne]; [|reflexivity]. unfold snapdata. rewrite Hc, Hs. reflexivity.
  - rewrite setcounter_step by assumption. cbn [fst snd]. unfold rewrite_state.
    destruct (a_cl a c1) as [x|] eqn:Hc; [|reflexivity]. destruct (a_snap x) as [[m d]|] eqn:Hs; [|reflexivity].
    rewrite snapdata_set. destruct (N.eqb_spec c c1) as [->|Hne]; [|reflexivity]. unfold snapdata. rewrite Hc, Hs. reflexivity.
  - rewrite reopen_step. reflexivity.
  - rewrite dump_step by assumption. reflexivity.
Qed.

Lemma snapdata_hist cfg U a h c :
  Inv U a -> oracle_ok_from U h ->
  snapdata (snd (arun cfg a h)) c = ghost_snapshot c h (fst (arun cfg a h)) (vers_a a c) (snapdata a c).
Proof.
  revert U a. induction h as [|[o E] h IH]; intros U a HI Hor; [reflexivity|].
  cbn [oracle_ok_from] in Hor. destruct Hor as [Hf Hor]. rewrite arun_cons. cbn [fst snd ghost_snapshot].
  rewrite (IH _ _ (inv_step cfg U a o E HI Hf) Hor), (vers_step cfg U a o E c HI Hf), (snapdata_step cfg U a o E c HI Hf).
  reflexivity.
Qed.

Theorem get_snapshot_latest k cfg h c : oracle_ok h ->
  exists r, responses k cfg (h ++ [(OGetSnapshot c, noenv)]) = responses k cfg h ++ [r] /\
  match ghost_snapshot c h (responses k cfg h) [] None with
  | Some (v, d) => r = RSnap v d
  | None => r = RNoSnap \/ r = RNoClient
  end.
Proof.
  intros Hor.
  assert (Hor1 : oracle_ok (h ++ [(OGetSnapshot c, noenv)])) by (apply oracle_ok_snoc_noav; auto).
  rewrite (last_step k cfg h _ noenv Hor1), (responses_agree k cfg h Hor).
  eexists. split; [reflexivity|].
  pose proof (reachable_inv cfg h Hor) as HI.
  pose proof (snapdata_hist cfg [] a_empty h c (Inv_empty []) Hor) as Hg.
  change (vers_a a_empty c) with (@nil version) in Hg. change (snapdata a_empty c) with (@None (id * payload)) in Hg.
  unfold aresponses. rewrite <- Hg. set (a := snd (arun cfg a_empty h)) in *.
  destruct HI as (Hok & _). rewrite gs_step by assumption. cbn [fst]. unfold snapdata.
  destruct (a_cl a c) as [x|]; [|auto]. destruct (a_snap x) as [[m d]|]; cbn; auto.
Qed.

(* whenever the snapshot version changes, it moves strictly forward along the chain *)
Theorem snapshot_monotone_hist k cfg h c v d E s ds : oracle_ok h ->
  responses k cfg (h ++ [(OGetSnapshot c, noenv)]) = responses k cfg h ++ [RSnap s ds] ->
  responses k cfg (h ++ [(OAddSnapshot c v d, E); (OGetSnapshot c, noenv)]) = responses k cfg h ++ [RSnapAck; RSnap v d] ->
  v <> s ->
  let acc := accepted c h (responses k cfg h) in
  exists l1 l2 l3, base_of acc :: ids_of acc = l1 ++ s :: l2 ++ v :: l3.
Proof.
  intros Hor.
  assert (Hor1 : oracle_ok (h ++ [(OGetSnapshot c, noenv)])) by (apply oracle_ok_snoc_noav; auto).
  assert (Hor2 : oracle_ok (h ++ [(OAddSnapshot c v d, E); (OGetSnapshot c, noenv)])).
  { apply oracle_ok_from_app. split; [exact Hor|]. apply oracle_ok_no_av. reflexivity. }
  rewrite (last_step k cfg h _ noenv Hor1), (responses_agree k cfg _ Hor2), (responses_agree k cfg h Hor), last_two_steps_a.
  intros H1 H2 Hvs acc. apply app_inv_head in H1. apply app_inv_head in H2.
  inversion H1 as [H1']. inversion H2 as [[H2' H2'']]. clear H1 H2.
  pose proof (reachable_inv cfg h Hor) as HI. pose proof (stored_is_accepted cfg h c Hor) as Hst.
  fold acc in Hst. unfold state_after in *. set (a := snd (arun cfg a_empty h)) in *.
  destruct HI as (Hok & Hcl & Hids & Hvs').
  rewrite gs_step in H1' by assumption. rewrite as_step in H2', H2'' by assumption. cbn [fst snd] in *.
  destruct (a_cl a c) as [x|] eqn:Hc; [|discriminate]. cbn [fst snd] in *.
  rewrite (vers_a_some a c x Hc) in Hst. rewrite <- Hst.
  assert (Hsl : snap_last x = Some s).
  { unfold snap_last. destruct (a_snap x) as [[m dd]|]; [|discriminate]. inversion H1'; reflexivity. }
  destruct (as_accepts x v) eqn:Hacc.
  - apply (snapshot_moves_forward _ x v s (Hcl c x Hc) Hacc Hsl).
  - exfalso. rewrite gs_step in H2'' by exact Hok. rewrite Hc in H2''. cbn in H2''.
    unfold snap_last in Hsl. destruct (a_snap x) as [[m dd]|]; [|discriminate].
    inversion H2''; subst. cbn in Hsl. inversion Hsl. congruence.
Qed.
