(* UrgencyArith.v — arithmetic facts about the snapshot-urgency thresholds (C12). *)
From TSS Require Import Urgency.
From Coq Require Import Lia ZArith.
Open Scope Z_scope.

Lemma in_range_spec lo hi z : in_range lo hi z = true <-> lo <= z < hi.
Proof. unfold in_range. rewrite andb_true_iff, Z.leb_le, Z.ltb_lt. tauto. Qed.

Lemma quot_3_2_bounds t : 0 <= t -> t <= Z.quot (t * 3) 2 /\ 2 * Z.quot (t * 3) 2 <= 3 * t < 2 * Z.quot (t * 3) 2 + 2.
Proof.
  intros Ht. rewrite Z.quot_div_nonneg by lia.
  pose proof (Z.div_mod (t * 3) 2 ltac:(lia)) as Hdm.
  pose proof (Z.mod_pos_bound (t * 3) 2 ltac:(lia)) as Hb. lia.
Qed.

(* no intermediate leaves the type it is computed in *)
Lemma for_days_no_overflow cfg days :
  in_i64 (snapshot_days cfg) = true -> for_days_m cfg days = Some (for_days cfg days).
Proof.
  unfold in_i64, for_days_m, for_days, checked, in_i128. intros H.
  apply in_range_spec in H.
  assert (Hr : in_range (- 2 ^ 127) (2 ^ 127) (snapshot_days cfg * 3) = true).
  { apply in_range_spec. 
    assert ((2:Z) ^ 127 = 2 ^ 63 * 2 ^ 64) as -> by (rewrite <- Z.pow_add_r by lia; reflexivity).
    assert (0 < (2:Z)^63) by (apply Z.pow_pos_nonneg; lia).
    assert (3 <= (2:Z)^64) by (change ((2:Z)^64) with 18446744073709551616; lia).
    nia. }
  rewrite Hr. reflexivity.
Qed.

Lemma for_versions_no_overflow cfg since :
  in_u32 (Z.of_N (snapshot_versions cfg)) = true -> for_versions_m cfg since = Some (for_versions cfg since).
Proof.
  unfold in_u32, for_versions_m, for_versions, checked, in_u64. intros H.
  apply in_range_spec in H.
  assert (Hr : in_range 0 (2 ^ 64) (Z.of_N (snapshot_versions cfg) * 3) = true).
  { apply in_range_spec.
    change ((2:Z)^64) with 18446744073709551616. change ((2:Z)^32) with 4294967296 in H. lia. }
  rewrite Hr. reflexivity.
Qed.

(* two-threshold classification *)
Definition classify (low high x : Z) : urgency :=
  if high <=? x then UHigh else if low <=? x then ULow else UNone.

Lemma for_days_classify cfg days :
  for_days cfg days = classify (snapshot_days cfg) (Z.quot (snapshot_days cfg * 3) 2) days.
Proof. reflexivity. Qed.
Lemma for_versions_classify cfg since :
  for_versions cfg since =
  classify (Z.of_N (snapshot_versions cfg)) (Z.quot (Z.of_N (snapshot_versions cfg) * 3) 2) (Z.of_N since).
Proof. reflexivity. Qed.

Lemma classify_spec low high x : low <= high ->
  (classify low high x = UHigh <-> high <= x) /\
  (classify low high x = ULow <-> low <= x < high) /\
  (classify low high x = UNone <-> x < low).
Proof.
  intros Hlh. unfold classify.
  destruct (Z.leb_spec high x); destruct (Z.leb_spec low x);
    repeat split; intros; try discriminate; try reflexivity; lia.
Qed.

Lemma classify_monotone low high x y : x <= y -> urg_le (classify low high x) (classify low high y).
Proof.
  intros Hxy. unfold classify, urg_le.
  destruct (Z.leb_spec high x); destruct (Z.leb_spec high y);
  destruct (Z.leb_spec low x); destruct (Z.leb_spec low y); cbn; lia.
Qed.

Lemma umax_rank a b : urg_rank (umax a b) = Z.max (urg_rank a) (urg_rank b).
Proof. unfold umax. destruct (Z.ltb_spec (urg_rank a) (urg_rank b)); lia. Qed.

Lemma umax_monotone a b a' b' : urg_le a a' -> urg_le b b' -> urg_le (umax a b) (umax a' b').
Proof. unfold urg_le. rewrite !umax_rank. lia. Qed.

Lemma umax_high_iff a b : umax a b = UHigh <-> a = UHigh \/ b = UHigh.
Proof. destruct a, b; cbn; intuition congruence. Qed.
Lemma umax_none_iff a b : umax a b = UNone <-> a = UNone /\ b = UNone.
Proof. destruct a, b; cbn; intuition congruence. Qed.

Lemma num_days_monotone now now' ts : now <= now' -> num_days now ts <= num_days now' ts.
Proof. intros H. unfold num_days. apply Z.quot_le_mono; lia. Qed.

(* ---------------- statements used by props/C12.v ---------------- *)

Definition cfg_ok (cfg : config) : Prop :=
  0 <= snapshot_days cfg < 2 ^ 63 /\ 0 <= Z.of_N (snapshot_versions cfg) < 2 ^ 32.

Lemma cfg_ok_ranges cfg : cfg_ok cfg ->
  in_i64 (snapshot_days cfg) = true /\ in_u32 (Z.of_N (snapshot_versions cfg)) = true.
Proof.
  intros [[H1 H2] [H3 H4]]. split; apply in_range_spec.
  - assert (0 < (2:Z)^63) by (apply Z.pow_pos_nonneg; lia). lia.
  - lia.
Qed.

(* C12_no_overflow *)
Lemma urgency_no_overflow cfg snap now : cfg_ok cfg ->
  urgency_of cfg snap now =
  Some match snap with
       | None => UHigh
       | Some sm => umax (for_days cfg (num_days now (sm_time sm))) (for_versions cfg (sm_since sm))
       end.
Proof.
  intros Hc. destruct (cfg_ok_ranges cfg Hc) as [Hd Hv].
  destruct snap as [sm|]; cbn; [|reflexivity].
  rewrite for_days_no_overflow, for_versions_no_overflow by assumption. reflexivity.
Qed.

(* C12_thresholds_ordered *)
Lemma thresholds_ordered cfg : cfg_ok cfg ->
  snapshot_days cfg <= Z.quot (snapshot_days cfg * 3) 2 /\
  Z.of_N (snapshot_versions cfg) <= Z.quot (Z.of_N (snapshot_versions cfg) * 3) 2.
Proof. intros [[H1 _] [H3 _]]. split; apply quot_3_2_bounds; assumption. Qed.

(* "one and a half times the target": the integer threshold h satisfies 2h <= 3t < 2h + 2 *)
Lemma high_threshold_is_one_and_a_half t : 0 <= t ->
  let h := Z.quot (t * 3) 2 in 2 * h <= 3 * t < 2 * h + 2.
Proof. intros Ht h. apply quot_3_2_bounds. assumption. Qed.

(* C12_classify: the urgency of an accepted version as a function of the two measures *)
Lemma urgency_classify cfg sm now : cfg_ok cfg ->
  let days := num_days now (sm_time sm) in
  let since := Z.of_N (sm_since sm) in
  let dlow := snapshot_days cfg in let dhigh := Z.quot (dlow * 3) 2 in
  let vlow := Z.of_N (snapshot_versions cfg) in let vhigh := Z.quot (vlow * 3) 2 in
  forall u, urgency_of cfg (Some sm) now = Some u ->
  (u = UHigh <-> (dhigh <= days \/ vhigh <= since)) /\
  (u = ULow <-> (~ (dhigh <= days \/ vhigh <= since) /\ (dlow <= days \/ vlow <= since))) /\
  (u = UNone <-> (days < dlow /\ since < vlow)).
Proof.
  intros Hc days since dlow dhigh vlow vhigh u Hu.
  rewrite urgency_no_overflow in Hu by assumption. inversion Hu as [Hu']; clear Hu.
  destruct (thresholds_ordered cfg Hc) as [Hd Hv].
  rewrite for_days_classify, for_versions_classify.
  fold days since dlow dhigh vlow vhigh. fold dlow dhigh in Hd. fold vlow vhigh in Hv.
  subst u. unfold classify.
  destruct (Z.leb_spec dhigh days); destruct (Z.leb_spec dlow days);
  destruct (Z.leb_spec vhigh since); destruct (Z.leb_spec vlow since); cbn;
    (split; [|split]); split; intros; try discriminate; try reflexivity; try lia.
Qed.

(* C12_monotone: urgency never decreases as the snapshot ages or the counter grows *)
Lemma urgency_monotone cfg v ts since since' now now' u u' :
  cfg_ok cfg -> now <= now' -> (since <= since')%N ->
  urgency_of cfg (Some (mkSnap v ts since)) now = Some u ->
  urgency_of cfg (Some (mkSnap v ts since')) now' = Some u' ->
  urg_le u u'.
Proof.
  intros Hc Hn Hs Hu Hu'. rewrite urgency_no_overflow in Hu, Hu' by assumption.
  inversion Hu; inversion Hu'; subst; clear Hu Hu'. cbn [sm_time sm_since].
  apply umax_monotone.
  - rewrite !for_days_classify. apply classify_monotone. apply num_days_monotone; assumption.
  - rewrite !for_versions_classify. apply classify_monotone. lia.
Qed.

(* the pinned arithmetic (finding F1) *)
Lemma pinned_release_refuted :
  exists cfg since,
    cfg_ok cfg /\
    for_versions_pinned_release cfg since = UHigh /\ Z.of_N since < Z.of_N (snapshot_versions cfg).
Proof.
  exists (mkConfig 14 2000000000), 852516352%N. split; [|split].
  - unfold cfg_ok; cbn. lia.
  - vm_compute. reflexivity.
  - cbn. lia.
Qed.
Lemma pinned_debug_refuted :
  exists cfg since, cfg_ok cfg /\ for_versions_pinned_debug cfg since = None.
Proof.
  exists (mkConfig 14 2000000000), 0%N. split.
  - unfold cfg_ok; cbn. lia.
  - vm_compute. reflexivity.
Qed.
