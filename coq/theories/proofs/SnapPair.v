(* SnapPair.v — two AddSnapshot requests of one client for two different recent versions, handled in either
   order, leave the same store, and what it holds is the snapshot for the NEWER of the two versions.
   (The statement behind the oracle rule of the C11 `pair` family: whatever the order in which two snapshot
   uploads that are in flight together are handled, GetSnapshot afterwards returns the newer version's.) *)
From TSS Require Import AStore Seq proofs.ListAux proofs.Chain proofs.Steps proofs.Refine
  proofs.RefineInMem proofs.Inv proofs.Agree proofs.Hist proofs.Cas proofs.Snapshot.
From Coq Require Import Lia.
Open Scope N_scope.

Definition with_snap (x : cstate) (v : id) (now : Z) (d : payload) : cstate :=
  mkCS (a_latest x) (Some (mkSnap v now 0, d)) (a_vers x).

Lemma walk_window_with_snap x v now d : walk_window (with_snap x v now d) = walk_window x.
Proof. reflexivity. Qed.

Lemma snap_last_with_snap x v now d : snap_last (with_snap x v now d) = Some v.
Proof. reflexivity. Qed.

Lemma firstn_In {A} n (l : list A) a : In a (firstn n l) -> In a l.
Proof. intros H. rewrite <- (firstn_skipn n l). apply in_app_iff. left. exact H. Qed.

Lemma window_in_back x w : In w (walk_window x) -> In w (base_of (a_vers x) :: ids_of (a_vers x)).
Proof.
  unfold walk_window, back. intros Hin. apply firstn_In in Hin.
  apply in_app_iff in Hin. destruct Hin as [Hin|[<-|[]]].
  - right. apply in_rev. exact Hin.
  - left. reflexivity.
Qed.

Lemma window_nodup U x : cinv U x -> NoDup (walk_window x).
Proof.
  intros Hi. unfold walk_window, back.
  assert (Hnd : NoDup (rev (ids_of (a_vers x)) ++ [base_of (a_vers x)])).
  { pose proof (ci_nodup U x Hi) as H. apply NoDup_rev in H. cbn [rev] in H. exact H. }
  revert Hnd. generalize (rev (ids_of (a_vers x)) ++ [base_of (a_vers x)]). generalize SNAPSHOT_SEARCH_LEN.
  intros n l. revert n. induction l as [|w l IH]; intros n Hnd; destruct n; cbn [firstn]; try constructor.
  - inversion Hnd; subst. intros Hin. apply firstn_In in Hin. contradiction.
  - inversion Hnd; subst. apply IH. assumption.
Qed.

Lemma cinv_with_snap U x v now d : cinv U x -> as_accepts x v = true -> cinv U (with_snap x v now d).
Proof.
  intros Hi Hacc. rewrite (as_accepts_scan U x v Hi) in Hacc. apply Bool.andb_true_iff in Hacc.
  destruct Hacc as [_ Hscan]. apply scanv_true in Hscan. destruct Hscan as (Hvn & pre & post & Hw & _ & _).
  constructor; cbn [with_snap a_vers a_latest a_snap].
  - apply (ci_chain U x Hi).
  - apply (ci_nodup U x Hi).
  - apply (ci_nonnil U x Hi).
  - apply (ci_latest U x Hi).
  - intros m dd Hm. inversion Hm; subst. cbn [sm_version]. split; [exact Hvn|].
    apply window_in_back. rewrite Hw. apply in_app_iff. right. left. reflexivity.
  - apply (ci_used U x Hi).
Qed.

(* vn is met before vo on the walk back from the latest version (both inside the search window) *)
Definition newer_in_window (x : cstate) (vn vo : id) : Prop :=
  exists pre mid post, walk_window x = pre ++ vn :: mid ++ vo :: post.

Lemma newer_distinct U x vn vo : cinv U x -> newer_in_window x vn vo -> vn <> vo.
Proof.
  intros Hi (pre & mid & post & Hw) ->. pose proof (window_nodup U x Hi) as Hnd. rewrite Hw in Hnd.
  apply NoDup_remove_2 in Hnd. apply Hnd. apply in_app_iff. right. apply in_app_iff. right. left. reflexivity.
Qed.

(* scanning a duplicate-free window: the decomposition around v is unique *)
Lemma nodup_split_unique (W : list id) v p1 q1 p2 q2 : NoDup W -> W = p1 ++ v :: q1 -> W = p2 ++ v :: q2 -> p1 = p2.
Proof.
  intros Hnd. revert W p2 Hnd. induction p1 as [|a p1 IH]; intros W p2 Hnd H1 H2.
  - destruct p2 as [|b p2]; [reflexivity|]. exfalso. rewrite H1 in H2. cbn in H2. inversion H2; subst.
    inversion Hnd; subst. match goal with H : ~ In _ _ |- _ => apply H end. apply in_app_iff. right. left. reflexivity.
  - destruct p2 as [|b p2].
    + exfalso. rewrite H2 in H1. cbn in H1. inversion H1; subst.
      inversion Hnd; subst. match goal with H : ~ In _ _ |- _ => apply H end. apply in_app_iff. right. left. reflexivity.
    + rewrite H1 in H2. cbn in H2. inversion H2; subst. f_equal.
      inversion Hnd; subst. eapply IH; [eassumption|reflexivity|assumption].
Qed.

(* the older upload first (accepted or not), then the newer: the newer one is still accepted *)
Lemma pair_old_then_new U x vn vo now d : cinv U x -> newer_in_window x vn vo -> as_accepts x vn = true ->
  as_accepts x vo = true -> as_accepts (with_snap x vo now d) vn = true.
Proof.
  intros Hi Hnw Hn Ho.
  pose proof (cinv_with_snap U x vo now d Hi Ho) as Hi2.
  pose proof (newer_distinct U x vn vo Hi Hnw) as Hne.
  rewrite (as_accepts_scan U _ vn Hi2). rewrite walk_window_with_snap, snap_last_with_snap.
  rewrite (as_accepts_scan U x vn Hi) in Hn. apply Bool.andb_true_iff in Hn. destruct Hn as [_ Hscan].
  apply scanv_true in Hscan. destruct Hscan as (Hvn & pre & post & Hw & Hnin & _).
  apply Bool.andb_true_iff. split.
  - apply Bool.negb_true_iff. cbn. apply N.eqb_neq. exact Hne.
  - apply scanv_true. split; [exact Hvn|]. exists pre, post. split; [exact Hw|]. split; [exact Hnin|].
    intros w Hin Hc. inversion Hc; subst w.
    (* vo would be met before vn: against the order in the window *)
    destruct Hnw as (p & m & q & Hw2).
    pose proof (window_nodup U x Hi) as Hnd.
    assert (Hp : pre = p) by (eapply nodup_split_unique; eassumption). subst p.
    rewrite Hw2 in Hnd. apply in_split in Hin. destruct Hin as (l1 & l2 & ->).
    rewrite <- app_assoc in Hnd. cbn [app] in Hnd. apply NoDup_remove_2 in Hnd. apply Hnd.
    apply in_app_iff. right. apply in_app_iff. right. right. apply in_app_iff. right. left. reflexivity.
Qed.

(* the newer upload first: the older one is then declined *)
Lemma pair_new_then_old U x vn vo now d : cinv U x -> newer_in_window x vn vo -> as_accepts x vn = true ->
  as_accepts (with_snap x vn now d) vo = false.
Proof.
  intros Hi Hnw Hn.
  pose proof (cinv_with_snap U x vn now d Hi Hn) as Hi2.
  rewrite (as_accepts_scan U _ vo Hi2). rewrite walk_window_with_snap, snap_last_with_snap.
  destruct (scanv (walk_window x) vo (Some vn)) eqn:Hs; [|apply Bool.andb_false_r].
  exfalso. apply scanv_true in Hs. destruct Hs as (_ & pre & post & Hw & Hnin & Hpre).
  destruct Hnw as (p & m & q & Hw2). pose proof (window_nodup U x Hi) as Hnd.
  assert (Hp : pre = p ++ vn :: m).
  { eapply nodup_split_unique; [exact Hnd|exact Hw|]. rewrite Hw2, <- app_assoc. reflexivity. }
  apply (Hpre vn); [|reflexivity]. rewrite Hp. apply in_app_iff. right. left. reflexivity.
Qed.

(* ---- at the level of the store: both orders, one result ---- *)
Definition same_store (a1 a2 : astore) : Prop :=
  (forall c, a_cl a1 c = a_cl a2 c) /\ a_allids a1 = a_allids a2 /\ a_ok a1 = a_ok a2.

Theorem snapshot_pair_newer_wins cfg U a c x vn vo dn dold En Eo :
  Inv U a -> a_cl a c = Some x -> newer_in_window x vn vo -> as_accepts x vn = true ->
  let a_on := snd (astep cfg (snd (astep cfg a (OAddSnapshot c vo dold) Eo)) (OAddSnapshot c vn dn) En) in
  let a_no := snd (astep cfg (snd (astep cfg a (OAddSnapshot c vn dn) En)) (OAddSnapshot c vo dold) Eo) in
  same_store a_on a_no /\
  a_cl a_no c = Some (with_snap x vn (e_now En) dn) /\
  a_ok a_no = true /\
  fst (astep cfg a_no (OGetSnapshot c) En) = RSnap vn dn.
Proof.
  intros HI Hc Hnw Hn a_on a_no.
  destruct HI as (Hok & Hcl & HU & Hall). pose proof (Hcl c x Hc) as Hi.
  (* newer first *)
  assert (Hno : a_no = as_new_state a c x vn (e_now En) dn).
  { unfold a_no. rewrite (as_step cfg a c vn dn En Hok), Hc, Hn. cbn [snd].
    rewrite as_step by exact Hok. unfold as_new_state at 1. cbn [a_set a_cl]. rewrite N.eqb_refl.
    fold (with_snap x vn (e_now En) dn).
    rewrite (pair_new_then_old U x vn vo (e_now En) dn Hi Hnw Hn). reflexivity. }
  (* older first *)
  assert (Hon : same_store a_on (as_new_state a c x vn (e_now En) dn)).
  { unfold a_on. rewrite (as_step cfg a c vo dold Eo Hok), Hc. cbn [snd].
    destruct (as_accepts x vo) eqn:Ho.
    - rewrite as_step by exact Hok. unfold as_new_state at 1. cbn [a_set a_cl]. rewrite N.eqb_refl.
      fold (with_snap x vo (e_now Eo) dold).
      rewrite (pair_old_then_new U x vn vo (e_now Eo) dold Hi Hnw Hn Ho). cbn [snd].
      unfold as_new_state, a_set, same_store. cbn [a_cl a_allids a_ok with_snap a_latest a_vers].
      split; [|split; reflexivity]. intros c2. destruct (N.eqb c2 c); reflexivity.
    - rewrite (as_step cfg a c vn dn En Hok), Hc, Hn. cbn [snd]. repeat split; reflexivity. }
  split; [rewrite Hno; exact Hon|]. split; [|split].
  - rewrite Hno. unfold as_new_state, a_set. cbn [a_cl]. rewrite N.eqb_refl. reflexivity.
  - rewrite Hno. unfold as_new_state, a_set. cbn [a_ok]. exact Hok.
  - rewrite Hno. rewrite gs_step by exact Hok. unfold as_new_state, a_set. cbn [a_cl fst]. rewrite N.eqb_refl. reflexivity.
Qed.

(* the premises are met: five versions, uploads for the newest and for the one before it *)
Example snapshot_pair_nonvacuous :
  let vs := [mkVersion 11 0 [1%N]; mkVersion 12 11 [2%N]; mkVersion 13 12 [3%N]] in
  let x := mkCS 13 None vs in
  newer_in_window x 13 12 /\ as_accepts x 13 = true /\ as_accepts x 12 = true.
Proof.
  cbv zeta. split; [|split; vm_compute; reflexivity].
  exists [], [], [11; 0]. vm_compute. reflexivity.
Qed.

(* ---- at the level of histories, on every backend ---- *)
Lemma recent_window x pre vn mid vo post :
  five_most_recent (a_vers x) = pre ++ vn :: mid ++ vo :: post -> newer_in_window x vn vo.
Proof.
  unfold five_most_recent, newer_in_window, walk_window, back. intros H.
  destruct (Nat.le_gt_cases SNAPSHOT_SEARCH_LEN (length (rev (ids_of (a_vers x))))) as [Hlen|Hlen].
  - rewrite firstn_app_short by exact Hlen. exists pre, mid, post. exact H.
  - rewrite firstn_all2 in H by lia. rewrite firstn_all2 by (rewrite app_length; cbn; lia).
    exists pre, mid, (post ++ [base_of (a_vers x)]). rewrite H. rewrite <- !app_assoc. cbn [app].
    rewrite <- app_assoc. reflexivity.
Qed.

Lemma last_three_steps_a cfg h o1 E1 o2 E2 o3 E3 :
  aresponses cfg (h ++ [(o1, E1); (o2, E2); (o3, E3)]) =
  aresponses cfg h ++ [fst (astep cfg (state_after cfg h) o1 E1);
                       fst (astep cfg (snd (astep cfg (state_after cfg h) o1 E1)) o2 E2);
                       fst (astep cfg (snd (astep cfg (snd (astep cfg (state_after cfg h) o1 E1)) o2 E2)) o3 E3)].
Proof.
  unfold aresponses, state_after. rewrite arun_app. cbn [fst]. f_equal. rewrite !arun_cons. reflexivity.
Qed.

Lemma gs_same_store cfg a1 a2 c E : a_ok a1 = true -> a_ok a2 = true -> (forall c2, a_cl a1 c2 = a_cl a2 c2) ->
  fst (astep cfg a1 (OGetSnapshot c) E) = fst (astep cfg a2 (OGetSnapshot c) E).
Proof. intros H1 H2 H. rewrite !gs_step by assumption. cbn [fst]. rewrite H. reflexivity. Qed.

Theorem snapshot_pair_hist k cfg h c vn vo dn dold En Eo pre mid post : oracle_ok h ->
  let acc := accepted c h (responses k cfg h) in
  five_most_recent acc = pre ++ vn :: mid ++ vo :: post ->
  forall rs, responses k cfg (h ++ [(OGetSnapshot c, noenv)]) = responses k cfg h ++ [rs] ->
  accept_rule acc (snap_of rs) vn ->
  exists r1 r2 r3 r4,
    responses k cfg (h ++ [(OAddSnapshot c vo dold, Eo); (OAddSnapshot c vn dn, En); (OGetSnapshot c, noenv)])
      = responses k cfg h ++ [r1; r2; RSnap vn dn] /\
    responses k cfg (h ++ [(OAddSnapshot c vn dn, En); (OAddSnapshot c vo dold, Eo); (OGetSnapshot c, noenv)])
      = responses k cfg h ++ [r3; r4; RSnap vn dn].
Proof.
  intros Hor.
  assert (Hor1 : oracle_ok (h ++ [(OGetSnapshot c, noenv)])) by (apply oracle_ok_snoc_noav; auto).
  assert (Hor3 : forall o1 E1 o2 E2, is_av o1 = false -> is_av o2 = false ->
                 oracle_ok (h ++ [(o1, E1); (o2, E2); (OGetSnapshot c, noenv)])).
  { intros o1 E1 o2 E2 H1 H2. apply oracle_ok_from_app. split; [exact Hor|]. apply oracle_ok_no_av. cbn. rewrite H1, H2. reflexivity. }
  rewrite (last_step k cfg h _ noenv Hor1).
  rewrite (responses_agree k cfg _ (Hor3 (OAddSnapshot c vo dold) Eo (OAddSnapshot c vn dn) En eq_refl eq_refl)).
  rewrite (responses_agree k cfg _ (Hor3 (OAddSnapshot c vn dn) En (OAddSnapshot c vo dold) Eo eq_refl eq_refl)).
  rewrite (responses_agree k cfg h Hor), !last_three_steps_a.
  intros acc Hfive rs Hrs Hrule.
  apply app_inv_head in Hrs. inversion Hrs as [Hrs']. clear Hrs.
  pose proof (reachable_inv cfg h Hor) as HI. pose proof (stored_is_accepted cfg h c Hor) as Hst.
  fold acc in Hst. unfold state_after in *. set (a := snd (arun cfg a_empty h)) in *.
  destruct (a_cl a c) as [x|] eqn:Hc.
  2:{ exfalso. rewrite (vers_a_none a c Hc) in Hst. rewrite <- Hst in Hfive. unfold five_most_recent in Hfive. cbn in Hfive.
      destruct pre; discriminate. }
  rewrite (vers_a_some a c x Hc) in Hst.
  pose proof HI as (Hok & Hcl & _). pose proof (Hcl c x Hc) as Hi.
  assert (Hnw : newer_in_window x vn vo) by (apply (recent_window x pre vn mid vo post); rewrite Hst; exact Hfive).
  assert (Hacc : as_accepts x vn = true).
  { apply (snapshot_rule_state _ x vn Hi).
    - (* vn is one of the stored ids, the base is not *)
      left. intros Hb. pose proof (ci_nodup _ x Hi) as Hnd. apply NoDup_cons_iff in Hnd. destruct Hnd as [Hnin _]. apply Hnin.
      rewrite <- Hb. apply in_rev. unfold five_most_recent in Hfive. rewrite <- Hst in Hfive.
      apply (firstn_In SNAPSHOT_SEARCH_LEN). rewrite Hfive. apply in_app_iff. right. left. reflexivity.
    - rewrite Hst. rewrite <- Hrs' in Hrule. rewrite gs_step in Hrule by exact Hok. cbn [fst] in Hrule. rewrite Hc in Hrule.
      rewrite gs_answer_snap in Hrule. exact Hrule. }
  destruct (snapshot_pair_newer_wins cfg _ a c x vn vo dn dold En Eo HI Hc Hnw Hacc) as ((Hsame & _ & Hoks) & Hcl2 & Hok2 & _).
  cbv zeta in Hsame, Hoks, Hcl2, Hok2.
  do 4 eexists. split.
  - match goal with |- _ ++ [_; _; ?z] = _ => assert (HZ : z = RSnap vn dn) end.
    { rewrite gs_step by (rewrite Hoks; exact Hok2). cbn [fst]. rewrite Hsame, Hcl2. reflexivity. }
    rewrite HZ. reflexivity.
  - match goal with |- _ ++ [_; _; ?z] = _ => assert (HZ : z = RSnap vn dn) end.
    { rewrite gs_step by exact Hok2. cbn [fst]. rewrite Hcl2. reflexivity. }
    rewrite HZ. reflexivity.
Qed.

(* ---- a second upload for the version that already holds the snapshot is declined: the bytes of the upload that
        created the snapshot stay (whatever the base of the chain, whatever the new bytes) ---- *)
Lemma as_same_version_declined x v : snap_last x = Some v -> as_accepts x v = false.
Proof.
  intros H. unfold as_accepts. rewrite H. cbn [oid_eqb]. rewrite N.eqb_refl. reflexivity.
Qed.

Theorem reupload_keeps_snapshot k cfg h c v d d2 E : oracle_ok h ->
  responses k cfg (h ++ [(OGetSnapshot c, noenv)]) = responses k cfg h ++ [RSnap v d] ->
  responses k cfg (h ++ [(OAddSnapshot c v d2, E); (OGetSnapshot c, noenv)]) = responses k cfg h ++ [RSnapAck; RSnap v d].
Proof.
  intros Hor.
  assert (Hor1 : oracle_ok (h ++ [(OGetSnapshot c, noenv)])) by (apply oracle_ok_snoc_noav; auto).
  assert (Hor2 : oracle_ok (h ++ [(OAddSnapshot c v d2, E); (OGetSnapshot c, noenv)])).
  { apply oracle_ok_from_app. split; [exact Hor|]. apply oracle_ok_no_av. reflexivity. }
  rewrite (last_step k cfg h _ noenv Hor1), (responses_agree k cfg _ Hor2), (responses_agree k cfg h Hor), last_two_steps_a.
  intros Hrs. apply app_inv_head in Hrs. injection Hrs as Hrs.
  pose proof (reachable_inv cfg h Hor) as HI. unfold state_after. set (a := snd (arun cfg a_empty h)) in *.
  destruct HI as (Hok & _).
  rewrite gs_step in Hrs by exact Hok. cbn [fst] in Hrs.
  rewrite as_step by exact Hok.
  destruct (a_cl a c) as [x|] eqn:Hc; [|discriminate].
  destruct (a_snap x) as [[m d0]|] eqn:Hs; [|discriminate]. injection Hrs as Hv Hd.
  assert (Hl : snap_last x = Some v) by (unfold snap_last; rewrite Hs; cbn; rewrite Hv; reflexivity).
  rewrite (as_same_version_declined x v Hl). cbn [fst snd].
  rewrite gs_step by exact Hok. cbn [fst]. rewrite Hc, Hs, Hv, Hd. reflexivity.
Qed.
