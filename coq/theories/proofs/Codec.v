(* Codec.v — the text form in which ids are stored in the SQLite tables (sqlite/src/lib.rs
   StoredUuid: Uuid::to_string / Uuid::parse_str): 32 hex digits, lower case, hyphens after
   8, 12, 16 and 20 digits.  A uuid is modelled as its 32 nibbles. *)
From Coq Require Import List NArith Ascii Lia Bool.
Import ListNotations.
Open Scope N_scope.

Definition hexdigit (n : N) : ascii :=
  match n with
  | 0 => "0" | 1 => "1" | 2 => "2" | 3 => "3" | 4 => "4" | 5 => "5" | 6 => "6" | 7 => "7"
  | 8 => "8" | 9 => "9" | 10 => "a" | 11 => "b" | 12 => "c" | 13 => "d" | 14 => "e" | _ => "f"
  end%char.

(* parse_str accepts upper-case digits too *)
Definition unhex (c : ascii) : option N :=
  let n := N_of_ascii c in
  if (48 <=? n) && (n <=? 57) then Some (n - 48)
  else if (97 <=? n) && (n <=? 102) then Some (n - 87)
  else if (65 <=? n) && (n <=? 70) then Some (n - 55)
  else None.

Lemma unhex_hexdigit n : n < 16 -> unhex (hexdigit n) = Some n.
Proof.
  intros H. destruct n as [|p]; [reflexivity|].
  do 4 (destruct p as [p|p|]; try reflexivity); try lia.
Qed.

Fixpoint parse_group (k : nat) (l : list ascii) : option (list N * list ascii) :=
  match k with
  | O => Some ([], l)
  | S k' =>
      match l with
      | [] => None
      | c :: r =>
          match unhex c with
          | None => None
          | Some n => match parse_group k' r with Some (g, rest) => Some (n :: g, rest) | None => None end
          end
      end
  end.

Definition hyphen : ascii := "-"%char.
Definition expect_hyphen (l : list ascii) : option (list ascii) :=
  match l with c :: r => if Ascii.eqb c hyphen then Some r else None | [] => None end.

Definition print_uuid (u : list N) : list ascii :=
  map hexdigit (firstn 8 u) ++ [hyphen] ++ map hexdigit (firstn 4 (skipn 8 u)) ++ [hyphen] ++
  map hexdigit (firstn 4 (skipn 12 u)) ++ [hyphen] ++ map hexdigit (firstn 4 (skipn 16 u)) ++ [hyphen] ++
  map hexdigit (skipn 20 u).

Definition parse_uuid (s : list ascii) : option (list N) :=
  match parse_group 8 s with
  | Some (g1, r1) =>
    match expect_hyphen r1 with
    | Some r1' =>
      match parse_group 4 r1' with
      | Some (g2, r2) =>
        match expect_hyphen r2 with
        | Some r2' =>
          match parse_group 4 r2' with
          | Some (g3, r3) =>
            match expect_hyphen r3 with
            | Some r3' =>
              match parse_group 4 r3' with
              | Some (g4, r4) =>
                match expect_hyphen r4 with
                | Some r4' =>
                  match parse_group 12 r4' with
                  | Some (g5, []) => Some (g1 ++ g2 ++ g3 ++ g4 ++ g5)
                  | _ => None
                  end
                | None => None
                end
              | None => None
              end
            | None => None
            end
          | None => None
          end
        | None => None
        end
      | None => None
      end
    | None => None
    end
  | None => None
  end.

Lemma parse_group_print g rest : Forall (fun n => n < 16) g ->
  parse_group (length g) (map hexdigit g ++ rest) = Some (g, rest).
Proof.
  induction 1 as [|n g Hn _ IH]; cbn [length map app parse_group]; [reflexivity|].
  rewrite (unhex_hexdigit n Hn), IH. reflexivity.
Qed.

Lemma Forall_firstn {A} (P : A -> Prop) k l : Forall P l -> Forall P (firstn k l).
Proof. revert l. induction k as [|k IH]; intros [|x l] H; cbn; try constructor; inversion H; auto. Qed.
Lemma Forall_skipn {A} (P : A -> Prop) k l : Forall P l -> Forall P (skipn k l).
Proof. revert l. induction k as [|k IH]; intros [|x l] H; cbn; auto. inversion H; auto. Qed.

Lemma skipn_skipn' {A} a b (l : list A) : skipn a (skipn b l) = skipn (b + a) l.
Proof. revert l. induction b as [|b IH]; intros l; [reflexivity|]. destruct l; [destruct a; reflexivity|]. cbn. apply IH. Qed.

Lemma split5 {A} (u : list A) :
  u = firstn 8 u ++ firstn 4 (skipn 8 u) ++ firstn 4 (skipn 12 u) ++ firstn 4 (skipn 16 u) ++ skipn 20 u.
Proof.
  assert (E1 : skipn 12 u = skipn 4 (skipn 8 u)) by (rewrite skipn_skipn'; reflexivity).
  assert (E2 : skipn 16 u = skipn 4 (skipn 12 u)) by (rewrite skipn_skipn'; reflexivity).
  assert (E3 : skipn 20 u = skipn 4 (skipn 16 u)) by (rewrite skipn_skipn'; reflexivity).
  rewrite E3, firstn_skipn, E2, firstn_skipn, E1, firstn_skipn, firstn_skipn. reflexivity.
Qed.

Theorem uuid_text_roundtrip u : length u = 32%nat -> Forall (fun n => n < 16) u ->
  parse_uuid (print_uuid u) = Some u.
Proof.
  intros Hl Hf. unfold print_uuid, parse_uuid.
  assert (L1 : length (firstn 8 u) = 8%nat) by (rewrite firstn_length; lia).
  assert (L2 : length (firstn 4 (skipn 8 u)) = 4%nat) by (rewrite firstn_length, skipn_length; lia).
  assert (L3 : length (firstn 4 (skipn 12 u)) = 4%nat) by (rewrite firstn_length, skipn_length; lia).
  assert (L4 : length (firstn 4 (skipn 16 u)) = 4%nat) by (rewrite firstn_length, skipn_length; lia).
  assert (L5 : length (skipn 20 u) = 12%nat) by (rewrite skipn_length; lia).
  rewrite <- L1 at 1. rewrite parse_group_print by (apply Forall_firstn; exact Hf).
  cbn [expect_hyphen app]. rewrite Ascii.eqb_refl.
  rewrite <- L2 at 1. rewrite parse_group_print by (apply Forall_firstn, Forall_skipn; exact Hf).
  cbn [expect_hyphen app]. rewrite Ascii.eqb_refl.
  rewrite <- L3 at 1. rewrite parse_group_print by (apply Forall_firstn, Forall_skipn; exact Hf).
  cbn [expect_hyphen app]. rewrite Ascii.eqb_refl.
  rewrite <- L4 at 1. rewrite parse_group_print by (apply Forall_firstn, Forall_skipn; exact Hf).
  cbn [expect_hyphen app]. rewrite Ascii.eqb_refl.
  rewrite <- (app_nil_r (map hexdigit (skipn 20 u))). rewrite <- L5 at 1.
  rewrite parse_group_print by (apply Forall_skipn; exact Hf).
  f_equal. symmetry. apply split5.
Qed.

(* the text form is canonical: distinct uuids have distinct stored text *)
Corollary uuid_text_injective u v : length u = 32%nat -> length v = 32%nat ->
  Forall (fun n => n < 16) u -> Forall (fun n => n < 16) v -> print_uuid u = print_uuid v -> u = v.
Proof.
  intros Lu Lv Fu Fv E. pose proof (uuid_text_roundtrip u Lu Fu) as H1. pose proof (uuid_text_roundtrip v Lv Fv) as H2.
  rewrite E in H1. congruence.
Qed.
