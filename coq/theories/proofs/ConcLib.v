(* ConcLib.v — requests that consist of one transaction (every library entry point; every HTTP
   request except the first add-version of a client the server has never seen) are
   linearizable: the coarse run is a one-at-a-time execution in the order of transaction
   begins.  With txn_atomic this covers every fine-grained schedule. *)
From TSS Require Import Conc proofs.Atomic proofs.ListAux.
From Coq Require Import Arith Lia.
Local Open Scope nat_scope.

Section ConcLib.
  Variable B : backend.
  Variable R : Type.
  Notation sys := (sys B R).

  (* run one single-transaction request to completion on the store *)
  Definition run_req (d : b_st B) (eh : env * hprog R) : R * b_st B := fst (run_hprog B (fst eh) (snd eh) d).

  Definition single_txn (h : hprog R) : Prop :=
    exists X c (body : prog X) (f : res X -> R), h = HTxn c body (fun r => HRet (f r)).

  (* state of thread i relative to the requests and the order `done` in which transactions ran *)
  Fixpoint seq_run (d : b_st B) (reqs : list (env * hprog R)) (order : list nat) : list (nat * R) * b_st B :=
    match order with
    | [] => ([], d)
    | i :: r =>
        match nth_error reqs i with
        | Some eh => let '(a, d') := run_req d eh in
                     let '(l, d'') := seq_run d' reqs r in ((i, a) :: l, d'')
        | None => seq_run d reqs r
        end
    end.

  Definition resp_in (l : list (nat * R)) (i : nat) : option R :=
    option_map snd (find (fun p => Nat.eqb (fst p) i) l).

  Definition thread_ok (reqs : list (env * hprog R)) (done : list nat) (resps : list (nat * R)) (i : nat) (t : tstate B R) : Prop :=
    match nth_error reqs i with
    | None => False
    | Some eh =>
        if existsb (Nat.eqb i) done
        then exists a, resp_in resps i = Some a /\ (t = TIdle (fst eh) (HRet a) \/ t = TDone a)
        else t = TIdle (fst eh) (snd eh)
    end.

  Definition lin_inv (d0 : b_st B) (reqs : list (env * hprog R)) (c : sys) (done : list nat) : Prop :=
    owner c = None /\ NoDup done /\ length (th c) = length reqs /\
    db c = snd (seq_run d0 reqs done) /\
    forall i t, nth_error (th c) i = Some t -> thread_ok reqs done (fst (seq_run d0 reqs done)) i t.

  Lemma seq_run_snoc d0 reqs done i eh : nth_error reqs i = Some eh ->
    seq_run d0 reqs (done ++ [i]) =
    (fst (seq_run d0 reqs done) ++ [(i, fst (run_req (snd (seq_run d0 reqs done)) eh))],
     snd (run_req (snd (seq_run d0 reqs done)) eh)).
  Proof.
    intros Hi. revert d0. induction done as [|j r IH]; intros d0; cbn [app seq_run].
    - rewrite Hi. cbn [fst snd app]. destruct (run_req d0 eh) as [a d']. reflexivity.
    - destruct (nth_error reqs j) as [ej|]; [|apply IH].
      destruct (run_req d0 ej) as [a d']. rewrite IH.
      destruct (seq_run d' reqs r) as [l d'']. reflexivity.
  Qed.

  Lemma resp_in_app_other l i j a : i <> j -> resp_in (l ++ [(j, a)]) i = resp_in l i.
  Proof.
    intros Hne. unfold resp_in. rewrite find_app. destruct (find (fun p => Nat.eqb (fst p) i) l); [reflexivity|].
    cbn. destruct (Nat.eqb_spec j i); [congruence|reflexivity].
  Qed.
  Lemma resp_in_app_new l i a : resp_in l i = None -> resp_in (l ++ [(i, a)]) i = Some a.
  Proof.
    unfold resp_in. intros H. rewrite find_app. destruct (find (fun p => Nat.eqb (fst p) i) l); [discriminate|].
    cbn. rewrite Nat.eqb_refl. reflexivity.
  Qed.

  Lemma existsb_snoc done i j : existsb (Nat.eqb i) (done ++ [j]) = existsb (Nat.eqb i) done || Nat.eqb i j.
  Proof. rewrite existsb_app. cbn. rewrite Bool.orb_false_r. reflexivity. Qed.

  Lemma resp_in_not_done d0 reqs done i : ~ In i done -> resp_in (fst (seq_run d0 reqs done)) i = None.
  Proof.
    revert d0. induction done as [|j r IH]; intros d0 Hn; cbn [seq_run]; [reflexivity|].
    assert (Hne : j <> i) by (intros ->; apply Hn; left; reflexivity).
    assert (Hr : ~ In i r) by (intros H; apply Hn; right; exact H).
    destruct (nth_error reqs j) as [ej|]; [|apply IH; exact Hr].
    destruct (run_req d0 ej) as [a d']. specialize (IH d' Hr).
    destruct (seq_run d' reqs r) as [l d'']. cbn [fst] in *. unfold resp_in in *. cbn [find fst].
    destruct (Nat.eqb_spec j i); [congruence|exact IH].
  Qed.

  (* one coarse step keeps the invariant, extending the order when a transaction runs *)
  Lemma lin_step d0 reqs c done i c' :
    (forall j eh, nth_error reqs j = Some eh -> single_txn (snd eh)) ->
    lin_inv d0 reqs c done -> cstep B R c i = Some c' ->
    exists done', lin_inv d0 reqs c' done' /\ (done' = done \/ done' = done ++ [i]).
  Proof.
    intros Hsingle (Hown & Hnd & Hlen & Hdb & Hth) Hst. unfold cstep in Hst.
    destruct (nth_error (th c) i) as [t|] eqn:Hi; [|discriminate].
    pose proof (Hth i t Hi) as Hok. unfold thread_ok in Hok.
    destruct (nth_error reqs i) as [eh|] eqn:Hri; [|contradiction].
    destruct (existsb (Nat.eqb i) done) eqn:Hd.
    - (* already ran: only the retirement step is possible *)
      destruct Hok as (a & Hra & [Ht|Ht]); subst t; [|discriminate].
      inversion Hst; subst c'; clear Hst. exists done. split; [|left; reflexivity].
      split; [reflexivity|]. split; [exact Hnd|]. split; [cbn [th]; rewrite len_upd; exact Hlen|].
      split; [exact Hdb|]. cbn [th]. intros j t Hj.
      destruct (Nat.eq_dec i j) as [Heq|Hne].
      + subst j. rewrite nth_upd_eq in Hj by (eapply nth_lt; eauto). inversion Hj; subst.
        unfold thread_ok. rewrite Hri, Hd. exists a. auto.
      + rewrite nth_upd_ne in Hj by exact Hne. apply Hth. exact Hj.
    - (* first step of this request: its whole transaction *)
      subst t. destruct (Hsingle i eh Hri) as (X & cc & body & f & Hh). rewrite Hh in Hst.
      destruct (finish B (fst eh) (b_begin B (db c) cc) body) as [r w] eqn:Hfin.
      inversion Hst; subst c'; clear Hst. exists (done ++ [i]). split; [|right; reflexivity].
      assert (Hnin : ~ In i done).
      { intros Hin. assert (existsb (Nat.eqb i) done = true); [|congruence].
        apply existsb_exists. exists i. split; [exact Hin|apply Nat.eqb_refl]. }
      assert (Hrun : run_req (db c) eh = (f r, b_end B w)).
      { unfold run_req. destruct eh as [E h]. cbn [fst snd] in *. subst h. cbn [run_hprog].
        unfold finish in Hfin. destruct (run_prog B E body (b_begin B (db c) cc)) as [[r0 w0] t0]. cbn in Hfin.
        inversion Hfin; subst. reflexivity. }
      unfold lin_inv. rewrite (seq_run_snoc d0 reqs done i eh Hri), <- Hdb, Hrun. cbn [fst snd db owner].
      split; [reflexivity|]. split; [apply NoDup_snoc; assumption|].
      split; [cbn [th]; rewrite len_upd; exact Hlen|]. split; [reflexivity|].
      cbn [th]. intros j t Hj. destruct (Nat.eq_dec i j) as [Heq|Hne].
      + subst j. rewrite nth_upd_eq in Hj by (eapply nth_lt; eauto). inversion Hj; subst.
        unfold thread_ok. rewrite Hri, existsb_snoc, Nat.eqb_refl, Bool.orb_true_r.
        exists (f r). split; [|left; reflexivity].
        apply resp_in_app_new. apply resp_in_not_done. exact Hnin.
      + rewrite nth_upd_ne in Hj by exact Hne. pose proof (Hth j t Hj) as Hj'. unfold thread_ok in *.
        destruct (nth_error reqs j) as [ej|]; [|contradiction].
        rewrite existsb_snoc. destruct (Nat.eqb_spec j i) as [E|E]; [congruence|]. rewrite Bool.orb_false_r.
        destruct (existsb (Nat.eqb j) done); [|exact Hj'].
        destruct Hj' as (a & Ha & Ht). exists a. split; [|exact Ht].
        rewrite resp_in_app_other by congruence. exact Ha.
  Qed.
End ConcLib.

Section ConcLibRun.
  Variable B : backend.
  Variable R : Type.

  Lemma crun_lin d0 reqs sch : forall c done,
    (forall j eh, nth_error reqs j = Some eh -> single_txn R (snd eh)) ->
    lin_inv B R d0 reqs c done ->
    exists done', lin_inv B R d0 reqs (crun B R c sch) done'.
  Proof.
    induction sch as [|i r IH]; intros c done Hs Hinv; cbn [crun]; [eauto|].
    destruct (cstep B R c i) as [c'|] eqn:Hst; [|eapply IH; eauto].
    destruct (lin_step B R d0 reqs c done i c' Hs Hinv Hst) as (done' & Hinv' & _).
    eapply IH; eauto.
  Qed.

  Lemma init_lin d0 reqs : lin_inv B R d0 reqs (init_sys B R d0 reqs) [].
  Proof.
    unfold lin_inv, init_sys. cbn [owner db th seq_run fst snd].
    split; [reflexivity|]. split; [constructor|]. split; [apply map_length|]. split; [reflexivity|].
    intros i t Hi. rewrite nth_error_map in Hi. unfold thread_ok.
    destruct (nth_error reqs i) as [eh|]; cbn in Hi; inversion Hi; subst. reflexivity.
  Qed.

  (* every fine-grained schedule of single-transaction requests that ends with no transaction
     open is a one-at-a-time execution: there is an order `done` (the order in which the
     transactions began) such that the committed store is the store after running the requests
     of `done` one at a time in that order, every thread that ran has exactly the response that
     sequential execution gives it, and every other thread has not started *)
  Theorem single_txn_linearizable d0 reqs sch :
    (forall j eh, nth_error reqs j = Some eh -> single_txn R (snd eh)) ->
    owner (frun B R (init_sys B R d0 reqs) sch) = None ->
    exists done, NoDup done /\
      db (frun B R (init_sys B R d0 reqs) sch) = snd (seq_run B R d0 reqs done) /\
      forall i t, nth_error (th (frun B R (init_sys B R d0 reqs) sch)) i = Some t ->
                  thread_ok B R reqs done (fst (seq_run B R d0 reqs done)) i t.
  Proof.
    intros Hs Hq.
    destruct (txn_atomic_quiescent B R sch (init_sys B R d0 reqs) (init_wf B R d0 reqs) eq_refl Hq) as [Hdb Hth].
    destruct (crun_lin d0 reqs (csched B R (init_sys B R d0 reqs) sch) _ [] Hs (init_lin d0 reqs)) as (done & _ & Hnd & _ & Hd & Ht).
    exists done. split; [exact Hnd|]. rewrite Hdb, Hth. split; [exact Hd|exact Ht].
  Qed.
End ConcLibRun.

(* the library entry points are single transactions *)
Lemma lib_single_txn cfg o : o <> OReopen -> (forall c ids, o <> ODump c ids) -> single_txn resp (lib_handler cfg o).
Proof.
  intros H1 H2. destruct o; cbn [lib_handler]; try (eexists; eexists; eexists; eexists; reflexivity).
  - congruence.
  - exfalso. eapply H2. reflexivity.
Qed.
