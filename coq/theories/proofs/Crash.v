(* Crash.v — crashes (C04, logic half).  A crash at the k-th storage call of a request: the
   process dies there; the open transaction's workspace is lost; what was committed survives.
   ASSUMPTION (about SQLite in WAL mode with synchronous=FULL, attacked by the crash-image rig,
   not proved): COMMIT is atomic and durable — at a crash it has either taken effect or not.
   Under that assumption the surviving database of a crash at call k is the database a storage
   fault at call k leaves behind (before effect / after effect = the two outcomes of a crash
   inside COMMIT), because every server program stops at the first failing call without
   touching storage again, and an uncommitted workspace is discarded either way. *)
From TSS Require Import Fault Sqlite Seq proofs.FaultProps.
From Coq Require Import Arith Lia.
Open Scope N_scope.

Definition crash_plan (k : nat) (after : bool) : plan :=
  fun n => if Nat.eqb n k then (if after then FAfter else FBefore) else FNone.

(* database that survives a crash at call k of one library request *)
Definition crash_survivor (cfg : config) (t : tables) (oe : op * env) (k : nat) (after : bool) : tables :=
  snd (fst (fstep SqliteB cfg (crash_plan k after) t oe)).

(* run the first j requests, crash inside the next one *)
Definition crash_in_history (cfg : config) (h : list (op * env)) (j k : nat) (after : bool) : tables :=
  match nth_error h j with
  | Some oe => crash_survivor cfg (snd (run_hist SqliteB cfg sq_empty (firstn j h))) oe k after
  | None => snd (run_hist SqliteB cfg sq_empty h)
  end.

Lemma run_hist_snoc B cfg s h oe :
  snd (run_hist B cfg s (h ++ [oe])) = snd (fst (step B cfg (snd (run_hist B cfg s h)) oe)).
Proof.
  revert s. induction h as [|x h IH]; intros s; cbn [app run_hist].
  - cbn [snd]. destruct (step B cfg s oe) as [[r s'] t]. reflexivity.
  - destruct (step B cfg s x) as [[r s'] t]. specialize (IH s').
    destruct (run_hist B cfg s' (h ++ [oe])) as [l s2]. destruct (run_hist B cfg s' h) as [l' s3]. cbn in *. exact IH.
Qed.

Lemma firstn_S_nth {A} (l : list A) j x : nth_error l j = Some x -> firstn (S j) l = firstn j l ++ [x].
Proof.
  revert j. induction l as [|y l IH]; intros [|j] H; cbn in *; try discriminate.
  - inversion H. reflexivity.
  - f_equal. apply IH. exact H.
Qed.

(* every acknowledged request is present, the request in flight is wholly applied or wholly
   absent: the survivor is the database after exactly j or exactly j+1 requests *)
Theorem crash_prefix cfg h j k after oe : nth_error h j = Some oe -> protocol_op (fst oe) = true ->
  crash_in_history cfg h j k after = snd (run_hist SqliteB cfg sq_empty (firstn j h)) \/
  crash_in_history cfg h j k after = snd (run_hist SqliteB cfg sq_empty (firstn (S j) h)).
Proof.
  intros Hj Hp. unfold crash_in_history, crash_survivor. rewrite Hj.
  rewrite (firstn_S_nth h j oe Hj), run_hist_snoc.
  set (t := snd (run_hist SqliteB cfg sq_empty (firstn j h))).
  destruct oe as [o E]. pose proof (lib_fault_atomic cfg (crash_plan k after) t o E Hp) as H.
  inversion H as [H1 H2|H1 H2|Hne Hnc H1 H2]; auto.
Qed.

(* a response is produced only by a run in which no call failed: if the crashing run would have
   produced a success response, the crash point lies after the last storage call and the
   survivor is the fault-free database (acknowledgement after commit) *)
Theorem ack_after_commit cfg t o E k after : protocol_op o = true ->
  is_error (fst (fst (fstep SqliteB cfg (crash_plan k after) t (o, E)))) = false ->
  crash_survivor cfg t (o, E) k after = snd (fst (step SqliteB cfg t (o, E))).
Proof.
  intros Hp Hne. unfold crash_survivor.
  rewrite (ack_implies_commit cfg (crash_plan k after) t o E Hp Hne). reflexivity.
Qed.

(* HTTP requests (add-version may span three transactions): the survivor is the database at a
   transaction boundary of the request *)
Theorem http_crash_boundary cfg allow t rq E k after :
  In (snd (fst (http_fstep SqliteB cfg allow (crash_plan k after) t (rq, E))))
     (ff_states E (http_handler cfg allow rq) t).
Proof.
  pose proof (http_fault_atomic cfg allow (crash_plan k after) t rq E) as H.
  destruct (http_fstep SqliteB cfg allow (crash_plan k after) t (rq, E)) as [[hr t'] n].
  pose proof (ff_states_last_in hresp E (http_handler cfg allow rq) t) as Hl.
  unfold http_step in H. cbn [fst snd] in *.
  destruct (run_hprog SqliteB E (http_handler cfg allow rq) t) as [[hr0 t0] tr]. cbn [fst snd] in *.
  destruct H as [[_ ->]|[_ Hin]]; assumption.
Qed.
