(* Inv.v — the store invariant, and its preservation by every library-level operation under
   the freshness assumption on server-generated ids. *)
From TSS Require Import AStore Seq proofs.ListAux proofs.Chain proofs.Steps proofs.Refine.
From Coq Require Import Lia.
Open Scope N_scope.

Definition usedp (U : list id) (i : id) : Prop := i = nil_id \/ In i U.

Definition mentioned (o : op) : list id :=
  match o with
  | OAddVersion c p _ => [c; p]
  | OGetChild c p => [c; p]
  | OAddSnapshot c v _ => [c; v]
  | OGetSnapshot c | OEnsure c | OBackdate c _ | OSetCounter c _ => [c]
  | OReopen => []
  | ODump c ids => c :: ids
  end.

(* what Uuid::new_v4() is assumed to deliver: an id that is not nil and has not appeared
   anywhere before — in a stored version, in any earlier request, or in this request *)
Definition fresh_ok (U : list id) (o : op) (E : env) : Prop :=
  match o with
  | OAddVersion _ _ _ => ~ usedp (mentioned o ++ U) (e_fresh E)
  | _ => True
  end.

Definition used_step (U : list id) (o : op) (E : env) : list id := e_fresh E :: mentioned o ++ U.

Fixpoint oracle_ok_from (U : list id) (h : list (op * env)) : Prop :=
  match h with
  | [] => True
  | (o, E) :: r => fresh_ok U o E /\ oracle_ok_from (used_step U o E) r
  end.
Fixpoint used_after (U : list id) (h : list (op * env)) : list id :=
  match h with
  | [] => U
  | (o, E) :: r => used_after (used_step U o E) r
  end.
Definition oracle_ok (h : list (op * env)) : Prop := oracle_ok_from [] h.

Record cinv (U : list id) (x : cstate) : Prop := mkCinv {
  ci_chain : chain_from (base_of (a_vers x)) (a_vers x);
  ci_nodup : NoDup (base_of (a_vers x) :: ids_of (a_vers x));
  ci_nonnil : ~ In nil_id (ids_of (a_vers x));
  ci_latest : a_latest x = last_id (a_vers x) nil_id;
  ci_snap : forall m d, a_snap x = Some (m, d) ->
            sm_version m <> nil_id /\ In (sm_version m) (base_of (a_vers x) :: ids_of (a_vers x));
  ci_used : forall i, In i (base_of (a_vers x) :: ids_of (a_vers x)) -> usedp U i;
}.

Definition Inv (U : list id) (a : astore) : Prop :=
  a_ok a = true /\
  (forall c x, a_cl a c = Some x -> cinv U x) /\
  (forall i, In i (a_allids a) -> In i U) /\
  (forall c x v, a_cl a c = Some x -> In v (a_vers x) -> In (v_id v) (a_allids a)).

Lemma usedp_mono U U' i : incl U U' -> usedp U i -> usedp U' i.
Proof. intros H [H1|H1]; [left; auto|right; apply H; auto]. Qed.

Lemma cinv_mono U U' x : incl U U' -> cinv U x -> cinv U' x.
Proof. intros Hi [H1 H2 H3 H4 H5 H6]. constructor; auto. intros i Hin. eapply usedp_mono; eauto. Qed.

Lemma Inv_mono U U' a : incl U U' -> Inv U a -> Inv U' a.
Proof.
  intros Hi (H1 & H2 & H3 & H4). unfold Inv. split; [exact H1|]. split; [|split; [|exact H4]].
  - intros c x Hc. eapply cinv_mono; eauto.
  - intros i Hin. apply Hi. apply H3. exact Hin.
Qed.

Lemma Inv_empty U : Inv U a_empty.
Proof.
  unfold Inv; cbn. split; [reflexivity|]. split; [intros c x; discriminate|].
  split; [intros i []|intros c x v; discriminate].
Qed.

(* ---- consequences of the per-client invariant ---- *)
Lemma cinv_latest_nil U x : cinv U x -> a_latest x = nil_id -> a_vers x = [].
Proof.
  intros Hi Hl. destruct (a_vers x) as [|v l] eqn:Ev; [reflexivity|]. exfalso.
  apply (ci_nonnil U x Hi). rewrite Ev. rewrite <- Hl, (ci_latest U x Hi), Ev.
  unfold last_id. apply last_in. discriminate.
Qed.

Lemma cinv_latest_last U x : cinv U x -> a_latest x = last_id (a_vers x) (base_of (a_vers x)) \/ a_vers x = [].
Proof.
  intros Hi. destruct (a_vers x) as [|v l] eqn:Ev; [right; reflexivity|left].
  rewrite (ci_latest U x Hi), Ev. unfold last_id. apply last_default_irrel. discriminate.
Qed.

(* the contract precondition of add_version holds whenever the server decides to append *)
Lemma cinv_no_child_of_target U x p : cinv U x -> av_accepts x p = true -> by_parent p (a_vers x) = None.
Proof.
  intros Hi Hacc. unfold av_accepts in Hacc. apply Bool.orb_true_iff in Hacc.
  destruct Hacc as [H|H]; apply N.eqb_eq in H.
  - rewrite (cinv_latest_nil U x Hi H). reflexivity.
  - subst p. destruct (cinv_latest_last U x Hi) as [Hl|He].
    + rewrite Hl. apply chain_no_child_of_last; [apply (ci_chain U x Hi)|apply (ci_nodup U x Hi)].
    + rewrite He. reflexivity.
Qed.

Lemma not_usedp_not_in U l i : ~ usedp (l ++ U) i -> ~ In i U /\ ~ In i l /\ i <> nil_id.
Proof.
  intros H. repeat split; intros H1; apply H; unfold usedp; [right|right|left]; auto;
    apply in_app_iff; auto.
Qed.

Lemma base_of_snoc l v : base_of (l ++ [v]) = match l with [] => v_parent v | _ => base_of l end.
Proof. destruct l; reflexivity. Qed.

Lemma bump_snap_version s m d : bump_snap s = Some (m, d) ->
  exists m0, s = Some (m0, d) /\ sm_version m0 = sm_version m.
Proof.
  destruct s as [[m0 d0]|]; cbn; [|discriminate]. intros H. inversion H; subst. exists m0. auto.
Qed.

(* ---- preservation: AddVersion ---- *)
Lemma cinv_append U x c p d f :
  cinv U x -> av_accepts x p = true -> ~ usedp ([c; p] ++ U) f ->
  cinv (f :: [c; p] ++ U) (mkCS f (bump_snap (a_snap x)) (a_vers x ++ [mkVersion f p d])).
Proof.
  intros Hi Hacc Hf.
  destruct (not_usedp_not_in _ _ _ Hf) as (HfU & Hfm & Hfn).
  assert (Hfp : f <> p) by (intros ->; apply Hfm; cbn; auto).
  assert (Hfl : ~ In f (base_of (a_vers x) :: ids_of (a_vers x))).
  { intros Hin. destruct (ci_used U x Hi f Hin) as [E|E]; [contradiction|contradiction]. }
  assert (Hp : a_vers x <> [] -> p = last_id (a_vers x) (base_of (a_vers x))).
  { intros Hne. unfold av_accepts in Hacc. apply Bool.orb_true_iff in Hacc.
    destruct Hacc as [H|H]; apply N.eqb_eq in H.
    - exfalso. apply Hne. apply (cinv_latest_nil U x Hi H).
    - destruct (cinv_latest_last U x Hi) as [Hl|He]; [rewrite H; exact Hl|contradiction]. }
  pose proof (ci_chain U x Hi) as Hch. pose proof (ci_nodup U x Hi) as Hnd.
  pose proof (ci_nonnil U x Hi) as Hnn. pose proof (ci_snap U x Hi) as Hsn.
  pose proof (ci_used U x Hi) as Hus. clear Hi Hacc.
  constructor; cbn [a_vers a_latest a_snap]; rewrite ?base_of_snoc.
  - (* chain *)
    destruct (a_vers x) as [|v0 l0] eqn:El; [cbn; auto|].
    apply chain_snoc; [exact Hch|]. cbn [v_parent]. apply Hp. discriminate.
  - (* nodup *)
    unfold ids_of. rewrite map_app. cbn [map v_id].
    destruct (a_vers x) as [|v0 l0] eqn:El.
    + cbn. constructor; [cbn; intros [H|[]]; congruence|constructor; [intros []|constructor]].
    + change (NoDup ((base_of (v0 :: l0) :: map v_id (v0 :: l0)) ++ [f])).
      apply NoDup_snoc; [exact Hnd|exact Hfl].
  - (* non-nil *)
    unfold ids_of. rewrite map_app, in_app_iff. cbn. intros [H|[H|[]]]; [apply (Hnn H)|congruence].
  - (* latest *) rewrite last_id_snoc. reflexivity.
  - (* snapshot *)
    intros m dd Hs. apply bump_snap_version in Hs. destruct Hs as (m0 & Hs & Ev).
    destruct (Hsn m0 dd Hs) as [Hn Hin]. rewrite <- Ev. split; [exact Hn|].
    destruct (a_vers x) as [|v0 l0] eqn:El.
    + exfalso. cbn in Hin. destruct Hin as [H|[]]. apply Hn. symmetry. exact H.
    + unfold ids_of. rewrite map_app.
      change (In (sm_version m0) ((base_of (v0 :: l0) :: map v_id (v0 :: l0)) ++ [f])).
      apply in_app_iff. left. exact Hin.
  - (* used *)
    intros i Hin. unfold ids_of in Hin. rewrite map_app in Hin. cbn [map v_id] in Hin.
    assert (Hcase : i = f \/ i = p \/ In i (base_of (a_vers x) :: ids_of (a_vers x))).
    { destruct (a_vers x) as [|v0 l0] eqn:El.
      - cbn in Hin. destruct Hin as [H|[H|[]]]; auto.
      - change (In i ((base_of (v0 :: l0) :: map v_id (v0 :: l0)) ++ [f])) in Hin.
        apply in_app_iff in Hin. destruct Hin as [H|[H|[]]]; auto. }
    destruct Hcase as [->|[->|H]].
    + right. cbn. auto.
    + right. cbn. auto.
    + eapply usedp_mono; [|apply (Hus i H)]. intros j Hj. cbn. auto.
Qed.

Lemma a_set_lookup s c x ids c2 : a_cl (a_set s c x ids) c2 = if N.eqb c2 c then Some x else a_cl s c2.
Proof. reflexivity. Qed.

Lemma Inv_set U U' a c x ids :
  Inv U a -> incl U U' -> cinv U' x ->
  (forall i, In i ids -> In i U') ->
  (forall i, In i (a_allids a) -> In i ids) ->
  (forall v, In v (a_vers x) -> In (v_id v) ids) ->
  Inv U' (a_set a c x ids).
Proof.
  intros (H1 & H2 & H3 & H4) Hinc Hx Hids Hold Hv. unfold Inv. cbn [a_ok a_set a_allids].
  split; [exact H1|]. split; [|split].
  - intros c2 x2. rewrite a_set_lookup. destruct (N.eqb_spec c2 c).
    + intros E; inversion E; subst. exact Hx.
    + intros E. apply (cinv_mono U U'); [exact Hinc|]. eapply H2; eauto.
  - exact Hids.
  - intros c2 x2 v. rewrite a_set_lookup. destruct (N.eqb_spec c2 c).
    + intros E; inversion E; subst. apply Hv.
    + intros E Hin. apply Hold. eapply H4; eauto.
Qed.

Lemma search_spec_in (S : list id) n v last l vid :
  (forall ver, In ver l -> In (v_parent ver) S) -> In vid S ->
  search_spec n v last l vid = true -> v <> nil_id /\ In v S.
Proof.
  intros Hpar Hin0 Hs0. revert Hin0 Hs0. revert vid.
  assert (Hhit : forall vid, In vid S -> N.eqb vid v && negb (N.eqb v nil_id) = true -> v <> nil_id /\ In v S).
  { intros vid Hin Hg. apply Bool.andb_true_iff in Hg. destruct Hg as [H1 H2].
    apply N.eqb_eq in H1. subst vid. split; [|exact Hin].
    destruct (N.eqb_spec v nil_id); [discriminate|assumption]. }
  induction n as [|n IH]; intros vid Hin; cbn [search_spec].
  - destruct (N.eqb vid v && negb (N.eqb v nil_id)) eqn:Hg; [intros _; eapply Hhit; eauto|].
    destruct (oid_eqb (Some vid) last); discriminate.
  - destruct (N.eqb vid v && negb (N.eqb v nil_id)) eqn:Hg; [intros _; eapply Hhit; eauto|].
    destruct (oid_eqb (Some vid) last); [discriminate|].
    destruct (Nat.eqb n 0 || N.eqb vid nil_id); [discriminate|].
    destruct (by_id vid l) as [ver|] eqn:Hb; [|discriminate].
    apply IH. apply Hpar. apply (by_id_in _ _ _ Hb).
Qed.

Lemma cinv_parents_in U x ver : cinv U x -> In ver (a_vers x) ->
  In (v_parent ver) (base_of (a_vers x) :: ids_of (a_vers x)).
Proof.
  intros Hi Hin. assert (Hp : In (v_parent ver) (parents_of (a_vers x))) by (apply in_map; exact Hin).
  rewrite (chain_parents _ _ (ci_chain U x Hi)) in Hp. apply removelast_incl. exact Hp.
Qed.

Lemma cinv_latest_in U x : cinv U x -> In (a_latest x) (base_of (a_vers x) :: ids_of (a_vers x)).
Proof.
  intros Hi. rewrite (ci_latest U x Hi). destruct (a_vers x) as [|v l] eqn:E.
  - cbn. auto.
  - right. unfold last_id. apply last_in. discriminate.
Qed.

Lemma cinv_set_snapshot U x v ts n d :
  cinv U x -> v <> nil_id -> In v (base_of (a_vers x) :: ids_of (a_vers x)) ->
  cinv U (mkCS (a_latest x) (Some (mkSnap v ts n, d)) (a_vers x)).
Proof.
  intros [H1 H2 H3 H4 H5 H6] Hn Hin. constructor; cbn [a_vers a_latest a_snap]; auto.
  intros m dd E. inversion E; subst. cbn. auto.
Qed.

(* ---- one step preserves the invariant ---- *)
Lemma inv_step cfg U a o E :
  Inv U a -> fresh_ok U o E -> Inv (used_step U o E) (snd (astep cfg a o E)).
Proof.
  intros HI Hf. assert (HI0 := HI). destruct HI as (Hok & Hcl & Hids & Hvs).
  assert (Hinc : incl U (used_step U o E)).
  { intros i Hi. unfold used_step. right. apply in_app_iff. auto. }
  assert (Hsame : Inv (used_step U o E) a) by (eapply Inv_mono; eauto).
  destruct o as [c p d|c p|c v d|c|c|c secs|c n| |c ids].
  - (* add_version *)
    destruct (a_cl a c) as [x|] eqn:Hc.
    + destruct (av_accepts x p) eqn:Hacc.
      * change (~ usedp ([c; p] ++ U) (e_fresh E)) in Hf.
        destruct (not_usedp_not_in _ _ _ Hf) as (HfU & Hfm & Hfn).
        assert (Hm : mem_id (e_fresh E) (a_allids a) = false).
        { destruct (mem_id (e_fresh E) (a_allids a)) eqn:Em; [|reflexivity]. exfalso.
          unfold mem_id in Em. apply existsb_exists in Em. destruct Em as (j & Hj & Ej).
          apply N.eqb_eq in Ej. subst j. apply HfU. apply Hids. exact Hj. }
        rewrite (av_accept cfg a c x p d E Hok Hc Hacc Hm (cinv_no_child_of_target U x p (Hcl c x Hc) Hacc)).
        cbn [snd]. unfold av_new_state. apply (Inv_set U); auto.
        -- apply (cinv_append U x c p d (e_fresh E) (Hcl c x Hc) Hacc Hf).
        -- intros i [<-|Hi]; [cbn; auto|]. apply Hinc. apply Hids. exact Hi.
        -- intros i Hi. right. exact Hi.
        -- cbn [a_vers]. intros v Hv. apply in_app_iff in Hv. destruct Hv as [Hv|[<-|[]]]; [|cbn; auto].
           right. eapply Hvs; eauto.
      * rewrite (av_conflict cfg a c x p d E Hok Hc Hacc). exact Hsame.
    + rewrite (av_noclient cfg a c p d E Hok Hc). exact Hsame.
  - rewrite gcv_step by assumption. exact Hsame.
  - (* add_snapshot *)
    rewrite as_step by assumption. destruct (a_cl a c) as [x|] eqn:Hc; [|exact Hsame]. cbn [snd].
    destruct (as_accepts x v) eqn:Hacc; [|exact Hsame].
    unfold as_new_state. apply (Inv_set U); auto.
    + unfold as_accepts in Hacc. apply Bool.andb_true_iff in Hacc. destruct Hacc as [_ Hs].
      pose proof (Hcl c x Hc) as Hi.
      destruct (search_spec_in (base_of (a_vers x) :: ids_of (a_vers x)) _ v _ _ _
                  (fun ver Hv => cinv_parents_in U x ver Hi Hv) (cinv_latest_in U x Hi) Hs) as [Hn Hin].
      eapply cinv_mono; [exact Hinc|]. apply cinv_set_snapshot; auto.
    + intros v0 Hv0. eapply Hvs; eauto.
  - rewrite gs_step by assumption. exact Hsame.
  - (* ensure *)
    rewrite ensure_step by assumption. cbn [snd]. destruct (a_cl a c) as [x|] eqn:Hc; [exact Hsame|].
    apply (Inv_set U); auto.
    + constructor; cbn; auto.
      * constructor; [intros []|constructor].
      * intros m d0 Hd; discriminate.
      * intros i [<-|[]]. left. reflexivity.
    + cbn. intros v0 [].
  - (* backdate *)
    rewrite backdate_step by assumption. cbn [snd]. unfold rewrite_state.
    destruct (a_cl a c) as [x|] eqn:Hc; [|exact Hsame].
    destruct (a_snap x) as [[m d]|] eqn:Hs; [|exact Hsame].
    apply (Inv_set U); auto.
    + pose proof (Hcl c x Hc) as Hi. destruct (ci_snap U x Hi m d Hs) as [Hn Hin].
      eapply cinv_mono; [exact Hinc|]. apply cinv_set_snapshot; auto.
    + intros v0 Hv0. eapply Hvs; eauto.
  - (* setcounter *)
    rewrite setcounter_step by assumption. cbn [snd]. unfold rewrite_state.
    destruct (a_cl a c) as [x|] eqn:Hc; [|exact Hsame].
    destruct (a_snap x) as [[m d]|] eqn:Hs; [|exact Hsame].
    apply (Inv_set U); auto.
    + pose proof (Hcl c x Hc) as Hi. destruct (ci_snap U x Hi m d Hs) as [Hn Hin].
      eapply cinv_mono; [exact Hinc|]. apply cinv_set_snapshot; auto.
    + intros v0 Hv0. eapply Hvs; eauto.
  - rewrite reopen_step. exact Hsame.
  - rewrite dump_step by assumption. exact Hsame.
Qed.

(* ---- every reachable abstract state satisfies the invariant ---- *)
Lemma arun_cons cfg a o E h :
  arun cfg a ((o, E) :: h) =
  (fst (astep cfg a o E) :: fst (arun cfg (snd (astep cfg a o E)) h),
   snd (arun cfg (snd (astep cfg a o E)) h)).
Proof.
  unfold arun, astep. cbn [run_hist]. destruct (step AStoreB cfg a (o, E)) as [[r a1] t]. cbn.
  destruct (run_hist AStoreB cfg a1 h); reflexivity.
Qed.

Lemma inv_hist cfg U a h :
  Inv U a -> oracle_ok_from U h -> Inv (used_after U h) (snd (arun cfg a h)).
Proof.
  revert U a. induction h as [|[o E] h IH]; intros U a HI Hor; [exact HI|].
  cbn [oracle_ok_from used_after] in *. destruct Hor as [Hf Hor]. rewrite arun_cons. cbn [snd].
  apply IH; [|exact Hor]. apply inv_step; assumption.
Qed.

Theorem reachable_inv cfg h : oracle_ok h -> Inv (used_after [] h) (snd (arun cfg a_empty h)).
Proof. intros Hor. apply inv_hist; [apply Inv_empty|exact Hor]. Qed.
