(* Pure.v — reads and rejected writes leave the stored state untouched (C18), and the two
   backends / a reopened database behave identically (C13). *)
From TSS Require Import AStore Seq proofs.ListAux proofs.Chain proofs.Steps proofs.Refine
  proofs.RefineInMem proofs.Inv proofs.Agree proofs.Hist proofs.Cas proofs.Snapshot.
From Coq Require Import Lia.
Open Scope N_scope.

(* if an operation leaves the abstract store unchanged, every later response — including
   complete dumps of every client through the transaction API (ODump) — is what it would
   have been had the operation never been issued *)
Lemma unchanged_state_no_effect k cfg h o E h2 :
  oracle_ok (h ++ (o, E) :: h2) -> oracle_ok (h ++ h2) ->
  snd (astep cfg (state_after cfg h) o E) = state_after cfg h ->
  responses k cfg (h ++ (o, E) :: h2) =
  responses k cfg h ++ fst (astep cfg (state_after cfg h) o E) :: skipn (length h) (responses k cfg (h ++ h2)).
Proof.
  intros Hor Hor2 Hst.
  assert (Hor0 : oracle_ok h) by (apply oracle_ok_from_app in Hor; tauto).
  rewrite (responses_agree k cfg _ Hor), (responses_agree k cfg _ Hor2), (responses_agree k cfg _ Hor0).
  unfold aresponses, state_after in *. rewrite !arun_app. cbn [fst]. f_equal.
  rewrite skipn_app, skipn_all2 by (rewrite arun_length; lia).
  rewrite arun_length, Nat.sub_diag. cbn [skipn app]. rewrite arun_cons. cbn [fst]. f_equal.
  rewrite Hst. reflexivity.
Qed.

Definition is_read (o : op) : bool :=
  match o with OGetChild _ _ | OGetSnapshot _ | ODump _ _ | OReopen => true | _ => false end.

Lemma read_state_unchanged cfg a o E : a_ok a = true -> is_read o = true -> snd (astep cfg a o E) = a.
Proof.
  intros Hok Hr. destruct o; try discriminate.
  - rewrite gcv_step by assumption. reflexivity.
  - rewrite gs_step by assumption. reflexivity.
  - reflexivity.
  - apply dump_step. exact Hok.
Qed.

Theorem reads_no_effect k cfg h o E h2 : is_read o = true ->
  oracle_ok (h ++ (o, E) :: h2) -> oracle_ok (h ++ h2) ->
  exists r, responses k cfg (h ++ (o, E) :: h2) =
            responses k cfg h ++ r :: skipn (length h) (responses k cfg (h ++ h2)).
Proof.
  intros Hr Hor Hor2. eexists. apply unchanged_state_no_effect; auto.
  assert (Hor0 : oracle_ok h) by (apply oracle_ok_from_app in Hor; tauto).
  apply read_state_unchanged; [|exact Hr]. apply (reachable_inv cfg h Hor0).
Qed.

(* ------------------------------------------------------------------ C13 *)
Theorem backends_agree cfg h : oracle_ok h -> responses BInMem cfg h = responses BSqlite cfg h.
Proof. intros Hor. rewrite !responses_agree by assumption. reflexivity. Qed.

Definition not_reopen (o : op) : bool := match o with OReopen => false | _ => true end.

(* closing and reopening the database between any two requests changes no later response *)
Lemma run_hist_erase_reopen B cfg s h :
  fst (run_hist B cfg s (filter (fun oe => not_reopen (fst oe)) h)) =
  map snd (filter (fun x => not_reopen (fst (fst x))) (combine h (fst (run_hist B cfg s h)))) /\
  snd (run_hist B cfg s (filter (fun oe => not_reopen (fst oe)) h)) = snd (run_hist B cfg s h).
Proof.
  revert s. induction h as [|[o E] h IH]; intros s; [split; reflexivity|].
  cbn [filter fst].
  destruct o; cbn [not_reopen]; cbn [run_hist];
    try (destruct (step B cfg s _) as [[r s1] t] eqn:Hs; specialize (IH s1);
         destruct (run_hist B cfg s1 h) as [l s2]; destruct (run_hist B cfg s1 (filter _ h)) as [l' s2'];
         cbn in *; destruct IH as [I1 I2]; subst; split; reflexivity).
  (* OReopen: a no-op on the store *)
  unfold step at 1 2. cbn [lib_handler fst snd run_hprog]. specialize (IH s).
  destruct (run_hist B cfg s h) as [l s2]. destruct (run_hist B cfg s (filter _ h)) as [l' s2'].
  cbn in *. exact IH.
Qed.

Theorem reopen_noop k cfg h :
  responses k cfg (filter (fun oe => not_reopen (fst oe)) h) =
  map snd (filter (fun x => not_reopen (fst (fst x))) (combine h (responses k cfg h))).
Proof. unfold responses. apply run_hist_erase_reopen. Qed.

(* ------------------------------------------------------------------ C18, on the concrete stores
   Read requests consist of read calls only, so the committed InMem maps / SQLite tables after
   the request are EQUAL (Leibniz) to those before, whatever the state and whatever the calls
   return. *)
Inductive all_reads : forall A, prog A -> Prop :=
| AR_Ret A (a : A) : all_reads A (Ret a)
| AR_Throw A e : all_reads A (Throw e)
| AR_Do A X (e : seff X) (k : X -> prog A) :
    is_write (label_of e) = false -> (forall x, all_reads A (k x)) -> all_reads A (Do e k)
| AR_Fresh A (k : id -> prog A) : (forall x, all_reads A (k x)) -> all_reads A (Fresh k)
| AR_Now A (k : Z -> prog A) : (forall x, all_reads A (k x)) -> all_reads A (Now k).

Inductive all_reads_h : forall A, hprog A -> Prop :=
| ARH_Ret A (a : A) : all_reads_h A (HRet a)
| ARH_Txn A X c (body : prog X) (k : res X -> hprog A) :
    all_reads X body -> (forall r, all_reads_h A (k r)) -> all_reads_h A (HTxn c body k).

Definition reads_pure (B : backend) : Prop :=
  (forall X (e : seff X) w, is_write (label_of e) = false -> snd (b_eff B X e w) = w) /\
  (forall s c, b_end B (b_begin B s c) = s).

Lemma run_prog_reads B A E (p : prog A) w : reads_pure B -> all_reads A p ->
  snd (fst (run_prog B E p w)) = w /\ forallb (fun l => negb (is_write l)) (snd (run_prog B E p w)) = true.
Proof.
  intros [Hp _] Hr. revert w. induction Hr as [A a|A e|A X e k He Hk IH|A k Hk IH|A k Hk IH]; intros w; cbn; auto.
  pose proof (Hp X e w He) as Hw. destruct (b_eff B X e w) as [[x|er] w1]; cbn in *; subst w1.
  - specialize (IH x w). destruct (run_prog B E (k x) w) as [[r w2] t]. cbn in *. rewrite He. cbn. exact IH.
  - rewrite He. auto.
Qed.

Lemma run_hprog_reads B A E (h : hprog A) s : reads_pure B -> all_reads_h A h ->
  snd (fst (run_hprog B E h s)) = s.
Proof.
  intros HB Hr. revert s. induction Hr as [A a|A X c body k Hb Hk IH]; intros s; cbn; auto.
  destruct (run_prog_reads B X E body (b_begin B s c) HB Hb) as [Hw _].
  destruct (run_prog B E body (b_begin B s c)) as [[r w] t]. cbn in Hw. subst w.
  destruct HB as [_ He]. rewrite He. specialize (IH r s).
  destruct (run_hprog B E (k r) s) as [[a s'] t']. cbn in *. exact IH.
Qed.

Lemma inmem_reads_pure : reads_pure InMemB.
Proof.
  split; [|reflexivity]. intros X e w He. destruct w as [c st]. destruct e; try discriminate; cbn.
  - reflexivity.
  - destruct (alookup N.eqb c (im_clients st)); [|reflexivity].
    destruct (option_map sm_version (c_snap c0)) as [y|]; [destruct (N.eqb v y)|]; reflexivity.
  - destruct (alookup pair_eqb (c, p) (im_children st)); reflexivity.
  - reflexivity.
Qed.

Lemma sqlite_reads_pure : reads_pure SqliteB.
Proof.
  split; [|reflexivity]. intros X e w He. destruct w as [c t tb cm]. destruct e; try discriminate; cbn.
  - destruct (find_crow c t); reflexivity.
  - destruct (find_crow c t) as [r|]; [|reflexivity].
    destruct (cr_snap_version r); [|reflexivity]. destruct (cr_snap r); [|reflexivity].
    destruct (N.eqb i v); reflexivity.
  - reflexivity.
  - reflexivity.
Qed.

Lemma gcv_all_reads p : all_reads _ (p_get_child_version p).
Proof.
  unfold p_get_child_version. constructor; [reflexivity|]. intros [cl|]; [|constructor].
  constructor; [reflexivity|]. intros [v|]; constructor.
Qed.
Lemma gs_all_reads : all_reads _ p_get_snapshot.
Proof.
  unfold p_get_snapshot. constructor; [reflexivity|]. intros [cl|]; [|constructor].
  destruct (c_snap cl); [|constructor]. constructor; [reflexivity|]. intros od. constructor.
Qed.
Lemma pbind_all_reads A C (p : prog A) (f : A -> prog C) :
  all_reads A p -> (forall x, all_reads C (f x)) -> all_reads C (pbind p f).
Proof. intros Hp Hf. induction Hp; cbn; try constructor; auto. Qed.
Lemma probe_all_reads ids : all_reads _ (p_probe ids).
Proof.
  induction ids as [|i r IH]; cbn; [constructor|].
  constructor; [reflexivity|]. intros a. constructor; [reflexivity|]. intros b.
  apply pbind_all_reads; [exact IH|]. intros l. constructor.
Qed.

Lemma read_handler_all_reads cfg o : is_read o = true -> all_reads_h _ (lib_handler cfg o).
Proof.
  destruct o; try discriminate; intros _; cbn [lib_handler].
  - constructor; [apply gcv_all_reads|]. intros r. constructor.
  - constructor; [apply gs_all_reads|]. intros r. constructor.
  - constructor.
  - unfold dump_h. constructor.
    + constructor; [reflexivity|]. intros oc. constructor.
    + intros [oc|e]; [|constructor]. constructor; [apply probe_all_reads|].
      intros [pr|e]; [|constructor].
      destruct (match oc with Some cl => option_map sm_version (c_snap cl) | None => None end); [|constructor].
      constructor; [|intros r; constructor]. constructor; [reflexivity|]. intros od. constructor.
Qed.

(* for ANY store contents s (reachable or not) and any environment *)
Theorem read_requests_pure k cfg (s : b_st (bk_backend k)) o E : is_read o = true ->
  snd (fst (step (bk_backend k) cfg s (o, E))) = s.
Proof.
  intros Hr. unfold step. apply run_hprog_reads; [|apply read_handler_all_reads; exact Hr].
  destruct k; [apply inmem_reads_pure|apply sqlite_reads_pure].
Qed.

(* a conflicting AddVersion (or one for an unknown client) returns before any write: the
   concrete store afterwards is EQUAL to the store before, for any store contents *)
Theorem rejected_add_version_pure k cfg (s : b_st (bk_backend k)) c p d E :
  let r := fst (fst (step (bk_backend k) cfg s (OAddVersion c p d, E))) in
  (r = RNoClient \/ exists l, r = RConflict l) ->
  snd (fst (step (bk_backend k) cfg s (OAddVersion c p d, E))) = s.
Proof.
  set (B := bk_backend k).
  assert (HB : reads_pure B) by (destruct k; [apply inmem_reads_pure|apply sqlite_reads_pure]).
  destruct HB as [Hp He]. unfold step. cbn [lib_handler fst snd run_hprog]. unfold p_add_version. cbn [run_prog].
  pose proof (Hp _ EGetClient (b_begin B s c) eq_refl) as Hw.
  destruct (b_eff B (option client) EGetClient (b_begin B s c)) as [[oc|er] w] eqn:Hg; cbn in Hw; subst w.
  - destruct oc as [cl|]; [|cbn; intros _; apply He].
    destruct (negb (N.eqb (c_latest cl) nil_id) && negb (N.eqb p (c_latest cl))); [cbn; intros _; apply He|].
    cbn [run_prog].
    destruct (b_eff B unit (EAddVersion (e_fresh E) p d) (b_begin B s c)) as [[u|er] w1]; cbn.
    + destruct (b_eff B unit ECommit w1) as [[u2|er] w2]; cbn.
      * destruct (c_snap cl); cbn; intros [H|[l H]]; discriminate.
      * intros [H|[l H]]; discriminate.
    + intros [H|[l H]]; discriminate.
  - cbn. intros [H|[l H]]; discriminate.
Qed.
