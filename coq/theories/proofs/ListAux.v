(* ListAux.v — list facts missing from Coq 8.16's standard library. *)
From Coq Require Import List Lia Bool.
Import ListNotations.

Lemma NoDup_snoc {A} (l : list A) x : NoDup l -> ~ In x l -> NoDup (l ++ [x]).
Proof.
  induction l as [|y l IH]; cbn; intros Hn Hx.
  - constructor; [intros []|constructor].
  - inversion Hn as [|? ? Hy Hl]; subst. constructor.
    + rewrite in_app_iff. cbn. intros [H|[H|[]]]; [auto|subst; apply Hx; auto].
    + apply IH; auto.
Qed.

Lemma NoDup_snoc_inv {A} (l : list A) x : NoDup (l ++ [x]) -> NoDup l /\ ~ In x l.
Proof.
  induction l as [|y l IH]; cbn; intros Hn.
  - split; [constructor|intros []].
  - inversion Hn as [|? ? Hy Hl]; subst. destruct (IH Hl) as [H1 H2]. split.
    + constructor; auto. intros H; apply Hy; rewrite in_app_iff; auto.
    + intros [H|H]; [subst; apply Hy; rewrite in_app_iff; cbn; auto|auto].
Qed.

Lemma find_app {A} (f : A -> bool) l1 l2 :
  find f (l1 ++ l2) = match find f l1 with Some x => Some x | None => find f l2 end.
Proof. induction l1 as [|x l IH]; cbn; [reflexivity|]. destruct (f x); auto. Qed.

Lemma find_none_iff {A} (f : A -> bool) l : find f l = None <-> forall x, In x l -> f x = false.
Proof.
  split; [apply find_none|]. induction l as [|x l IH]; cbn; intros H; [reflexivity|].
  rewrite (H x (or_introl eq_refl)). apply IH. intros y Hy; apply H; auto.
Qed.

Lemma existsb_app' {A} (f : A -> bool) l1 l2 : existsb f (l1 ++ l2) = existsb f l1 || existsb f l2.
Proof. apply existsb_app. Qed.

Lemma filter_app' {A} (f : A -> bool) l1 l2 : filter f (l1 ++ l2) = filter f l1 ++ filter f l2.
Proof. apply filter_app. Qed.

Lemma filter_noop {A} (f : A -> bool) l : (forall x, In x l -> f x = true) -> filter f l = l.
Proof.
  induction l as [|x l IH]; cbn; intros H; [reflexivity|].
  rewrite (H x (or_introl eq_refl)). f_equal. apply IH. intros y Hy. apply H. auto.
Qed.

Lemma find_map_filter {A B} (P : B -> bool) (g : A -> B) (Q : A -> bool) (l : list A) :
  find P (map g (filter Q l)) = option_map g (find (fun r => P (g r) && Q r) l).
Proof.
  induction l as [|x l IH]; cbn; [reflexivity|].
  destruct (Q x) eqn:HQ; cbn.
  - rewrite Bool.andb_true_r. destruct (P (g x)); cbn; auto.
  - rewrite Bool.andb_false_r. exact IH.
Qed.
