(* RefineSqlite.v — the SQLite table model refines the abstract store, effect by effect. *)
From TSS Require Import AStore Sqlite proofs.Sim proofs.ListAux.
From Coq Require Import Lia.
Open Scope N_scope.

Definition vers_of (c : id) (t : tables) : list version :=
  map to_version (filter (fun r => N.eqb (vr_client r) c) (t_versions t)).

Definition snap_rel (r : crow) (o : option (snapmeta * payload)) : Prop :=
  match o with
  | None => cr_snap_version r = None /\ cr_since r = None /\ cr_ts r = None /\ cr_snap r = None
  | Some (m, d) => cr_snap_version r = Some (sm_version m) /\ cr_since r = Some (sm_since m) /\
                   cr_ts r = Some (sm_time m) /\ cr_snap r = Some d
  end.

Definition client_rel (c : id) (t : tables) (o : option cstate) : Prop :=
  match o with
  | None => find_crow c t = None /\ vers_of c t = []
  | Some x => exists r, find_crow c t = Some r /\ cr_id r = c /\ cr_latest r = a_latest x /\
                        snap_rel r (a_snap x) /\ vers_of c t = a_vers x
  end.

Definition Rs_sq (a : astore) (t : tables) : Prop :=
  NoDup (map cr_id (t_clients t)) /\
  (forall c, client_rel c t (a_cl a c)) /\
  (forall v, existsb (fun r => N.eqb (vr_id r) v) (t_versions t) = mem_id v (a_allids a)).

Definition Rw_sq (aw : a_ws) (w : sq_ws) : Prop :=
  sw_cid w = aw_cid aw /\ sw_committed w = aw_committed aw /\
  (okW aw -> Rs_sq (aw_cur aw) (sw_tabs w)) /\
  (a_ok (aw_base aw) = true -> Rs_sq (aw_base aw) (sw_base w)).

(* ---- helpers ---- *)
Lemma find_crow_none c t : find_crow c t = None <-> ~ In c (map cr_id (t_clients t)).
Proof.
  unfold find_crow. induction (t_clients t) as [|r l IH]; cbn; [tauto|].
  destruct (N.eqb_spec (cr_id r) c) as [E|E].
  - split; [discriminate | intros H; exfalso; apply H; auto].
  - rewrite IH. split; [intros H [H1|H1]; auto | intros H H1; apply H; auto].
Qed.

Lemma find_crow_some c t r : find_crow c t = Some r -> In r (t_clients t) /\ cr_id r = c.
Proof.
  unfold find_crow. intros H. apply find_some in H. destruct H as [H1 H2].
  apply N.eqb_eq in H2. auto.
Qed.

Lemma find_crow_app_new c c' t row : cr_id row = c ->
  find_crow c' (mkTables (t_clients t ++ [row]) (t_versions t)) =
  match find_crow c' t with Some r => Some r | None => if N.eqb c c' then Some row else None end.
Proof.
  intros Hid. unfold find_crow; cbn. induction (t_clients t) as [|r l IH]; cbn.
  - rewrite Hid. reflexivity.
  - destruct (N.eqb (cr_id r) c'); auto.
Qed.

Lemma find_crow_upd c c' f t : (forall r, cr_id (f r) = cr_id r) ->
  find_crow c' (upd_crow c f t) =
  if N.eqb c' c then option_map f (find_crow c' t) else find_crow c' t.
Proof.
  intros Hf. unfold find_crow, upd_crow; cbn. induction (t_clients t) as [|r l IH]; cbn.
  - destruct (N.eqb c' c); reflexivity.
  - destruct (N.eqb_spec (cr_id r) c) as [E|E].
    + rewrite Hf. destruct (N.eqb_spec (cr_id r) c') as [E'|E'].
      * subst. rewrite N.eqb_refl. reflexivity.
      * exact IH.
    + destruct (N.eqb_spec (cr_id r) c') as [E'|E'].
      * subst c'. destruct (N.eqb_spec (cr_id r) c); [contradiction|reflexivity].
      * exact IH.
Qed.

Lemma upd_crow_ids c f t : (forall r, cr_id (f r) = cr_id r) ->
  map cr_id (t_clients (upd_crow c f t)) = map cr_id (t_clients t).
Proof.
  intros Hf. unfold upd_crow; cbn. rewrite map_map. apply map_ext.
  intros r. destruct (N.eqb (cr_id r) c); auto.
Qed.

Lemma vers_of_upd c c' f t : vers_of c' (upd_crow c f t) = vers_of c' t.
Proof. reflexivity. Qed.

Lemma mem_id_cons v w l : mem_id v (w :: l) = N.eqb v w || mem_id v l.
Proof. reflexivity. Qed.

Arguments upd_crow : simpl never.
Arguments find_crow : simpl never.
Arguments vers_of : simpl never.

(* ---- the three simulation obligations ---- *)
Lemma sq_begin_sim a s c : a_ok a = true -> Rs_sq a s -> Rw_sq (a_begin a c) (sq_begin s c).
Proof. intros Hok HR. unfold Rw_sq, a_begin, sq_begin; cbn. auto. Qed.

Lemma sq_end_sim aw w : Rw_sq aw w -> a_ok (a_end aw) = true -> Rs_sq (a_end aw) (sq_end w).
Proof.
  intros (Hc & Hcm & Hcur & Hbase) Hok. unfold a_end, sq_end in *. rewrite Hcm.
  destruct (aw_committed aw).
  - apply Hcur. exact Hok.
  - destruct (aw_written aw); cbn in Hok; [discriminate|].
    destruct (a_ok (aw_cur aw)); cbn in Hok; [|discriminate]. apply Hbase. exact Hok.
Qed.

Lemma Rw_sq_intro c cur base wr cm t tb :
  (a_ok cur = true -> Rs_sq cur t) -> (a_ok base = true -> Rs_sq base tb) ->
  Rw_sq (mkAWs c cur base wr cm) (mkSqWs c t tb cm).
Proof. intros H1 H2. unfold Rw_sq, okW; cbn. auto. Qed.

Ltac sq_unpack :=
  match goal with
  | HR : Rw_sq ?aw ?w |- _ =>
      let Hc := fresh "Hc" in let Hcm := fresh "Hcm" in let Hcur := fresh "Hcur" in let Hbase := fresh "Hbase" in
      destruct HR as (Hc & Hcm & Hcur & Hbase)
  end.

Lemma sq_eff_sim X (e : seff X) aw w : Rw_sq aw w -> okW (snd (a_eff e aw)) ->
  fst (sq_eff e w) = fst (a_eff e aw) /\ Rw_sq (snd (a_eff e aw)) (snd (sq_eff e w)).
Proof.
  intros HR Hok.
  pose proof (a_eff_sticky X e aw Hok) as Hok0.
  destruct HR as (Hc & Hcm & Hcur & Hbase).
  specialize (Hcur Hok0). destruct Hcur as (Hnd & Hcl & Hids).
  destruct aw as [c s base wr cm]. destruct w as [c' t tb cm']. cbn in *. subst c' cm'.
  unfold okW in *. cbn in Hok0.
  pose proof (Hcl c) as Hclc.
  destruct e; cbn in *.
  - (* get_client *)
    destruct (a_cl s c) as [x|]; cbn in *.
    + destruct Hclc as (r & Hf & Hid & Hl & Hs & Hv). rewrite Hf. cbn.
      split; [|apply Rw_sq_intro; auto; intros _; unfold Rs_sq; auto].
      unfold client_of. rewrite <- Hl.
      unfold snap_rel in Hs. destruct (a_snap x) as [[m d]|]; cbn.
      * destruct Hs as (-> & -> & -> & _). destruct m; reflexivity.
      * destruct Hs as (-> & -> & -> & _). reflexivity.
    + destruct Hclc as [-> _]. cbn. split; [reflexivity|apply Rw_sq_intro; auto; intros _; unfold Rs_sq; auto].
  - (* new_client *)
    destruct (a_cl s c) as [x|] eqn:Hx; cbn in *; [discriminate|].
    destruct Hclc as [Hf Hv].
    assert (Hnin : ~ In c (map cr_id (t_clients t))) by (apply find_crow_none; exact Hf).
    assert (Hfil : filter (fun r => negb (N.eqb (cr_id r) c)) (t_clients t) = t_clients t).
    { apply filter_noop. intros r Hr. destruct (N.eqb_spec (cr_id r) c) as [E|E]; auto.
      exfalso. apply Hnin. rewrite <- E. apply in_map. exact Hr. }
    split; [reflexivity|]. apply Rw_sq_intro; auto. intros _.
    rewrite Hfil. unfold Rs_sq; cbn. split; [|split].
    + rewrite map_app. cbn. apply NoDup_snoc; assumption.
    + intros c2. unfold client_rel.
      rewrite (find_crow_app_new c c2 t (mkCrow c latest None None None None) eq_refl).
      change (vers_of c2 {| t_clients := t_clients t ++ [mkCrow c latest None None None None];
                            t_versions := t_versions t |}) with (vers_of c2 t).
      destruct (N.eqb_spec c2 c) as [E|E].
      * subst c2. rewrite Hf, N.eqb_refl. eexists; repeat split; cbn; auto.
      * specialize (Hcl c2). unfold client_rel in Hcl.
        destruct (a_cl s c2) as [x2|].
        -- destruct Hcl as (r & Hf2 & rest). rewrite Hf2. exists r. auto.
        -- destruct Hcl as [Hf2 Hv2]. rewrite Hf2.
           destruct (N.eqb_spec c c2); [congruence|]. auto.
    + exact Hids.
  - (* set_snapshot *)
    destruct (a_cl s c) as [x|] eqn:Hx; cbn in *; [|discriminate].
    destruct Hclc as (r & Hf & Hid & Hl & Hs & Hv).
    split; [reflexivity|]. apply Rw_sq_intro; auto. intros _.
    set (f := fun r0 : crow => mkCrow (cr_id r0) (cr_latest r0) (Some (sm_version m)) (Some (sm_since m)) (Some (sm_time m)) (Some d)).
    assert (Hfid : forall r0, cr_id (f r0) = cr_id r0) by reflexivity.
    unfold Rs_sq; cbn. split; [|split].
    + rewrite (upd_crow_ids c f t Hfid). exact Hnd.
    + intros c2. unfold client_rel. rewrite (find_crow_upd c c2 f t Hfid), vers_of_upd.
      destruct (N.eqb_spec c2 c) as [E|E].
      * subst c2. rewrite Hf. cbn. exists (f r). repeat split; cbn; auto.
      * exact (Hcl c2).
    + exact Hids.
  - (* get_snapshot_data *)
    destruct (a_cl s c) as [x|] eqn:Hx; cbn in *; [|discriminate].
    destruct Hclc as (r & Hf & Hid & Hl & Hs & Hv). rewrite Hf.
    unfold snap_rel in Hs. destruct (a_snap x) as [[m d]|] eqn:Hsn; cbn in *; [|discriminate].
    destruct Hs as (-> & _ & _ & ->).
    destruct (N.eqb (sm_version m) v) eqn:Ev; cbn in *; [|discriminate].
    split; [reflexivity|]. apply Rw_sq_intro; auto; intros _; unfold Rs_sq; auto.
  - (* get_version_by_parent *)
    split; [|apply Rw_sq_intro; auto; intros _; unfold Rs_sq; auto].
    f_equal. unfold by_parent.
    assert (Hfm := find_map_filter (fun v => N.eqb (v_parent v) p) to_version (fun r => N.eqb (vr_client r) c) (t_versions t)).
    fold (vers_of c t) in Hfm. cbn in Hfm.
    destruct (a_cl s c) as [x|]; cbn in *.
    + destruct Hclc as (r & _ & _ & _ & _ & Hv). rewrite <- Hv. symmetry. exact Hfm.
    + destruct Hclc as [_ Hv]. rewrite Hv in Hfm. cbn in Hfm. symmetry. exact Hfm.
  - (* get_version *)
    split; [|apply Rw_sq_intro; auto; intros _; unfold Rs_sq; auto].
    f_equal. unfold by_id.
    assert (Hfm := find_map_filter (fun v0 => N.eqb (v_id v0) v) to_version (fun r => N.eqb (vr_client r) c) (t_versions t)).
    fold (vers_of c t) in Hfm. cbn in Hfm.
    destruct (a_cl s c) as [x|]; cbn in *.
    + destruct Hclc as (r & _ & _ & _ & _ & Hv). rewrite <- Hv. symmetry. exact Hfm.
    + destruct Hclc as [_ Hv]. rewrite Hv in Hfm. cbn in Hfm. symmetry. exact Hfm.
  - (* add_version *)
    destruct (a_cl s c) as [x|] eqn:Hx; cbn in *; [|discriminate].
    rewrite Hids.
    destruct (mem_id v (a_allids s)) eqn:Hm; cbn in *; [discriminate|].
    destruct (by_parent p (a_vers x)) eqn:Hbp; cbn in *; [discriminate|].
    destruct Hclc as (r & Hf & Hid & Hl & Hs & Hv).
    split; [reflexivity|]. apply Rw_sq_intro; auto. intros _.
    set (f := fun r0 : crow => mkCrow (cr_id r0) v (cr_snap_version r0) (option_map (fun n => n + 1) (cr_since r0)) (cr_ts r0) (cr_snap r0)).
    assert (Hfid : forall r0, cr_id (f r0) = cr_id r0) by reflexivity.
    set (t1 := mkTables (t_clients t) (t_versions t ++ [mkVrow v c p d])).
    assert (Hvo : forall c2, vers_of c2 t1 = if N.eqb c c2 then vers_of c2 t ++ [mkVersion v p d] else vers_of c2 t).
    { intros c2. unfold vers_of, t1; cbn. rewrite filter_app, map_app. cbn.
      destruct (N.eqb c c2); cbn; [reflexivity|apply app_nil_r]. }
    unfold Rs_sq; cbn. split; [|split].
    + rewrite (upd_crow_ids c f t1 Hfid). exact Hnd.
    + intros c2. unfold client_rel. rewrite (find_crow_upd c c2 f t1 Hfid), vers_of_upd, Hvo.
      change (find_crow c2 t1) with (find_crow c2 t).
      destruct (N.eqb_spec c2 c) as [E|E].
      * subst c2. rewrite Hf, N.eqb_refl. cbn. exists (f r). repeat split; cbn; auto.
        -- unfold snap_rel in *. destruct (a_snap x) as [[m dd]|]; cbn.
           ++ destruct Hs as (H1 & H2 & H3 & H4). rewrite H1, H2, H3, H4. cbn. auto.
           ++ destruct Hs as (H1 & H2 & H3 & H4). rewrite H1, H2, H3, H4. cbn. auto.
        -- rewrite Hv. reflexivity.
      * destruct (N.eqb_spec c c2); [congruence|]. exact (Hcl c2).
    + intros v2. change (t_versions (upd_crow c f t1)) with (t_versions t ++ [mkVrow v c p d]).
      rewrite existsb_app, Hids. cbn. rewrite Bool.orb_false_r.
      unfold mem_id. rewrite Bool.orb_comm. f_equal. apply N.eqb_sym.
  - (* commit *)
    split; [reflexivity|]. apply Rw_sq_intro; auto; intros _; unfold Rs_sq; auto.
Qed.

Lemma Rs_sq_empty : Rs_sq a_empty sq_empty.
Proof. unfold Rs_sq; cbn. repeat split; auto. constructor. Qed.
