(* NonInterf.v — clients are isolated from one another (C09): the responses a client receives
   are those it would receive if no other client had ever made a request, even when its
   requests quote ids that belong to other clients. *)
From TSS Require Import AStore Seq proofs.ListAux proofs.Chain proofs.Steps proofs.Refine
  proofs.RefineInMem proofs.Inv proofs.Agree proofs.Hist.
From Coq Require Import Lia.
Open Scope N_scope.

Definition of_client (c : id) (o : op) : bool :=
  match op_client o with Some c' => N.eqb c' c | None => false end.

Definition project (c : id) (h : list (op * env)) (rs : list resp) : list resp :=
  map snd (filter (fun x => of_client c (fst (fst x))) (combine h rs)).

Lemma of_client_true c o : of_client c o = true -> op_client o = Some c.
Proof. unfold of_client. destruct (op_client o) as [c'|]; [|discriminate]. intros H. apply N.eqb_eq in H. congruence. Qed.

Lemma a_set_other s c x ids c2 : c2 <> c -> a_cl (a_set s c x ids) c2 = a_cl s c2.
Proof. intros H. rewrite a_set_lookup. destruct (N.eqb_spec c2 c); [contradiction|reflexivity]. Qed.

(* a request of another client (or a reopen) does not touch client c *)
Lemma step_other cfg U a o E c : Inv U a -> fresh_ok U o E -> of_client c o = false ->
  a_cl (snd (astep cfg a o E)) c = a_cl a c.
Proof.
  intros HI Hf Hoc. assert (HI0 := HI). destruct HI as (Hok & Hcl & Hids & Hvs).
  assert (Hne : forall c1, op_client o = Some c1 -> c <> c1).
  { intros c1 H1 ->. unfold of_client in Hoc. rewrite H1, N.eqb_refl in Hoc. discriminate. }
  destruct o as [c1 p d|c1 p|c1 v d|c1|c1|c1 secs|c1 n| |c1 ids]; cbn [op_client] in Hne.
  - destruct (a_cl a c1) as [x|] eqn:Hc.
    + destruct (av_accepts x p) eqn:Hacc.
      * rewrite (av_accept cfg a c1 x p d E Hok Hc Hacc (fresh_mem_false U a _ _ HI0 Hf)
                  (cinv_no_child_of_target U x p (Hcl c1 x Hc) Hacc)).
        cbn [snd]. unfold av_new_state. apply a_set_other. auto.
      * rewrite (av_conflict cfg a c1 x p d E Hok Hc Hacc). reflexivity.
    + rewrite (av_noclient cfg a c1 p d E Hok Hc). reflexivity.
  - rewrite gcv_step by assumption. reflexivity.
  - rewrite as_step by assumption. destruct (a_cl a c1) as [x|]; [|reflexivity]. cbn [snd].
    destruct (as_accepts x v); [|reflexivity]. unfold as_new_state. apply a_set_other. auto.
  - rewrite gs_step by assumption. reflexivity.
  - rewrite ensure_step by assumption. cbn [snd]. destruct (a_cl a c1); [reflexivity|]. apply a_set_other. auto.
  - rewrite backdate_step by assumption. cbn [snd]. unfold rewrite_state.
    destruct (a_cl a c1) as [x|]; [|reflexivity]. destruct (a_snap x) as [[m d]|]; [|reflexivity]. apply a_set_other. auto.
  - rewrite setcounter_step by assumption. cbn [snd]. unfold rewrite_state.
    destruct (a_cl a c1) as [x|]; [|reflexivity]. destruct (a_snap x) as [[m d]|]; [|reflexivity]. apply a_set_other. auto.
  - reflexivity.
  - rewrite dump_step by assumption. reflexivity.
Qed.

(* a request of client c is answered from client c's record alone *)
Lemma step_local cfg U1 U2 a1 a2 o E c :
  Inv U1 a1 -> Inv U2 a2 -> fresh_ok U1 o E -> fresh_ok U2 o E -> of_client c o = true ->
  a_cl a1 c = a_cl a2 c ->
  fst (astep cfg a1 o E) = fst (astep cfg a2 o E) /\
  a_cl (snd (astep cfg a1 o E)) c = a_cl (snd (astep cfg a2 o E)) c.
Proof.
  intros HI1 HI2 Hf1 Hf2 Hoc Heq. apply of_client_true in Hoc.
  assert (HI1' := HI1). assert (HI2' := HI2).
  destruct HI1 as (Hok1 & Hcl1 & Hids1 & Hvs1). destruct HI2 as (Hok2 & Hcl2 & Hids2 & Hvs2).
  destruct o as [c1 p d|c1 p|c1 v d|c1|c1|c1 secs|c1 n| |c1 ids]; cbn [op_client] in Hoc; inversion Hoc; subst c1.
  - destruct (a_cl a1 c) as [x|] eqn:Hc1; symmetry in Heq.
    + destruct (av_accepts x p) eqn:Hacc.
      * rewrite (av_accept cfg a1 c x p d E Hok1 Hc1 Hacc (fresh_mem_false U1 a1 _ _ HI1' Hf1)
                  (cinv_no_child_of_target U1 x p (Hcl1 c x Hc1) Hacc)).
        rewrite (av_accept cfg a2 c x p d E Hok2 Heq Hacc (fresh_mem_false U2 a2 _ _ HI2' Hf2)
                  (cinv_no_child_of_target U2 x p (Hcl2 c x Heq) Hacc)).
        cbn [fst snd]. split; [reflexivity|]. unfold av_new_state. rewrite !a_set_lookup, N.eqb_refl. reflexivity.
      * rewrite (av_conflict cfg a1 c x p d E Hok1 Hc1 Hacc), (av_conflict cfg a2 c x p d E Hok2 Heq Hacc).
        cbn [fst snd]. split; [reflexivity|congruence].
    + rewrite (av_noclient cfg a1 c p d E Hok1 Hc1), (av_noclient cfg a2 c p d E Hok2 Heq).
      cbn [fst snd]. split; [reflexivity|congruence].
  - rewrite !gcv_step by assumption. cbn [fst snd]. rewrite Heq. auto.
  - rewrite !as_step by assumption. rewrite <- Heq. destruct (a_cl a1 c) as [x|] eqn:Hc1; cbn [fst snd]; [|split; congruence].
    split; [reflexivity|]. destruct (as_accepts x v); [|congruence].
    unfold as_new_state. rewrite !a_set_lookup, N.eqb_refl. reflexivity.
  - rewrite !gs_step by assumption. cbn [fst snd]. rewrite Heq. auto.
  - rewrite !ensure_step by assumption. cbn [fst snd]. split; [reflexivity|]. rewrite <- Heq.
    destruct (a_cl a1 c) eqn:Hc1; [congruence|]. rewrite !a_set_lookup, N.eqb_refl. reflexivity.
  - rewrite !backdate_step by assumption. cbn [fst snd]. unfold rewrite_state. rewrite <- Heq.
    destruct (a_cl a1 c) as [x|] eqn:Hc1; [|split; congruence]. split; [reflexivity|].
    destruct (a_snap x) as [[m d]|]; [|congruence]. rewrite !a_set_lookup, N.eqb_refl. reflexivity.
  - rewrite !setcounter_step by assumption. cbn [fst snd]. unfold rewrite_state. rewrite <- Heq.
    destruct (a_cl a1 c) as [x|] eqn:Hc1; [|split; congruence]. split; [reflexivity|].
    destruct (a_snap x) as [[m d]|]; [|congruence]. rewrite !a_set_lookup, N.eqb_refl. reflexivity.
  - rewrite !dump_full by assumption. cbn [fst snd]. rewrite Heq. auto.
Qed.

Lemma fresh_ok_antitone U1 U2 o E : incl U2 U1 -> fresh_ok U1 o E -> fresh_ok U2 o E.
Proof.
  intros Hi. destruct o; cbn; auto. intros H Hu. apply H. destruct Hu as [Hu|Hu]; [left; exact Hu|right].
  cbn in *. destruct Hu as [Hu|[Hu|Hu]]; auto.
Qed.

Lemma used_step_incl U1 U2 o E : incl U2 U1 -> incl (used_step U2 o E) (used_step U1 o E).
Proof.
  intros Hi i Hin. unfold used_step in *. destruct Hin as [Hin|Hin]; [left; exact Hin|right].
  apply in_app_iff in Hin. apply in_app_iff. destruct Hin; auto.
Qed.

Lemma used_step_grows U o E : incl U (used_step U o E).
Proof. intros i Hi. unfold used_step. right. apply in_app_iff. auto. Qed.

Definition keep (c : id) (oe : op * env) : bool := of_client c (fst oe).

Lemma noninterf_gen cfg c h : forall U1 U2 a1 a2,
  Inv U1 a1 -> Inv U2 a2 -> incl U2 U1 -> a_cl a1 c = a_cl a2 c -> oracle_ok_from U1 h ->
  oracle_ok_from U2 (filter (keep c) h) /\
  project c h (fst (arun cfg a1 h)) = fst (arun cfg a2 (filter (keep c) h)).
Proof.
  induction h as [|[o E] h IH]; intros U1 U2 a1 a2 HI1 HI2 Hinc Heq Hor.
  - split; [exact I|reflexivity].
  - cbn [oracle_ok_from] in Hor. destruct Hor as [Hf1 Hor]. cbn [filter].
    assert (Hk : keep c (o, E) = of_client c o) by reflexivity. rewrite Hk. clear Hk.
    rewrite arun_cons. cbn [fst]. unfold project. cbn [combine filter fst].
    destruct (of_client c o) eqn:Hoc.
    + pose proof (fresh_ok_antitone U1 U2 o E Hinc Hf1) as Hf2.
      destruct (step_local cfg U1 U2 a1 a2 o E c HI1 HI2 Hf1 Hf2 Hoc Heq) as [Hr Hst].
      destruct (IH _ _ _ _ (inv_step cfg U1 a1 o E HI1 Hf1) (inv_step cfg U2 a2 o E HI2 Hf2)
                  (used_step_incl U1 U2 o E Hinc) Hst Hor) as [Hor' Hp].
      split; [cbn [oracle_ok_from]; auto|].
      rewrite arun_cons. cbn [map snd fst]. rewrite Hr. f_equal. exact Hp.
    + assert (Hst : a_cl (snd (astep cfg a1 o E)) c = a_cl a2 c).
      { rewrite (step_other cfg U1 a1 o E c HI1 Hf1 Hoc). exact Heq. }
      apply (IH _ _ _ _ (inv_step cfg U1 a1 o E HI1 Hf1) HI2); auto.
      intros i Hi. apply used_step_grows. apply Hinc. exact Hi.
Qed.

Theorem noninterference_a cfg h c : oracle_ok h ->
  oracle_ok (filter (keep c) h) /\
  project c h (aresponses cfg h) = aresponses cfg (filter (keep c) h).
Proof.
  intros Hor. apply (noninterf_gen cfg c h [] [] a_empty a_empty); auto using Inv_empty.
  intros i Hi. exact Hi.
Qed.

Theorem noninterference k cfg h c : oracle_ok h ->
  project c h (responses k cfg h) = responses k cfg (filter (keep c) h).
Proof.
  intros Hor. destruct (noninterference_a cfg h c Hor) as [Hor' Hp].
  rewrite (responses_agree k cfg h Hor), (responses_agree k cfg _ Hor'). exact Hp.
Qed.
