(* Chain.v — lists of versions that form a chain: parent of the first is the base, parent of
   each later one is the id of its predecessor. *)
From TSS Require Import AStore proofs.ListAux.
From Coq Require Import Lia.
Open Scope N_scope.

Definition ids_of (l : list version) : list id := map v_id l.
Definition parents_of (l : list version) : list id := map v_parent l.

Fixpoint chain_from (b : id) (l : list version) : Prop :=
  match l with
  | [] => True
  | v :: r => v_parent v = b /\ chain_from (v_id v) r
  end.

Definition base_of (l : list version) : id :=
  match l with [] => nil_id | v :: _ => v_parent v end.

(* id of the last version, or d when there is none *)
Definition last_id (l : list version) (d : id) : id := last (ids_of l) d.

Lemma last_snoc {A} (l : list A) x d : last (l ++ [x]) d = x.
Proof. induction l as [|y l IH]; cbn; [reflexivity|]. destruct (l ++ [x]) eqn:E; [destruct l; discriminate|]. exact IH. Qed.

Lemma last_id_snoc l v d : last_id (l ++ [v]) d = v_id v.
Proof. unfold last_id, ids_of. rewrite map_app. cbn. apply last_snoc. Qed.

Lemma last_cons_ne {A} (x : A) l d : l <> [] -> last (x :: l) d = last l d.
Proof. destruct l; [congruence|reflexivity]. Qed.

Lemma last_in {A} (l : list A) d : l <> [] -> In (last l d) l.
Proof.
  induction l as [|x l IH]; [congruence|]. intros _. destruct l as [|y l].
  - cbn. auto.
  - right. apply IH. discriminate.
Qed.

Lemma last_default_irrel {A} (l : list A) d d' : l <> [] -> last l d = last l d'.
Proof.
  induction l as [|x l IH]; [congruence|]. intros _. destruct l as [|y l]; [reflexivity|].
  cbn in *. apply IH. discriminate.
Qed.

Lemma last_id_cons v l b : last_id (v :: l) b = last_id l (v_id v).
Proof.
  unfold last_id, ids_of. cbn [map]. destruct (map v_id l) eqn:El; [reflexivity|].
  rewrite last_cons_ne by discriminate. apply last_default_irrel. discriminate.
Qed.

Lemma chain_from_app b l1 l2 :
  chain_from b (l1 ++ l2) <-> chain_from b l1 /\ chain_from (last_id l1 b) l2.
Proof.
  revert b. induction l1 as [|v l1 IH]; intros b.
  - cbn. unfold last_id; cbn. tauto.
  - cbn [app chain_from]. rewrite IH, last_id_cons. tauto.
Qed.

Lemma chain_snoc b l v :
  chain_from b l -> v_parent v = last_id l b -> chain_from b (l ++ [v]).
Proof. intros H1 H2. apply chain_from_app. split; [exact H1|]. cbn. auto. Qed.

(* the parents of a chain are the base followed by all ids but the last *)
Lemma chain_parents b l : chain_from b l -> parents_of l = removelast (b :: ids_of l).
Proof.
  revert b. induction l as [|v l IH]; intros b; [reflexivity|].
  intros [Hp Hc]. change (parents_of (v :: l)) with (v_parent v :: parents_of l).
  rewrite (IH _ Hc). subst b. cbn. destruct l; reflexivity.
Qed.

Lemma removelast_incl {A} (l : list A) x : In x (removelast l) -> In x l.
Proof.
  induction l as [|y l IH]; cbn; [tauto|]. destruct l as [|z l]; [cbn; tauto|].
  intros [H|H]; [auto|right; apply IH; exact H].
Qed.

Lemma NoDup_removelast {A} (l : list A) : NoDup l -> NoDup (removelast l).
Proof.
  induction l as [|y l IH]; cbn; [auto|]. intros H. inversion H as [|? ? Hy Hl]; subst.
  destruct l as [|z l]; [constructor|]. constructor.
  - intros Hi. apply Hy. apply removelast_incl. exact Hi.
  - apply IH. exact Hl.
Qed.

Lemma last_not_in_removelast {A} (l : list A) d : NoDup l -> l <> [] -> ~ In (last l d) (removelast l).
Proof.
  induction l as [|y l IH]; [congruence|]. intros Hn _. inversion Hn as [|? ? Hy Hl]; subst.
  destruct l as [|z l]; [cbn; tauto|].
  change (last (y :: z :: l) d) with (last (z :: l) d).
  change (removelast (y :: z :: l)) with (y :: removelast (z :: l)).
  intros [H|H].
  - apply Hy. rewrite H. apply last_in. discriminate.
  - revert H. apply IH; [exact Hl|discriminate].
Qed.

(* in a chain with distinct ids (base included) no two versions share a parent ... *)
Lemma chain_parents_nodup b l : chain_from b l -> NoDup (b :: ids_of l) -> NoDup (parents_of l).
Proof. intros Hc Hn. rewrite (chain_parents b l Hc). apply NoDup_removelast. exact Hn. Qed.

(* ... and nothing has the latest id as its parent *)
Lemma chain_no_child_of_last b l : chain_from b l -> NoDup (b :: ids_of l) ->
  by_parent (last_id l b) l = None.
Proof.
  intros Hc Hn. unfold by_parent. apply find_none_iff. intros v Hv.
  destruct (N.eqb_spec (v_parent v) (last_id l b)) as [E|E]; [|reflexivity]. exfalso.
  assert (Hp : In (v_parent v) (parents_of l)) by (apply in_map; exact Hv).
  rewrite (chain_parents b l Hc) in Hp. rewrite E in Hp.
  unfold last_id in Hp.
  assert (El : last (ids_of l) b = last (b :: ids_of l) b).
  { destruct (ids_of l) as [|i0 il] eqn:Ei; [reflexivity|]. symmetry. apply last_cons_ne. discriminate. }
  rewrite El in Hp. revert Hp. apply last_not_in_removelast; [exact Hn|discriminate].
Qed.

Lemma by_parent_in p l v : by_parent p l = Some v -> In v l /\ v_parent v = p.
Proof. unfold by_parent. intros H. apply find_some in H. destruct H as [H1 H2]. apply N.eqb_eq in H2. auto. Qed.
Lemma by_id_in i l v : by_id i l = Some v -> In v l /\ v_id v = i.
Proof. unfold by_id. intros H. apply find_some in H. destruct H as [H1 H2]. apply N.eqb_eq in H2. auto. Qed.

Lemma by_parent_unique l v : NoDup (parents_of l) -> In v l -> by_parent (v_parent v) l = Some v.
Proof.
  unfold by_parent. induction l as [|x l IH]; cbn; intros Hn Hi; [contradiction|].
  inversion Hn as [|? ? Hx Hl]; subst. destruct Hi as [->|Hi].
  - rewrite N.eqb_refl. reflexivity.
  - destruct (N.eqb_spec (v_parent x) (v_parent v)) as [E|E].
    + exfalso. apply Hx. rewrite E. apply in_map. exact Hi.
    + apply IH; assumption.
Qed.

Lemma by_parent_app p l1 l2 :
  by_parent p (l1 ++ l2) = match by_parent p l1 with Some v => Some v | None => by_parent p l2 end.
Proof. unfold by_parent. apply find_app. Qed.
Lemma by_id_app i l1 l2 :
  by_id i (l1 ++ l2) = match by_id i l1 with Some v => Some v | None => by_id i l2 end.
Proof. unfold by_id. apply find_app. Qed.

(* split a chain at a member *)
Lemma chain_split b l v : chain_from b l -> In v l ->
  exists l1 l2, l = l1 ++ v :: l2 /\ v_parent v = last_id l1 b /\ chain_from (v_id v) l2.
Proof.
  intros Hc Hi. apply in_split in Hi. destruct Hi as (l1 & l2 & ->). exists l1, l2.
  apply chain_from_app in Hc. destruct Hc as [H1 H2]. cbn in H2. destruct H2 as [H2 H3]. auto.
Qed.
