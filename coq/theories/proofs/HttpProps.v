(* HttpProps.v — facts about the HTTP layer that hold on EVERY backend and EVERY store
   contents: the default-headers wrapper (C20), refusal of malformed requests before any
   storage call (C15), the allow-list (C16), body assembly (C06), and the encoding of library
   outcomes (C14). *)
From TSS Require Import Http proofs.ListAux.
From Coq Require Import Lia.
Open Scope N_scope.

Lemma run_hmap B A C E (f : A -> C) (h : hprog A) s :
  run_hprog B E (hmap f h) s = let '(a, s', t) := run_hprog B E h s in (f a, s', t).
Proof.
  revert s. induction h as [a|X c body k IH]; intros s; cbn; [reflexivity|].
  destruct (run_prog B E body (b_begin B s c)) as [[r w] t]. rewrite IH.
  destruct (run_hprog B E (k r) (b_end B w)) as [[a s'] t']. reflexivity.
Qed.

Lemma http_step_route B cfg allow s rq E :
  http_step B cfg allow s (rq, E) =
  let '(r, s', t) := run_hprog B E (route cfg allow rq) s in (default_headers r, s', t).
Proof. unfold http_step, http_handler. cbn [fst snd]. apply run_hmap. Qed.

(* ------------------------------------------------------------------ C20 *)
Theorem cache_control_everywhere B cfg allow s rq E :
  rs_cache (fst (fst (http_step B cfg allow s (rq, E)))) = true.
Proof.
  rewrite http_step_route. destruct (run_hprog B E (route cfg allow rq) s) as [[r s'] t]. reflexivity.
Qed.

(* ------------------------------------------------------------------ C06: body assembly *)
Definition total_len (cs : list chunk) : N := fold_right (fun c n => ck_len c + n) 0 cs.
Definition body_of (cs : list chunk) : payload := concat (map ck_data cs).

Lemma total_len_cons ck cs : total_len (ck :: cs) = ck_len ck + total_len cs.
Proof. reflexivity. Qed.
Lemma body_of_cons ck cs : body_of (ck :: cs) = ck_data ck ++ body_of cs.
Proof. reflexivity. Qed.

(* the incremental test `len + chunk > MAX` refuses exactly the bodies whose total exceeds MAX *)
Lemma read_body_spec cs : forall len acc, len <= MAX_SIZE ->
  read_body cs len acc =
  if N.ltb MAX_SIZE (len + total_len cs) then None else Some (len + total_len cs, acc ++ body_of cs).
Proof.
  induction cs as [|ck cs IH]; intros len acc Hlen.
  - cbn. rewrite N.add_0_r, app_nil_r. destruct (N.ltb_spec MAX_SIZE len); [lia|reflexivity].
  - cbn [read_body]. rewrite total_len_cons, body_of_cons.
    destruct (N.ltb_spec MAX_SIZE (len + ck_len ck)) as [Hgt|Hle].
    + destruct (N.ltb_spec MAX_SIZE (len + (ck_len ck + total_len cs))); [reflexivity|lia].
    + rewrite IH by exact Hle. rewrite N.add_assoc, app_assoc. reflexivity.
Qed.

Lemma total_len_wf cs : Forall wf_chunk cs -> total_len cs = N.of_nat (length (body_of cs)).
Proof.
  induction 1 as [|ck cs Hw _ IH]; [reflexivity|]. rewrite total_len_cons, body_of_cons.
  rewrite app_length, Nat2N.inj_add, IH, Hw. reflexivity.
Qed.

Theorem read_body_wf cs : Forall wf_chunk cs ->
  read_body cs 0 [] =
  if N.ltb MAX_SIZE (N.of_nat (length (body_of cs))) then None
  else Some (N.of_nat (length (body_of cs)), body_of cs).
Proof.
  intros Hw. rewrite read_body_spec by (unfold MAX_SIZE; lia). rewrite N.add_0_l, (total_len_wf cs Hw). reflexivity.
Qed.

(* however the upload was split into chunks, the handler does the same thing *)
Theorem chunking_irrelevant cfg allow m p cid ct cs cs' :
  Forall wf_chunk cs -> Forall wf_chunk cs' -> body_of cs = body_of cs' ->
  http_handler cfg allow (mkReq m p cid ct cs) = http_handler cfg allow (mkReq m p cid ct cs').
Proof.
  intros Hw Hw' Hb. unfold http_handler, route. cbn [rq_method rq_path].
  destruct m, p; try reflexivity.
  - unfold h_add_version. destruct s; [|reflexivity]. cbn [rq_ctype rq_cid rq_chunks].
    rewrite (read_body_wf cs Hw), (read_body_wf cs' Hw'), Hb. reflexivity.
  - unfold h_add_snapshot. destruct s; [|reflexivity]. cbn [rq_ctype rq_cid rq_chunks].
    rewrite (read_body_wf cs Hw), (read_body_wf cs' Hw'), Hb. reflexivity.
Qed.

(* a body is accepted (reaches the library call) iff 0 < size <= MAX_SIZE; what reaches the
   library is exactly the concatenation of the chunks in arrival order *)
Theorem add_version_body cfg allow p c cs :
  Forall wf_chunk cs -> client_id_header allow (COk c) = inl c ->
  let n := N.of_nat (length (body_of cs)) in
  route cfg allow (mkReq MPost (PAddVersion (IdOk p)) (COk c) CTHistory cs) =
  if N.ltb MAX_SIZE n || N.eqb n 0 then HRet (plain 400) else av_loop AV_FUEL cfg c p (body_of cs).
Proof.
  intros Hw Hc n. unfold route, h_add_version. cbn [rq_method rq_path rq_ctype rq_cid rq_chunks].
  rewrite Hc, (read_body_wf cs Hw). fold n. destruct (N.ltb MAX_SIZE n); [reflexivity|].
  cbn [orb]. destruct (N.eqb n 0); reflexivity.
Qed.

Theorem add_snapshot_body cfg allow v c cs :
  Forall wf_chunk cs -> client_id_header allow (COk c) = inl c ->
  let n := N.of_nat (length (body_of cs)) in
  route cfg allow (mkReq MPost (PAddSnapshot (IdOk v)) (COk c) CTSnapshot cs) =
  if N.ltb MAX_SIZE n || N.eqb n 0 then HRet (plain 400)
  else HTxn c (p_add_snapshot v (body_of cs)) (fun r =>
       HRet match r with Ok _ => plain 200 | Err ENoSuchClient => plain 404 | Err _ => plain 500 end).
Proof.
  intros Hw Hc n. unfold route, h_add_snapshot. cbn [rq_method rq_path rq_ctype rq_cid rq_chunks].
  rewrite Hc, (read_body_wf cs Hw). fold n. destruct (N.ltb MAX_SIZE n); [reflexivity|].
  cbn [orb]. destruct (N.eqb n 0); reflexivity.
Qed.

(* ------------------------------------------------------------------ C15: malformed requests *)
Definition valid_route (m : meth) (p : path) : bool :=
  match m, p with
  | MGet, PIndex | MPost, PAddVersion _ | MGet, PGetChild _ | MPost, PAddSnapshot _ | MGet, PSnapshot => true
  | _, _ => false
  end.

Definition bad_cid (h : cidhdr) : bool := match h with COk _ => false | _ => true end.
Definition needs_cid (p : path) : bool := match p with PIndex | PUnknown => false | _ => true end.
Definition body_refused (cs : list chunk) : bool :=
  match read_body cs 0 [] with None => true | Some (len, _) => N.eqb len 0 end.

(* the refusal classes of the property *)
Inductive malformed : hreq -> Prop :=
| M_route rq : valid_route (rq_method rq) (rq_path rq) = false -> malformed rq
| M_path_av rq : rq_method rq = MPost -> rq_path rq = PAddVersion IdBad -> malformed rq
| M_path_gcv rq : rq_method rq = MGet -> rq_path rq = PGetChild IdBad -> malformed rq
| M_path_as rq : rq_method rq = MPost -> rq_path rq = PAddSnapshot IdBad -> malformed rq
| M_ctype_av rq s : rq_method rq = MPost -> rq_path rq = PAddVersion s -> rq_ctype rq <> CTHistory -> malformed rq
| M_ctype_as rq s : rq_method rq = MPost -> rq_path rq = PAddSnapshot s -> rq_ctype rq <> CTSnapshot -> malformed rq
| M_cid rq : valid_route (rq_method rq) (rq_path rq) = true -> needs_cid (rq_path rq) = true ->
             bad_cid (rq_cid rq) = true -> malformed rq
| M_body_av rq s : rq_method rq = MPost -> rq_path rq = PAddVersion s -> body_refused (rq_chunks rq) = true -> malformed rq
| M_body_as rq s : rq_method rq = MPost -> rq_path rq = PAddSnapshot s -> body_refused (rq_chunks rq) = true -> malformed rq.

Definition is_4xx (st : N) : Prop := 400 <= st < 500.

Lemma cid_status allow h : bad_cid h = true -> client_id_header allow h = inr 400.
Proof. destruct h; cbn; try reflexivity. discriminate. Qed.

Lemma cid_result allow h : (exists c, client_id_header allow h = inl c) \/ client_id_header allow h = inr 400 \/ client_id_header allow h = inr 403.
Proof.
  destruct h as [| | |c]; cbn; auto. destruct allow as [l|]; [|eauto].
  destruct (existsb (N.eqb c) l); eauto.
Qed.

(* a malformed request is answered 4xx by the route function itself: no transaction is ever
   opened, so nothing is read and nothing can change *)
Theorem malformed_refused cfg allow rq : malformed rq ->
  exists st, is_4xx st /\ route cfg allow rq = HRet (plain st).
Proof.
  intros Hm. destruct rq as [m p cid ct cs]. unfold is_4xx.
  inversion Hm as [rq H|rq H1 H2|rq H1 H2|rq H1 H2|rq s H1 H2 H3|rq s H1 H2 H3|rq H1 H2 H3|rq s H1 H2 H3|rq s H1 H2 H3];
    subst rq; cbn [rq_method rq_path rq_ctype rq_cid rq_chunks] in *; subst.
  - exists 404. split; [lia|]. unfold route; cbn. destruct m, p; try reflexivity; discriminate.
  - exists 404. split; [lia|reflexivity].
  - exists 404. split; [lia|reflexivity].
  - exists 404. split; [lia|reflexivity].
  - unfold route, h_add_version; cbn. destruct s; [|exists 404; split; [lia|reflexivity]].
    exists 400. split; [lia|]. destruct ct; try reflexivity. contradiction.
  - unfold route, h_add_snapshot; cbn. destruct s; [|exists 404; split; [lia|reflexivity]].
    exists 400. split; [lia|]. destruct ct; try reflexivity. contradiction.
  - unfold route. destruct m, p; try discriminate; cbn [rq_method rq_path].
    + unfold h_get_child_version. destruct s; [|exists 404; split; [lia|reflexivity]].
      exists 400. split; [lia|]. cbn. rewrite (cid_status allow cid H3). reflexivity.
    + unfold h_get_snapshot. exists 400. split; [lia|]. cbn. rewrite (cid_status allow cid H3). reflexivity.
    + unfold h_add_version. destruct s; [|exists 404; split; [lia|reflexivity]]. cbn.
      destruct ct; try (exists 400; split; [lia|reflexivity]).
      exists 400. split; [lia|]. rewrite (cid_status allow cid H3). reflexivity.
    + unfold h_add_snapshot. destruct s; [|exists 404; split; [lia|reflexivity]]. cbn.
      destruct ct; try (exists 400; split; [lia|reflexivity]).
      exists 400. split; [lia|]. rewrite (cid_status allow cid H3). reflexivity.
  - unfold route, h_add_version; cbn. destruct s; [|exists 404; split; [lia|reflexivity]].
    destruct ct; try (exists 400; split; [lia|reflexivity]).
    destruct (cid_result allow cid) as [[c Hc]|[Hc|Hc]]; rewrite Hc.
    + exists 400. split; [lia|]. unfold body_refused in H3. destruct (read_body cs 0 []) as [[len body]|]; [|reflexivity].
      rewrite H3. reflexivity.
    + exists 400. split; [lia|reflexivity].
    + exists 403. split; [lia|reflexivity].
  - unfold route, h_add_snapshot; cbn. destruct s; [|exists 404; split; [lia|reflexivity]].
    destruct ct; try (exists 400; split; [lia|reflexivity]).
    destruct (cid_result allow cid) as [[c Hc]|[Hc|Hc]]; rewrite Hc.
    + exists 400. split; [lia|]. unfold body_refused in H3. destruct (read_body cs 0 []) as [[len body]|]; [|reflexivity].
      rewrite H3. reflexivity.
    + exists 400. split; [lia|reflexivity].
    + exists 403. split; [lia|reflexivity].
Qed.

Theorem malformed_4xx_no_effect B cfg allow s rq E : malformed rq ->
  exists st, is_4xx st /\ http_step B cfg allow s (rq, E) = (default_headers (plain st), s, []).
Proof.
  intros Hm. destruct (malformed_refused cfg allow rq Hm) as (st & H4 & Hr). exists st. split; [exact H4|].
  rewrite http_step_route, Hr. reflexivity.
Qed.

(* bodies up to and including the limit are accepted: they reach the library call *)
Theorem limit_inclusive cfg allow p c cs :
  Forall wf_chunk cs -> client_id_header allow (COk c) = inl c ->
  N.of_nat (length (body_of cs)) = MAX_SIZE ->
  route cfg allow (mkReq MPost (PAddVersion (IdOk p)) (COk c) CTHistory cs) = av_loop AV_FUEL cfg c p (body_of cs).
Proof.
  intros Hw Hc Hn. rewrite (add_version_body cfg allow p c cs Hw Hc). cbv zeta. rewrite Hn. reflexivity.
Qed.

(* ------------------------------------------------------------------ C16: the allow-list *)
Definition listed (allow : option (list id)) (c : id) : bool :=
  match allow with Some l => existsb (N.eqb c) l | None => true end.

(* an otherwise valid request carrying an unlisted id is refused 403 before any storage call *)
Definition otherwise_valid (rq : hreq) : Prop :=
  match rq_method rq, rq_path rq with
  | MPost, PAddVersion (IdOk _) => rq_ctype rq = CTHistory
  | MGet, PGetChild (IdOk _) => True
  | MPost, PAddSnapshot (IdOk _) => rq_ctype rq = CTSnapshot
  | MGet, PSnapshot => True
  | _, _ => False
  end.

Theorem unlisted_403_no_access B cfg allow s rq E c :
  rq_cid rq = COk c -> listed allow c = false -> otherwise_valid rq ->
  http_step B cfg allow s (rq, E) = (default_headers (plain 403), s, []).
Proof.
  intros Hc Hl Hv. rewrite http_step_route.
  assert (Hh : client_id_header allow (rq_cid rq) = inr 403).
  { rewrite Hc. unfold listed in Hl. destruct allow as [l|]; [|discriminate]. cbn. rewrite Hl. reflexivity. }
  destruct rq as [m p cid ct cs]. unfold otherwise_valid in Hv. cbn [rq_method rq_path rq_ctype rq_cid] in *.
  unfold route. cbn [rq_method rq_path].
  destruct m; destruct p as [|sg|sg|sg| |]; try contradiction.
  - unfold h_get_child_version. destruct sg; [|contradiction]. cbn [rq_cid]. rewrite Hh. reflexivity.
  - unfold h_get_snapshot. cbn [rq_cid]. rewrite Hh. reflexivity.
  - unfold h_add_version. destruct sg; [|contradiction]. cbn [rq_ctype rq_cid]. rewrite Hv, Hh. reflexivity.
  - unfold h_add_snapshot. destruct sg; [|contradiction]. cbn [rq_ctype rq_cid]. rewrite Hv, Hh. reflexivity.
Qed.

(* whatever else is wrong with it, a request carrying an unlisted id never reaches storage *)
Theorem unlisted_never_reaches_storage B cfg allow s rq E c :
  rq_cid rq = COk c -> listed allow c = false ->
  exists st, is_4xx st /\ http_step B cfg allow s (rq, E) = (default_headers (plain st), s, []) \/
             (rq_method rq = MGet /\ rq_path rq = PIndex).
Proof.
  intros Hc Hl.
  assert (Hh : client_id_header allow (rq_cid rq) = inr 403).
  { rewrite Hc. unfold listed in Hl. destruct allow as [l|]; [|discriminate]. cbn. rewrite Hl. reflexivity. }
  destruct rq as [m p cid ct cs]. cbn [rq_method rq_path rq_cid] in *.
  assert (H4 : forall st, st = 400 \/ st = 403 \/ st = 404 -> is_4xx st) by (unfold is_4xx; intros st [Hs|[Hs|Hs]]; subst st; lia).
  rewrite http_step_route. unfold route. cbn [rq_method rq_path].
  destruct m; destruct p as [|sg|sg|sg| |]; try (exists 404; left; split; [apply H4; auto|reflexivity]).
  - exists 404. right. auto.
  - unfold h_get_child_version. destruct sg; [|exists 404; left; split; [apply H4; auto|reflexivity]].
    cbn [rq_cid]. rewrite Hh. exists 403. left. split; [apply H4; auto|reflexivity].
  - unfold h_get_snapshot. cbn [rq_cid]. rewrite Hh. exists 403. left. split; [apply H4; auto|reflexivity].
  - unfold h_add_version. destruct sg; [|exists 404; left; split; [apply H4; auto|reflexivity]].
    cbn [rq_ctype rq_cid]. destruct ct; try (exists 400; left; split; [apply H4; auto|reflexivity]).
    rewrite Hh. exists 403. left. split; [apply H4; auto|reflexivity].
  - unfold h_add_snapshot. destruct sg; [|exists 404; left; split; [apply H4; auto|reflexivity]].
    cbn [rq_ctype rq_cid]. destruct ct; try (exists 400; left; split; [apply H4; auto|reflexivity]).
    rewrite Hh. exists 403. left. split; [apply H4; auto|reflexivity].
Qed.

(* listed clients (and every client when there is no list) are served by the very same program *)
Theorem listed_transparent cfg allow rq :
  (forall c, rq_cid rq = COk c -> listed allow c = true) ->
  http_handler cfg allow rq = http_handler cfg None rq.
Proof.
  intros Hl.
  assert (Hh : client_id_header allow (rq_cid rq) = client_id_header None (rq_cid rq)).
  { destruct (rq_cid rq) as [| | |c] eqn:Hc; try reflexivity. specialize (Hl c eq_refl).
    unfold listed in Hl. destruct allow as [l|]; [|reflexivity]. cbn. rewrite Hl. reflexivity. }
  unfold http_handler, route. destruct (rq_method rq), (rq_path rq); try reflexivity.
  - unfold h_get_child_version. destruct s; [|reflexivity]. rewrite Hh. reflexivity.
  - unfold h_get_snapshot. rewrite Hh. reflexivity.
  - unfold h_add_version. destruct s; [|reflexivity]. destruct (rq_ctype rq); try reflexivity. rewrite Hh. reflexivity.
  - unfold h_add_snapshot. destruct s; [|reflexivity]. destruct (rq_ctype rq); try reflexivity. rewrite Hh. reflexivity.
Qed.
