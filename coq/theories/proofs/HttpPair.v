(* HttpPair.v — SnapPair as HTTP clients see it: after ANY HTTP history, two add-snapshot requests of one
   listed client for two of its five most recent versions (the newer one acceptable by the rule of C10),
   handled in either order, are followed by a get-snapshot that returns the id and the bytes of the upload
   for the NEWER version — on every backend. *)
From TSS Require Import AStore Seq Http proofs.ListAux proofs.Chain proofs.Steps proofs.Sim proofs.Refine proofs.RefineInMem proofs.Inv proofs.Agree
  proofs.Hist proofs.Cas proofs.Snapshot proofs.SnapPair proofs.UrgencyArith proofs.HttpProps proofs.HttpReach proofs.HttpLib proofs.ConcHttp proofs.HttpLib2.
From Coq Require Import Lia.
Open Scope N_scope.

(* add-snapshot, add-snapshot, get-snapshot of one listed client from a state with the invariant *)
Lemma h_as_as_gs cfg allow W a c v1 cs1 E1 v2 cs2 E2 E3 :
  cfg_ok cfg -> client_id_header allow (COk c) = inl c -> body_refused cs1 = false -> body_refused cs2 = false ->
  Inv W a -> horacle_ok_from W [(as_req c v1 cs1, E1); (as_req c v2 cs2, E2); (gs_req c, E3)] ->
  let a1 := snd (astep cfg a (OAddSnapshot c v1 (body_of cs1)) E1) in
  let a2 := snd (astep cfg a1 (OAddSnapshot c v2 (body_of cs2)) E2) in
  fst (hrun AStoreB cfg allow a [(as_req c v1 cs1, E1); (as_req c v2 cs2, E2); (gs_req c, E3)]) =
    [default_headers (encode (fst (astep cfg a (OAddSnapshot c v1 (body_of cs1)) E1)));
     default_headers (encode (fst (astep cfg a1 (OAddSnapshot c v2 (body_of cs2)) E2)));
     default_headers (encode (fst (astep cfg a2 (OGetSnapshot c) E3)))] /\
  a_ok a2 = true.
Proof.
  intros Hcfg Hc Hb1 Hb2 HI Hor a1 a2. cbn [horacle_ok_from] in Hor. destruct Hor as (Hf1 & Hf2 & Hf3 & _).
  assert (Hsvg : served (gs_req c)) by (unfold gs_req; constructor).
  assert (Hsv1 : served (as_req c v1 cs1)) by (unfold as_req; constructor; exact Hb1).
  assert (Hsv2 : served (as_req c v2 cs2)) by (unfold as_req; constructor; exact Hb2).
  assert (Hcid : forall rq, rq_cid rq = COk c -> exists c0, rq_cid rq = COk c0 /\ client_id_header allow (COk c0) = inl c0)
    by (intros rq Hq; exists c; auto).
  destruct (hstep_reach cfg allow W a (as_req c v1 cs1) E1 Hcfg HI Hf1) as (HI1 & _ & Ho1).
  destruct (Ho1 Hsv1 (Hcid (as_req c v1 cs1) eq_refl)) as (r1 & a1' & Hl1 & Hs1). clear Ho1.
  unfold lib_outcome, as_req in Hl1. cbn [rq_method rq_path rq_cid rq_chunks] in Hl1.
  assert (Hp1 : astep cfg a (OAddSnapshot c v1 (body_of cs1)) E1 = (r1, a1')) by (injection Hl1 as H; exact H).
  assert (Ha1 : a1' = a1) by (unfold a1; rewrite Hp1; reflexivity).
  assert (Hr1 : r1 = fst (astep cfg a (OAddSnapshot c v1 (body_of cs1)) E1)) by (rewrite Hp1; reflexivity).
  rewrite Hs1 in HI1. cbn [snd] in HI1. rewrite Ha1 in HI1, Hs1.
  destruct (hstep_reach cfg allow _ a1 (as_req c v2 cs2) E2 Hcfg HI1 Hf2) as (HI2 & _ & Ho2).
  destruct (Ho2 Hsv2 (Hcid (as_req c v2 cs2) eq_refl)) as (r2 & a2' & Hl2 & Hs2). clear Ho2.
  unfold lib_outcome, as_req in Hl2. cbn [rq_method rq_path rq_cid rq_chunks] in Hl2.
  assert (Hp2 : astep cfg a1 (OAddSnapshot c v2 (body_of cs2)) E2 = (r2, a2')) by (injection Hl2 as H; exact H).
  assert (Ha2 : a2' = a2) by (unfold a2; rewrite Hp2; reflexivity).
  assert (Hr2 : r2 = fst (astep cfg a1 (OAddSnapshot c v2 (body_of cs2)) E2)) by (rewrite Hp2; reflexivity).
  rewrite Hs2 in HI2. cbn [snd] in HI2. rewrite Ha2 in HI2, Hs2.
  destruct (hstep_reach cfg allow _ a2 (gs_req c) E3 Hcfg HI2 Hf3) as (_ & _ & Ho3).
  destruct (Ho3 Hsvg (Hcid (gs_req c) eq_refl)) as (r3 & a3 & Hl3 & Hs3). clear Ho3.
  unfold lib_outcome, gs_req in Hl3. cbn [rq_method rq_path rq_cid rq_chunks] in Hl3.
  assert (Hr3 : r3 = fst (astep cfg a2 (OGetSnapshot c) E3)) by (injection Hl3 as H; rewrite H; reflexivity).
  split; [|destruct HI2; assumption].
  rewrite hrun_cons_a, Hs1. cbn [fst snd]. rewrite hrun_cons_a, Hs2. cbn [fst snd]. rewrite hrun_cons_a, Hs3. cbn [fst snd hrun].
  rewrite Hr1, Hr2, Hr3. reflexivity.
Qed.

Definition snap_response (v : id) (d : payload) : hresp := mkResp 200 (Some v) None None (Some RTSnapshot) d true.

Theorem http_two_uploads_newer_wins_a cfg allow h c vn vo csn cso E0 E1 E2 E3 E4 E5 E6 pre mid post :
  cfg_ok cfg -> client_id_header allow (COk c) = inl c -> body_refused csn = false -> body_refused cso = false ->
  horacle_ok (h ++ [(gs_req c, E0)]) ->
  horacle_ok (h ++ [(as_req c vo cso, E1); (as_req c vn csn, E2); (gs_req c, E3)]) ->
  horacle_ok (h ++ [(as_req c vn csn, E4); (as_req c vo cso, E5); (gs_req c, E6)]) ->
  let acc := accepted c (lib_of allow h) (aresponses cfg (lib_of allow h)) in
  five_most_recent acc = pre ++ vn :: mid ++ vo :: post ->
  forall rs, haresponses cfg allow (h ++ [(gs_req c, E0)]) = haresponses cfg allow h ++ [rs] ->
  accept_rule acc (hsnap_of rs) vn ->
  exists r1 r2 r3 r4,
    haresponses cfg allow (h ++ [(as_req c vo cso, E1); (as_req c vn csn, E2); (gs_req c, E3)])
      = haresponses cfg allow h ++ [r1; r2; snap_response vn (body_of csn)] /\
    haresponses cfg allow (h ++ [(as_req c vn csn, E4); (as_req c vo cso, E5); (gs_req c, E6)])
      = haresponses cfg allow h ++ [r3; r4; snap_response vn (body_of csn)].
Proof.
  intros Hcfg Hc Hbn Hbo Hor0 HorA HorB acc Hfive rs Hrs Hrule.
  assert (HorH : horacle_ok h) by (apply horacle_ok_from_app in Hor0; tauto).
  destruct (hstate_client cfg allow h c Hcfg HorH) as (W0 & _ & Hcl). fold acc in Hcl.
  destruct (hreach_from cfg allow [] a_empty h Hcfg (Inv_empty []) HorH) as [HI _].
  set (a := snd (hrun AStoreB cfg allow a_empty h)) in *. set (W := hused_after [] h) in *.
  assert (HI0 := HI). destruct HI as (Hok & Hclinv & _).
  apply horacle_ok_from_app in Hor0. destruct Hor0 as [_ [Hf0 _]]. fold W in Hf0.
  apply horacle_ok_from_app in HorA. destruct HorA as [_ HorA]. fold W in HorA.
  apply horacle_ok_from_app in HorB. destruct HorB as [_ HorB]. fold W in HorB.
  (* the client exists and holds the accepted versions *)
  destruct (a_cl a c) as [x|] eqn:Hxc.
  2:{ exfalso. rewrite Hcl in Hfive. unfold five_most_recent in Hfive. cbn in Hfive. destruct pre; discriminate. }
  destruct Hcl as [Hv _]. pose proof (Hclinv c x Hxc) as Hi.
  (* what get-snapshot said before *)
  assert (Hsn : hsnap_of rs = snap_last x).
  { unfold haresponses in Hrs. rewrite hrun_app_a in Hrs. cbn [fst] in Hrs. fold a in Hrs. apply app_inv_head in Hrs.
    rewrite hrun_cons_a in Hrs. cbn [fst hrun] in Hrs. injection Hrs as Hrs. rewrite <- Hrs.
    assert (Hsvg : served (gs_req c)) by (unfold gs_req; constructor).
    destruct (hstep_reach cfg allow W a (gs_req c) E0 Hcfg HI0 Hf0) as (_ & _ & Ho).
    destruct (Ho Hsvg (ex_intro _ c (conj eq_refl Hc))) as (r & a' & Hl & Hs). rewrite Hs. cbn [fst].
    unfold lib_outcome, gs_req in Hl. cbn [rq_method rq_path rq_cid] in Hl. rewrite gs_step in Hl by exact Hok.
    injection Hl as <- _. rewrite Hxc. unfold snap_last. destruct (a_snap x) as [[m d0]|]; reflexivity. }
  assert (Hnw : newer_in_window x vn vo) by (apply (recent_window x pre vn mid vo post); rewrite Hv; exact Hfive).
  assert (Hacc : as_accepts x vn = true).
  { apply (snapshot_rule_state _ x vn Hi).
    - left. intros Hb. pose proof (ci_nodup _ x Hi) as Hnd. apply NoDup_cons_iff in Hnd. destruct Hnd as [Hnin _]. apply Hnin.
      rewrite <- Hb. apply in_rev. unfold five_most_recent in Hfive. rewrite <- Hv in Hfive.
      apply (firstn_In SNAPSHOT_SEARCH_LEN). rewrite Hfive. apply in_app_iff. right. left. reflexivity.
    - rewrite Hv, <- Hsn. exact Hrule. }
  (* order A: older first *)
  destruct (h_as_as_gs cfg allow W a c vo cso E1 vn csn E2 E3 Hcfg Hc Hbo Hbn HI0 HorA) as [HA HokA].
  (* order B: newer first *)
  destruct (h_as_as_gs cfg allow W a c vn csn E4 vo cso E5 E6 Hcfg Hc Hbn Hbo HI0 HorB) as [HB HokB].
  cbv zeta in HA, HokA, HB, HokB.
  destruct (snapshot_pair_newer_wins cfg W a c x vn vo (body_of csn) (body_of cso) E2 E1 HI0 Hxc Hnw Hacc) as ((HsameA & _ & _) & HclA & _ & _).
  destruct (snapshot_pair_newer_wins cfg W a c x vn vo (body_of csn) (body_of cso) E4 E5 HI0 Hxc Hnw Hacc) as (_ & HclB & _ & _).
  cbv zeta in HsameA, HclA, HclB.
  do 4 eexists. unfold haresponses. split.
  - rewrite hrun_app_a. cbn [fst]. fold a. rewrite HA. f_equal. f_equal. f_equal. f_equal.
    rewrite gs_step by exact HokA. cbn [fst]. rewrite HsameA, HclA. reflexivity.
  - rewrite hrun_app_a. cbn [fst]. fold a. rewrite HB. f_equal. f_equal. f_equal. f_equal.
    rewrite gs_step by exact HokB. cbn [fst]. rewrite HclB. reflexivity.
Qed.

Theorem http_two_uploads_newer_wins k cfg allow h c vn vo csn cso E0 E1 E2 E3 E4 E5 E6 pre mid post :
  cfg_ok cfg -> client_id_header allow (COk c) = inl c -> body_refused csn = false -> body_refused cso = false ->
  horacle_ok (h ++ [(gs_req c, E0)]) ->
  horacle_ok (h ++ [(as_req c vo cso, E1); (as_req c vn csn, E2); (gs_req c, E3)]) ->
  horacle_ok (h ++ [(as_req c vn csn, E4); (as_req c vo cso, E5); (gs_req c, E6)]) ->
  let acc := accepted c (lib_of allow h) (responses k cfg (lib_of allow h)) in
  five_most_recent acc = pre ++ vn :: mid ++ vo :: post ->
  forall rs, hresponses k cfg allow (h ++ [(gs_req c, E0)]) = hresponses k cfg allow h ++ [rs] ->
  accept_rule acc (hsnap_of rs) vn ->
  exists r1 r2 r3 r4,
    hresponses k cfg allow (h ++ [(as_req c vo cso, E1); (as_req c vn csn, E2); (gs_req c, E3)])
      = hresponses k cfg allow h ++ [r1; r2; snap_response vn (body_of csn)] /\
    hresponses k cfg allow (h ++ [(as_req c vn csn, E4); (as_req c vo cso, E5); (gs_req c, E6)])
      = hresponses k cfg allow h ++ [r3; r4; snap_response vn (body_of csn)].
Proof.
  intros Hcfg Hc Hbn Hbo Hor0 HorA HorB acc.
  assert (HorH : horacle_ok h) by (apply horacle_ok_from_app in Hor0; tauto).
  assert (HolL : oracle_ok (lib_of allow h)) by (apply (lib_oracle allow h [] []); [auto|exact HorH]).
  unfold acc. rewrite (responses_agree k cfg _ HolL).
  rewrite (hresponses_agree k cfg allow _ Hcfg Hor0), (hresponses_agree k cfg allow _ Hcfg HorA),
          (hresponses_agree k cfg allow _ Hcfg HorB), (hresponses_agree k cfg allow _ Hcfg HorH).
  apply (http_two_uploads_newer_wins_a cfg allow h c vn vo csn cso E0 E1 E2 E3 E4 E5 E6 pre mid post Hcfg Hc Hbn Hbo Hor0 HorA HorB).
Qed.
