(* RefineInMem.v — the in-memory store model refines the abstract store, effect by effect. *)
From TSS Require Import AStore InMem proofs.Sim proofs.ListAux.
From Coq Require Import Lia.
Open Scope N_scope.

Definition vers_a (a : astore) (c : id) : list version :=
  match a_cl a c with Some x => a_vers x | None => [] end.

Definition uniq_ids (a : astore) : Prop :=
  forall c, NoDup (map v_id (vers_a a c)) /\ (forall v, In v (vers_a a c) -> In (v_id v) (a_allids a)).

Definition Rs_im (a : astore) (m : inmem) : Prop :=
  (forall c, alookup N.eqb c (im_clients m) = option_map client_of (a_cl a c)) /\
  (forall c x md, a_cl a c = Some x -> a_snap x = Some md -> alookup N.eqb c (im_snapshots m) = Some (snd md)) /\
  (forall c v, alookup pair_eqb (c, v) (im_versions m) = by_id v (vers_a a c)) /\
  (forall c p, alookup pair_eqb (c, p) (im_children m) = option_map v_id (by_parent p (vers_a a c))) /\
  uniq_ids a.

Definition Rw_im (aw : a_ws) (w : im_ws) : Prop :=
  iw_cid w = aw_cid aw /\
  (okW aw -> Rs_im (aw_cur aw) (iw_st w)) /\
  (aw_written aw = false -> a_ok (aw_base aw) = true -> Rs_im (aw_base aw) (iw_st w)).

Lemma by_id_unique l ver : NoDup (map v_id l) -> In ver l -> by_id (v_id ver) l = Some ver.
Proof.
  unfold by_id. induction l as [|x l IH]; cbn; intros Hn Hi; [contradiction|].
  inversion Hn as [|? ? Hx Hl]; subst.
  destruct Hi as [->|Hi].
  - rewrite N.eqb_refl. reflexivity.
  - destruct (N.eqb_spec (v_id x) (v_id ver)) as [E|E].
    + exfalso. apply Hx. rewrite E. apply in_map. exact Hi.
    + apply IH; assumption.
Qed.

Lemma by_id_none l v : ~ In v (map v_id l) -> by_id v l = None.
Proof.
  unfold by_id. intros H. apply find_none_iff. intros x Hx.
  destruct (N.eqb_spec (v_id x) v) as [E|E]; [|reflexivity].
  exfalso. apply H. rewrite <- E. apply in_map. exact Hx.
Qed.

Lemma mem_id_false v l : mem_id v l = false -> ~ In v l.
Proof.
  unfold mem_id. intros H Hi. assert (existsb (N.eqb v) l = true); [|congruence].
  apply existsb_exists. exists v. split; [exact Hi|apply N.eqb_refl].
Qed.

Lemma vers_a_set s c x ids c2 :
  vers_a (a_set s c x ids) c2 = if N.eqb c2 c then a_vers x else vers_a s c2.
Proof. unfold vers_a, a_set; cbn. destruct (N.eqb c2 c); reflexivity. Qed.

Lemma by_parent_vers_a s c p :
  match a_cl s c with Some x => by_parent p (a_vers x) | None => None end = by_parent p (vers_a s c).
Proof. unfold vers_a. destruct (a_cl s c); reflexivity. Qed.
Lemma by_id_vers_a s c v :
  match a_cl s c with Some x => by_id v (a_vers x) | None => None end = by_id v (vers_a s c).
Proof. unfold vers_a. destruct (a_cl s c); reflexivity. Qed.

Lemma im_begin_sim a s c : a_ok a = true -> Rs_im a s -> Rw_im (a_begin a c) (mkImWs c s).
Proof. intros Hok HR. unfold Rw_im, a_begin, okW; cbn. auto. Qed.

Lemma im_end_sim aw w : Rw_im aw w -> a_ok (a_end aw) = true -> Rs_im (a_end aw) (iw_st w).
Proof.
  intros (Hc & Hcur & Hbase) Hok. unfold a_end in *.
  destruct (aw_committed aw).
  - apply Hcur. exact Hok.
  - destruct (aw_written aw); cbn in Hok; [discriminate|].
    destruct (a_ok (aw_cur aw)); cbn in Hok; [|discriminate]. apply Hbase; auto.
Qed.

Lemma Rw_im_read c cur base wr cm st :
  Rw_im (mkAWs c cur base wr cm) (mkImWs c st) -> Rw_im (mkAWs c cur base wr cm) (mkImWs c st).
Proof. auto. Qed.

Lemma Rw_im_write c cur base cm st :
  (a_ok cur = true -> Rs_im cur st) -> Rw_im (mkAWs c cur base true cm) (mkImWs c st) .
Proof. intros H. unfold Rw_im, okW; cbn. split; [reflexivity|]. split; [exact H|discriminate]. Qed.

Lemma pair_eqb_split c2 v2 c v : pair_eqb (c2, v2) (c, v) = N.eqb c2 c && N.eqb v2 v.
Proof. reflexivity. Qed.

Lemma im_eff_sim X (e : seff X) aw w : Rw_im aw w -> okW (snd (a_eff e aw)) ->
  fst (im_eff e w) = fst (a_eff e aw) /\ Rw_im (snd (a_eff e aw)) (snd (im_eff e w)).
Proof.
  intros HR Hok.
  pose proof (a_eff_sticky X e aw Hok) as Hok0.
  destruct aw as [c s base wr cm]. destruct w as [c' st].
  assert (HR0 := HR). destruct HR as (Hc & Hcur & Hbase). cbn in Hc. subst c'.
  specialize (Hcur Hok0). cbn in Hcur. destruct Hcur as (Hcl & Hsn & Hvs & Hch & Hun).
  unfold okW in *. cbn in Hok0.
  pose proof (Hcl c) as Hclc.
  destruct e; cbn in *.
  - (* get_client *) rewrite Hclc. split; [reflexivity|exact HR0].
  - (* new_client *)
    rewrite Hclc. destruct (a_cl s c) as [x|] eqn:Hx; cbn in *; [discriminate|].
    split; [reflexivity|]. apply Rw_im_write. intros _.
    unfold Rs_im; cbn. repeat split.
    + intros c2. destruct (N.eqb_spec c2 c) as [E|E]; [reflexivity|apply Hcl].
    + intros c2 x2 md. destruct (N.eqb_spec c2 c) as [E|E].
      * intros H; inversion H; subst. cbn. discriminate.
      * apply Hsn.
    + intros c2 v. rewrite vers_a_set. destruct (N.eqb_spec c2 c) as [E|E]; [|apply Hvs].
      subst c2. rewrite Hvs. unfold vers_a. rewrite Hx. reflexivity.
    + intros c2 p. rewrite vers_a_set. destruct (N.eqb_spec c2 c) as [E|E]; [|apply Hch].
      subst c2. rewrite Hch. unfold vers_a. rewrite Hx. reflexivity.
    + rewrite vers_a_set. destruct (N.eqb_spec c0 c); [constructor|apply Hun].
    + rewrite vers_a_set. destruct (N.eqb_spec c0 c); cbn; [intros v []|apply Hun].
  - (* set_snapshot *)
    rewrite Hclc. destruct (a_cl s c) as [x|] eqn:Hx; cbn in *; [|discriminate].
    split; [reflexivity|]. apply Rw_im_write. intros _.
    unfold Rs_im; cbn. repeat split.
    + intros c2. destruct (N.eqb_spec c2 c) as [E|E]; [reflexivity|apply Hcl].
    + intros c2 x2 md. destruct (N.eqb_spec c2 c) as [E|E].
      * intros H; inversion H; subst. cbn. intros H2; inversion H2; reflexivity.
      * apply Hsn.
    + intros c2 v. rewrite vers_a_set. destruct (N.eqb_spec c2 c) as [E|E]; [|apply Hvs].
      subst c2. rewrite Hvs. unfold vers_a. rewrite Hx. reflexivity.
    + intros c2 p. rewrite vers_a_set. destruct (N.eqb_spec c2 c) as [E|E]; [|apply Hch].
      subst c2. rewrite Hch. unfold vers_a. rewrite Hx. reflexivity.
    + rewrite vers_a_set. destruct (N.eqb_spec c0 c) as [E|E]; [|apply Hun].
      subst. cbn. destruct (Hun c) as [H _]. unfold vers_a in H. rewrite Hx in H. exact H.
    + rewrite vers_a_set. destruct (N.eqb_spec c0 c) as [E|E]; [|apply Hun].
      subst. cbn. destruct (Hun c) as [_ H]. unfold vers_a in H. rewrite Hx in H. exact H.
  - (* get_snapshot_data *)
    rewrite Hclc. destruct (a_cl s c) as [x|] eqn:Hx; cbn in *; [|discriminate].
    destruct (a_snap x) as [[m d]|] eqn:Hs; cbn in *; [|discriminate].
    destruct (N.eqb (sm_version m) v) eqn:Ev; cbn in *; [|discriminate].
    rewrite N.eqb_sym, Ev. rewrite (Hsn c x (m, d) Hx Hs). cbn.
    split; [reflexivity|exact HR0].
  - (* get_version_by_parent *)
    rewrite Hch, (by_parent_vers_a s c p).
    destruct (by_parent p (vers_a s c)) as [ver|] eqn:Hbp; cbn.
    + rewrite Hvs. unfold by_parent in Hbp. apply find_some in Hbp. destruct Hbp as [Hin _].
      rewrite (by_id_unique _ ver (proj1 (Hun c)) Hin). split; [reflexivity|exact HR0].
    + split; [reflexivity|exact HR0].
  - (* get_version *)
    rewrite Hvs, (by_id_vers_a s c v). split; [reflexivity|exact HR0].
  - (* add_version *)
    rewrite Hclc. destruct (a_cl s c) as [x|] eqn:Hx; cbn in *; [|discriminate].
    destruct (mem_id v (a_allids s)) eqn:Hm; cbn in *; [discriminate|].
    destruct (by_parent p (a_vers x)) eqn:Hbp; cbn in *; [discriminate|].
    assert (Hva : vers_a s c = a_vers x) by (unfold vers_a; rewrite Hx; reflexivity).
    rewrite Hch, Hva, Hbp. cbn.
    assert (Hnin : ~ In v (map v_id (a_vers x))).
    { intros Hi. apply (mem_id_false _ _ Hm). apply in_map_iff in Hi. destruct Hi as (ver & E & Hi).
      rewrite <- E. apply (proj2 (Hun c)). rewrite Hva. exact Hi. }
    rewrite Hvs, Hva, (by_id_none _ _ Hnin). cbn.
    split; [reflexivity|]. apply Rw_im_write. intros _.
    unfold Rs_im; cbn. repeat split.
    + intros c2. destruct (N.eqb_spec c2 c) as [E|E]; [|apply Hcl].
      cbn. unfold client_of; cbn. f_equal. destruct (a_snap x) as [[m dd]|]; reflexivity.
    + intros c2 x2 md. destruct (N.eqb_spec c2 c) as [E|E]; [|apply Hsn].
      intros H; inversion H; subst; clear H. cbn. intros H2.
      destruct (a_snap x) as [[m dd]|] eqn:Hs; cbn in H2; [|discriminate].
      inversion H2; subst; cbn. apply (Hsn c x (m, dd) Hx Hs).
    + intros c2 v2. rewrite vers_a_set, pair_eqb_split.
      destruct (N.eqb_spec c2 c) as [E|E]; cbn; [|apply Hvs].
      subst c2. unfold by_id. rewrite find_app. fold (by_id v2 (a_vers x)). cbn.
      destruct (N.eqb_spec v2 v) as [E2|E2].
      * subst v2. rewrite (by_id_none _ _ Hnin), N.eqb_refl. reflexivity.
      * rewrite Hvs, Hva. destruct (N.eqb_spec v v2); [congruence|].
        destruct (by_id v2 (a_vers x)); reflexivity.
    + intros c2 p2. rewrite vers_a_set, pair_eqb_split.
      destruct (N.eqb_spec c2 c) as [E|E]; cbn; [|apply Hch].
      subst c2. unfold by_parent. rewrite find_app. fold (by_parent p2 (a_vers x)). cbn.
      destruct (N.eqb_spec p2 p) as [E2|E2].
      * subst p2. rewrite Hbp, N.eqb_refl. reflexivity.
      * rewrite Hch, Hva. destruct (N.eqb_spec p p2); [congruence|].
        destruct (by_parent p2 (a_vers x)); reflexivity.
    + rewrite vers_a_set. destruct (N.eqb_spec c0 c) as [E|E]; [|apply Hun].
      cbn. rewrite map_app. cbn. apply NoDup_snoc; [|exact Hnin].
      rewrite <- Hva. apply Hun.
    + rewrite vers_a_set. destruct (N.eqb_spec c0 c) as [E|E].
      * cbn. intros ver Hi. apply in_app_iff in Hi. destruct Hi as [Hi|[<-|[]]]; [|cbn; auto].
        right. apply (proj2 (Hun c)). rewrite Hva. exact Hi.
      * intros ver Hi. right. apply (proj2 (Hun c0)). exact Hi.
  - (* commit *)
    split; [reflexivity|]. unfold Rw_im, okW; cbn. split; [reflexivity|]. split.
    + intros _. unfold Rs_im. auto.
    + exact Hbase.
Qed.

Lemma Rs_im_empty : Rs_im a_empty im_empty.
Proof.
  unfold Rs_im, uniq_ids, vers_a; cbn. repeat split; auto; try constructor; try discriminate.
  all: try (intros v []).
Qed.
