(* HttpLib.v — every HTTP history IS a library history seen through the encoding table.
   For each request the function lib_of_req gives the library operations it stands for (none when
   the routing function refuses it; create-if-absent + add_version for add-version; the operation
   itself for the other three), and for every HTTP history — malformed requests included — on the
   abstract store and on both backends: the store after the HTTP history is the store after the
   library history, the freshness assumption carries over, and the HTTP responses are a FUNCTION
   (hresps_of) of the library responses.  So every theorem about library histories (C01, C02,
   C07-C13, C18) is a theorem about what HTTP clients observe. *)
From TSS Require Import AStore Http proofs.ListAux proofs.Chain proofs.Steps proofs.Sim proofs.Refine proofs.Inv
  proofs.Agree proofs.Hist proofs.Cas proofs.RefineInMem proofs.UrgencyArith proofs.HttpProps proofs.HttpReach.
From Coq Require Import Lia.
Open Scope N_scope.

Definition is_served (allow : option (list id)) (rq : hreq) : Prop :=
  served rq /\ exists c, rq_cid rq = COk c /\ client_id_header allow (COk c) = inl c.

Definition lib_of_req (allow : option (list id)) (rq : hreq) (E : env) : list (op * env) :=
  match rq_cid rq with
  | COk c =>
      match client_id_header allow (COk c) with
      | inr _ => []
      | inl _ =>
          match rq_method rq, rq_path rq with
          | MPost, PAddVersion (IdOk p) =>
              match rq_ctype rq with
              | CTHistory => if body_refused (rq_chunks rq) then []
                             else [(OEnsure c, noenv); (OAddVersion c p (body_of (rq_chunks rq)), E)]
              | _ => []
              end
          | MGet, PGetChild (IdOk p) => [(OGetChild c p, E)]
          | MPost, PAddSnapshot (IdOk v) =>
              match rq_ctype rq with
              | CTSnapshot => if body_refused (rq_chunks rq) then []
                              else [(OAddSnapshot c v (body_of (rq_chunks rq)), E)]
              | _ => []
              end
          | MGet, PSnapshot => [(OGetSnapshot c, E)]
          | _, _ => []
          end
      end
  | _ => []
  end.

Lemma cid_header_inl allow c c' : client_id_header allow (COk c) = inl c' -> c' = c.
Proof.
  cbn. destruct allow as [l|]; [destruct (existsb (N.eqb c) l)|]; intros H; inversion H; reflexivity.
Qed.

Lemma lib_of_req_not_served allow rq E : ~ is_served allow rq -> lib_of_req allow rq E = [].
Proof.
  intros Hn. destruct rq as [m p cid ct cs]. unfold lib_of_req. cbn [rq_cid rq_method rq_path rq_ctype rq_chunks].
  destruct cid as [| | |c]; try reflexivity.
  destruct (client_id_header allow (COk c)) as [c'|st] eqn:Hc; [|reflexivity].
  pose proof (cid_header_inl allow c c' Hc) as ->.
  assert (Hs : served (mkReq m p (COk c) ct cs) -> False).
  { intros Hsv. apply Hn. split; [exact Hsv|]. exists c. cbn. auto. }
  destruct m; destruct p as [|[q|]|[q|]|[q|]| |]; try reflexivity.
  - exfalso. apply Hs. constructor.
  - exfalso. apply Hs. constructor.
  - destruct ct; try reflexivity. destruct (body_refused cs) eqn:Hb; [reflexivity|]. exfalso. apply Hs. constructor. exact Hb.
  - destruct ct; try reflexivity. destruct (body_refused cs) eqn:Hb; [reflexivity|]. exfalso. apply Hs. constructor. exact Hb.
Qed.

Lemma refused_not_served cfg allow rq r : route cfg allow rq = HRet r -> ~ is_served allow rq.
Proof.
  intros Hr [Hsv (c & Hcid & Hc)].
  destruct Hsv as [c' p cs Hb|c' p ct cs|c' v cs Hb|c' ct cs]; cbn [rq_cid] in Hcid; inversion Hcid; subst c';
    unfold route in Hr; cbn [rq_method rq_path] in Hr.
  - unfold h_add_version in Hr. cbn [rq_ctype rq_cid rq_chunks] in Hr. rewrite Hc in Hr.
    unfold body_refused in Hb. destruct (read_body cs 0 []) as [[len body]|]; [|discriminate]. rewrite Hb in Hr. discriminate.
  - unfold h_get_child_version in Hr. cbn [rq_cid] in Hr. rewrite Hc in Hr. discriminate.
  - unfold h_add_snapshot in Hr. cbn [rq_ctype rq_cid rq_chunks] in Hr. rewrite Hc in Hr.
    unfold body_refused in Hb. destruct (read_body cs 0 []) as [[len body]|]; [|discriminate]. rewrite Hb in Hr. discriminate.
  - unfold h_get_snapshot in Hr. cbn [rq_cid] in Hr. rewrite Hc in Hr. discriminate.
Qed.

(* the HTTP response as a function of the library responses of the request's operations *)
Definition hresp_of (cfg : config) (allow : option (list id)) (rq : hreq) (rs : list resp) : hresp :=
  match rs with
  | [] => default_headers (match route cfg allow rq with HRet r => r | _ => plain 500 end)
  | _ => default_headers (encode (last rs RError))
  end.

Lemma arun_nil cfg a : arun cfg a [] = ([], a).
Proof. reflexivity. Qed.
Lemma arun_one cfg a o E : arun cfg a [(o, E)] = ([fst (astep cfg a o E)], snd (astep cfg a o E)).
Proof. rewrite arun_cons. reflexivity. Qed.

(* ---- one request ---- *)
Lemma hstep_lib cfg allow U a rq E : cfg_ok cfg -> Inv U a -> hfresh_ok U rq E ->
  snd (hstep_a cfg allow a rq E) = snd (arun cfg a (lib_of_req allow rq E)) /\
  fst (hstep_a cfg allow a rq E) = hresp_of cfg allow rq (fst (arun cfg a (lib_of_req allow rq E))).
Proof.
  intros Hcfg HI Hf.
  destruct (not_served_refused cfg allow rq) as [(st & Hst & Hr)|(Hsv & c & Hcid & Hc)].
  - (* answered by the routing function alone *)
    assert (Hrr : exists r, route cfg allow rq = HRet r) by (destruct Hr as [Hr|[Hr _]]; eauto).
    destruct Hrr as [r Hrr].
    rewrite (lib_of_req_not_served allow rq E (refused_not_served cfg allow rq r Hrr)), arun_nil. cbn [fst snd hresp_of].
    unfold hstep_a. rewrite http_step_route, Hrr. cbn [run_hprog fst snd]. auto.
  - destruct (hstep_reach cfg allow U a rq E Hcfg HI Hf) as (_ & _ & Ho).
    destruct (Ho Hsv (ex_intro _ c (conj Hcid Hc))) as (r & a' & Hl & Hs). rewrite Hs. cbn [fst snd]. clear Ho Hs.
    assert (Hok : a_ok a = true) by (destruct HI; assumption).
    unfold lib_outcome in Hl.
    destruct Hsv as [c' p cs Hb|c' p ct cs|c' v cs Hb|c' ct cs]; cbn [rq_cid] in Hcid; inversion Hcid; subst c';
      cbn [rq_method rq_path rq_cid rq_chunks] in Hl; inversion Hl as [Hl1]; clear Hl;
      unfold lib_of_req; cbn [rq_cid rq_method rq_path rq_ctype rq_chunks]; rewrite Hc.
    + rewrite Hb. rewrite arun_cons. cbn [fst snd]. rewrite ensure_step by exact Hok. cbn [fst snd].
      rewrite arun_one, Hl1. cbn [fst snd hresp_of last]. auto.
    + rewrite arun_one, Hl1. cbn [fst snd hresp_of last]. auto.
    + rewrite Hb. rewrite arun_one, Hl1. cbn [fst snd hresp_of last]. auto.
    + rewrite arun_one, Hl1. cbn [fst snd hresp_of last]. auto.
Qed.

(* ---- histories ---- *)
Fixpoint lib_of (allow : option (list id)) (h : list (hreq * env)) : list (op * env) :=
  match h with
  | [] => []
  | (rq, E) :: r => lib_of_req allow rq E ++ lib_of allow r
  end.

Fixpoint hresps_of (cfg : config) (allow : option (list id)) (h : list (hreq * env)) (rs : list resp) : list hresp :=
  match h with
  | [] => []
  | (rq, E) :: r =>
      let n := length (lib_of_req allow rq E) in
      hresp_of cfg allow rq (firstn n rs) :: hresps_of cfg allow r (skipn n rs)
  end.

Lemma firstn_app_len {A} (l1 l2 : list A) : firstn (length l1) (l1 ++ l2) = l1.
Proof. induction l1 as [|x l1 IH]; cbn; [destruct l2; reflexivity|rewrite IH; reflexivity]. Qed.
Lemma skipn_app_len {A} (l1 l2 : list A) : skipn (length l1) (l1 ++ l2) = l2.
Proof. induction l1 as [|x l1 IH]; cbn; [reflexivity|exact IH]. Qed.

Theorem http_is_lib_a cfg allow h : cfg_ok cfg -> forall U a, Inv U a -> horacle_ok_from U h ->
  fst (hrun AStoreB cfg allow a h) = hresps_of cfg allow h (fst (arun cfg a (lib_of allow h))) /\
  snd (hrun AStoreB cfg allow a h) = snd (arun cfg a (lib_of allow h)).
Proof.
  intros Hcfg. induction h as [|[rq E] h IH]; intros U a HI Hor; [split; reflexivity|].
  cbn [horacle_ok_from] in Hor. destruct Hor as [Hf Hor].
  rewrite hrun_cons_a. cbn [fst snd lib_of hresps_of]. rewrite arun_app. cbn [fst snd].
  destruct (hstep_lib cfg allow U a rq E Hcfg HI Hf) as [Hs Hr].
  destruct (hstep_reach cfg allow U a rq E Hcfg HI Hf) as (HI1 & _ & _).
  destruct (IH _ _ HI1 Hor) as [IH1 IH2].
  pose proof (arun_length cfg a (lib_of_req allow rq E)) as Hlen. rewrite <- Hlen.
  rewrite firstn_app_len, skipn_app_len, <- Hs. split; [|exact IH2].
  rewrite Hr, IH1. reflexivity.
Qed.

(* the freshness assumption carries over *)
Lemma lib_oracle allow h : forall U U', (forall i, usedp U' i -> usedp U i) ->
  horacle_ok_from U h -> oracle_ok_from U' (lib_of allow h).
Proof.
  induction h as [|[rq E] h IH]; intros U U' Hinc Hor; [exact I|].
  cbn [horacle_ok_from lib_of] in *. destruct Hor as [Hf Hor].
  apply oracle_ok_from_app.
  assert (Hgrow : forall i, usedp U' i -> usedp (hused_step U rq E) i).
  { intros i Hi. destruct (Hinc i Hi) as [H|H]; [left; exact H|right]. unfold hused_step. right. apply in_app_iff. auto. }
  unfold lib_of_req. destruct rq as [m p cid ct cs]. cbn [rq_cid rq_method rq_path rq_ctype rq_chunks].
  assert (Hdefault : True /\ oracle_ok_from (used_after U' []) (lib_of allow h)).
  { split; [exact I|]. apply (IH (hused_step U (mkReq m p cid ct cs) E) U' Hgrow Hor). }
  destruct cid as [| | |c]; try exact Hdefault.
  destruct (client_id_header allow (COk c)) as [c'|st]; [|exact Hdefault].
  assert (Hone : forall o, fresh_ok U' o E ->
            (forall i, In i (mentioned o) -> In i (hmentioned (mkReq m p (COk c) ct cs))) ->
            oracle_ok_from U' [(o, E)] /\ oracle_ok_from (used_after U' [(o, E)]) (lib_of allow h)).
  { intros o Hfo Hm. split; [split; [exact Hfo|exact I]|]. cbn [used_after].
    apply (IH (hused_step U (mkReq m p (COk c) ct cs) E)); [|exact Hor].
    intros i [Hi|Hi]; [left; exact Hi|]. unfold used_step in Hi. destruct Hi as [Hi|Hi]; [right; left; exact Hi|].
    apply in_app_iff in Hi. destruct Hi as [Hi|Hi].
    - right. right. apply in_app_iff. left. apply Hm. exact Hi.
    - apply Hgrow. right. exact Hi. }
  destruct m; destruct p as [|[q|]|[q|]|[q|]| |]; try exact Hdefault.
  - apply Hone; [exact I|]. unfold hmentioned; cbn. tauto.
  - apply Hone; [exact I|]. unfold hmentioned; cbn. tauto.
  - destruct ct; try exact Hdefault. destruct (body_refused cs); [exact Hdefault|].
    (* add-version: create-if-absent (with the nil id as its "fresh" id), then the library call *)
    split.
    + cbn [oracle_ok_from]. split; [exact I|]. split; [|exact I].
      cbn [fresh_ok]. intros Hu. apply Hf. unfold hmentioned. cbn [rq_cid rq_path mentioned app] in *.
      destruct Hu as [Hu|Hu]; [left; exact Hu|].
      cbn [In] in Hu. destruct Hu as [Hu|[Hu|Hu]]; [right; left; exact Hu|right; right; left; exact Hu|].
      unfold used_step in Hu. cbn [mentioned e_fresh noenv app In] in Hu.
      destruct Hu as [Hu|[Hu|Hu]]; [left; symmetry; exact Hu|right; left; exact Hu|].
      destruct (Hinc _ (or_intror Hu)) as [H|H]; [left; exact H|right; right; right; exact H].
    + cbn [used_after].
      apply (IH (hused_step U (mkReq MPost (PAddVersion (IdOk q)) (COk c) CTHistory cs) E)); [|exact Hor].
      intros i [Hi|Hi]; [left; exact Hi|]. unfold used_step in Hi. cbn [mentioned e_fresh noenv app In] in Hi.
      unfold hused_step, hmentioned. cbn [rq_cid rq_path app].
      destruct Hi as [Hi|[Hi|[Hi|[Hi|[Hi|Hi]]]]].
      * right. left. exact Hi.
      * right. right. left. exact Hi.
      * right. right. right. left. exact Hi.
      * left. symmetry. exact Hi.
      * right. right. left. exact Hi.
      * destruct (Hinc _ (or_intror Hi)) as [H|H]; [left; exact H|right; right; right; right; exact H].
  - destruct ct; try exact Hdefault. destruct (body_refused cs); [exact Hdefault|].
    apply Hone; [exact I|]. unfold hmentioned; cbn. tauto.
Qed.

(* ---- on the concrete backends ---- *)
Theorem http_history_is_library_history k cfg allow h : cfg_ok cfg -> horacle_ok h ->
  oracle_ok (lib_of allow h) /\
  hresponses k cfg allow h = hresps_of cfg allow h (responses k cfg (lib_of allow h)).
Proof.
  intros Hcfg Hor.
  assert (Hol : oracle_ok (lib_of allow h)) by (apply (lib_oracle allow h [] []); [auto|exact Hor]).
  split; [exact Hol|].
  rewrite (hresponses_agree k cfg allow h Hcfg Hor), (responses_agree k cfg _ Hol).
  unfold haresponses, aresponses.
  apply (http_is_lib_a cfg allow h Hcfg [] a_empty (Inv_empty []) Hor).
Qed.

(* the library history of a concatenation, and the responses request by request *)
Lemma lib_of_app allow h1 h2 : lib_of allow (h1 ++ h2) = lib_of allow h1 ++ lib_of allow h2.
Proof. induction h1 as [|[rq E] h1 IH]; cbn [app lib_of]; [reflexivity|]. rewrite IH, app_assoc. reflexivity. Qed.

Lemma skipn_skipn {A} n m (l : list A) : skipn n (skipn m l) = skipn (m + n) l.
Proof.
  revert l. induction m as [|m IH]; intros l; cbn [skipn Nat.add]; [reflexivity|].
  destruct l as [|x l]; [destruct n; reflexivity|apply IH].
Qed.
Lemma firstn_firstn_le {A} n m (l : list A) : (n <= m)%nat -> firstn n (firstn m l) = firstn n l.
Proof.
  revert m l. induction n as [|n IH]; intros m l Hle; [reflexivity|].
  destruct m as [|m]; [lia|]. destruct l as [|x l]; [reflexivity|]. cbn. rewrite IH by lia. reflexivity.
Qed.

Lemma hresps_of_app cfg allow h1 h2 rs :
  hresps_of cfg allow (h1 ++ h2) rs =
  hresps_of cfg allow h1 rs ++ hresps_of cfg allow h2 (skipn (length (lib_of allow h1)) rs).
Proof.
  revert rs. induction h1 as [|[rq E] h1 IH]; intros rs; cbn [app hresps_of lib_of length skipn]; [reflexivity|].
  rewrite IH, skipn_skipn, app_length. reflexivity.
Qed.

(* ---- an HTTP-level corollary: accepted history is immutable (C07), as HTTP clients see it ---- *)
Lemma hresps_of_length cfg allow h rs : length (hresps_of cfg allow h rs) = length h.
Proof. revert rs. induction h as [|[rq E] h IH]; intros rs; cbn; [reflexivity|]. rewrite IH. reflexivity. Qed.

Lemma firstn_app_le {A} n (l t : list A) : (n <= length l)%nat -> firstn n (l ++ t) = firstn n l.
Proof.
  revert l. induction n as [|n IH]; intros l Hle; [reflexivity|]. destruct l as [|x l]; [cbn in Hle; lia|].
  cbn. rewrite IH by (cbn in Hle; lia). reflexivity.
Qed.
Lemma skipn_app_le {A} n (l t : list A) : (n <= length l)%nat -> skipn n (l ++ t) = skipn n l ++ t.
Proof.
  revert l. induction n as [|n IH]; intros l Hle; [reflexivity|]. destruct l as [|x l]; [cbn in Hle; lia|].
  cbn. apply IH. cbn in Hle; lia.
Qed.
Lemma skipn_length_le {A} n (l : list A) : length (skipn n l) = (length l - n)%nat.
Proof. revert l. induction n as [|n IH]; intros [|x l]; cbn; auto; lia. Qed.

(* responses beyond those of the history's own operations are not looked at *)
Lemma hresps_of_tail cfg allow h : forall rs t, (length (lib_of allow h) <= length rs)%nat ->
  hresps_of cfg allow h (rs ++ t) = hresps_of cfg allow h rs.
Proof.
  induction h as [|[rq E] h IH]; intros rs t Hle; [reflexivity|]. cbn [hresps_of lib_of] in *.
  rewrite app_length in Hle.
  rewrite firstn_app_le by lia. rewrite skipn_app_le by lia. rewrite IH; [reflexivity|].
  rewrite skipn_length_le. lia.
Qed.

Lemma encode_cache r : rs_cache (encode r) = false.
Proof. destruct r as [v' u|l|ver| | | |sv d| | | | |dd]; cbn; try reflexivity. destruct (urg_header u); reflexivity. Qed.

Lemma default_headers_eq r st xv xp xs ct b :
  default_headers r = mkResp st xv xp xs ct b true -> rs_cache r = false -> r = mkResp st xv xp xs ct b false.
Proof. destruct r as [a1 a2 a3 a4 a5 a6 a7]. cbn. intros H Hc. inversion H; subst. reflexivity. Qed.

Lemma encode_added_inv r v xs : encode r = mkResp 200 (Some v) None xs None [] false -> exists u, r = RAdded v u.
Proof.
  destruct r as [v' u|l|ver| | | |sv d| | | | |dd]; cbn; try discriminate.
  - destruct (urg_header u) as [h|]; [|discriminate]. intros H. inversion H; subst. eauto.
Qed.

Lemma aresponses_app cfg h1 h2 :
  aresponses cfg (h1 ++ h2) = aresponses cfg h1 ++ fst (arun cfg (snd (arun cfg a_empty h1)) h2).
Proof. unfold aresponses. rewrite arun_app. reflexivity. Qed.

Lemma aresponses_length cfg h : length (aresponses cfg h) = length h.
Proof. apply arun_length. Qed.

Theorem http_history_immutable_a cfg allow h1 h2 c p cs E E' ct0 cs0 v xs :
  cfg_ok cfg -> client_id_header allow (COk c) = inl c -> body_refused cs = false ->
  let av := mkReq MPost (PAddVersion (IdOk p)) (COk c) CTHistory cs in
  let gcv := mkReq MGet (PGetChild (IdOk p)) (COk c) ct0 cs0 in
  horacle_ok ((h1 ++ (av, E) :: h2) ++ [(gcv, E')]) ->
  nth_error (haresponses cfg allow (h1 ++ (av, E) :: h2)) (length h1) = Some (mkResp 200 (Some v) None xs None [] true) ->
  haresponses cfg allow ((h1 ++ (av, E) :: h2) ++ [(gcv, E')]) =
  haresponses cfg allow (h1 ++ (av, E) :: h2) ++ [mkResp 200 (Some v) (Some p) None (Some RTHistory) (body_of cs) true].
Proof.
  intros Hcfg Hc Hb av gcv Hor Hnth.
  set (Hh := h1 ++ (av, E) :: h2) in *.
  assert (HorH : horacle_ok Hh) by (apply horacle_ok_from_app in Hor; tauto).
  set (d := body_of cs).
  set (avop := (OAddVersion c p d, E)). set (ens := (OEnsure c, noenv)).
  assert (Hlav : lib_of_req allow av E = [ens; avop]).
  { unfold lib_of_req, av. cbn [rq_cid rq_method rq_path rq_ctype rq_chunks]. rewrite Hc, Hb. reflexivity. }
  assert (Hlg : lib_of_req allow gcv E' = [(OGetChild c p, E')]).
  { unfold lib_of_req, gcv. cbn [rq_cid rq_method rq_path rq_ctype rq_chunks]. rewrite Hc. reflexivity. }
  set (L1 := lib_of allow h1). set (L2 := lib_of allow h2).
  assert (HLh : lib_of allow Hh = (L1 ++ [ens; avop]) ++ L2).
  { unfold Hh. rewrite lib_of_app. cbn [lib_of]. rewrite Hlav. fold L1 L2. rewrite <- app_assoc. reflexivity. }
  assert (HLf : lib_of allow (Hh ++ [(gcv, E')]) = lib_of allow Hh ++ [(OGetChild c p, E')]).
  { rewrite lib_of_app. cbn [lib_of]. rewrite Hlg, app_nil_r. reflexivity. }
  (* both HTTP histories as library histories *)
  destruct (http_is_lib_a cfg allow _ Hcfg [] a_empty (Inv_empty []) HorH) as [HrH _].
  destruct (http_is_lib_a cfg allow _ Hcfg [] a_empty (Inv_empty []) Hor) as [HrF _].
  unfold haresponses in *. rewrite HrF, HrH in *. clear HrF HrH.
  assert (HolH : oracle_ok (lib_of allow Hh)) by (apply (lib_oracle allow Hh [] []); [auto|exact HorH]).
  set (R := fst (arun cfg a_empty (lib_of allow Hh))) in *.
  assert (HlenR : length R = length (lib_of allow Hh)) by apply arun_length.
  (* the response of the add-version request inside R *)
  assert (HR : R = aresponses cfg (L1 ++ [ens; avop]) ++ fst (arun cfg (snd (arun cfg a_empty (L1 ++ [ens; avop]))) L2)).
  { unfold R. rewrite HLh. apply aresponses_app. }
  set (Ra := aresponses cfg (L1 ++ [ens; avop])) in *.
  assert (HRa : Ra = aresponses cfg L1 ++ fst (arun cfg (snd (arun cfg a_empty L1)) [ens; avop])) by apply aresponses_app.
  set (R1 := aresponses cfg L1) in *.
  assert (HlenR1 : length R1 = length L1) by apply aresponses_length.
  set (a1 := snd (arun cfg a_empty L1)) in *.
  destruct (fst (arun cfg a1 [ens; avop])) as [|re [|ra [|x l]]] eqn:Hrr;
    try (pose proof (arun_length cfg a1 [ens; avop]) as Hl2; rewrite Hrr in Hl2; cbn in Hl2; discriminate).
  (* read the hypothesis about the HTTP response *)
  unfold Hh in Hnth. rewrite hresps_of_app in Hnth.
  rewrite nth_error_app2 in Hnth by (rewrite hresps_of_length; lia).
  rewrite hresps_of_length, Nat.sub_diag in Hnth. cbn [hresps_of nth_error] in Hnth. rewrite Hlav in Hnth. cbn [length] in Hnth.
  fold L1 in Hnth. rewrite HR, HRa, <- HlenR1, <- !app_assoc, skipn_app_len in Hnth. cbn [app firstn] in Hnth.
  unfold hresp_of in Hnth. cbn [last] in Hnth.
  assert (Henc : default_headers (encode ra) = mkResp 200 (Some v) None xs None [] true) by congruence.
  assert (Henc' : encode ra = mkResp 200 (Some v) None xs None [] false)
    by (apply default_headers_eq; [exact Henc|apply encode_cache]).
  destruct (encode_added_inv ra v xs Henc') as [u Hra]. subst ra.
  (* the accepted version, in the ghost list read off the library responses *)
  set (ver := mkVersion v p d).
  assert (Hin : In ver (accepted c (L1 ++ [ens; avop]) (aresponses cfg (L1 ++ [ens; avop])))).
  { fold Ra. rewrite HRa. rewrite accepted_app by (symmetry; exact HlenR1).
    apply in_app_iff. right. cbn [accepted acc_of ens avop fst app]. rewrite N.eqb_refl. left. reflexivity. }
  (* the library theorem, for the child request with its own environment *)
  set (LH := lib_of allow Hh) in *.
  assert (Him : aresponses cfg (LH ++ [(OGetChild c p, noenv)]) = aresponses cfg LH ++ [RFound ver]).
  { pose proof (history_immutable cfg (L1 ++ [ens; avop]) L2 c ver) as H0.
    rewrite <- HLh in H0. specialize (H0 HolH Hin). cbn [v_parent ver] in H0.
    rewrite app_assoc, <- HLh in H0. exact H0. }
  assert (Henv : aresponses cfg (LH ++ [(OGetChild c p, E')]) = aresponses cfg (LH ++ [(OGetChild c p, noenv)])).
  { rewrite !aresponses_app. f_equal. rewrite !arun_one.
    pose proof (reachable_inv cfg _ HolH) as (Hok & _).
    rewrite !gcv_step by exact Hok. reflexivity. }
  rewrite HLf. change (fst (arun cfg a_empty (LH ++ [(OGetChild c p, E')]))) with (aresponses cfg (LH ++ [(OGetChild c p, E')])).
  rewrite Henv, Him. change (aresponses cfg LH) with R.
  rewrite hresps_of_app. fold LH. rewrite hresps_of_tail by (fold LH; lia). f_equal.
  rewrite skipn_app_le by lia. rewrite <- HlenR, skipn_all, app_nil_l.
  cbn [hresps_of]. rewrite Hlg. cbn [length firstn skipn hresp_of last encode default_headers ver v_id v_parent v_data]. reflexivity.
Qed.

Theorem http_history_immutable k cfg allow h1 h2 c p cs E E' ct0 cs0 v xs :
  cfg_ok cfg -> client_id_header allow (COk c) = inl c -> body_refused cs = false ->
  let av := mkReq MPost (PAddVersion (IdOk p)) (COk c) CTHistory cs in
  let gcv := mkReq MGet (PGetChild (IdOk p)) (COk c) ct0 cs0 in
  horacle_ok ((h1 ++ (av, E) :: h2) ++ [(gcv, E')]) ->
  nth_error (hresponses k cfg allow (h1 ++ (av, E) :: h2)) (length h1) = Some (mkResp 200 (Some v) None xs None [] true) ->
  hresponses k cfg allow ((h1 ++ (av, E) :: h2) ++ [(gcv, E')]) =
  hresponses k cfg allow (h1 ++ (av, E) :: h2) ++ [mkResp 200 (Some v) (Some p) None (Some RTHistory) (body_of cs) true].
Proof.
  intros Hcfg Hc Hb av gcv Hor Hnth.
  assert (HorH : horacle_ok (h1 ++ (av, E) :: h2)) by (apply horacle_ok_from_app in Hor; tauto).
  rewrite (hresponses_agree k cfg allow _ Hcfg Hor), (hresponses_agree k cfg allow _ Hcfg HorH) in *.
  apply (http_history_immutable_a cfg allow h1 h2 c p cs E E' ct0 cs0 v xs Hcfg Hc Hb Hor Hnth).
Qed.


Lemma classic_cas (acc : list version) (p : id) : (acc = [] \/ p = latest_of acc) \/ ~ (acc = [] \/ p = latest_of acc).
Proof.
  destruct acc as [|v l]; [left; left; reflexivity|].
  destruct (N.eq_dec p (latest_of (v :: l))) as [He|Hne]; [left; right; exact He|].
  right. intros [H|H]; [discriminate|contradiction].
Qed.

(* ---- another HTTP-level corollary: add-version is a compare-and-append (C02), as HTTP clients
   see it.  `acc` is the list of versions accepted for c so far, read off the library view of the
   HTTP history (an accepted add-version request is one answered 200 with X-Version-Id). ---- *)
Theorem http_add_version_cas_a cfg allow h c p cs E :
  cfg_ok cfg -> client_id_header allow (COk c) = inl c -> body_refused cs = false ->
  let av := mkReq MPost (PAddVersion (IdOk p)) (COk c) CTHistory cs in
  horacle_ok (h ++ [(av, E)]) ->
  let acc := accepted c (lib_of allow h) (aresponses cfg (lib_of allow h)) in
  exists r, haresponses cfg allow (h ++ [(av, E)]) = haresponses cfg allow h ++ [r] /\
    (((acc = [] \/ p = latest_of acc) /\ exists xs, r = mkResp 200 (Some (e_fresh E)) None xs None [] true) \/
     (~ (acc = [] \/ p = latest_of acc) /\ r = mkResp 409 None (Some (latest_of acc)) None None [] true)).
Proof.
  intros Hcfg Hc Hb av Hor acc.
  assert (HorH : horacle_ok h) by (apply horacle_ok_from_app in Hor; tauto).
  set (d := body_of cs). set (avop := (OAddVersion c p d, E)). set (ens := (OEnsure c, noenv)).
  assert (Hlav : lib_of_req allow av E = [ens; avop]).
  { unfold lib_of_req, av. cbn [rq_cid rq_method rq_path rq_ctype rq_chunks]. rewrite Hc, Hb. reflexivity. }
  set (L := lib_of allow h) in *.
  assert (HLf : lib_of allow (h ++ [(av, E)]) = (L ++ [ens]) ++ [avop]).
  { rewrite lib_of_app. cbn [lib_of]. rewrite Hlav, app_nil_r. fold L. rewrite <- app_assoc. reflexivity. }
  destruct (http_is_lib_a cfg allow _ Hcfg [] a_empty (Inv_empty []) HorH) as [HrH _].
  destruct (http_is_lib_a cfg allow _ Hcfg [] a_empty (Inv_empty []) Hor) as [HrF _].
  unfold haresponses. rewrite HrF, HrH. clear HrF HrH. fold L.
  assert (HolF : oracle_ok ((L ++ [ens]) ++ [avop])) by (rewrite <- HLf; apply (lib_oracle allow _ [] []); [auto|exact Hor]).
  assert (HolE : oracle_ok (L ++ [ens])) by (apply oracle_ok_from_app in HolF; tauto).
  assert (HolL : oracle_ok L) by (apply oracle_ok_from_app in HolE; tauto).
  (* the state after the history, and after create-if-absent *)
  set (a1 := snd (arun cfg a_empty L)).
  pose proof (reachable_inv cfg L HolL) as HI1. fold a1 in HI1.
  assert (Hok1 : a_ok a1 = true) by (destruct HI1; assumption).
  set (a2 := snd (arun cfg a_empty (L ++ [ens]))).
  pose proof (reachable_inv cfg (L ++ [ens]) HolE) as HI2. fold a2 in HI2.
  assert (Ha2 : a2 = match a_cl a1 c with Some _ => a1 | None => a_set a1 c (mkCS nil_id None []) (a_allids a1) end).
  { unfold a2. rewrite arun_app. cbn [snd]. fold a1. unfold ens. rewrite arun_one. rewrite ensure_step by exact Hok1. reflexivity. }
  assert (Hf2 : fresh_ok (used_after [] (L ++ [ens])) (OAddVersion c p d) E).
  { apply oracle_ok_from_app in HolF. destruct HolF as [_ [Hf _]]. exact Hf. }
  (* the client's record after create-if-absent holds exactly the accepted versions *)
  assert (Hx : exists x, a_cl a2 c = Some x /\ a_vers x = acc).
  { pose proof (stored_is_accepted cfg L c HolL) as Hst. fold a1 in Hst. fold acc in Hst. unfold vers_a in Hst.
    rewrite Ha2. destruct (a_cl a1 c) as [x|] eqn:Hc1.
    - exists x. rewrite Hc1. auto.
    - eexists. rewrite a_set_lookup, N.eqb_refl. split; [reflexivity|exact Hst]. }
  destruct Hx as (x & Hx & Hvx).
  destruct (cas_step cfg _ a2 c x p d E HI2 Hx Hf2) as [Hacc Hrej]. rewrite Hvx in Hacc, Hrej.
  (* responses of the library history *)
  assert (HR : fst (arun cfg a_empty ((L ++ [ens]) ++ [avop])) =
               fst (arun cfg a_empty L) ++ [RUnit; fst (astep cfg a2 (OAddVersion c p d) E)]).
  { change (fst (arun cfg a_empty ((L ++ [ens]) ++ [avop]))) with (aresponses cfg ((L ++ [ens]) ++ [avop])).
    unfold avop. rewrite last_step_a. fold a2. unfold ens. rewrite last_step_a. fold a1.
    rewrite ensure_step by exact Hok1. cbn [fst]. rewrite <- app_assoc. reflexivity. }
  rewrite HLf, HR.
  set (R := fst (arun cfg a_empty L)) in *.
  assert (HlenR : length R = length L) by apply arun_length.
  rewrite hresps_of_app. fold L. rewrite hresps_of_tail by (fold L; lia).
  rewrite skipn_app_le by lia. rewrite <- HlenR, skipn_all, app_nil_l.
  cbn [hresps_of]. rewrite Hlav. cbn [length firstn skipn hresp_of last].
  eexists. split; [reflexivity|].
  destruct (classic_cas acc p) as [Hyes|Hno].
  - left. split; [exact Hyes|]. rewrite (Hacc Hyes). cbn [fst encode].
    rewrite urgency_no_overflow by exact Hcfg. cbn [urg_header].
    match goal with |- context [match ?u with UNone => _ | ULow => _ | UHigh => _ end] => destruct u end; eexists; reflexivity.
  - right. split; [exact Hno|]. rewrite (Hrej Hno). reflexivity.
Qed.

Theorem http_add_version_cas k cfg allow h c p cs E :
  cfg_ok cfg -> client_id_header allow (COk c) = inl c -> body_refused cs = false ->
  let av := mkReq MPost (PAddVersion (IdOk p)) (COk c) CTHistory cs in
  horacle_ok (h ++ [(av, E)]) ->
  let acc := accepted c (lib_of allow h) (responses k cfg (lib_of allow h)) in
  exists r, hresponses k cfg allow (h ++ [(av, E)]) = hresponses k cfg allow h ++ [r] /\
    (((acc = [] \/ p = latest_of acc) /\ exists xs, r = mkResp 200 (Some (e_fresh E)) None xs None [] true) \/
     (~ (acc = [] \/ p = latest_of acc) /\ r = mkResp 409 None (Some (latest_of acc)) None None [] true)).
Proof.
  intros Hcfg Hc Hb av Hor acc.
  assert (HorH : horacle_ok h) by (apply horacle_ok_from_app in Hor; tauto).
  assert (HolL : oracle_ok (lib_of allow h)) by (apply (lib_oracle allow h [] []); [auto|exact HorH]).
  unfold acc. rewrite (responses_agree k cfg _ HolL).
  rewrite (hresponses_agree k cfg allow _ Hcfg Hor), (hresponses_agree k cfg allow _ Hcfg HorH).
  apply (http_add_version_cas_a cfg allow h c p cs E Hcfg Hc Hb Hor).
Qed.

(* ---- the chain walk (C01), as HTTP clients see it ---- *)
Definition gcv_req (c p : id) : hreq := mkReq MGet (PGetChild (IdOk p)) (COk c) CTAbsent [].
(* one get-child-version request per id, each with its own environment *)
Definition hgcvs (c : id) (pes : list (id * env)) : list (hreq * env) :=
  map (fun pe => (gcv_req c (fst pe), snd pe)) pes.

Lemma lib_of_gcvs allow c pes : client_id_header allow (COk c) = inl c ->
  lib_of allow (hgcvs c pes) = map (fun pe => (OGetChild c (fst pe), snd pe)) pes.
Proof.
  intros Hc. induction pes as [|[p E] pes IH]; [reflexivity|]. cbn [hgcvs map lib_of fst snd]. fold (hgcvs c pes). rewrite IH.
  unfold lib_of_req, gcv_req. cbn [rq_cid rq_method rq_path]. rewrite Hc. reflexivity.
Qed.

Lemma hresps_of_gcvs cfg allow c pes : client_id_header allow (COk c) = inl c -> forall rs, length rs = length pes ->
  hresps_of cfg allow (hgcvs c pes) rs = map (fun r => default_headers (encode r)) rs.
Proof.
  intros Hc. induction pes as [|[p E] pes IH]; intros rs Hl; destruct rs as [|r rs]; cbn in Hl; try discriminate; [reflexivity|].
  assert (Hl1 : lib_of_req allow (gcv_req c p) E = [(OGetChild c p, E)]).
  { unfold lib_of_req, gcv_req. cbn [rq_cid rq_method rq_path]. rewrite Hc. reflexivity. }
  cbn [hgcvs map hresps_of fst snd]. fold (hgcvs c pes). rewrite Hl1.
  cbn [length firstn skipn hresp_of last]. f_equal. apply IH. lia.
Qed.

(* the answers to child lookups do not depend on the environment they are given *)
Lemma gcv_run_env cfg a c pes : a_ok a = true ->
  arun cfg a (map (fun pe => (OGetChild c (fst pe), snd pe)) pes) = arun cfg a (gcv_ops c (map fst pes)).
Proof.
  intros Hok. induction pes as [|[p E] pes IH]; [reflexivity|].
  cbn [map fst snd gcv_ops]. fold (gcv_ops c (map fst pes)). rewrite !arun_cons. rewrite !gcv_step by exact Hok. cbn [fst snd].
  rewrite IH. reflexivity.
Qed.

Lemma map_fst_combine_len {A B} (l : list A) (l' : list B) : length l = length l' -> map fst (combine l l') = l.
Proof.
  revert l'. induction l as [|x l IH]; intros [|y l'] H; cbn in *; try discriminate; [reflexivity|].
  rewrite IH by lia. reflexivity.
Qed.

Theorem http_chain_walk_a cfg allow h c Es : cfg_ok cfg -> client_id_header allow (COk c) = inl c ->
  let acc := accepted c (lib_of allow h) (aresponses cfg (lib_of allow h)) in
  acc <> [] -> length Es = S (length acc) ->
  let walk := hgcvs c (combine (base_of acc :: ids_of acc) Es) in
  horacle_ok (h ++ walk) ->
  haresponses cfg allow (h ++ walk) =
  haresponses cfg allow h ++
  map (fun v => mkResp 200 (Some (v_id v)) (Some (v_parent v)) None (Some RTHistory) (v_data v) true) acc ++
  [mkResp 404 None None None None [] true].
Proof.
  intros Hcfg Hc acc Hne HlenE walk Hor.
  assert (HorH : horacle_ok h) by (apply horacle_ok_from_app in Hor; tauto).
  set (L := lib_of allow h) in *.
  assert (HolL : oracle_ok L) by (apply (lib_oracle allow h [] []); [auto|exact HorH]).
  destruct (http_is_lib_a cfg allow _ Hcfg [] a_empty (Inv_empty []) HorH) as [HrH _].
  destruct (http_is_lib_a cfg allow _ Hcfg [] a_empty (Inv_empty []) Hor) as [HrF _].
  unfold haresponses. rewrite HrF, HrH. clear HrF HrH. fold L.
  set (pes := combine (base_of acc :: ids_of acc) Es) in *.
  assert (Hfst : map fst pes = base_of acc :: ids_of acc).
  { unfold pes. apply map_fst_combine_len. cbn [length]. unfold ids_of. rewrite map_length. lia. }
  rewrite lib_of_app. fold L. unfold walk. rewrite (lib_of_gcvs allow c pes Hc).
  pose proof (reachable_inv cfg L HolL) as (Hok & _).
  rewrite arun_app. cbn [fst]. rewrite (gcv_run_env cfg _ c pes Hok), Hfst.
  (* the library walk *)
  pose proof (walk_returns_accepted cfg L c HolL) as Hw. cbv zeta in Hw. fold acc in Hw. specialize (Hw Hne).
  unfold walk_ops in Hw. unfold aresponses in Hw. rewrite arun_app in Hw. cbn [fst] in Hw.
  apply app_inv_head in Hw. rewrite Hw.
  set (R := fst (arun cfg a_empty L)) in *.
  assert (HlenR : length R = length L) by apply arun_length.
  rewrite hresps_of_app. fold L. rewrite hresps_of_tail by (fold L; lia).
  rewrite skipn_app_le by lia. rewrite <- HlenR, skipn_all, app_nil_l. f_equal.
  rewrite (hresps_of_gcvs cfg allow c pes Hc).
  - rewrite map_app, map_map. cbn [map encode default_headers plain rs_status rs_version_id rs_parent_id rs_snapshot_req rs_ctype rs_body]. reflexivity.
  - rewrite app_length, map_length. cbn [length]. unfold pes. rewrite combine_length. cbn [length]. unfold ids_of. rewrite map_length. lia.
Qed.

Theorem http_chain_walk k cfg allow h c Es : cfg_ok cfg -> client_id_header allow (COk c) = inl c ->
  let acc := accepted c (lib_of allow h) (responses k cfg (lib_of allow h)) in
  acc <> [] -> length Es = S (length acc) ->
  let walk := hgcvs c (combine (base_of acc :: ids_of acc) Es) in
  horacle_ok (h ++ walk) ->
  hresponses k cfg allow (h ++ walk) =
  hresponses k cfg allow h ++
  map (fun v => mkResp 200 (Some (v_id v)) (Some (v_parent v)) None (Some RTHistory) (v_data v) true) acc ++
  [mkResp 404 None None None None [] true].
Proof.
  intros Hcfg Hc acc Hne HlenE walk Hor.
  assert (HorH : horacle_ok h) by (apply horacle_ok_from_app in Hor; tauto).
  assert (HolL : oracle_ok (lib_of allow h)) by (apply (lib_oracle allow h [] []); [auto|exact HorH]).
  unfold walk, acc in *. rewrite (responses_agree k cfg _ HolL) in *.
  rewrite (hresponses_agree k cfg allow _ Hcfg Hor), (hresponses_agree k cfg allow _ Hcfg HorH).
  apply (http_chain_walk_a cfg allow h c Es Hcfg Hc Hne HlenE Hor).
Qed.
