(* Hist.v — history-level consequences of the invariant: the versions stored for a client are
   exactly the versions the responses reported as accepted, in order (ghost "accepted"); the
   chain can be walked end to end (C01); accepted history is immutable (C07). *)
From TSS Require Import AStore Seq proofs.ListAux proofs.Chain proofs.Steps proofs.Refine
  proofs.RefineInMem proofs.Inv proofs.Agree.
From Coq Require Import Lia.
Open Scope N_scope.

(* read off the RESPONSES, not the store *)
Definition acc_of (c : id) (o : op) (r : resp) : list version :=
  match o, r with
  | OAddVersion c' p d, RAdded v _ => if N.eqb c' c then [mkVersion v p d] else []
  | _, _ => []
  end.
Fixpoint accepted (c : id) (h : list (op * env)) (rs : list resp) : list version :=
  match h, rs with
  | oe :: h', r :: rs' => acc_of c (fst oe) r ++ accepted c h' rs'
  | _, _ => []
  end.

Lemma vers_a_set' s c x ids c2 :
  vers_a (a_set s c x ids) c2 = if N.eqb c2 c then a_vers x else vers_a s c2.
Proof. apply vers_a_set. Qed.

Lemma vers_a_some a c x : a_cl a c = Some x -> vers_a a c = a_vers x.
Proof. unfold vers_a. intros ->. reflexivity. Qed.
Lemma vers_a_none a c : a_cl a c = None -> vers_a a c = [].
Proof. unfold vers_a. intros ->. reflexivity. Qed.

Lemma fresh_mem_false U a o f : Inv U a -> ~ usedp (mentioned o ++ U) f -> mem_id f (a_allids a) = false.
Proof.
  intros (_ & _ & Hids & _) Hf. destruct (not_usedp_not_in _ _ _ Hf) as (HfU & _ & _).
  destruct (mem_id f (a_allids a)) eqn:Em; [|reflexivity]. exfalso.
  unfold mem_id in Em. apply existsb_exists in Em. destruct Em as (j & Hj & Ej).
  apply N.eqb_eq in Ej. subst j. apply HfU. apply Hids. exact Hj.
Qed.

(* one step appends exactly what its response reports *)
Lemma vers_step cfg U a o E c :
  Inv U a -> fresh_ok U o E ->
  vers_a (snd (astep cfg a o E)) c = vers_a a c ++ acc_of c o (fst (astep cfg a o E)).
Proof.
  intros HI Hf. assert (HI0 := HI). destruct HI as (Hok & Hcl & Hids & Hvs).
  destruct o as [c1 p d|c1 p|c1 v d|c1|c1|c1 secs|c1 n| |c1 ids].
  - destruct (a_cl a c1) as [x|] eqn:Hc.
    + destruct (av_accepts x p) eqn:Hacc.
      * rewrite (av_accept cfg a c1 x p d E Hok Hc Hacc (fresh_mem_false U a _ _ HI0 Hf)
                  (cinv_no_child_of_target U x p (Hcl c1 x Hc) Hacc)).
        cbn [fst snd acc_of]. unfold av_new_state. rewrite vers_a_set'. rewrite N.eqb_sym.
        destruct (N.eqb_spec c1 c) as [->|Hne]; cbn [a_vers].
        -- rewrite (vers_a_some a c x Hc). reflexivity.
        -- rewrite app_nil_r. reflexivity.
      * rewrite (av_conflict cfg a c1 x p d E Hok Hc Hacc). cbn. rewrite app_nil_r. reflexivity.
    + rewrite (av_noclient cfg a c1 p d E Hok Hc). cbn. rewrite app_nil_r. reflexivity.
  - rewrite gcv_step by assumption. cbn. rewrite app_nil_r. reflexivity.
  - rewrite as_step by assumption. destruct (a_cl a c1) as [x|] eqn:Hc; cbn [fst snd acc_of]; rewrite app_nil_r; [|reflexivity].
    destruct (as_accepts x v); [|reflexivity]. unfold as_new_state. rewrite vers_a_set'.
    destruct (N.eqb_spec c c1) as [->|Hne]; [|reflexivity]. cbn. rewrite (vers_a_some a c1 x Hc). reflexivity.
  - rewrite gs_step by assumption. cbn. rewrite app_nil_r. reflexivity.
  - rewrite ensure_step by assumption. cbn [fst snd acc_of]. rewrite app_nil_r.
    destruct (a_cl a c1) as [x|] eqn:Hc; [reflexivity|]. rewrite vers_a_set'.
    destruct (N.eqb_spec c c1) as [->|Hne]; [|reflexivity]. cbn. rewrite (vers_a_none a c1 Hc). reflexivity.
  - rewrite backdate_step by assumption. cbn [fst snd acc_of]. rewrite app_nil_r. unfold rewrite_state.
    destruct (a_cl a c1) as [x|] eqn:Hc; [|reflexivity]. destruct (a_snap x) as [[m d]|]; [|reflexivity].
    rewrite vers_a_set'. destruct (N.eqb_spec c c1) as [->|Hne]; [|reflexivity]. cbn. rewrite (vers_a_some a c1 x Hc). reflexivity.
  - rewrite setcounter_step by assumption. cbn [fst snd acc_of]. rewrite app_nil_r. unfold rewrite_state.
    destruct (a_cl a c1) as [x|] eqn:Hc; [|reflexivity]. destruct (a_snap x) as [[m d]|]; [|reflexivity].
    rewrite vers_a_set'. destruct (N.eqb_spec c c1) as [->|Hne]; [|reflexivity]. cbn. rewrite (vers_a_some a c1 x Hc). reflexivity.
  - rewrite reopen_step. cbn. rewrite app_nil_r. reflexivity.
  - rewrite dump_step by assumption. cbn [acc_of]. destruct (fst (astep cfg a (ODump c1 ids) E)); cbn; rewrite app_nil_r; reflexivity.
Qed.

Lemma vers_hist cfg U a h c :
  Inv U a -> oracle_ok_from U h ->
  vers_a (snd (arun cfg a h)) c = vers_a a c ++ accepted c h (fst (arun cfg a h)).
Proof.
  revert U a. induction h as [|[o E] h IH]; intros U a HI Hor.
  - cbn. rewrite app_nil_r. reflexivity.
  - cbn [oracle_ok_from] in Hor. destruct Hor as [Hf Hor]. rewrite arun_cons. cbn [fst snd accepted].
    rewrite (IH _ _ (inv_step cfg U a o E HI Hf) Hor), (vers_step cfg U a o E c HI Hf), app_assoc. reflexivity.
Qed.

(* the stored versions of every client are the accepted ones, in acceptance order *)
Theorem stored_is_accepted cfg h c : oracle_ok h ->
  vers_a (snd (arun cfg a_empty h)) c = accepted c h (aresponses cfg h).
Proof. intros Hor. rewrite (vers_hist cfg [] a_empty h c (Inv_empty []) Hor). reflexivity. Qed.

(* ------------------------------------------------------------------ walking the chain *)
Definition noenv : env := mkEnv 0 0%Z.
Definition gcv_ops (c : id) (ps : list id) : list (op * env) := map (fun p => (OGetChild c p, noenv)) ps.
(* the requests of an end-to-end walk over the versions l: base, id1, ..., idn *)
Definition walk_ops (c : id) (l : list version) : list (op * env) := gcv_ops c (base_of l :: ids_of l).

Lemma gcv_run cfg a c x ps : a_ok a = true -> a_cl a c = Some x ->
  arun cfg a (gcv_ops c ps) = (map (gcv_answer x) ps, a).
Proof.
  intros Hok Hc. induction ps as [|p ps IH]; [reflexivity|].
  cbn [gcv_ops map]. rewrite arun_cons. rewrite gcv_step by assumption. cbn [fst snd]. rewrite Hc.
  fold (gcv_ops c ps). rewrite IH. reflexivity.
Qed.

Lemma removelast_last_split {A} (l : list A) d : l <> [] -> l = removelast l ++ [last l d].
Proof. apply app_removelast_last. Qed.

Lemma walk_answers U x : cinv U x -> a_vers x <> [] ->
  map (gcv_answer x) (base_of (a_vers x) :: ids_of (a_vers x)) = map RFound (a_vers x) ++ [RNotFound].
Proof.
  intros Hi Hne. set (l := a_vers x) in *.
  pose proof (ci_chain U x Hi) as Hch. pose proof (ci_nodup U x Hi) as Hnd. fold l in Hch, Hnd.
  rewrite (removelast_last_split (base_of l :: ids_of l) nil_id) by discriminate.
  rewrite <- (chain_parents _ _ Hch), map_app. f_equal.
  - unfold parents_of. rewrite map_map. apply map_ext_in. intros v Hv. unfold gcv_answer.
    fold l. rewrite (by_parent_unique l v (chain_parents_nodup _ _ Hch Hnd) Hv). reflexivity.
  - cbn [map]. f_equal.
    assert (El : last (base_of l :: ids_of l) nil_id = last_id l (base_of l)).
    { unfold last_id. destruct (ids_of l) as [|i il] eqn:Ei.
      - unfold ids_of in Ei. destruct l; [contradiction|discriminate].
      - rewrite last_cons_ne by discriminate. apply last_default_irrel. discriminate. }
    rewrite El. unfold gcv_answer. fold l. rewrite (chain_no_child_of_last _ _ Hch Hnd).
    destruct (cinv_latest_last U x Hi) as [Hl|He]; [|contradiction]. fold l in Hl.
    rewrite Hl, N.eqb_refl. reflexivity.
Qed.

(* C01 on the abstract store *)
Theorem walk_returns_accepted cfg h c : oracle_ok h ->
  let acc := accepted c h (aresponses cfg h) in
  acc <> [] ->
  aresponses cfg (h ++ walk_ops c acc) = aresponses cfg h ++ map RFound acc ++ [RNotFound].
Proof.
  intros Hor acc Hne. unfold aresponses. rewrite arun_app. cbn [fst].  f_equal.
  pose proof (reachable_inv cfg h Hor) as HI. pose proof (stored_is_accepted cfg h c Hor) as Hst.
  fold acc in Hst. set (a := snd (arun cfg a_empty h)) in *.
  destruct HI as (Hok & Hcl & _).
  destruct (a_cl a c) as [x|] eqn:Hc.
  - rewrite (vers_a_some a c x Hc) in Hst. unfold walk_ops. rewrite (gcv_run cfg a c x _ Hok Hc). cbn [fst].
    rewrite <- Hst. apply (walk_answers _ x (Hcl c x Hc)). rewrite Hst. exact Hne.
  - rewrite (vers_a_none a c Hc) in Hst. exfalso. apply Hne. symmetry. exact Hst.
Qed.

Theorem accepted_parents_unique cfg h c : oracle_ok h ->
  NoDup (parents_of (accepted c h (aresponses cfg h))).
Proof.
  intros Hor. rewrite <- (stored_is_accepted cfg h c Hor).
  pose proof (reachable_inv cfg h Hor) as (Hok & Hcl & _).
  set (a := snd (arun cfg a_empty h)) in *. unfold vers_a. destruct (a_cl a c) as [x|] eqn:Hc; [|constructor].
  pose proof (Hcl c x Hc) as Hi. apply (chain_parents_nodup _ _ (ci_chain _ x Hi) (ci_nodup _ x Hi)).
Qed.

(* ------------------------------------------------------------------ immutability (C07) *)
Lemma accepted_app c h1 h2 r1 r2 : length h1 = length r1 ->
  accepted c (h1 ++ h2) (r1 ++ r2) = accepted c h1 r1 ++ accepted c h2 r2.
Proof.
  revert r1. induction h1 as [|oe h1 IH]; intros [|r r1] Hl; cbn in *; try discriminate; [reflexivity|].
  rewrite IH by lia. rewrite app_assoc. reflexivity.
Qed.

Lemma arun_length cfg a h : length (fst (arun cfg a h)) = length h.
Proof.
  revert a. induction h as [|[o E] h IH]; intros a; [reflexivity|]. rewrite arun_cons. cbn. rewrite IH. reflexivity.
Qed.

Theorem history_immutable cfg h1 h2 c ver : oracle_ok (h1 ++ h2) ->
  In ver (accepted c h1 (aresponses cfg h1)) ->
  aresponses cfg (h1 ++ h2 ++ [(OGetChild c (v_parent ver), noenv)]) =
  aresponses cfg (h1 ++ h2) ++ [RFound ver].
Proof.
  intros Hor Hin. rewrite app_assoc. unfold aresponses at 1 2. rewrite arun_app. cbn [fst]. f_equal.
  pose proof (reachable_inv cfg _ Hor) as HI. pose proof (stored_is_accepted cfg _ c Hor) as Hst.
  set (a := snd (arun cfg a_empty (h1 ++ h2))) in *.
  (* what was accepted during h1 is a prefix of what is stored after h1 ++ h2 *)
  assert (Hin2 : In ver (vers_a a c)).
  { rewrite Hst. unfold aresponses. rewrite arun_app. cbn [fst].
    rewrite accepted_app by (symmetry; apply arun_length). apply in_app_iff. left. exact Hin. }
  destruct HI as (Hok & Hcl & _). unfold vers_a in Hin2. destruct (a_cl a c) as [x|] eqn:Hc; [|contradiction].
  change [(OGetChild c (v_parent ver), noenv)] with (gcv_ops c [v_parent ver]).
  rewrite (gcv_run cfg a c x _ Hok Hc). cbn [fst map]. f_equal. unfold gcv_answer.
  pose proof (Hcl c x Hc) as Hi.
  rewrite (by_parent_unique _ ver (chain_parents_nodup _ _ (ci_chain _ x Hi) (ci_nodup _ x Hi)) Hin2). reflexivity.
Qed.

(* ------------------------------------------------------------------ on the concrete backends *)
Lemma oracle_ok_gcv h c ps : oracle_ok h -> oracle_ok (h ++ gcv_ops c ps).
Proof.
  intros Hor. apply oracle_ok_from_app. split; [exact Hor|]. apply oracle_ok_no_av.
  unfold gcv_ops. rewrite forallb_forall. intros oe Hin. apply in_map_iff in Hin.
  destruct Hin as (p & <- & _). reflexivity.
Qed.

Theorem walk_returns_accepted_k k cfg h c : oracle_ok h ->
  let acc := accepted c h (responses k cfg h) in
  acc <> [] ->
  responses k cfg (h ++ walk_ops c acc) = responses k cfg h ++ map RFound acc ++ [RNotFound].
Proof.
  intros Hor. rewrite (responses_agree k cfg h Hor). intros acc Hne.
  unfold walk_ops. rewrite (responses_agree k cfg _ (oracle_ok_gcv h c _ Hor)).
  apply walk_returns_accepted; assumption.
Qed.

Theorem accepted_parents_unique_k k cfg h c : oracle_ok h ->
  NoDup (parents_of (accepted c h (responses k cfg h))).
Proof. intros Hor. rewrite (responses_agree k cfg h Hor). apply accepted_parents_unique. exact Hor. Qed.

Theorem history_immutable_k k cfg h1 h2 c ver : oracle_ok (h1 ++ h2) ->
  In ver (accepted c h1 (responses k cfg h1)) ->
  responses k cfg (h1 ++ h2 ++ [(OGetChild c (v_parent ver), noenv)]) =
  responses k cfg (h1 ++ h2) ++ [RFound ver].
Proof.
  intros Hor. assert (Hor1 : oracle_ok h1) by (apply oracle_ok_from_app in Hor; tauto).
  rewrite (responses_agree k cfg h1 Hor1), (responses_agree k cfg _ Hor). intros Hin.
  assert (Hor3 : oracle_ok (h1 ++ h2 ++ [(OGetChild c (v_parent ver), noenv)])).
  { rewrite app_assoc. apply (oracle_ok_gcv (h1 ++ h2) c [v_parent ver] Hor). }
  rewrite (responses_agree k cfg _ Hor3). apply history_immutable; assumption.
Qed.
