(* Steps.v — what one library-level operation does on the abstract store (symbolic evaluation
   of the handler programs over AStoreB). *)
From TSS Require Import AStore Seq proofs.ListAux proofs.Chain.
From Coq Require Import Lia.
Open Scope N_scope.

Definition astep (cfg : config) (a : astore) (o : op) (E : env) : resp * astore :=
  fst (step AStoreB cfg a (o, E)).

Definition av_accepts (x : cstate) (p : id) : bool :=
  N.eqb (a_latest x) nil_id || N.eqb p (a_latest x).

Lemma a_end_read c a : a_ok a = true -> a_end (mkAWs c a a false false) = a.
Proof. intros H. unfold a_end; cbn. rewrite H. reflexivity. Qed.

(* ---------------- AddVersion ---------------- *)
Lemma av_noclient cfg a c p d E : a_ok a = true -> a_cl a c = None ->
  astep cfg a (OAddVersion c p d) E = (RNoClient, a).
Proof.
  intros Hok Hc. unfold astep, step; cbn. rewrite Hc. cbn. rewrite ?Hok. reflexivity.
Qed.

Lemma av_conflict cfg a c x p d E : a_ok a = true -> a_cl a c = Some x -> av_accepts x p = false ->
  astep cfg a (OAddVersion c p d) E = (RConflict (a_latest x), a).
Proof.
  intros Hok Hc Hacc. unfold astep, step; cbn. rewrite Hc. cbn.
  unfold av_accepts in Hacc. apply Bool.orb_false_elim in Hacc. destruct Hacc as [H1 H2].
  rewrite H1, H2. cbn. rewrite ?Hok. reflexivity.
Qed.

Definition av_new_state (a : astore) (c : id) (x : cstate) (v p : id) (d : payload) : astore :=
  a_set a c (mkCS v (bump_snap (a_snap x)) (a_vers x ++ [mkVersion v p d])) (v :: a_allids a).

Lemma av_accept cfg a c x p d E : a_ok a = true -> a_cl a c = Some x -> av_accepts x p = true ->
  mem_id (e_fresh E) (a_allids a) = false -> by_parent p (a_vers x) = None ->
  astep cfg a (OAddVersion c p d) E =
  (RAdded (e_fresh E) (urgency_of cfg (option_map fst (a_snap x)) (e_now E)),
   av_new_state a c x (e_fresh E) p d).
Proof.
  intros Hok Hc Hacc Hm Hbp. unfold astep, step; cbn. rewrite Hc. cbn.
  unfold av_accepts in Hacc.
  assert (Hcond : negb (N.eqb (a_latest x) nil_id) && negb (N.eqb p (a_latest x)) = false).
  { destruct (N.eqb (a_latest x) nil_id), (N.eqb p (a_latest x)); cbn in *; congruence. }
  rewrite Hcond. cbn. rewrite Hc, Hm, Hbp. cbn.
  unfold av_new_state. destruct (a_snap x) as [[m dd]|] eqn:Hs; cbn; reflexivity.
Qed.

(* ---------------- GetChildVersion ---------------- *)
Definition gcv_answer (x : cstate) (p : id) : resp :=
  match by_parent p (a_vers x) with
  | Some v => RFound v
  | None => if N.eqb (a_latest x) p || N.eqb (a_latest x) nil_id then RNotFound else RGone
  end.

Lemma gcv_step cfg a c p E : a_ok a = true ->
  astep cfg a (OGetChild c p) E =
  (match a_cl a c with None => RNoClient | Some x => gcv_answer x p end, a).
Proof.
  intros Hok. unfold astep, step, gcv_answer; cbn.
  destruct (a_cl a c) as [x|] eqn:Hc; cbn.
  - rewrite Hc. destruct (by_parent p (a_vers x)); cbn; rewrite ?Hok; try reflexivity.
    destruct (N.eqb (a_latest x) p || N.eqb (a_latest x) nil_id); reflexivity.
  - rewrite ?Hok. reflexivity.
Qed.

(* ---------------- GetSnapshot ---------------- *)
Lemma gs_step cfg a c E : a_ok a = true ->
  astep cfg a (OGetSnapshot c) E =
  (match a_cl a c with
   | None => RNoClient
   | Some x => match a_snap x with Some (m, d) => RSnap (sm_version m) d | None => RNoSnap end
   end, a).
Proof.
  intros Hok. unfold astep, step; cbn.
  destruct (a_cl a c) as [x|] eqn:Hc; cbn.
  - destruct (a_snap x) as [[m d]|] eqn:Hs; cbn.
    + rewrite Hc, Hs. cbn. rewrite N.eqb_refl. cbn. rewrite ?Hok. reflexivity.
    + rewrite ?Hok. reflexivity.
  - rewrite ?Hok. reflexivity.
Qed.

(* ---------------- AddSnapshot ---------------- *)
Lemma run_pbind B A C E (p : prog A) (f : A -> prog C) w :
  fst (run_prog B E (pbind p f) w) =
  match fst (run_prog B E p w) with
  | (Ok x, w') => fst (run_prog B E (f x) w')
  | (Err e, w') => (Err e, w')
  end.
Proof.
  revert w. induction p as [a|e|X e k IH|k IH|k IH]; intros w; cbn; auto.
  destruct (b_eff B X e w) as [[x|er] w1]; cbn; [|reflexivity].
  specialize (IH x w1).
  destruct (run_prog B E (pbind (k x) f) w1) as [[r w2] t].
  destruct (run_prog B E (k x) w1) as [[r' w2'] t']. cbn in *. exact IH.
Qed.

(* the bounded backwards walk of add_snapshot, as a function of the stored versions *)
Fixpoint search_spec (n : nat) (v : id) (last : option id) (l : list version) (vid : id) : bool :=
  if N.eqb vid v && negb (N.eqb v nil_id) then true
  else if oid_eqb (Some vid) last then false
  else
    match n with
    | O => false
    | S n' =>
        if Nat.eqb n' 0 || N.eqb vid nil_id then false
        else match by_id vid l with
             | Some ver => search_spec n' v last l (v_parent ver)
             | None => false
             end
    end.

Lemma run_snap_search E n v last vid aw x :
  a_cl (aw_cur aw) (aw_cid aw) = Some x ->
  fst (run_prog AStoreB E (snap_search n v last vid) aw) = (Ok (search_spec n v last (a_vers x) vid), aw).
Proof.
  intros Hx. revert vid. induction n as [|n IH]; intros vid; cbn [snap_search search_spec].
  - destruct (N.eqb vid v && negb (N.eqb v nil_id)); [reflexivity|].
    destruct (oid_eqb (Some vid) last); reflexivity.
  - destruct (N.eqb vid v && negb (N.eqb v nil_id)); [reflexivity|].
    destruct (oid_eqb (Some vid) last); [reflexivity|].
    destruct (Nat.eqb n 0 || N.eqb vid nil_id); [reflexivity|].
    cbn [run_prog b_eff AStoreB a_eff]. rewrite Hx.
    destruct (by_id vid (a_vers x)) as [ver|]; [|reflexivity].
    specialize (IH (v_parent ver)).
    destruct (run_prog AStoreB E (snap_search n v last (v_parent ver)) aw) as [[r w'] t]. cbn in *. exact IH.
Qed.

Definition snap_last (x : cstate) : option id := option_map (fun md => sm_version (fst md)) (a_snap x).

Definition as_accepts (x : cstate) (v : id) : bool :=
  negb (oid_eqb (Some v) (snap_last x)) &&
  search_spec SNAPSHOT_SEARCH_LEN v (snap_last x) (a_vers x) (a_latest x).

Definition as_new_state (a : astore) (c : id) (x : cstate) (v : id) (now : Z) (d : payload) : astore :=
  a_set a c (mkCS (a_latest x) (Some (mkSnap v now 0, d)) (a_vers x)) (a_allids a).

Lemma as_step cfg a c v d E : a_ok a = true ->
  astep cfg a (OAddSnapshot c v d) E =
  match a_cl a c with
  | None => (RNoClient, a)
  | Some x => (RSnapAck, if as_accepts x v then as_new_state a c x v (e_now E) d else a)
  end.
Proof.
  intros Hok. unfold astep, step. cbn [lib_handler fst snd run_hprog].
  destruct (a_cl a c) as [x|] eqn:Hc.
  - unfold p_add_snapshot. cbn [run_prog]. cbn [b_eff AStoreB a_eff b_begin a_begin aw_cid aw_cur].
    rewrite Hc. cbn [option_map client_of c_snap c_latest label_of].
    assert (Hl : option_map sm_version (option_map fst (a_snap x)) = snap_last x).
    { unfold snap_last. destruct (a_snap x) as [[m dd]|]; reflexivity. }
    rewrite Hl. unfold as_accepts.
    destruct (oid_eqb (Some v) (snap_last x)) eqn:Eo; cbn [negb andb].
    + cbn. rewrite Hok. reflexivity.
    + set (aw := a_begin a c).
      pose proof (run_pbind AStoreB _ _ E (snap_search SNAPSHOT_SEARCH_LEN v (snap_last x) (a_latest x))
        (fun found : bool => if found then Now (fun now => Do (ESetSnapshot (mkSnap v now 0) d) (fun _ => Do ECommit (fun _ => Ret tt))) else Ret tt) aw) as Hb.
      rewrite (run_snap_search E _ v (snap_last x) (a_latest x) aw x Hc) in Hb.
      match type of Hb with fst ?R = _ => destruct R as [[r w'] t] eqn:Hrun end.
      cbn [fst] in Hb.
      destruct (search_spec SNAPSHOT_SEARCH_LEN v (snap_last x) (a_vers x) (a_latest x)).
      * cbn in Hb. rewrite Hc in Hb. cbn in Hb. inversion Hb; subst. cbn. reflexivity.
      * cbn in Hb. inversion Hb; subst. cbn. rewrite Hok. reflexivity.
  - cbn. rewrite Hc. cbn. rewrite Hok. reflexivity.
Qed.

(* ---------------- harness-level steps ---------------- *)
Lemma ensure_step cfg a c E : a_ok a = true ->
  astep cfg a (OEnsure c) E =
  (RUnit, match a_cl a c with Some _ => a | None => a_set a c (mkCS nil_id None []) (a_allids a) end).
Proof.
  intros Hok. unfold astep, step; cbn.
  destruct (a_cl a c) as [x|] eqn:Hc; cbn.
  - rewrite Hok. reflexivity.
  - rewrite Hc. cbn. reflexivity.
Qed.

Definition rewrite_state (a : astore) (c : id) (f : snapmeta -> snapmeta) : astore :=
  match a_cl a c with
  | Some x =>
      match a_snap x with
      | Some (m, d) => a_set a c (mkCS (a_latest x) (Some (f m, d)) (a_vers x)) (a_allids a)
      | None => a
      end
  | None => a
  end.

Lemma rewrite_snapshot_run a c f E : a_ok a = true ->
  run_hprog AStoreB E
    (HTxn c (p_rewrite_snapshot f) (fun r => HRet match r with Ok _ => RUnit | Err e => err_resp e end)) a
  = (match a_cl a c with None => RNoClient | Some _ => RUnit end, rewrite_state a c f,
     snd (run_hprog AStoreB E
    (HTxn c (p_rewrite_snapshot f) (fun r => HRet match r with Ok _ => RUnit | Err e => err_resp e end)) a)).
Proof.
  intros Hok. unfold rewrite_state. cbn.
  destruct (a_cl a c) as [x|] eqn:Hc; cbn.
  - destruct (a_snap x) as [[m d]|] eqn:Hs; cbn.
    + rewrite Hc, Hs. cbn. rewrite N.eqb_refl. cbn. rewrite Hc. cbn. reflexivity.
    + rewrite Hok. reflexivity.
  - rewrite Hok. reflexivity.
Qed.

Lemma backdate_step cfg a c secs E : a_ok a = true ->
  astep cfg a (OBackdate c secs) E =
  (match a_cl a c with None => RNoClient | Some _ => RUnit end,
   rewrite_state a c (fun sm => mkSnap (sm_version sm) (sm_time sm - secs) (sm_since sm))).
Proof. intros Hok. unfold astep, step. cbn [lib_handler fst snd]. rewrite rewrite_snapshot_run by assumption. reflexivity. Qed.

Lemma setcounter_step cfg a c n E : a_ok a = true ->
  astep cfg a (OSetCounter c n) E =
  (match a_cl a c with None => RNoClient | Some _ => RUnit end,
   rewrite_state a c (fun sm => mkSnap (sm_version sm) (sm_time sm) n)).
Proof. intros Hok. unfold astep, step. cbn [lib_handler fst snd]. rewrite rewrite_snapshot_run by assumption. reflexivity. Qed.

Lemma reopen_step cfg a E : astep cfg a OReopen E = (RUnit, a).
Proof. reflexivity. Qed.

Lemma run_pbind_full B A C E (p : prog A) (f : A -> prog C) w :
  run_prog B E (pbind p f) w =
  match run_prog B E p w with
  | (Ok x, w', t) => let '(r, w'', t') := run_prog B E (f x) w' in (r, w'', t ++ t')
  | (Err e, w', t) => (Err e, w', t)
  end.
Proof.
  revert w. induction p as [a|e|X e k IH|k IH|k IH]; intros w; cbn; auto.
  - destruct (run_prog B E (f a) w) as [[r w'] t]; reflexivity.
  - destruct (b_eff B X e w) as [[x|er] w1]; cbn; [|reflexivity].
    rewrite (IH x w1).
    destruct (run_prog B E (k x) w1) as [[[y|er] w2] t]; [|reflexivity].
    destruct (run_prog B E (f y) w2) as [[r w3] t3]. reflexivity.
Qed.

Lemma run_probe E ids aw :
  exists l t, run_prog AStoreB E (p_probe ids) aw = (Ok l, aw, t).
Proof.
  induction ids as [|i r IH].
  - exists [], []. reflexivity.
  - destruct IH as (l & t & Hl).
    change (p_probe (i :: r)) with
      (Do (EGetVersion i) (fun a => Do (EGetByParent i) (fun b => pbind (p_probe r) (fun l => Ret ((i, a, b) :: l))))).
    cbn [run_prog].
    change (b_eff AStoreB (option version) (EGetVersion i) aw) with
      (@Ok (option version) (match a_cl (aw_cur aw) (aw_cid aw) with Some x => by_id i (a_vers x) | None => None end), aw).
    cbv iota beta.
    change (b_eff AStoreB (option version) (EGetByParent i) aw) with
      (@Ok (option version) (match a_cl (aw_cur aw) (aw_cid aw) with Some x => by_parent i (a_vers x) | None => None end), aw).
    cbv iota beta.
    rewrite run_pbind_full, Hl. cbn. eexists. eexists. reflexivity.
Qed.

Lemma dump_step cfg a c ids E : a_ok a = true -> snd (astep cfg a (ODump c ids) E) = a.
Proof.
  intros Hok. unfold astep, step. cbn [lib_handler fst snd dump_h run_hprog].
  change (b_end AStoreB) with a_end. change (b_begin AStoreB) with a_begin.
  cbn [run_prog]. change (b_eff AStoreB (option client) EGetClient (a_begin a c)) with
    (@Ok (option client) (option_map client_of (a_cl a c)), a_begin a c).
  cbv iota beta.
  assert (He : a_end (a_begin a c) = a) by (unfold a_end, a_begin; cbn; rewrite Hok; reflexivity).
  rewrite He. cbn [run_hprog]. change (b_end AStoreB) with a_end. change (b_begin AStoreB) with a_begin.
  destruct (run_probe E ids (a_begin a c)) as (l & t & Hl). rewrite Hl, He.
  destruct (a_cl a c) as [x|] eqn:Hc; cbn [option_map client_of c_snap].
  - destruct (a_snap x) as [[m d]|] eqn:Hs; cbn [option_map fst].
    + cbn. rewrite Hc, Hs. cbn. rewrite N.eqb_refl. cbn. rewrite Hok. reflexivity.
    + reflexivity.
  - reflexivity.
Qed.

(* ---------------- the dump, in full ---------------- *)
Definition probes_of (oc : option cstate) (ids : list id) : list probe :=
  map (fun i => (i, match oc with Some x => by_id i (a_vers x) | None => None end,
                    match oc with Some x => by_parent i (a_vers x) | None => None end)) ids.

Lemma run_probe_full E ids aw :
  exists t, run_prog AStoreB E (p_probe ids) aw = (Ok (probes_of (a_cl (aw_cur aw) (aw_cid aw)) ids), aw, t).
Proof.
  induction ids as [|i r IH].
  - exists []. reflexivity.
  - destruct IH as (t & Hl).
    change (p_probe (i :: r)) with
      (Do (EGetVersion i) (fun a => Do (EGetByParent i) (fun b => pbind (p_probe r) (fun l => Ret ((i, a, b) :: l))))).
    cbn [run_prog].
    change (b_eff AStoreB (option version) (EGetVersion i) aw) with
      (@Ok (option version) (match a_cl (aw_cur aw) (aw_cid aw) with Some x => by_id i (a_vers x) | None => None end), aw).
    cbv iota beta.
    change (b_eff AStoreB (option version) (EGetByParent i) aw) with
      (@Ok (option version) (match a_cl (aw_cur aw) (aw_cid aw) with Some x => by_parent i (a_vers x) | None => None end), aw).
    cbv iota beta.
    rewrite run_pbind_full, Hl. cbn. eexists. reflexivity.
Qed.

Definition dump_resp (oc : option cstate) (ids : list id) : resp :=
  RDump (mkDump (option_map client_of oc)
                (match oc with
                 | Some x => match a_snap x with Some (m, d) => Some (Ok (Some d)) | None => None end
                 | None => None
                 end)
                (probes_of oc ids)).

Lemma dump_full cfg a c ids E : a_ok a = true ->
  astep cfg a (ODump c ids) E = (dump_resp (a_cl a c) ids, a).
Proof.
  intros Hok. unfold astep, step. cbn [lib_handler fst snd dump_h run_hprog].
  change (b_end AStoreB) with a_end. change (b_begin AStoreB) with a_begin.
  cbn [run_prog]. change (b_eff AStoreB (option client) EGetClient (a_begin a c)) with
    (@Ok (option client) (option_map client_of (a_cl a c)), a_begin a c).
  cbv iota beta.
  assert (He : a_end (a_begin a c) = a) by (unfold a_end, a_begin; cbn; rewrite Hok; reflexivity).
  rewrite He. cbn [run_hprog]. change (b_end AStoreB) with a_end. change (b_begin AStoreB) with a_begin.
  destruct (run_probe_full E ids (a_begin a c)) as (t & Hl). rewrite Hl, He.
  change (a_cl (aw_cur (a_begin a c)) (aw_cid (a_begin a c))) with (a_cl a c).
  unfold dump_resp.
  destruct (a_cl a c) as [x|] eqn:Hc; cbn [option_map client_of c_snap].
  - destruct (a_snap x) as [[m d]|] eqn:Hs; cbn [option_map fst].
    + cbn. rewrite Hc, Hs. cbn. rewrite N.eqb_refl. cbn. rewrite Hok. reflexivity.
    + reflexivity.
  - reflexivity.
Qed.
