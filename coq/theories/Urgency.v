(* Urgency.v — SnapshotUrgency and its thresholds (core/src/server.rs 57-92, as repaired by
   the fix: commit 9237c81), with the machine arithmetic written out: every intermediate is
   range-checked against the integer type the Rust code computes it in; an out-of-range
   intermediate yields None (a debug build would panic, a release build would wrap). *)
From TSS Require Export Base.
From Coq Require Import Lia.
Open Scope Z_scope.

Inductive urgency := UNone | ULow | UHigh.

Definition urg_rank (u : urgency) : Z := match u with UNone => 0 | ULow => 1 | UHigh => 2 end.
Definition umax (a b : urgency) : urgency := if urg_rank a <? urg_rank b then b else a.
Definition urg_le (a b : urgency) : Prop := urg_rank a <= urg_rank b.

Record config := mkConfig { snapshot_days : Z (* i64 *); snapshot_versions : N (* u32 *) }.
Definition default_config := mkConfig 14 100.

Definition in_range (lo hi z : Z) : bool := (lo <=? z) && (z <? hi).
Definition in_i64 z := in_range (- 2 ^ 63) (2 ^ 63) z.
Definition in_i128 z := in_range (- 2 ^ 127) (2 ^ 127) z.
Definition in_u32 z := in_range 0 (2 ^ 32) z.
Definition in_u64 z := in_range 0 (2 ^ 64) z.

Definition checked (inr : Z -> bool) (z : Z) : option Z := if inr z then Some z else None.

(* days as i128 >= config.snapshot_days as i128 * 3 / 2  …  else days >= config.snapshot_days *)
Definition for_days_m (cfg : config) (days : Z) : option urgency :=
  match checked in_i128 (snapshot_days cfg * 3) with
  | None => None
  | Some t3 =>
      let high := Z.quot t3 2 in             (* Rust `/` truncates toward zero *)
      Some (if high <=? days then UHigh else if snapshot_days cfg <=? days then ULow else UNone)
  end.

(* versions_since as u64 >= config.snapshot_versions as u64 * 3 / 2 … *)
Definition for_versions_m (cfg : config) (since : N) : option urgency :=
  match checked in_u64 (Z.of_N (snapshot_versions cfg) * 3) with
  | None => None
  | Some t3 =>
      let high := Z.quot t3 2 in
      Some (if high <=? Z.of_N since then UHigh
            else if Z.of_N (snapshot_versions cfg) <=? Z.of_N since then ULow else UNone)
  end.

(* the same without range checks: what the code means over unbounded integers *)
Definition for_days (cfg : config) (days : Z) : urgency :=
  if Z.quot (snapshot_days cfg * 3) 2 <=? days then UHigh
  else if snapshot_days cfg <=? days then ULow else UNone.
Definition for_versions (cfg : config) (since : N) : urgency :=
  if Z.quot (Z.of_N (snapshot_versions cfg) * 3) 2 <=? Z.of_N since then UHigh
  else if Z.of_N (snapshot_versions cfg) <=? Z.of_N since then ULow else UNone.

(* (Utc::now() - timestamp).num_days(): whole days, truncated toward zero *)
Definition num_days (now ts : Z) : Z := Z.quot (now - ts) 86400.

(* urgency reported with an accepted version, from the client record read BEFORE the append *)
Definition urgency_of (cfg : config) (snap : option snapmeta) (now : Z) : option urgency :=
  match snap with
  | None => Some UHigh
  | Some sm =>
      match for_days_m cfg (num_days now (sm_time sm)), for_versions_m cfg (sm_since sm) with
      | Some a, Some b => Some (umax a b)
      | _, _ => None
      end
  end.

(* ---- the arithmetic of the pinned tree a6bc6ed (kept for finding F1) ---- *)
Definition wrap_u32 (z : Z) : Z := z mod 2 ^ 32.
Definition for_versions_pinned_release (cfg : config) (since : N) : urgency :=
  if Z.quot (wrap_u32 (Z.of_N (snapshot_versions cfg) * 3)) 2 <=? Z.of_N since then UHigh
  else if Z.of_N (snapshot_versions cfg) <=? Z.of_N since then ULow else UNone.
Definition for_versions_pinned_debug (cfg : config) (since : N) : option urgency :=
  match checked in_u32 (Z.of_N (snapshot_versions cfg) * 3) with
  | None => None
  | Some t3 => Some (if Z.quot t3 2 <=? Z.of_N since then UHigh
                     else if Z.of_N (snapshot_versions cfg) <=? Z.of_N since then ULow else UNone)
  end.
