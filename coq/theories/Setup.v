(* Setup.v — what `SqliteStorage::new` (sqlite/src/lib.rs 47-77) does to a data directory, step by
   step, and what a start that dies between two steps leaves behind.  The directory is described
   by which of its parts exist; the rows of the tables are not touched by any of these steps
   (`Sqlite.sq_reopen` is the identity on them).  Each step is its own commit: create_dir_all, the
   open that creates the database file, `PRAGMA journal_mode=WAL`, and three `CREATE … IF NOT EXISTS`
   statements.  Every step is idempotent and none undoes another, so running `new` again on WHATEVER a
   dead start left — including an empty database file — completes the set-up. *)
From Coq Require Import List Bool Arith Lia.
Import ListNotations.

Record ddir := mkDdir {
  d_dir : bool;          (* the directory exists *)
  d_file : bool;         (* taskchampion-sync-server.sqlite3 exists (possibly empty) *)
  d_wal : bool;          (* the database header says journal_mode = WAL *)
  d_clients : bool;      (* table clients *)
  d_versions : bool;     (* table versions *)
  d_index : bool;        (* index versions_by_parent *)
}.
Definition d_none := mkDdir false false false false false false.

Inductive sstep := SMkdir | SOpen | SWal | SClients | SVersions | SIndex.
Definition new_steps : list sstep := [SMkdir; SOpen; SWal; SClients; SVersions; SIndex].

Definition do_step (d : ddir) (s : sstep) : ddir :=
  match s with
  | SMkdir => mkDdir true (d_file d) (d_wal d) (d_clients d) (d_versions d) (d_index d)
  | SOpen => mkDdir (d_dir d) true (d_wal d) (d_clients d) (d_versions d) (d_index d)
  | SWal => mkDdir (d_dir d) (d_file d) true (d_clients d) (d_versions d) (d_index d)
  | SClients => mkDdir (d_dir d) (d_file d) (d_wal d) true (d_versions d) (d_index d)
  | SVersions => mkDdir (d_dir d) (d_file d) (d_wal d) (d_clients d) true (d_index d)
  | SIndex => mkDdir (d_dir d) (d_file d) (d_wal d) (d_clients d) (d_versions d) true
  end.
Definition run_steps (d : ddir) (l : list sstep) : ddir := fold_left do_step l d.
(* SqliteStorage::new *)
Definition storage_new (d : ddir) : ddir := run_steps d new_steps.
(* a start that dies after k of the steps *)
Definition dead_start (d : ddir) (k : nat) : ddir := run_steps d (firstn k new_steps).

(* every statement the transactions issue finds what it names *)
Definition ready (d : ddir) : bool :=
  d_dir d && d_file d && d_wal d && d_clients d && d_versions d && d_index d.
