(* ServerProg.v — the four protocol operations of core/src/server.rs, written once as
   programs over the storage effects, line by line after the Rust source. *)
From TSS Require Export Eff Urgency.
Open Scope N_scope.

Inductive gcv_result := GFound (v : version) | GNotFound | GGone.
Inductive av_result := AVOk (v : id) | AVConflict (latest : id).

(* core/src/server.rs 109-142 *)
Definition p_get_child_version (p : id) : prog gcv_result :=
  Do EGetClient (fun oc =>
  match oc with
  | None => Throw ENoSuchClient
  | Some cl =>
      Do (EGetByParent p) (fun ov =>
      match ov with
      | Some v => Ret (GFound v)
      | None =>
          Ret (if N.eqb (c_latest cl) p || N.eqb (c_latest cl) nil_id
               then GNotFound else GGone)
      end)
  end).

(* core/src/server.rs 145-194.  None as urgency = the urgency arithmetic left its type. *)
Definition p_add_version (cfg : config) (p : id) (d : payload)
  : prog (av_result * option urgency) :=
  Do EGetClient (fun oc =>
  match oc with
  | None => Throw ENoSuchClient
  | Some cl =>
      if negb (N.eqb (c_latest cl) nil_id) && negb (N.eqb p (c_latest cl))
      then Ret (AVConflict (c_latest cl), Some UNone)
      else
        Fresh (fun vid =>
        Do (EAddVersion vid p d) (fun _ =>
        Do ECommit (fun _ =>
        match c_snap cl with
        | None => Ret (AVOk vid, Some UHigh)
        | Some _ => Now (fun now => Ret (AVOk vid, urgency_of cfg (c_snap cl) now))
        end)))
  end).

(* the `loop` of add_snapshot (core/src/server.rs 219-250); n = search_len before the
   decrement; true = "proceed", false = one of the three `return Ok(())` exits *)
Fixpoint snap_search (n : nat) (v : id) (last : option id) (vid : id) : prog bool :=
  if N.eqb vid v && negb (N.eqb v nil_id) then Ret true
  else if oid_eqb (Some vid) last then Ret false
  else
    match n with
    | O => Ret false
    | S n' =>
        if Nat.eqb n' 0 || N.eqb vid nil_id then Ret false
        else Do (EGetVersion vid) (fun ov =>
             match ov with
             | Some ver => snap_search n' v last (v_parent ver)
             | None => Ret false
             end)
    end.

Definition SNAPSHOT_SEARCH_LEN : nat := 5.

(* sequencing of programs *)
Fixpoint pbind {A B} (p : prog A) (f : A -> prog B) : prog B :=
  match p with
  | Ret a => f a
  | Throw e => Throw e
  | Do e k => Do e (fun x => pbind (k x) f)
  | Fresh k => Fresh (fun x => pbind (k x) f)
  | Now k => Now (fun x => pbind (k x) f)
  end.

(* core/src/server.rs 197-263 *)
Definition p_add_snapshot (v : id) (d : payload) : prog unit :=
  Do EGetClient (fun oc =>
  match oc with
  | None => Throw ENoSuchClient
  | Some cl =>
      let last := option_map sm_version (c_snap cl) in
      if oid_eqb (Some v) last then Ret tt
      else
        pbind (snap_search SNAPSHOT_SEARCH_LEN v last (c_latest cl)) (fun found =>
        if found : bool then
          Now (fun now =>
          Do (ESetSnapshot (mkSnap v now 0) d) (fun _ =>
          Do ECommit (fun _ => Ret tt)))
        else Ret tt)
  end).

(* core/src/server.rs 266-279 *)
Definition p_get_snapshot : prog (option (id * payload)) :=
  Do EGetClient (fun oc =>
  match oc with
  | None => Throw ENoSuchClient
  | Some cl =>
      match c_snap cl with
      | Some sm =>
          Do (EGetSnapshotData (sm_version sm)) (fun od =>
          Ret (option_map (fun d => (sm_version sm, d)) od))
      | None => Ret None
      end
  end).
