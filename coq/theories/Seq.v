(* Seq.v — library-level operations as handlers, and the sequential run of a history on a
   backend.  This is the executable that is extracted and run against the implementation. *)
From TSS Require Export ServerProg InMem Sqlite.
Open Scope N_scope.

Definition probe := (id * option version * option version)%type.
Record dumpv := mkDump {
  dm_client : option client;
  dm_snapdata : option (res (option payload));   (* asked only when the client has a snapshot *)
  dm_probes : list probe;                        (* get_version i, get_version_by_parent i *)
}.

Inductive resp :=
| RAdded (v : id) (u : option urgency)
| RConflict (latest : id)
| RFound (v : version)
| RNotFound | RGone
| RSnapAck
| RSnap (v : id) (d : payload)
| RNoSnap
| RNoClient
| RError
| RUnit
| RDump (d : dumpv).

Inductive op :=
| OAddVersion (c p : id) (d : payload)
| OGetChild (c p : id)
| OAddSnapshot (c v : id) (d : payload)
| OGetSnapshot (c : id)
| OEnsure (c : id)                 (* the add-version handler's create-if-absent transaction *)
| OBackdate (c : id) (secs : Z)    (* harness step: rewrite the snapshot time via set_snapshot *)
| OSetCounter (c : id) (n : N)     (* harness step: rewrite versions_since via set_snapshot *)
| OReopen                          (* SqliteStorage dropped and re-created on the same dir *)
| ODump (c : id) (ids : list id).

Definition op_client (o : op) : option id :=
  match o with
  | OAddVersion c _ _ | OGetChild c _ | OAddSnapshot c _ _ | OGetSnapshot c | OEnsure c
  | OBackdate c _ | OSetCounter c _ | ODump c _ => Some c
  | OReopen => None
  end.

Definition err_resp (e : err) : resp := match e with ENoSuchClient => RNoClient | _ => RError end.

Definition p_ensure : prog unit :=
  Do EGetClient (fun oc =>
  match oc with
  | Some _ => Ret tt
  | None => Do (ENewClient nil_id) (fun _ => Do ECommit (fun _ => Ret tt))
  end).

Definition p_rewrite_snapshot (f : snapmeta -> snapmeta) : prog unit :=
  Do EGetClient (fun oc =>
  match oc with
  | None => Throw ENoSuchClient
  | Some cl =>
      match c_snap cl with
      | None => Ret tt
      | Some sm =>
          Do (EGetSnapshotData (sm_version sm)) (fun od =>
          match od with
          | None => Ret tt
          | Some d => Do (ESetSnapshot (f sm) d) (fun _ => Do ECommit (fun _ => Ret tt))
          end)
      end
  end).

Fixpoint p_probe (ids : list id) : prog (list probe) :=
  match ids with
  | [] => Ret []
  | i :: r =>
      Do (EGetVersion i) (fun a =>
      Do (EGetByParent i) (fun b =>
      pbind (p_probe r) (fun l => Ret ((i, a, b) :: l))))
  end.

(* a dump never fails as a whole: a failing get_snapshot_data is part of the observation *)
Definition dump_h (c : id) (ids : list id) : hprog resp :=
  HTxn c (Do EGetClient (fun oc => Ret oc)) (fun r1 =>
  match r1 with
  | Err _ => HRet RError
  | Ok oc =>
      let sv := match oc with Some cl => option_map sm_version (c_snap cl) | None => None end in
      HTxn c (p_probe ids) (fun r3 =>
      match r3 with
      | Err _ => HRet RError
      | Ok pr =>
          match sv with
          | None => HRet (RDump (mkDump oc None pr))
          | Some v =>
              HTxn c (Do (EGetSnapshotData v) (fun od => Ret od)) (fun r2 =>
              HRet (RDump (mkDump oc (Some r2) pr)))
          end
      end)
  end).

Definition lib_handler (cfg : config) (o : op) : hprog resp :=
  match o with
  | OAddVersion c p d =>
      HTxn c (p_add_version cfg p d) (fun r =>
      HRet match r with
           | Ok (AVOk v, u) => RAdded v u
           | Ok (AVConflict l, _) => RConflict l
           | Err e => err_resp e
           end)
  | OGetChild c p =>
      HTxn c (p_get_child_version p) (fun r =>
      HRet match r with
           | Ok (GFound v) => RFound v
           | Ok GNotFound => RNotFound
           | Ok GGone => RGone
           | Err e => err_resp e
           end)
  | OAddSnapshot c v d =>
      HTxn c (p_add_snapshot v d) (fun r =>
      HRet match r with Ok _ => RSnapAck | Err e => err_resp e end)
  | OGetSnapshot c =>
      HTxn c p_get_snapshot (fun r =>
      HRet match r with
           | Ok (Some (v, d)) => RSnap v d
           | Ok None => RNoSnap
           | Err e => err_resp e
           end)
  | OEnsure c =>
      HTxn c p_ensure (fun r => HRet match r with Ok _ => RUnit | Err e => err_resp e end)
  | OBackdate c secs =>
      HTxn c (p_rewrite_snapshot (fun sm => mkSnap (sm_version sm) (sm_time sm - secs) (sm_since sm)))
           (fun r => HRet match r with Ok _ => RUnit | Err e => err_resp e end)
  | OSetCounter c n =>
      HTxn c (p_rewrite_snapshot (fun sm => mkSnap (sm_version sm) (sm_time sm) n))
           (fun r => HRet match r with Ok _ => RUnit | Err e => err_resp e end)
  | OReopen => HRet RUnit
  | ODump c ids => dump_h c ids
  end.

Section Hist.
  Variable B : backend.
  Variable cfg : config.

  Definition step (s : b_st B) (oe : op * env) : resp * b_st B * list label :=
    run_hprog B (snd oe) (lib_handler cfg (fst oe)) s.

  (* responses (oldest first) and final state *)
  Fixpoint run_hist (s : b_st B) (h : list (op * env)) : list resp * b_st B :=
    match h with
    | [] => ([], s)
    | oe :: r =>
        let '(a, s', _) := step s oe in
        let '(l, s'') := run_hist s' r in
        (a :: l, s'')
    end.
End Hist.
