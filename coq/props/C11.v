(* C11 — GetSnapshot returns the latest accepted snapshot, which is always a usable base. *)
From TSS Require Import AStore Seq Http proofs.Chain proofs.Inv proofs.Agree proofs.Hist proofs.Cas proofs.Snapshot proofs.UrgencyArith proofs.HttpProps proofs.HttpReach proofs.HttpLib proofs.HttpLib2.
Open Scope N_scope.

(* ghost_snapshot recomputes, from requests and responses only, the most recent AddSnapshot
   upload that the acceptance rule (C10) accepts; GetSnapshot returns exactly its id and bytes
   — both from that one upload — or not-found if there is none *)
Theorem C11_get_snapshot_latest : forall k cfg h c, oracle_ok h ->
  exists r, responses k cfg (h ++ [(OGetSnapshot c, noenv)]) = responses k cfg h ++ [r] /\
  match ghost_snapshot c h (responses k cfg h) [] None with
  | Some (v, d) => r = RSnap v d
  | None => r = RNoSnap \/ r = RNoClient
  end.
Proof. exact get_snapshot_latest. Qed.

(* the returned id is a valid starting point: following child versions from it yields the
   rest of the chain (post) and ends not-found at the latest, never gone *)
Theorem C11_snapshot_usable_base : forall k cfg h c v d, oracle_ok h ->
  responses k cfg (h ++ [(OGetSnapshot c, noenv)]) = responses k cfg h ++ [RSnap v d] ->
  let acc := accepted c h (responses k cfg h) in
  exists pre post, acc = pre ++ post /\ last_id pre (base_of acc) = v /\ v <> nil_id /\
    responses k cfg (h ++ gcv_ops c (v :: ids_of post)) = responses k cfg h ++ map RFound post ++ [RNotFound].
Proof. exact snapshot_usable_base. Qed.

(* as HTTP clients see it: after ANY HTTP history (any routes, methods, bodies, clients, refusals),
   GET /v1/client/snapshot of a listed client answers 200 with X-Version-Id and the snapshot content
   type carrying exactly the id and the bytes of the most recently ACCEPTED upload (both from that one
   upload), or 404 when there is none — ghost_snapshot recomputes that upload from the library view of
   the HTTP history (C14) by the rule of C10 *)
Theorem C11_http_get_snapshot_latest : forall k cfg allow h c E,
  cfg_ok cfg -> client_id_header allow (COk c) = inl c ->
  let gs := mkReq MGet PSnapshot (COk c) CTAbsent [] in
  horacle_ok (h ++ [(gs, E)]) ->
  exists r, hresponses k cfg allow (h ++ [(gs, E)]) = hresponses k cfg allow h ++ [r] /\
    match ghost_snapshot c (lib_of allow h) (responses k cfg (lib_of allow h)) [] None with
    | Some (v, d) => r = mkResp 200 (Some v) None None (Some RTSnapshot) d true
    | None => r = mkResp 404 None None None None [] true
    end.
Proof. exact http_get_snapshot_latest. Qed.
