(* C11 — GetSnapshot returns the latest accepted snapshot, which is always a usable base. *)
From TSS Require Import AStore Seq Http proofs.Chain proofs.Steps proofs.Inv proofs.Agree proofs.Hist proofs.Cas proofs.Snapshot proofs.UrgencyArith proofs.HttpProps proofs.HttpReach proofs.HttpLib proofs.HttpLib2 proofs.SnapPair proofs.HttpPair.
Open Scope N_scope.

(* ghost_snapshot recomputes, from requests and responses only, the most recent AddSnapshot
   upload that the acceptance rule (C10) accepts; GetSnapshot returns exactly its id and bytes
   — both from that one upload — or not-found if there is none *)
Theorem C11_get_snapshot_latest : forall k cfg h c, oracle_ok h ->
  exists r, responses k cfg (h ++ [(OGetSnapshot c, noenv)]) = responses k cfg h ++ [r] /\
  match ghost_snapshot c h (responses k cfg h) [] None with
  | Some (v, d) => r = RSnap v d
  | None => r = RNoSnap \/ r = RNoClient
  end.
Proof. exact get_snapshot_latest. Qed.

(* the returned id is a valid starting point: following child versions from it yields the
   rest of the chain (post) and ends not-found at the latest, never gone *)
Theorem C11_snapshot_usable_base : forall k cfg h c v d, oracle_ok h ->
  responses k cfg (h ++ [(OGetSnapshot c, noenv)]) = responses k cfg h ++ [RSnap v d] ->
  let acc := accepted c h (responses k cfg h) in
  exists pre post, acc = pre ++ post /\ last_id pre (base_of acc) = v /\ v <> nil_id /\
    responses k cfg (h ++ gcv_ops c (v :: ids_of post)) = responses k cfg h ++ map RFound post ++ [RNotFound].
Proof. exact snapshot_usable_base. Qed.

(* as HTTP clients see it: after ANY HTTP history (any routes, methods, bodies, clients, refusals),
   GET /v1/client/snapshot of a listed client answers 200 with X-Version-Id and the snapshot content
   type carrying exactly the id and the bytes of the most recently ACCEPTED upload (both from that one
   upload), or 404 when there is none — ghost_snapshot recomputes that upload from the library view of
   the HTTP history (C14) by the rule of C10 *)
Theorem C11_http_get_snapshot_latest : forall k cfg allow h c E,
  cfg_ok cfg -> client_id_header allow (COk c) = inl c ->
  let gs := mkReq MGet PSnapshot (COk c) CTAbsent [] in
  horacle_ok (h ++ [(gs, E)]) ->
  exists r, hresponses k cfg allow (h ++ [(gs, E)]) = hresponses k cfg allow h ++ [r] /\
    match ghost_snapshot c (lib_of allow h) (responses k cfg (lib_of allow h)) [] None with
    | Some (v, d) => r = mkResp 200 (Some v) None None (Some RTSnapshot) d true
    | None => r = mkResp 404 None None None None [] true
    end.
Proof. exact http_get_snapshot_latest. Qed.

(* two uploads for two different recent versions of one client, in flight together: in whichever order
   they are handled (on every backend, after any history), GetSnapshot afterwards returns the id and the
   bytes of the upload for the NEWER version — premise: the newer one is acceptable by the rule of C10
   on the state before both, and vn comes before vo among the five most recent versions *)
Theorem C11_two_uploads_newer_wins : forall k cfg h c vn vo dn dold En Eo pre mid post, oracle_ok h ->
  let acc := accepted c h (responses k cfg h) in
  five_most_recent acc = pre ++ vn :: mid ++ vo :: post ->
  forall rs, responses k cfg (h ++ [(OGetSnapshot c, noenv)]) = responses k cfg h ++ [rs] ->
  accept_rule acc (snap_of rs) vn ->
  exists r1 r2 r3 r4,
    responses k cfg (h ++ [(OAddSnapshot c vo dold, Eo); (OAddSnapshot c vn dn, En); (OGetSnapshot c, noenv)])
      = responses k cfg h ++ [r1; r2; RSnap vn dn] /\
    responses k cfg (h ++ [(OAddSnapshot c vn dn, En); (OAddSnapshot c vo dold, Eo); (OGetSnapshot c, noenv)])
      = responses k cfg h ++ [r3; r4; RSnap vn dn].
Proof. exact snapshot_pair_hist. Qed.

(* … and the two orders leave the same store (client by client) *)
Theorem C11_two_uploads_commute : forall cfg U a c x vn vo dn dold En Eo,
  Inv U a -> a_cl a c = Some x -> newer_in_window x vn vo -> as_accepts x vn = true ->
  let a_on := snd (astep cfg (snd (astep cfg a (OAddSnapshot c vo dold) Eo)) (OAddSnapshot c vn dn) En) in
  let a_no := snd (astep cfg (snd (astep cfg a (OAddSnapshot c vn dn) En)) (OAddSnapshot c vo dold) Eo) in
  same_store a_on a_no /\
  a_cl a_no c = Some (with_snap x vn (e_now En) dn) /\
  a_ok a_no = true /\
  fst (astep cfg a_no (OGetSnapshot c) En) = RSnap vn dn.
Proof. exact snapshot_pair_newer_wins. Qed.

Example C11_two_uploads_nonvacuous :
  let vs := [mkVersion 11 0 [1%N]; mkVersion 12 11 [2%N]; mkVersion 13 12 [3%N]] in
  let x := mkCS 13 None vs in
  newer_in_window x 13 12 /\ as_accepts x 13 = true /\ as_accepts x 12 = true.
Proof. exact snapshot_pair_nonvacuous. Qed.

(* the same over HTTP: after ANY HTTP history, two add-snapshot requests of one listed client for two of its five
   most recent versions (the newer acceptable by the rule of C10), in EITHER order, are followed by a
   get-snapshot answering 200 with the id and exactly the bytes of the upload for the newer version *)
Theorem C11_http_two_uploads_newer_wins : forall k cfg allow h c vn vo csn cso E0 E1 E2 E3 E4 E5 E6 pre mid post,
  cfg_ok cfg -> client_id_header allow (COk c) = inl c -> body_refused csn = false -> body_refused cso = false ->
  horacle_ok (h ++ [(gs_req c, E0)]) ->
  horacle_ok (h ++ [(as_req c vo cso, E1); (as_req c vn csn, E2); (gs_req c, E3)]) ->
  horacle_ok (h ++ [(as_req c vn csn, E4); (as_req c vo cso, E5); (gs_req c, E6)]) ->
  let acc := accepted c (lib_of allow h) (responses k cfg (lib_of allow h)) in
  five_most_recent acc = pre ++ vn :: mid ++ vo :: post ->
  forall rs, hresponses k cfg allow (h ++ [(gs_req c, E0)]) = hresponses k cfg allow h ++ [rs] ->
  accept_rule acc (hsnap_of rs) vn ->
  exists r1 r2 r3 r4,
    hresponses k cfg allow (h ++ [(as_req c vo cso, E1); (as_req c vn csn, E2); (gs_req c, E3)])
      = hresponses k cfg allow h ++ [r1; r2; mkResp 200 (Some vn) None None (Some RTSnapshot) (body_of csn) true] /\
    hresponses k cfg allow (h ++ [(as_req c vn csn, E4); (as_req c vo cso, E5); (gs_req c, E6)])
      = hresponses k cfg allow h ++ [r3; r4; mkResp 200 (Some vn) None None (Some RTSnapshot) (body_of csn) true].
Proof. exact http_two_uploads_newer_wins. Qed.

(* a second upload for the version that already holds the snapshot (another replica answering the same request,
   other bytes) is acknowledged and changes nothing: GetSnapshot keeps returning the bytes of the upload that
   created the snapshot — after any history, on every backend, wherever the version sits in the chain *)
Theorem C11_reupload_keeps_snapshot : forall k cfg h c v d d2 E, oracle_ok h ->
  responses k cfg (h ++ [(OGetSnapshot c, noenv)]) = responses k cfg h ++ [RSnap v d] ->
  responses k cfg (h ++ [(OAddSnapshot c v d2, E); (OGetSnapshot c, noenv)]) = responses k cfg h ++ [RSnapAck; RSnap v d].
Proof. exact reupload_keeps_snapshot. Qed.
