(* C11 — GetSnapshot returns the latest accepted snapshot, which is always a usable base. *)
From TSS Require Import AStore Seq proofs.Chain proofs.Inv proofs.Agree proofs.Hist proofs.Cas proofs.Snapshot.
Open Scope N_scope.

(* ghost_snapshot recomputes, from requests and responses only, the most recent AddSnapshot
   upload that the acceptance rule (C10) accepts; GetSnapshot returns exactly its id and bytes
   — both from that one upload — or not-found if there is none *)
Theorem C11_get_snapshot_latest : forall k cfg h c, oracle_ok h ->
  exists r, responses k cfg (h ++ [(OGetSnapshot c, noenv)]) = responses k cfg h ++ [r] /\
  match ghost_snapshot c h (responses k cfg h) [] None with
  | Some (v, d) => r = RSnap v d
  | None => r = RNoSnap \/ r = RNoClient
  end.
Proof. exact get_snapshot_latest. Qed.

(* the returned id is a valid starting point: following child versions from it yields the
   rest of the chain (post) and ends not-found at the latest, never gone *)
Theorem C11_snapshot_usable_base : forall k cfg h c v d, oracle_ok h ->
  responses k cfg (h ++ [(OGetSnapshot c, noenv)]) = responses k cfg h ++ [RSnap v d] ->
  let acc := accepted c h (responses k cfg h) in
  exists pre post, acc = pre ++ post /\ last_id pre (base_of acc) = v /\ v <> nil_id /\
    responses k cfg (h ++ gcv_ops c (v :: ids_of post)) = responses k cfg h ++ map RFound post ++ [RNotFound].
Proof. exact snapshot_usable_base. Qed.
