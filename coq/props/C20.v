(* C20 — every response forbids caching.  Thin by nature: in the model the default-headers
   wrapper encloses the whole routing function (as `.wrap(DefaultHeaders…)` encloses the scope in
   server/src/lib.rs), so the statement holds for every backend, store, request and outcome —
   router 404s, refusals and storage-error 500s included.  That actix applies the wrapper to
   every response of the scope is established by the correspondence run, not here. *)
From TSS Require Import Http proofs.HttpProps proofs.HttpReach proofs.HttpLib2.

Theorem C20_cache_control_everywhere : forall B cfg allow s rq E,
  rs_cache (fst (fst (http_step B cfg allow s (rq, E)))) = true.
Proof. exact cache_control_everywhere. Qed.

(* for whole histories: every response of every HTTP history, from any store, on any backend *)
Theorem C20_cache_control_history : forall B cfg allow h s,
  Forall (fun r => rs_cache r = true) (fst (hrun B cfg allow s h)).
Proof. exact cache_control_history. Qed.
