(* C19 — databases written by the pinned release stay readable after an upgrade.  The on-disk
   half (SQLite file format, WAL recovery, the pinned tree's actual bytes) is carried by the
   fixture run; what is proved here is the logic the fixtures rely on. *)
From TSS Require Import Seq proofs.Chain proofs.Inv proofs.Agree proofs.Hist proofs.Cas proofs.Pure proofs.Codec.
From Coq Require Import List NArith.
Import ListNotations.
Open Scope N_scope.

(* ids are stored as hyphenated lower-case text; reading back what was written yields the id
   (a uuid = its 32 nibbles), and distinct ids have distinct text *)
Theorem C19_uuid_text_roundtrip : forall u, length u = 32%nat -> Forall (fun n => n < 16) u ->
  parse_uuid (print_uuid u) = Some u.
Proof. exact uuid_text_roundtrip. Qed.
Theorem C19_uuid_text_injective : forall u v, length u = 32%nat -> length v = 32%nat ->
  Forall (fun n => n < 16) u -> Forall (fun n => n < 16) v -> print_uuid u = print_uuid v -> u = v.
Proof. exact uuid_text_injective. Qed.

(* opening an existing database (schema statements are IF NOT EXISTS; no migration step) serves
   exactly the history it contained: removing the Reopen steps from any history changes no
   other response *)
Theorem C19_open_serves_same_history : forall k cfg h,
  responses k cfg (filter (fun oe => not_reopen (fst oe)) h) =
  map snd (filter (fun x => not_reopen (fst (fst x))) (combine h (responses k cfg h))).
Proof. exact reopen_noop. Qed.

(* new versions can be appended to every existing chain: after ANY history (reopen points
   included) an AddVersion on the latest accepted version of a client is accepted *)
Theorem C19_append_after_load : forall k cfg h c d E,
  oracle_ok (h ++ [(OAddVersion c (latest_of (accepted c h (responses k cfg h))) d, E)]) ->
  accepted c h (responses k cfg h) <> [] ->
  exists u, responses k cfg (h ++ [(OAddVersion c (latest_of (accepted c h (responses k cfg h))) d, E)]) =
            responses k cfg h ++ [RAdded (e_fresh E) u].
Proof.
  intros k cfg h c d E Hor Hne.
  destruct (add_version_cas k cfg h c _ d E Hor) as (r & Hr & Hcases). rewrite Hr.
  destruct Hcases as [Hnc|[[_ [u ->]]|[Hn _]]].
  - (* the client exists: it has accepted versions *)
    exfalso. subst r.
    assert (Hor1 : oracle_ok h) by (apply oracle_ok_from_app in Hor; tauto).
    pose proof (stored_is_accepted cfg h c Hor1) as Hst. rewrite <- (responses_agree k cfg h Hor1) in Hst.
    rewrite (last_step k cfg h _ E Hor) in Hr. apply app_inv_head in Hr. inversion Hr as [Hr'].
    pose proof (reachable_inv cfg h Hor1) as (Hok & _).
    unfold RefineInMem.vers_a in Hst. 
    destruct (AStore.a_cl (snd (Refine.arun cfg AStore.a_empty h)) c) as [x|] eqn:Hc.
    + destruct (Steps.av_accepts x (latest_of (accepted c h (responses k cfg h)))) eqn:Ha.
      * (* accepted or conflict, never NoSuchClient when the client exists *)
        pose proof (reachable_inv cfg h Hor1) as HI.
        apply oracle_ok_from_app in Hor. destruct Hor as [_ [Hf _]].
        rewrite (Steps.av_accept cfg _ c x _ d E Hok Hc Ha (fresh_mem_false _ _ _ _ HI Hf)
                   (cinv_no_child_of_target _ x _ (proj1 (proj2 HI) c x Hc) Ha)) in Hr'. discriminate.
      * rewrite (Steps.av_conflict cfg _ c x _ d E Hok Hc Ha) in Hr'. discriminate.
    + apply Hne. symmetry. exact Hst.
  - eauto.
  - exfalso. apply Hn. right. reflexivity.
Qed.
