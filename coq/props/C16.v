(* C16 — the client-id allow-list is enforced on every endpoint. *)
From TSS Require Import Http proofs.HttpProps proofs.HttpReach proofs.HttpLib2.
Open Scope N_scope.

(* an otherwise valid request on any of the four endpoints carrying an unlisted id: exactly
   403, no storage call (empty effect trace), store literally unchanged — every backend, every
   store contents (so also a client owning data from before the list existed) *)
Theorem C16_unlisted_403_no_access : forall B cfg allow s rq E c,
  rq_cid rq = COk c -> listed allow c = false -> otherwise_valid rq ->
  http_step B cfg allow s (rq, E) = (default_headers (plain 403), s, []).
Proof. exact unlisted_403_no_access. Qed.

(* any request carrying an unlisted id, valid or not, never reaches storage (the only route
   that ignores the header is the index page, which has no storage access either) *)
Theorem C16_unlisted_never_reaches_storage : forall B cfg allow s rq E c,
  rq_cid rq = COk c -> listed allow c = false ->
  exists st, is_4xx st /\ http_step B cfg allow s (rq, E) = (default_headers (plain st), s, []) \/
             (rq_method rq = MGet /\ rq_path rq = PIndex).
Proof. exact unlisted_never_reaches_storage. Qed.

(* listed clients are served by the very same handler program as without a list; with no list
   every well-formed id is listed *)
Theorem C16_listed_transparent : forall cfg allow rq,
  (forall c, rq_cid rq = COk c -> listed allow c = true) ->
  http_handler cfg allow rq = http_handler cfg None rq.
Proof. exact listed_transparent. Qed.

Example C16_empty_list_refuses_everyone : forall c, listed (Some []) c = false.
Proof. reflexivity. Qed.
Example C16_no_list_serves_everyone : forall c, listed None c = true.
Proof. reflexivity. Qed.

(* at the level of whole histories, for ANY backend, ANY store contents and ANY HTTP history — no
   assumption on ids at all, this is an equality of programs: the responses to the requests that carry a
   listed client id (or no usable id) are exactly the responses of a server WITHOUT a list to which the
   requests of unlisted clients are never sent, and both servers end in the same store.  `hsel`
   picks the responses of the requests satisfying the predicate. *)
Theorem C16_allow_list_transparent : forall B cfg allow h s,
  let keep := fun re : hreq * env => match rq_cid (fst re) with COk c => listed allow c | _ => true end in
  hsel keep h (fst (hrun B cfg allow s h)) = fst (hrun B cfg None s (filter keep h)) /\
  snd (hrun B cfg allow s h) = snd (hrun B cfg None s (filter keep h)).
Proof. intros. apply allow_list_transparent. Qed.
Example C16_hsel_reading : forall f re h r rs,
  hsel f (re :: h) (r :: rs) = if f re then r :: hsel f h rs else hsel f h rs.
Proof. reflexivity. Qed.
