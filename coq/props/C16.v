(* C16 — the client-id allow-list is enforced on every endpoint. *)
From TSS Require Import Http proofs.HttpProps.
Open Scope N_scope.

(* an otherwise valid request on any of the four endpoints carrying an unlisted id: exactly
   403, no storage call (empty effect trace), store literally unchanged — every backend, every
   store contents (so also a client owning data from before the list existed) *)
Theorem C16_unlisted_403_no_access : forall B cfg allow s rq E c,
  rq_cid rq = COk c -> listed allow c = false -> otherwise_valid rq ->
  http_step B cfg allow s (rq, E) = (default_headers (plain 403), s, []).
Proof. exact unlisted_403_no_access. Qed.

(* any request carrying an unlisted id, valid or not, never reaches storage (the only route
   that ignores the header is the index page, which has no storage access either) *)
Theorem C16_unlisted_never_reaches_storage : forall B cfg allow s rq E c,
  rq_cid rq = COk c -> listed allow c = false ->
  exists st, is_4xx st /\ http_step B cfg allow s (rq, E) = (default_headers (plain st), s, []) \/
             (rq_method rq = MGet /\ rq_path rq = PIndex).
Proof. exact unlisted_never_reaches_storage. Qed.

(* listed clients are served by the very same handler program as without a list; with no list
   every well-formed id is listed *)
Theorem C16_listed_transparent : forall cfg allow rq,
  (forall c, rq_cid rq = COk c -> listed allow c = true) ->
  http_handler cfg allow rq = http_handler cfg None rq.
Proof. exact listed_transparent. Qed.

Example C16_empty_list_refuses_everyone : forall c, listed (Some []) c = false.
Proof. reflexivity. Qed.
Example C16_no_list_serves_everyone : forall c, listed None c = true.
Proof. reflexivity. Qed.
