(* C09 — clients are isolated from one another.
   project c h rs = the responses to client c's own requests within the history h;
   filter (keep c) h = client c's requests alone.  Id arguments are unrestricted: they may be
   other clients' version ids, snapshot versions or client ids. *)
From TSS Require Import Seq proofs.Inv proofs.Agree proofs.NonInterf.

Theorem C09_noninterference : forall k cfg h c, oracle_ok h ->
  project c h (responses k cfg h) = responses k cfg (filter (keep c) h).
Proof. exact noninterference. Qed.
