(* C09 — clients are isolated from one another.
   project c h rs = the responses to client c's own requests within the history h;
   filter (keep c) h = client c's requests alone.  Id arguments are unrestricted: they may be
   other clients' version ids, snapshot versions or client ids. *)
From TSS Require Import Seq Http proofs.Inv proofs.Agree proofs.NonInterf proofs.UrgencyArith proofs.HttpProps proofs.HttpReach proofs.HttpLib proofs.HttpLib2.
Open Scope N_scope.

Theorem C09_noninterference : forall k cfg h c, oracle_ok h ->
  project c h (responses k cfg h) = responses k cfg (filter (keep c) h).
Proof. exact noninterference. Qed.

(* as HTTP clients see it: within ANY HTTP history — other clients' requests, refused and malformed
   requests, requests without a usable client id interleaved anywhere, with or without an allow-list —
   the responses to the requests carrying client id c are exactly the responses those requests get
   when sent alone to a fresh server *)
Theorem C09_http_noninterference : forall k cfg allow h c, cfg_ok cfg -> horacle_ok h ->
  hproject c h (hresponses k cfg allow h) = hresponses k cfg allow (filter (hkeep c) h).
Proof. exact http_noninterference. Qed.
Example C09_hproject_reading : forall c rq E h r rs,
  hproject c ((rq, E) :: h) (r :: rs) =
  if (match rq_cid rq with COk c' => N.eqb c' c | _ => false end) then r :: hproject c h rs else hproject c h rs.
Proof. reflexivity. Qed.
