(* C17 — the server binary honours its command-line and environment configuration.  THIN: the
   statement about the model is close to definitional; its value is that the expected behaviour
   of the real executable is computed by the proven HTTP model under the configuration `boot`
   returns.  The property itself is carried by the run against the real process. *)
From TSS Require Import Boot.
Open Scope N_scope.

Theorem C17_wiring : forall b a, boot b = Some a ->
  (* every listen address given, flag occurrences appended, flag over environment *)
  sa_listen a = (match bi_listen_flag b with [] => match bi_listen_env b with Some l => l | None => [] end | fl => concat fl end) /\
  sa_listen a <> [] /\
  (* data directory: flag over environment over default *)
  sa_dir a = pick (bi_dir_flag b) (bi_dir_env b) 0 /\
  (* exactly the given allow-list; none given = no list *)
  sa_allow a = (match bi_allow_flag b with [] => bi_allow_env b | fl => Some (concat fl) end) /\
  (* snapshot targets: flag over environment over the defaults 14 / 100 *)
  snapshot_days (sa_cfg a) = pick (bi_days_flag b) (bi_days_env b) 14%Z /\
  snapshot_versions (sa_cfg a) = pick (bi_versions_flag b) (bi_versions_env b) 100.
Proof.
  intros b a H. unfold boot in H.
  destruct (match bi_listen_flag b with [] => match bi_listen_env b with Some l => l | None => [] end | fl => concat fl end) as [|x l] eqn:El; [discriminate|].
  inversion H; subst; cbn. repeat split; auto. discriminate.
Qed.

(* a restart on the same directory serves the same history: the store a request sees is the
   store the previous process left in that directory *)
Theorem C17_restart_same_directory : forall a stores rq E d,
  d <> sa_dir a -> snd (serve a stores rq E) d = stores d.
Proof.
  intros a stores rq E d Hd. unfold serve.
  destruct (http_step SqliteB (sa_cfg a) (sa_allow a) (stores (sa_dir a)) (rq, E)) as [[r t'] tr]. cbn.
  destruct (N.eqb_spec d (sa_dir a)); [contradiction|reflexivity].
Qed.

Example C17_flag_beats_env :
  option_map (fun a => (sa_listen a, snapshot_versions (sa_cfg a), sa_allow a))
    (boot (mkBootIn [[1; 2]; [3]] (Some [9]) None (Some 5) [] (Some [7]) (Some 3) (Some 8) None None))
  = Some ([1; 2; 3], 3, Some [7]).
Proof. reflexivity. Qed.
