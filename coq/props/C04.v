(* C04 — crashes lose no acknowledged data and leave no half-applied write.
   Logic half (this file): under the assumption that a SQLite COMMIT is atomic and durable, for
   every history, every crash point (every storage call of every request, a crash inside COMMIT
   having both outcomes).  The assumption itself — journal mode WAL with the default FULL
   synchronous setting, recovery replaying exactly the committed prefix — is what the
   crash-image run attacks on the real files. *)
From TSS Require Import Fault Sqlite Seq proofs.FaultProps proofs.Crash proofs.Inv proofs.Agree proofs.RefineSqlite.
Open Scope N_scope.

(* the database that survives a crash inside request j of a history is the database after
   exactly j or exactly j+1 requests: every acknowledged request (the first j) is present, the
   one in flight is completely applied or completely absent *)
Theorem C04_crash_prefix : forall cfg h j k after oe, nth_error h j = Some oe -> protocol_op (fst oe) = true ->
  crash_in_history cfg h j k after = snd (run_hist SqliteB cfg sq_empty (firstn j h)) \/
  crash_in_history cfg h j k after = snd (run_hist SqliteB cfg sq_empty (firstn (S j) h)).
Proof. exact crash_prefix. Qed.

(* a success acknowledgement exists only when the change is committed *)
Theorem C04_ack_after_commit : forall cfg t o E k after, protocol_op o = true ->
  is_error (fst (fst (fstep SqliteB cfg (crash_plan k after) t (o, E)))) = false ->
  crash_survivor cfg t (o, E) k after = snd (fst (step SqliteB cfg t (o, E))).
Proof. exact ack_after_commit. Qed.

(* HTTP entry: the survivor is the database at a transaction boundary of the request *)
Theorem C04_http_crash_boundary : forall cfg allow t rq E k after,
  In (snd (fst (http_fstep SqliteB cfg allow (crash_plan k after) t (rq, E))))
     (ff_states E (http_handler cfg allow rq) t).
Proof. exact http_crash_boundary. Qed.

(* the survivor is a state reached by a history of the protocol, so it satisfies the store
   invariant: every client's chain is consistent (C01) and its snapshot a usable base (C11) *)
Theorem C04_recovered_consistent : forall cfg h, oracle_ok h ->
  exists U, Inv U (snd (Refine.arun cfg AStore.a_empty h)) /\
            Rs_sq (snd (Refine.arun cfg AStore.a_empty h)) (snd (run_hist SqliteB cfg sq_empty h)).
Proof.
  intros cfg h Hor. exists (used_after [] h). split; [apply reachable_inv; exact Hor|apply final_related_sqlite; exact Hor].
Qed.

(* the start-up path: `SqliteStorage::new` is six steps, each its own commit.  From ANY state of the data
   directory — nothing there, a directory left by a start that died after any number of its steps (an
   empty database file, a database with one of the two tables, without the index, not yet in WAL mode),
   or one that died twice at different points — the next start completes the set-up; a completed set-up is
   left as it is by every later start; and no step ever removes what an earlier one created. *)
From TSS Require Import Setup.
Theorem C04_start_completes_any_interrupted_start : forall d, ready (storage_new d) = true.
Proof. intros [a b c e f g]. reflexivity. Qed.
Theorem C04_interrupted_starts_compose : forall d k1 k2,
  ready (storage_new (dead_start (dead_start d k1) k2)) = true /\
  storage_new (storage_new d) = storage_new d.
Proof. intros [a b c e f g] k1 k2. split; reflexivity. Qed.
Theorem C04_start_never_removes : forall d k,
  let d' := dead_start d k in
  (d_dir d = true -> d_dir d' = true) /\ (d_file d = true -> d_file d' = true) /\ (d_wal d = true -> d_wal d' = true) /\
  (d_clients d = true -> d_clients d' = true) /\ (d_versions d = true -> d_versions d' = true) /\ (d_index d = true -> d_index d' = true).
Proof.
  intros [a b c e f g] k. do 7 (destruct k as [|k]; [cbn; tauto|]). cbn. tauto.
Qed.
Example C04_dead_start_nonvacuous :
  ready (dead_start d_none 2) = false /\ d_file (dead_start d_none 2) = true /\ d_clients (dead_start d_none 4) = true /\
  d_versions (dead_start d_none 4) = false /\ ready (dead_start d_none 6) = true.
Proof. repeat split. Qed.
