(* C06 — version and snapshot payloads are returned byte-for-byte as uploaded. *)
From TSS Require Import AStore Http proofs.Steps proofs.Chain proofs.Inv proofs.Agree proofs.Hist proofs.Snapshot proofs.HttpProps proofs.HttpReach.
Open Scope N_scope.

(* (1) however the upload was split into chunks, the handler does the very same thing *)
Theorem C06_chunking_irrelevant : forall cfg allow m p cid ct cs cs',
  Forall wf_chunk cs -> Forall wf_chunk cs' -> body_of cs = body_of cs' ->
  http_handler cfg allow (mkReq m p cid ct cs) = http_handler cfg allow (mkReq m p cid ct cs').
Proof. exact chunking_irrelevant. Qed.

(* (2) what reaches the library is exactly the concatenation of the chunks in arrival order,
   for every body size from one byte up to the limit *)
Theorem C06_add_version_body_is_concat : forall cfg allow p c cs,
  Forall wf_chunk cs -> client_id_header allow (COk c) = inl c ->
  let n := N.of_nat (length (body_of cs)) in
  route cfg allow (mkReq MPost (PAddVersion (IdOk p)) (COk c) CTHistory cs) =
  if N.ltb MAX_SIZE n || N.eqb n 0 then HRet (plain 400) else av_loop AV_FUEL cfg c p (body_of cs).
Proof. exact add_version_body. Qed.
Theorem C06_add_snapshot_body_is_concat : forall cfg allow v c cs,
  Forall wf_chunk cs -> client_id_header allow (COk c) = inl c ->
  let n := N.of_nat (length (body_of cs)) in
  route cfg allow (mkReq MPost (PAddSnapshot (IdOk v)) (COk c) CTSnapshot cs) =
  if N.ltb MAX_SIZE n || N.eqb n 0 then HRet (plain 400)
  else HTxn c (p_add_snapshot v (body_of cs)) (fun r =>
       HRet match r with Ok _ => plain 200 | Err ENoSuchClient => plain 404 | Err _ => plain 500 end).
Proof. exact add_snapshot_body. Qed.

(* (3) the store keeps and returns exactly what it was given, with the matching ids: after any
   history on either backend, re-reading an accepted version returns the payload of the request
   that created it (accepted records the request's own p and d) ... *)
Theorem C06_version_roundtrip : forall k cfg h1 h2 c ver, oracle_ok (h1 ++ h2) ->
  In ver (accepted c h1 (responses k cfg h1)) ->
  responses k cfg (h1 ++ h2 ++ [(OGetChild c (v_parent ver), noenv)]) =
  responses k cfg (h1 ++ h2) ++ [RFound ver].
Proof. exact history_immutable_k. Qed.
(* ... and GetSnapshot returns id and bytes of one and the same accepted upload *)
Theorem C06_snapshot_roundtrip : forall k cfg h c, oracle_ok h ->
  exists r, responses k cfg (h ++ [(OGetSnapshot c, noenv)]) = responses k cfg h ++ [r] /\
  match ghost_snapshot c h (responses k cfg h) [] None with
  | Some (v, d) => r = RSnap v d
  | None => r = RNoSnap \/ r = RNoClient
  end.
Proof. exact get_snapshot_latest. Qed.
(* (4) the HTTP response carries that payload as its body together with both ids (C14) *)
Theorem C06_found_body : forall v,
  rs_body (encode (RFound v)) = v_data v /\ rs_version_id (encode (RFound v)) = Some (v_id v) /\
  rs_parent_id (encode (RFound v)) = Some (v_parent v).
Proof. intros v. repeat split. Qed.
Theorem C06_snapshot_body : forall v d,
  rs_body (encode (RSnap v d)) = d /\ rs_version_id (encode (RSnap v d)) = Some v.
Proof. intros v d. repeat split. Qed.
