(* C03 — concurrent requests for one client behave as if executed one at a time.
   Model: Conc.v — any number of threads, each a request handler with its own environment, one
   storage lock from transaction begin to transaction drop, one step per storage call, ANY
   schedule.  The exclusivity of the lock is the model's assumption; the scheduled rig observes
   it on the real backends (and decides linearizability of the add-version handler, whose first
   request for a new client spans three transactions). *)
From TSS Require Import Conc Sqlite AStore Http proofs.Atomic proofs.ConcLib proofs.UrgencyArith proofs.Agree proofs.Chain proofs.HttpProps proofs.HttpReach proofs.ConcHttp proofs.ConcLin proofs.Inv ConcRig proofs.ConcRigProps.
From Coq Require Import Arith.
Local Open Scope nat_scope.

(* (1) transactions are atomic: whenever a fine-grained run (one step per storage call) has no
   transaction open, its committed store and the state of EVERY thread (responses of finished
   requests included) are those of the coarse run in which each transaction executes at once, at
   the moment it began — any backend, any number of threads, any schedule *)
Theorem C03_txn_atomic : forall B R sch (f : sys B R), wf B R f -> owner f = None ->
  owner (frun B R f sch) = None ->
  db (frun B R f sch) = db (crun B R f (csched B R f sch)) /\
  th (frun B R f sch) = th (crun B R f (csched B R f sch)).
Proof. exact txn_atomic_quiescent. Qed.

(* (2) requests that consist of ONE transaction are linearizable: for every schedule there is an
   order `done` (the order in which the transactions began — inside each request's own
   interval, so real-time order is respected) such that the committed store is the result of
   running those requests one at a time in that order and every request that ran got exactly the
   response the one-at-a-time execution gives it *)
Theorem C03_linearizable_single_txn : forall B R d0 reqs sch,
  (forall j eh, nth_error reqs j = Some eh -> single_txn R (snd eh)) ->
  owner (frun B R (init_sys B R d0 reqs) sch) = None ->
  exists done, NoDup done /\
    db (frun B R (init_sys B R d0 reqs) sch) = snd (seq_run B R d0 reqs done) /\
    forall i t, nth_error (th (frun B R (init_sys B R d0 reqs) sch)) i = Some t ->
                thread_ok B R reqs done (fst (seq_run B R d0 reqs done)) i t.
Proof. exact single_txn_linearizable. Qed.

(* every library entry point is a single transaction *)
Theorem C03_library_requests_single_txn : forall cfg o,
  o <> OReopen -> (forall c ids, o <> ODump c ids) -> single_txn resp (lib_handler cfg o).
Proof. exact lib_single_txn. Qed.

(* so are the HTTP get-child-version, add-snapshot and get-snapshot requests *)
Example C03_http_single_txn_endpoints : forall cfg c p v d,
  single_txn hresp (http_handler cfg None (mkReq MGet (PGetChild (IdOk p)) (COk c) CTAbsent [])) /\
  single_txn hresp (http_handler cfg None (mkReq MGet PSnapshot (COk c) CTAbsent [])) /\
  single_txn hresp (http_handler cfg None (mkReq MPost (PAddSnapshot (IdOk v)) (COk c) CTSnapshot [mkChunk 1 [d]])).
Proof. intros. repeat split; unfold http_handler; cbn; eexists; eexists; eexists; eexists; reflexivity. Qed.

(* (3) finding F3 — the add-version handler creates a new client in a transaction of its own, and
   AddSnapshot answers 404 for an absent client but 200 for an empty one.  Witness: AddVersion
   (new client 5, parent 7) overlapping AddSnapshot (client 5, version 7); the AddSnapshot runs
   between the creating transaction and the append.  Both answer 200 and no snapshot is stored;
   one at a time, either the AddSnapshot is answered 404 (it goes first) or the snapshot IS
   stored (it goes second: version 7 is the base the chain started from). *)
Definition w_cfg := default_config.
Definition w_av : hreq := mkReq MPost (PAddVersion (IdOk 7%N)) (COk 5%N) CTHistory [mkChunk 1 [1%N]].
Definition w_as : hreq := mkReq MPost (PAddSnapshot (IdOk 7%N)) (COk 5%N) CTSnapshot [mkChunk 1 [2%N]].
Definition w_gs : hreq := mkReq MGet PSnapshot (COk 5%N) CTAbsent [].
Definition w_E0 := mkEnv 10%N 0%Z.
Definition w_E1 := mkEnv 11%N 0%Z.
Definition w_reqs : list (env * hprog hresp) :=
  [(w_E0, http_handler w_cfg None w_av); (w_E1, http_handler w_cfg None w_as)].
Definition statuses (l : list (tstate SqliteB hresp)) : list (option N) :=
  map (fun t => option_map rs_status (result_of SqliteB hresp t)) l.
Definition status_after (d : tables) (rq : hreq) : N :=
  rs_status (fst (fst (http_step SqliteB w_cfg None d (rq, w_E1)))).
Definition seq2 (a b : hreq * env) : N * N * N :=
  let '(ra, d1, _) := http_step SqliteB w_cfg None sq_empty a in
  let '(rb, d2, _) := http_step SqliteB w_cfg None d1 b in
  (rs_status ra, rs_status rb, status_after d2 w_gs).

Theorem C03_window_witness :
  let c := crun SqliteB hresp (init_sys SqliteB hresp sq_empty w_reqs) [0; 0; 1; 0; 0; 1] in
  (* overlapping: add-version 200, add-snapshot 200, and afterwards get-snapshot 404 *)
  statuses (th c) = [Some 200%N; Some 200%N] /\ status_after (db c) w_gs = 404%N /\
  (* add-version first: add-snapshot 200 and get-snapshot 200 (the snapshot was stored) *)
  seq2 (w_av, w_E0) (w_as, w_E1) = (200%N, 200%N, 200%N) /\
  (* add-snapshot first: it is answered 404 *)
  seq2 (w_as, w_E1) (w_av, w_E0) = (404%N, 200%N, 404%N).
Proof. vm_compute. repeat split. Qed.

(* (4) what overlapping requests can NOT do, add-version included (whose first request for a new
   client spans three transactions): for ANY number of HTTP requests over any clients, ANY
   fine-grained schedule (one step per storage call) and either backend, whenever no transaction
   is open the store represents an abstract store that was never used against its contract and
   in which every client's versions are one chain from its base with pairwise distinct ids and
   `latest` the last of them (no fork, no orphan, no lost update of `latest`), and every request
   answered so far got a non-5xx status.  fresh_distinct: the ids Uuid::new_v4 hands to the
   requests are non-nil, pairwise distinct and named by no request. *)
Theorem C03_overlapping_requests_keep_chains : forall k cfg allow reqs sch,
  cfg_ok cfg -> fresh_distinct [] reqs ->
  let f := frun (bk_backend k) hresp (init_sys (bk_backend k) hresp (bk_empty k) (handlers cfg allow reqs)) sch in
  owner f = None ->
  (exists a, bk_rel k a (db f) /\ chains_ok a) /\ answers_ok (th f).
Proof. exact conc_http_safe. Qed.

(* the reading of chains_ok / answers_ok is pinned here *)
Example C03_chains_ok_reading : forall a,
  chains_ok a <->
  (a_ok a = true /\
   forall c x, a_cl a c = Some x ->
     chain_from (base_of (a_vers x)) (a_vers x) /\ NoDup (base_of (a_vers x) :: ids_of (a_vers x)) /\
     a_latest x = last_id (a_vers x) nil_id).
Proof. intros a. reflexivity. Qed.
Example C03_answers_ok_reading : forall B (l : list (tstate B hresp)),
  answers_ok l <-> (forall i r, nth_error l i = Some (TDone r) ->
    let st := rs_status r in st = 200 \/ st = 400 \/ st = 403 \/ st = 404 \/ st = 409 \/ st = 410)%N.
Proof. intros B l. reflexivity. Qed.

(* non-vacuity: two add-versions racing for a NEW client plus a get-child-version; the first
   add-version spans three transactions and loses the race (409) *)
Example C03_overlap_nonvacuous :
  cfg_ok default_config /\ fresh_distinct [] ex_reqs /\
  map (fun t => option_map rs_status (result_of SqliteB hresp t))
      (th (crun SqliteB hresp (init_sys SqliteB hresp sq_empty (handlers default_config None ex_reqs)) [0; 1; 1; 1; 1; 0; 0; 0; 2; 2]))
  = [Some 409; Some 200; Some 200]%N.
Proof. exact conc_http_nonvacuous. Qed.

(* (4') LINEARIZABILITY of overlapping HTTP requests, add-version's three transactions included.
   For either backend k, ANY store d0 that represents an abstract store a0 satisfying the store
   invariant (in particular every store reachable by requests, and the empty one), ANY number of
   HTTP requests over any clients, ANY fine-grained schedule (one step per storage call): whenever
   no transaction is open, and provided no AddSnapshot transaction began while its client existed
   but held nothing (`wfree` — the creation window of finding F3, see (3); C03_window_not_wfree
   shows the witness is excluded by exactly this hypothesis), the requests behave as if executed
   ONE AT A TIME in the order `lin_order` (the order in which they ran their LAST transaction):
     - that order has no repetitions;
     - every request whose thread has finished is in it and got exactly the response the
       one-at-a-time execution gives it;
     - the committed store represents the store a that ordering leaves (a'), up to clients that
       exist in a but hold nothing (created by an add-version still in flight) — and when all
       requests have finished, a' and a hold the same clients with the same records. *)
Theorem C03_linearizable : forall k cfg allow U0 a0 d0 reqs sch,
  cfg_ok cfg -> Inv U0 a0 -> bk_rel k a0 d0 -> fresh_distinct U0 reqs ->
  let s0 := init_sys (bk_backend k) hresp d0 (handlers cfg allow reqs) in
  owner (frun (bk_backend k) hresp s0 sch) = None ->
  wfree (bk_backend k) reqs s0 (csched (bk_backend k) hresp s0 sch) ->
  linearized k cfg allow reqs d0 (frun (bk_backend k) hresp s0 sch)
             (lin_order s0 (csched (bk_backend k) hresp s0 sch) []).
Proof. exact lin_fine. Qed.

(* the reading of `linearized`, `ext`, `wfree` is pinned here *)
Example C03_linearized_reading : forall k cfg allow reqs d0 c order,
  linearized k cfg allow reqs d0 c order <->
  (let sr := seq_run (bk_backend k) hresp d0 (handlers cfg allow reqs) order in
   NoDup order /\
   (forall i r, nth_error (th c) i = Some (TDone r) -> In i order /\ resp_in hresp (fst sr) i = Some r) /\
   exists a' a, bk_rel k a' (snd sr) /\ bk_rel k a (db c) /\ a_ok a' = true /\ a_ok a = true /\
     (forall cl, a_cl a' cl = a_cl a cl \/ (a_cl a' cl = None /\ a_cl a cl = Some (mkCS nil_id None []))) /\
     ((forall i t, nth_error (th c) i = Some t -> exists r, t = TDone r) -> forall cl, a_cl a' cl = a_cl a cl)).
Proof. intros. reflexivity. Qed.
Example C03_wfree_reading : forall B reqs (c : sys B hresp) i sch,
  wfree B reqs c (i :: sch) <->
  ((forall er cc t, nth_error reqs i = Some er -> as_client (snd er) = Some cc ->
      nth_error (th c) i = Some t -> is_at_txn t = true ->
      ~ fst (b_eff B _ EGetClient (b_begin B (db c) cc)) = Ok (Some (mkClient nil_id None))) /\
   wfree B reqs (match cstep B hresp c i with Some c' => c' | None => c end) sch).
Proof. intros. reflexivity. Qed.

(* the order respects REAL TIME: if request i has been answered and its thread has retired at a
   point of the schedule up to which request j has not been scheduled at all, then i precedes j
   in the linearization order of every continuation of the schedule *)
Theorem C03_linearization_respects_real_time : forall B R d reqs sch1 sch2 i j r,
  let s0 := init_sys B R d reqs in
  nth_error (th (frun B R s0 sch1)) i = Some (TDone r) -> ~ In j sch1 ->
  exists l1 l2, lin_order s0 (csched B R s0 (sch1 ++ sch2)) [] = l1 ++ l2 /\ In i l1 /\ ~ In j l1.
Proof. exact lin_fine_real_time. Qed.

(* no hypothesis on the schedule at all when every AddSnapshot request addresses a client that
   already has a version in the initial store (a client that has a version keeps having one, so
   the creation window of F3 can never contain such a request): linearizable under EVERY
   fine-grained schedule, both backends *)
Theorem C03_linearizable_existing_clients : forall k cfg allow U0 a0 d0 reqs sch,
  cfg_ok cfg -> Inv U0 a0 -> bk_rel k a0 d0 -> fresh_distinct U0 reqs ->
  (forall er c, In er reqs -> as_client (snd er) = Some c ->
     exists x, a_cl a0 c = Some x /\ a_latest x <> nil_id) ->
  let s0 := init_sys (bk_backend k) hresp d0 (handlers cfg allow reqs) in
  owner (frun (bk_backend k) hresp s0 sch) = None ->
  linearized k cfg allow reqs d0 (frun (bk_backend k) hresp s0 sch)
             (lin_order s0 (csched (bk_backend k) hresp s0 sch) []).
Proof. exact lin_fine_existing. Qed.

(* request sets without any AddSnapshot are window-free under every schedule *)
Theorem C03_wfree_without_add_snapshot : forall B reqs sch,
  (forall er, In er reqs -> as_client (snd er) = None) -> forall c, wfree B reqs c sch.
Proof. exact wfree_no_as. Qed.

(* the F3 witness of (3) is excluded by `wfree` and by nothing else in C03_linearizable *)
Definition w_hreqs : list (env * hreq) := [(w_E0, w_av); (w_E1, w_as)].
Example C03_window_not_wfree :
  handlers w_cfg None w_hreqs = w_reqs /\ cfg_ok w_cfg /\ fresh_distinct [] w_hreqs /\
  ~ wfree SqliteB w_hreqs (init_sys SqliteB hresp sq_empty w_reqs) [0; 0; 1; 0; 0; 1].
Proof.
  split; [reflexivity|]. split; [vm_compute; repeat split; intros H; discriminate H|]. split.
  - split.
    + cbn. repeat constructor; cbn; intros H; repeat (destruct H as [H|H]; try discriminate); auto.
    + intros er Her. cbn in Her.
      repeat (destruct Her as [Her|Her]; [subst er; cbn; repeat split; try discriminate;
        intros H; repeat (destruct H as [H|H]; try discriminate); auto|]). contradiction.
  - intros Hw. cbn [wfree] in Hw. destruct Hw as (_ & _ & Hw & _).
    eapply (Hw (w_E1, w_as) 5%N); [reflexivity|reflexivity|vm_compute; reflexivity|reflexivity|vm_compute; reflexivity].
Qed.

(* non-vacuity of C03_linearizable: the racing add-versions of C03_overlap_nonvacuous (the first
   spans three transactions and loses) are linearized in the order 1, 0, 2 *)
Example C03_linearizable_nonvacuous :
  (forall er, In er ex_reqs -> as_client (snd er) = None) /\
  let s0 := init_sys SqliteB hresp sq_empty (handlers default_config None ex_reqs) in
  lin_order s0 [0; 1; 1; 1; 1; 0; 0; 0; 2; 2] [] = [1; 0; 2] /\
  map (fun p => (fst p, rs_status (snd p)))
      (fst (seq_run SqliteB hresp sq_empty (handlers default_config None ex_reqs) [1; 0; 2]))
  = [(1, 200%N); (0, 409%N); (2, 200%N)].
Proof.
  split; [intros er Her; cbn in Her; repeat (destruct Her as [Her|Her]; [subst er; reflexivity|]); contradiction|].
  vm_compute. split; reflexivity.
Qed.

(* (4'') NO hypothesis on the schedule, on the clients or on the kinds of request: finding F3 is
   the ONLY way in which overlapping requests differ from a one-at-a-time execution.  For either
   backend, any reachable store, ANY requests and ANY fine-grained schedule, whenever no transaction
   is open the run is linearized (same order, same final store as in (4')) with every finished
   request's response EQUAL to its one-at-a-time response, except that an AddSnapshot request may
   have been answered 200 (declined: nothing was stored) where the one-at-a-time order answers 404
   (no such client).  Nothing else can differ: not a status, not a header, not a body, not the
   store.  (The witness C03_window_witness shows that this deviation does occur; the known-findings
   file lists exactly this signature, so any other deviation is reported.) *)
Theorem C03_linearizable_up_to_known_finding : forall k cfg allow U0 a0 d0 reqs sch,
  cfg_ok cfg -> Inv U0 a0 -> bk_rel k a0 d0 -> fresh_distinct U0 reqs ->
  let s0 := init_sys (bk_backend k) hresp d0 (handlers cfg allow reqs) in
  owner (frun (bk_backend k) hresp s0 sch) = None ->
  linearized_g (win_rel allow) k cfg allow reqs d0 (frun (bk_backend k) hresp s0 sch)
               (lin_order s0 (csched (bk_backend k) hresp s0 sch) []).
Proof. exact lin_fine_window. Qed.

Example C03_linearized_g_reading : forall Rr k cfg allow reqs d0 c order,
  linearized_g Rr k cfg allow reqs d0 c order <->
  (let sr := seq_run (bk_backend k) hresp d0 (handlers cfg allow reqs) order in
   NoDup order /\
   (forall i r, nth_error (th c) i = Some (TDone r) ->
      In i order /\ exists er r0, nth_error reqs i = Some er /\ resp_in hresp (fst sr) i = Some r0 /\ Rr (snd er) r0 r) /\
   exists a' a, bk_rel k a' (snd sr) /\ bk_rel k a (db c) /\ a_ok a' = true /\ a_ok a = true /\
     (forall cl, a_cl a' cl = a_cl a cl \/ (a_cl a' cl = None /\ a_cl a cl = Some (mkCS nil_id None []))) /\
     ((forall i t, nth_error (th c) i = Some t -> exists r, t = TDone r) -> forall cl, a_cl a' cl = a_cl a cl)).
Proof. intros. reflexivity. Qed.
(* r0 = the one-at-a-time response, r = the response under overlap *)
Example C03_win_rel_reading : forall allow rq r0 r,
  win_rel allow rq r0 r <->
  (r0 = r \/
   ((served rq /\ exists c, rq_cid rq = COk c /\ client_id_header allow (COk c) = inl c) /\
    (match rq_method rq, rq_path rq, rq_cid rq with MPost, PAddSnapshot _, COk c => Some c | _, _, _ => None end) <> None /\
    r0 = mkResp 404 None None None None [] true /\ r = mkResp 200 None None None None [] true)).
Proof. intros. reflexivity. Qed.
(* with equality as the relation, linearized_g is linearized *)
Example C03_strict_is_linearized : forall k cfg allow reqs d0 c order,
  linearized_g strict_rel k cfg allow reqs d0 c order -> linearized k cfg allow reqs d0 c order.
Proof. exact linearized_strict. Qed.
(* non-vacuity: on the F3 witness schedule the theorem applies and the deviation is the one allowed *)
Example C03_up_to_known_finding_nonvacuous :
  let s0 := init_sys SqliteB hresp sq_empty (handlers w_cfg None w_hreqs) in
  let sch := [0; 0; 1; 0; 0; 1] in
  lin_order s0 sch [] = [1; 0] /\
  map (fun t => option_map rs_status (result_of SqliteB hresp t)) (th (crun SqliteB hresp s0 sch)) = [Some 200; Some 200]%N /\
  map (fun p => (fst p, rs_status (snd p))) (fst (seq_run SqliteB hresp sq_empty (handlers w_cfg None w_hreqs) [1; 0]))
  = [(1, 404%N); (0, 200%N)].
Proof. vm_compute. repeat split; reflexivity. Qed.

(* (4d) "In particular two overlapping AddVersion requests are never both accepted on the same parent,
   no accepted version is orphaned" — for either backend, any reachable store, ANY requests (new clients,
   AddSnapshot inside the F3 window included) and ANY fine-grained schedule: when every request has been
   answered and no transaction is open, the committed store represents an unpoisoned abstract store a in which
   (i) every add-version request that was answered 200 is stored in its client's chain under the id it was
       given (the generator's id), with the parent and the payload it submitted, and it is THE child of
       its parent (so GetChildVersion(parent) returns it: C08/C01);
   (ii) of two add-version requests for the same client and the same parent at most one was answered 200. *)
Theorem C03_accepted_never_orphaned_never_forked : forall k cfg allow U0 a0 d0 reqs sch,
  cfg_ok cfg -> Inv U0 a0 -> bk_rel k a0 d0 -> fresh_distinct U0 reqs ->
  let s0 := init_sys (bk_backend k) hresp d0 (handlers cfg allow reqs) in
  let f := frun (bk_backend k) hresp s0 sch in
  owner f = None -> (forall i t, nth_error (th f) i = Some t -> exists r, t = TDone r) ->
  exists a, bk_rel k a (db f) /\ a_ok a = true /\
    (forall i E rq cl p cs r, nth_error reqs i = Some (E, rq) ->
       rq = mkReq MPost (PAddVersion (IdOk p)) (COk cl) CTHistory cs ->
       client_id_header allow (COk cl) = inl cl -> body_refused cs = false ->
       nth_error (th f) i = Some (TDone r) -> rs_status r = 200%N ->
       exists x, a_cl a cl = Some x /\ In (mkVersion (e_fresh E) p (body_of cs)) (a_vers x) /\
                 by_parent p (a_vers x) = Some (mkVersion (e_fresh E) p (body_of cs))) /\
    (forall i j Ei Ej rqi rqj cl p csi csj ri rj, i <> j ->
       nth_error reqs i = Some (Ei, rqi) -> nth_error reqs j = Some (Ej, rqj) ->
       rqi = mkReq MPost (PAddVersion (IdOk p)) (COk cl) CTHistory csi ->
       rqj = mkReq MPost (PAddVersion (IdOk p)) (COk cl) CTHistory csj ->
       client_id_header allow (COk cl) = inl cl -> body_refused csi = false -> body_refused csj = false ->
       nth_error (th f) i = Some (TDone ri) -> nth_error (th f) j = Some (TDone rj) ->
       ~ (rs_status ri = 200%N /\ rs_status rj = 200%N)).
Proof. exact accepted_is_stored. Qed.

(* non-vacuity: in the racing example of C03_overlap_nonvacuous all three requests finish, two are accepted *)
Example C03_accepted_nonvacuous :
  let s0 := init_sys SqliteB hresp sq_empty (handlers default_config None ex_reqs) in
  let c := crun SqliteB hresp s0 [0; 1; 1; 1; 1; 0; 0; 0; 2; 2] in
  (forall i t, nth_error (th c) i = Some t -> exists r, t = TDone r) /\ owner c = None /\
  map (fun t => option_map rs_status (result_of SqliteB hresp t)) (th c) = [Some 409; Some 200; Some 200]%N.
Proof.
  vm_compute. split; [|split; reflexivity].
  intros i t Hi. destruct i as [|[|[|i]]]; cbn in Hi; try (inversion Hi; eexists; reflexivity). destruct i; discriminate Hi.
Qed.

(* (5) the tie to the code: the function the scheduled rig's transaction schedules are replayed
   with on the extracted model (ConcRig.rig_run: run-one-transaction tokens, begin-while-held
   probes, final drain) performs a coarse run under SOME schedule — so (1)-(4), which hold for all
   schedules, speak about exactly the runs that are compared with the real handlers *)
Theorem C03_rig_runs_are_model_runs : forall B R (s : sys B R) toks,
  exists sch, rig_run B R s toks = crun B R s sch.
Proof. exact rig_run_is_crun. Qed.
