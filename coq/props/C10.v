(* C10 — snapshots are accepted only for recent, newer versions and never move backwards.
   acc = versions accepted for the client so far (from the responses); the current snapshot
   version is what GetSnapshot answers before the request (rs); five_most_recent acc = ids of
   the last five versions, newest first. *)
From TSS Require Import AStore Seq Http proofs.Chain proofs.Steps proofs.Inv proofs.Agree proofs.Hist proofs.Cas proofs.Snapshot proofs.UrgencyArith proofs.HttpProps proofs.HttpReach proofs.HttpLib proofs.HttpLib2.
Open Scope N_scope.

(* the rule, in the property's words: v non-nil, not already the snapshot version, among the
   five most recent versions, and no newer version in that window holds the snapshot *)
Definition C10_rule (acc : list version) (snap : option id) (v : id) : Prop :=
  v <> nil_id /\ Some v <> snap /\
  exists newer older, five_most_recent acc = newer ++ v :: older /\ ~ In v newer /\
                      (forall w, In w newer -> Some w <> snap).

(* AddSnapshot answers success either way; GetSnapshot afterwards returns the new upload
   exactly when the rule holds, and otherwise what it returned before (rs' = rs).  The one
   corner left open by the property (v = the non-nil id the chain started from) is excluded
   here and characterised in C10_base_corner. *)
Theorem C10_snapshot_rule : forall k cfg h c v d E, oracle_ok h ->
  let acc := accepted c h (responses k cfg h) in
  exists rs ra rs',
    responses k cfg (h ++ [(OGetSnapshot c, noenv)]) = responses k cfg h ++ [rs] /\
    responses k cfg (h ++ [(OAddSnapshot c v d, E); (OGetSnapshot c, noenv)]) = responses k cfg h ++ [ra; rs'] /\
    ((rs = RNoClient /\ ra = RNoClient /\ rs' = RNoClient) \/
     (ra = RSnapAck /\ rs <> RNoClient /\
      ((v <> base_of acc \/ base_of acc = nil_id) ->
       (C10_rule acc (snap_of rs) v -> rs' = RSnap v d) /\
       (~ C10_rule acc (snap_of rs) v -> rs' = rs)))).
Proof. exact add_snapshot_rule. Qed.

(* the snapshot version only ever moves forward along the chain (base first, then v1, v2 ...) *)
Theorem C10_snapshot_monotone : forall k cfg h c v d E s ds, oracle_ok h ->
  responses k cfg (h ++ [(OGetSnapshot c, noenv)]) = responses k cfg h ++ [RSnap s ds] ->
  responses k cfg (h ++ [(OAddSnapshot c v d, E); (OGetSnapshot c, noenv)]) = responses k cfg h ++ [RSnapAck; RSnap v d] ->
  v <> s ->
  let acc := accepted c h (responses k cfg h) in
  exists l1 l2 l3, base_of acc :: ids_of acc = l1 ++ s :: l2 ++ v :: l3.
Proof. exact snapshot_monotone_hist. Qed.

(* a declined snapshot leaves every later response as if it had never been sent *)
Theorem C10_declined_no_effect : forall k cfg h c v d E h2,
  oracle_ok (h ++ (OAddSnapshot c v d, E) :: h2) -> oracle_ok (h ++ h2) ->
  responses k cfg (h ++ [(OAddSnapshot c v d, E); (OGetSnapshot c, noenv)]) =
    responses k cfg (h ++ [(OAddSnapshot c v d, E)]) ++ [last (responses k cfg (h ++ [(OGetSnapshot c, noenv)])) RError] ->
  (forall s ds, last (responses k cfg (h ++ [(OGetSnapshot c, noenv)])) RError = RSnap s ds -> (s, ds) <> (v, d)) ->
  responses k cfg (h ++ (OAddSnapshot c v d, E) :: h2) =
  responses k cfg h ++ last (responses k cfg (h ++ [(OAddSnapshot c v d, E)])) RError
                       :: skipn (length h) (responses k cfg (h ++ h2)).
Proof. exact declined_snapshot_no_effect. Qed.

(* the open corner, documented: for ANY v (the non-nil chain base included) acceptance is the
   scan of the walk order (five steps from the latest, the base being the last stop) *)
Theorem C10_base_corner : forall U x v, cinv U x ->
  as_accepts x v = negb (oid_eqb (Some v) (snap_last x)) && scanv (walk_window x) v (snap_last x).
Proof. exact as_accepts_scan. Qed.

(* window boundary: on a chain of six the 5th most recent is accepted, the 6th declined *)
Definition six : list version :=
  [mkVersion 1 0 []; mkVersion 2 1 []; mkVersion 3 2 []; mkVersion 4 3 []; mkVersion 5 4 []; mkVersion 6 5 []].
Example C10_window_boundary :
  as_accepts (mkCS 6 None six) 2 = true /\ as_accepts (mkCS 6 None six) 1 = false /\
  as_accepts (mkCS 6 (Some (mkSnap 3 0 0, [])) six) 2 = false /\
  as_accepts (mkCS 6 (Some (mkSnap 3 0 0, [])) six) 4 = true.
Proof. vm_compute. auto. Qed.

(* as HTTP clients see it: after ANY HTTP history, for a listed client, a version id v and a well-formed
   snapshot upload — a client the server has never seen gets 404 on all three requests; otherwise
   add-snapshot answers 200 whatever it decides, and get-snapshot afterwards returns the new upload (id v, the
   uploaded bytes, the snapshot content type) exactly when the rule accepts v against the versions accepted so
   far and the version get-snapshot reported before, and exactly what it returned before when it does not *)
Theorem C10_http_snapshot_rule : forall k cfg allow h c v cs E1 E2 E3,
  cfg_ok cfg -> client_id_header allow (COk c) = inl c -> body_refused cs = false ->
  let gs := mkReq MGet PSnapshot (COk c) CTAbsent [] in
  let asr := mkReq MPost (PAddSnapshot (IdOk v)) (COk c) CTSnapshot cs in
  horacle_ok (h ++ [(gs, E1)]) -> horacle_ok (h ++ [(asr, E2); (gs, E3)]) ->
  let acc := accepted c (lib_of allow h) (responses k cfg (lib_of allow h)) in
  let snap_before := fun rs : hresp => if N.eqb (rs_status rs) 200 then rs_version_id rs else None in
  exists rs ra rs',
    hresponses k cfg allow (h ++ [(gs, E1)]) = hresponses k cfg allow h ++ [rs] /\
    hresponses k cfg allow (h ++ [(asr, E2); (gs, E3)]) = hresponses k cfg allow h ++ [ra; rs'] /\
    ((acc = [] /\ rs_status rs = 404 /\ (rs_status ra = 404 \/ rs_status ra = 200) /\ rs_status rs' = 404) \/
     (ra = mkResp 200 None None None None [] true /\
      ((v <> base_of acc \/ base_of acc = nil_id) ->
       (C10_rule acc (snap_before rs) v -> rs' = mkResp 200 (Some v) None None (Some RTSnapshot) (body_of cs) true) /\
       (~ C10_rule acc (snap_before rs) v -> rs' = rs)))).
Proof. exact http_add_snapshot_rule. Qed.
