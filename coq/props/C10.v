(* C10 — snapshots are accepted only for recent, newer versions and never move backwards.
   acc = versions accepted for the client so far (from the responses); the current snapshot
   version is what GetSnapshot answers before the request (rs); five_most_recent acc = ids of
   the last five versions, newest first. *)
From TSS Require Import AStore Seq proofs.Chain proofs.Steps proofs.Inv proofs.Agree proofs.Hist proofs.Cas proofs.Snapshot.
Open Scope N_scope.

(* the rule, in the property's words: v non-nil, not already the snapshot version, among the
   five most recent versions, and no newer version in that window holds the snapshot *)
Definition C10_rule (acc : list version) (snap : option id) (v : id) : Prop :=
  v <> nil_id /\ Some v <> snap /\
  exists newer older, five_most_recent acc = newer ++ v :: older /\ ~ In v newer /\
                      (forall w, In w newer -> Some w <> snap).

(* AddSnapshot answers success either way; GetSnapshot afterwards returns the new upload
   exactly when the rule holds, and otherwise what it returned before (rs' = rs).  The one
   corner left open by the property (v = the non-nil id the chain started from) is excluded
   here and characterised in C10_base_corner. *)
Theorem C10_snapshot_rule : forall k cfg h c v d E, oracle_ok h ->
  let acc := accepted c h (responses k cfg h) in
  exists rs ra rs',
    responses k cfg (h ++ [(OGetSnapshot c, noenv)]) = responses k cfg h ++ [rs] /\
    responses k cfg (h ++ [(OAddSnapshot c v d, E); (OGetSnapshot c, noenv)]) = responses k cfg h ++ [ra; rs'] /\
    ((rs = RNoClient /\ ra = RNoClient /\ rs' = RNoClient) \/
     (ra = RSnapAck /\ rs <> RNoClient /\
      ((v <> base_of acc \/ base_of acc = nil_id) ->
       (C10_rule acc (snap_of rs) v -> rs' = RSnap v d) /\
       (~ C10_rule acc (snap_of rs) v -> rs' = rs)))).
Proof. exact add_snapshot_rule. Qed.

(* the snapshot version only ever moves forward along the chain (base first, then v1, v2 ...) *)
Theorem C10_snapshot_monotone : forall k cfg h c v d E s ds, oracle_ok h ->
  responses k cfg (h ++ [(OGetSnapshot c, noenv)]) = responses k cfg h ++ [RSnap s ds] ->
  responses k cfg (h ++ [(OAddSnapshot c v d, E); (OGetSnapshot c, noenv)]) = responses k cfg h ++ [RSnapAck; RSnap v d] ->
  v <> s ->
  let acc := accepted c h (responses k cfg h) in
  exists l1 l2 l3, base_of acc :: ids_of acc = l1 ++ s :: l2 ++ v :: l3.
Proof. exact snapshot_monotone_hist. Qed.

(* a declined snapshot leaves every later response as if it had never been sent *)
Theorem C10_declined_no_effect : forall k cfg h c v d E h2,
  oracle_ok (h ++ (OAddSnapshot c v d, E) :: h2) -> oracle_ok (h ++ h2) ->
  responses k cfg (h ++ [(OAddSnapshot c v d, E); (OGetSnapshot c, noenv)]) =
    responses k cfg (h ++ [(OAddSnapshot c v d, E)]) ++ [last (responses k cfg (h ++ [(OGetSnapshot c, noenv)])) RError] ->
  (forall s ds, last (responses k cfg (h ++ [(OGetSnapshot c, noenv)])) RError = RSnap s ds -> (s, ds) <> (v, d)) ->
  responses k cfg (h ++ (OAddSnapshot c v d, E) :: h2) =
  responses k cfg h ++ last (responses k cfg (h ++ [(OAddSnapshot c v d, E)])) RError
                       :: skipn (length h) (responses k cfg (h ++ h2)).
Proof. exact declined_snapshot_no_effect. Qed.

(* the open corner, documented: for ANY v (the non-nil chain base included) acceptance is the
   scan of the walk order (five steps from the latest, the base being the last stop) *)
Theorem C10_base_corner : forall U x v, cinv U x ->
  as_accepts x v = negb (oid_eqb (Some v) (snap_last x)) && scanv (walk_window x) v (snap_last x).
Proof. exact as_accepts_scan. Qed.

(* window boundary: on a chain of six the 5th most recent is accepted, the 6th declined *)
Definition six : list version :=
  [mkVersion 1 0 []; mkVersion 2 1 []; mkVersion 3 2 []; mkVersion 4 3 []; mkVersion 5 4 []; mkVersion 6 5 []].
Example C10_window_boundary :
  as_accepts (mkCS 6 None six) 2 = true /\ as_accepts (mkCS 6 None six) 1 = false /\
  as_accepts (mkCS 6 (Some (mkSnap 3 0 0, [])) six) 2 = false /\
  as_accepts (mkCS 6 (Some (mkSnap 3 0 0, [])) six) 4 = true.
Proof. vm_compute. auto. Qed.
