(* C08 — GetChildVersion answers found / not-found / gone consistently with AddVersion.
   On the state reached by ANY history h, for any client c and any parent id p, asking for the
   child of p (rg) and submitting a version on p (ra) — both from that same state — relate as:
   found the stored child of p if one exists; otherwise not-found exactly when the AddVersion
   is accepted and gone exactly when it is rejected; an unknown client gets "no such client"
   on both (HTTP: 404). *)
From TSS Require Import AStore Seq proofs.Chain proofs.Inv proofs.Agree proofs.Hist proofs.Cas.
Open Scope N_scope.

Theorem C08_child_vs_add : forall k cfg h c p d E,
  oracle_ok (h ++ [(OAddVersion c p d, E)]) ->
  let acc := accepted c h (responses k cfg h) in
  exists rg ra,
    responses k cfg (h ++ [(OGetChild c p, noenv)]) = responses k cfg h ++ [rg] /\
    responses k cfg (h ++ [(OAddVersion c p d, E)]) = responses k cfg h ++ [ra] /\
    ((rg = RNoClient /\ ra = RNoClient) \/
     (exists v, rg = RFound v /\ In v acc /\ v_parent v = p) \/
     (rg = RNotFound /\ by_parent p acc = None /\ exists u, ra = RAdded (e_fresh E) u) \/
     (rg = RGone /\ by_parent p acc = None /\ exists l, ra = RConflict l)).
Proof. exact child_vs_add. Qed.
