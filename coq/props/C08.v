(* C08 — GetChildVersion answers found / not-found / gone consistently with AddVersion.
   On the state reached by ANY history h, for any client c and any parent id p, asking for the
   child of p (rg) and submitting a version on p (ra) — both from that same state — relate as:
   found the stored child of p if one exists; otherwise not-found exactly when the AddVersion
   is accepted and gone exactly when it is rejected; an unknown client gets "no such client"
   on both (HTTP: 404). *)
From TSS Require Import AStore Seq Http proofs.Chain proofs.Inv proofs.Agree proofs.Hist proofs.Cas proofs.UrgencyArith proofs.HttpProps proofs.HttpReach proofs.HttpLib proofs.HttpLib2.
Open Scope N_scope.

Theorem C08_child_vs_add : forall k cfg h c p d E,
  oracle_ok (h ++ [(OAddVersion c p d, E)]) ->
  let acc := accepted c h (responses k cfg h) in
  exists rg ra,
    responses k cfg (h ++ [(OGetChild c p, noenv)]) = responses k cfg h ++ [rg] /\
    responses k cfg (h ++ [(OAddVersion c p d, E)]) = responses k cfg h ++ [ra] /\
    ((rg = RNoClient /\ ra = RNoClient) \/
     (exists v, rg = RFound v /\ In v acc /\ v_parent v = p) \/
     (rg = RNotFound /\ by_parent p acc = None /\ exists u, ra = RAdded (e_fresh E) u) \/
     (rg = RGone /\ by_parent p acc = None /\ exists l, ra = RConflict l)).
Proof. exact child_vs_add. Qed.

(* the same as HTTP clients see it: after ANY HTTP history h (any routes, methods, headers, bodies,
   clients; refused requests included) a listed client c asks for the child of p (rg) or, from the
   same state, uploads a version on p (ra):
   - if a version with parent p was accepted for c, rg is 200 with X-Version-Id, X-Parent-Version-Id,
     the history-segment content type and exactly that version's payload;
   - otherwise rg is 404 exactly when the upload is accepted (200 with the new id) and 410 exactly
     when it is refused (409 naming the latest accepted version).  A client the server has never
     seen is the case acc = []: 404, and the upload is accepted.
   `acc` = the versions accepted for c so far, read off the library view of h (C14). *)
Theorem C08_http_child_vs_add : forall k cfg allow h c p cs E E',
  cfg_ok cfg -> client_id_header allow (COk c) = inl c -> body_refused cs = false ->
  let gcv := mkReq MGet (PGetChild (IdOk p)) (COk c) CTAbsent [] in
  let av := mkReq MPost (PAddVersion (IdOk p)) (COk c) CTHistory cs in
  horacle_ok (h ++ [(gcv, E')]) -> horacle_ok (h ++ [(av, E)]) ->
  let acc := accepted c (lib_of allow h) (responses k cfg (lib_of allow h)) in
  exists rg ra,
    hresponses k cfg allow (h ++ [(gcv, E')]) = hresponses k cfg allow h ++ [rg] /\
    hresponses k cfg allow (h ++ [(av, E)]) = hresponses k cfg allow h ++ [ra] /\
    ((exists v, In v acc /\ v_parent v = p /\
                rg = mkResp 200 (Some (v_id v)) (Some p) None (Some RTHistory) (v_data v) true) \/
     (by_parent p acc = None /\ rg = mkResp 404 None None None None [] true /\
      exists xs, ra = mkResp 200 (Some (e_fresh E)) None xs None [] true) \/
     (by_parent p acc = None /\ rg = mkResp 410 None None None None [] true /\
      ra = mkResp 409 None (Some (latest_of acc)) None None [] true)).
Proof. exact http_child_vs_add. Qed.
