(* C14 — HTTP responses encode protocol outcomes exactly. *)
From TSS Require Import AStore Http proofs.Steps proofs.UrgencyArith proofs.Agree proofs.HttpProps proofs.HttpReach proofs.HttpLib proofs.Inv Seq.
Open Scope N_scope.

(* the table of the property *)
Theorem C14_encode_table :
  (forall v, encode (RAdded v (Some UNone)) = mkResp 200 (Some v) None None None [] false) /\
  (forall v, encode (RAdded v (Some ULow)) = mkResp 200 (Some v) None (Some ULow) None [] false) /\
  (forall v, encode (RAdded v (Some UHigh)) = mkResp 200 (Some v) None (Some UHigh) None [] false) /\
  (forall l, encode (RConflict l) = mkResp 409 None (Some l) None None [] false) /\
  (forall v, encode (RFound v) = mkResp 200 (Some (v_id v)) (Some (v_parent v)) None (Some RTHistory) (v_data v) false) /\
  encode RNotFound = plain 404 /\ encode RGone = plain 410 /\ encode RNoClient = plain 404 /\
  encode RSnapAck = plain 200 /\
  (forall v d, encode (RSnap v d) = mkResp 200 (Some v) None None (Some RTSnapshot) d false) /\
  encode RNoSnap = plain 404.
Proof. repeat split. Qed.

(* for every HTTP history h (on either backend) and every further well-formed request of a
   listed client: the response is default_headers (encode r) where r is the LIBRARY outcome on
   the state reached — for add-version after creating the client if the server has never seen
   it.  Absence of every header that does not apply is part of `encode`. *)
Theorem C14_http_encodes_outcome : forall k cfg allow h rq E, cfg_ok cfg -> horacle_ok (h ++ [(rq, E)]) ->
  served rq -> (exists c, rq_cid rq = COk c /\ client_id_header allow (COk c) = inl c) ->
  exists r a', lib_outcome cfg (snd (hrun AStoreB cfg allow a_empty h)) rq E = Some (r, a') /\
    hresponses k cfg allow (h ++ [(rq, E)]) = hresponses k cfg allow h ++ [default_headers (encode r)].
Proof. exact http_encodes_outcome. Qed.

(* on EVERY backend and store contents the three single-transaction endpoints answer
   encode (library response), with the same store and the same storage calls *)
Theorem C14_get_child_encodes : forall B cfg allow c p cs ct s E, client_id_header allow (COk c) = inl c ->
  run_hprog B E (route cfg allow (mkReq MGet (PGetChild (IdOk p)) (COk c) ct cs)) s =
  let '(r, s', t) := step B cfg s (OGetChild c p, E) in (encode r, s', t).
Proof. exact gcv_encodes. Qed.
Theorem C14_get_snapshot_encodes : forall B cfg allow c cs ct s E, client_id_header allow (COk c) = inl c ->
  run_hprog B E (route cfg allow (mkReq MGet PSnapshot (COk c) ct cs)) s =
  let '(r, s', t) := step B cfg s (OGetSnapshot c, E) in (encode r, s', t).
Proof. exact gs_encodes. Qed.
Theorem C14_add_snapshot_encodes : forall B cfg allow c v cs s E, client_id_header allow (COk c) = inl c ->
  body_refused cs = false ->
  run_hprog B E (route cfg allow (mkReq MPost (PAddSnapshot (IdOk v)) (COk c) CTSnapshot cs)) s =
  let '(r, s', t) := step B cfg s (OAddSnapshot c v (body_of cs), E) in (encode r, s', t).
Proof. exact as_encodes'. Qed.
(* add-version: the library call, and on NoSuchClient create-if-absent and retry (fuel never
   runs out on a reachable state: C15_no_5xx) *)
Theorem C14_add_version_encodes : forall B cfg allow c p cs s E, client_id_header allow (COk c) = inl c ->
  body_refused cs = false ->
  fst (run_hprog B E (route cfg allow (mkReq MPost (PAddVersion (IdOk p)) (COk c) CTHistory cs)) s) =
  av_http_result B cfg E c p (body_of cs) s.
Proof. exact av_route. Qed.

(* the whole picture: every HTTP history — malformed and refused requests included — IS a
   library history seen through the table.  lib_of gives, request by request, the library
   operations a request stands for (none when the routing function refuses it; create-if-absent
   then add_version for add-version; the operation itself otherwise); the freshness assumption
   carries over, and the HTTP responses are a FUNCTION of the library responses: the refusal the
   routing function computes without any storage call, or default_headers (encode r) for the
   outcome r of the request's last operation.  Every theorem about library histories
   (C01, C02, C07-C13, C18) is thereby a theorem about what HTTP clients observe. *)
Theorem C14_http_history_is_library_history : forall k cfg allow h, cfg_ok cfg -> horacle_ok h ->
  oracle_ok (lib_of allow h) /\ hresponses k cfg allow h = hresps_of cfg allow h (responses k cfg (lib_of allow h)).
Proof. exact http_history_is_library_history. Qed.

(* the reading of lib_of / hresps_of is pinned here *)
Example C14_lib_of_reading : forall allow rq E h,
  lib_of allow ((rq, E) :: h) = lib_of_req allow rq E ++ lib_of allow h /\
  (forall c p cs, client_id_header allow (COk c) = inl c -> body_refused cs = false ->
     lib_of_req allow (mkReq MPost (PAddVersion (IdOk p)) (COk c) CTHistory cs) E =
     [(OEnsure c, Hist.noenv); (OAddVersion c p (body_of cs), E)]) /\
  (forall c p ct cs, client_id_header allow (COk c) = inl c ->
     lib_of_req allow (mkReq MGet (PGetChild (IdOk p)) (COk c) ct cs) E = [(OGetChild c p, E)]) /\
  (forall m p ct cs, lib_of_req allow (mkReq m p CAbsent ct cs) E = []).
Proof.
  intros. split; [reflexivity|]. split; [|split].
  - intros c p cs Hc Hb. unfold lib_of_req. cbn. cbn in Hc. rewrite Hc, Hb. reflexivity.
  - intros c p ct cs Hc. unfold lib_of_req. cbn. cbn in Hc. rewrite Hc. reflexivity.
  - reflexivity.
Qed.
Example C14_hresps_of_reading : forall cfg allow rq E h rs,
  hresps_of cfg allow ((rq, E) :: h) rs =
  (let n := length (lib_of_req allow rq E) in
   match firstn n rs with
   | [] => default_headers (match route cfg allow rq with HRet r => r | _ => plain 500 end)
   | l => default_headers (encode (last l RError))
   end :: hresps_of cfg allow h (skipn n rs)).
Proof. intros. cbn [hresps_of]. unfold hresp_of. destruct (firstn (length (lib_of_req allow rq E)) rs); reflexivity. Qed.
