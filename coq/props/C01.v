(* C01 — each client's versions form one unbranched chain, walkable end to end.
   k ranges over both storage backends; h is ANY history of library operations over any
   number of clients (id arguments unrestricted: nil, latest, stale, base, random, foreign),
   possibly containing Reopen steps; oracle_ok h is the freshness assumption on the ids
   produced by Uuid::new_v4.  `accepted` is read off the responses. *)
From TSS Require Import Seq proofs.Chain proofs.Inv proofs.Agree proofs.Hist Http proofs.UrgencyArith proofs.HttpProps proofs.HttpReach proofs.HttpLib.

(* no two accepted versions of a client share a parent *)
Theorem C01_parents_unique : forall k cfg h c, oracle_ok h ->
  NoDup (parents_of (accepted c h (responses k cfg h))).
Proof. exact accepted_parents_unique_k. Qed.

(* starting from the parent of the first accepted version, asking for the child version
   again and again returns every accepted version exactly once, in acceptance order, and then
   answers not-found (never gone) at the latest version *)
Theorem C01_chain_walk : forall k cfg h c, oracle_ok h ->
  let acc := accepted c h (responses k cfg h) in
  acc <> [] ->
  responses k cfg (h ++ walk_ops c acc) = responses k cfg h ++ map RFound acc ++ [RNotFound].
Proof. exact walk_returns_accepted_k. Qed.

(* the hypotheses are satisfiable by a non-trivial history: two clients, a conflict, a
   non-nil chain base, a foreign id, a reopen *)
Definition ex_hist : list (op * env) :=
  [ (OEnsure 1, mkEnv 0 0); (OAddVersion 1 77 [1;2], mkEnv 10 0); (OAddVersion 1 10 [3], mkEnv 11 0);
    (OAddVersion 1 77 [4], mkEnv 12 0); (OEnsure 2, mkEnv 0 0); (OAddVersion 2 11 [5], mkEnv 13 0);
    (OReopen, mkEnv 0 0); (OAddSnapshot 1 10 [9], mkEnv 0 5); (OAddVersion 1 11 [6], mkEnv 14 0) ]%N.
Example C01_nonvacuous :
  oracle_ok ex_hist /\
  map v_id (accepted 1%N ex_hist (responses BSqlite default_config ex_hist)) = [10; 11; 14]%N /\
  map v_id (accepted 1%N ex_hist (responses BInMem default_config ex_hist)) = [10; 11; 14]%N.
Proof.
  split; [|split; vm_compute; reflexivity].
  unfold oracle_ok, ex_hist; cbn. unfold usedp; cbn.
  repeat split; intros [H|H]; try discriminate; repeat (destruct H as [H|H]; try discriminate); auto.
Qed.

(* the same as HTTP clients see it: after ANY HTTP history h (any routes, methods, headers, bodies,
   clients; refused requests included), asking an allowed client's chain for the child of the
   parent of its first accepted version, then of each accepted version in turn (one
   get-child-version request each, whatever fresh environments Es), is answered 200 with exactly
   the accepted versions — id, parent, payload — in acceptance order, and finally 404 (never 410).
   `acc` = the versions accepted for c, read off the library view of h. *)
Theorem C01_http_chain_walk : forall k cfg allow h c Es, cfg_ok cfg -> client_id_header allow (COk c) = inl c ->
  let acc := accepted c (lib_of allow h) (responses k cfg (lib_of allow h)) in
  acc <> [] -> length Es = S (length acc) ->
  let walk := hgcvs c (combine (base_of acc :: ids_of acc) Es) in
  horacle_ok (h ++ walk) ->
  hresponses k cfg allow (h ++ walk) =
  hresponses k cfg allow h ++
  map (fun v => mkResp 200 (Some (v_id v)) (Some (v_parent v)) None (Some RTHistory) (v_data v) true) acc ++
  [mkResp 404 None None None None [] true].
Proof. exact http_chain_walk. Qed.
