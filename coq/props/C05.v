(* C05 — a storage failure yields an error response and no partial effect.
   SQLite table model (the persistent backend); pl is ANY fault plan: any number of faults, on
   transaction begin, on any read, any write or the commit, each failing before or after taking
   effect; t is ANY database contents. *)
From TSS Require Import Fault Sqlite proofs.FaultProps.

(* library entry points: the outcome is (1) exactly the fault-free response and database, or
   (2) an error response and the database exactly as before the request, or (3) an error
   response and the database exactly as after the fault-free request — and then the fault-free
   response was a success, i.e. only the acknowledgement was lost *)
Theorem C05_fault_atomic : forall cfg pl t o E, protocol_op o = true ->
  op_outcome t (fst (fst (step SqliteB cfg t (o, E)))) (snd (fst (step SqliteB cfg t (o, E))))
             (fst (fst (fstep SqliteB cfg pl t (o, E)))) (snd (fst (fstep SqliteB cfg pl t (o, E)))).
Proof. exact lib_fault_atomic. Qed.

(* a success response is only ever sent when no call failed and the change is committed:
   response AND database are those of the fault-free run *)
Theorem C05_ack_implies_commit : forall cfg pl t o E, protocol_op o = true ->
  is_error (fst (fst (fstep SqliteB cfg pl t (o, E)))) = false ->
  fst (fstep SqliteB cfg pl t (o, E)) = fst (step SqliteB cfg t (o, E)).
Proof. exact ack_implies_commit. Qed.

(* HTTP entry points (add-version may run three transactions): exactly the fault-free response
   and database, or status 500 and the database as it was at a transaction boundary of the
   fault-free run — before the request, after the handler created the still-empty client (same
   stored versions, latest pointer and snapshot as before: none), or after the whole request *)
Theorem C05_http_fault_atomic : forall cfg allow pl t rq E,
  let '(hr, t', _) := http_fstep SqliteB cfg allow pl t (rq, E) in
  let '(hr0, t0, _) := http_step SqliteB cfg allow t (rq, E) in
  (hr = hr0 /\ t' = t0) \/
  (hr = default_headers (plain 500) /\ In t' (ff_states E (http_handler cfg allow rq) t)).
Proof. exact http_fault_atomic. Qed.

(* the fault semantics with no fault is the ordinary semantics.  "Later requests are served
   normally": a faulty run is a sequence of COMPLETE transactions (run_hprog_f closes every
   transaction it opens, as dropping the Txn does), so the next request starts from one of the
   databases above with no transaction open; that the real connection really releases its
   lock is established by the correspondence run. *)
Theorem C05_no_fault_is_ordinary : forall B A E n (h : hprog A) s,
  fst (run_hprog_f B E no_faults n h s) = fst (run_hprog B E h s).
Proof. exact run_hprog_f_none. Qed.
