(* C15 — malformed or oversized requests are refused with 4xx and change nothing. *)
From TSS Require Import Http proofs.UrgencyArith proofs.Agree proofs.HttpProps proofs.HttpReach.
Open Scope N_scope.

(* every refusal class of the property (unknown route or method, bad path id, wrong or missing
   content type, absent / non-text / unparseable client id, empty body, body over the limit
   however it was chunked): status 4xx, NO storage call at all (empty effect trace) and the
   store literally unchanged — for every backend and every store contents *)
Theorem C15_malformed_4xx_no_effect : forall B cfg allow s rq E, malformed rq ->
  exists st, is_4xx st /\ http_step B cfg allow s (rq, E) = (default_headers (plain st), s, []).
Proof. exact malformed_4xx_no_effect. Qed.

(* a body of exactly MAX_SIZE bytes reaches the library call *)
Theorem C15_limit_inclusive : forall cfg allow p c cs,
  Forall wf_chunk cs -> client_id_header allow (COk c) = inl c ->
  N.of_nat (length (body_of cs)) = MAX_SIZE ->
  route cfg allow (mkReq MPost (PAddVersion (IdOk p)) (COk c) CTHistory cs) = av_loop AV_FUEL cfg c p (body_of cs).
Proof. exact limit_inclusive. Qed.

(* a body is accepted iff 0 < size <= MAX_SIZE *)
Theorem C15_body_accepted_iff : forall cfg allow p c cs,
  Forall wf_chunk cs -> client_id_header allow (COk c) = inl c ->
  let n := N.of_nat (length (body_of cs)) in
  route cfg allow (mkReq MPost (PAddVersion (IdOk p)) (COk c) CTHistory cs) =
  if N.ltb MAX_SIZE n || N.eqb n 0 then HRet (plain 400) else av_loop AV_FUEL cfg c p (body_of cs).
Proof. exact add_version_body. Qed.

(* no request — malformed or not — is ever answered 5xx (or runs out of retry fuel), after any
   HTTP history, on either backend: every status is one of 200 400 403 404 409 410 *)
Theorem C15_no_5xx : forall k cfg allow h, cfg_ok cfg -> horacle_ok h ->
  Forall (fun r => ok_status (rs_status r)) (hresponses k cfg allow h).
Proof. exact no_5xx. Qed.

Example C15_malformed_examples :
  malformed (mkReq MOther (PAddVersion (IdOk 1)) (COk 2) CTHistory [mkChunk 1 [7]]) /\
  malformed (mkReq MPost (PAddVersion (IdOk 1)) (COk 2) CTHistory [mkChunk 104857600 [1]; mkChunk 1 [2]]) /\
  malformed (mkReq MPost (PAddSnapshot (IdOk 1)) CNonText CTSnapshot [mkChunk 1 [7]]) /\
  malformed (mkReq MGet PSnapshot CAbsent CTAbsent []).
Proof.
  repeat split.
  - apply M_route. reflexivity.
  - eapply M_body_av; reflexivity.
  - apply M_cid; reflexivity.
  - apply M_cid; reflexivity.
Qed.
