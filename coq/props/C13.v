(* C13 — all storage backends, and a reopened database, behave identically. *)
From TSS Require Import Seq proofs.Inv proofs.Agree proofs.Pure.

(* the same history yields the same responses on the in-memory and the SQLite model (ids are
   supplied by the environment; times are whole seconds in the model) *)
Theorem C13_backends_agree : forall cfg h, oracle_ok h ->
  responses BInMem cfg h = responses BSqlite cfg h.
Proof. exact backends_agree. Qed.

(* both equal the abstract store's responses: the storage contract is never left *)
Theorem C13_backends_refine_contract : forall k cfg h, oracle_ok h ->
  responses k cfg h = aresponses cfg h.
Proof. exact responses_agree. Qed.

(* removing the Reopen steps from a history changes no other response *)
Theorem C13_reopen_noop : forall k cfg h,
  responses k cfg (filter (fun oe => not_reopen (fst oe)) h) =
  map snd (filter (fun x => not_reopen (fst (fst x))) (combine h (responses k cfg h))).
Proof. exact reopen_noop. Qed.
