(* C13 — all storage backends, and a reopened database, behave identically. *)
From TSS Require Import Seq AStore L0 InMem Sqlite Http proofs.RefineSqlite proofs.RefineInMem proofs.Inv proofs.Agree proofs.Pure proofs.L0Props proofs.UrgencyArith proofs.HttpProps proofs.HttpReach proofs.HttpLib2.

(* the same history yields the same responses on the in-memory and the SQLite model (ids are
   supplied by the environment; times are whole seconds in the model) *)
Theorem C13_backends_agree : forall cfg h, oracle_ok h ->
  responses BInMem cfg h = responses BSqlite cfg h.
Proof. exact backends_agree. Qed.

(* both equal the abstract store's responses: the storage contract is never left *)
Theorem C13_backends_refine_contract : forall k cfg h, oracle_ok h ->
  responses k cfg h = aresponses cfg h.
Proof. exact responses_agree. Qed.

(* removing the Reopen steps from a history changes no other response *)
Theorem C13_reopen_noop : forall k cfg h,
  responses k cfg (filter (fun oe => not_reopen (fst oe)) h) =
  map snd (filter (fun x => not_reopen (fst (fst x))) (combine h (responses k cfg h))).
Proof. exact reopen_noop. Qed.

(* the storage interface call by call (what the storage-trait rig runs against the real backends):
   for ANY sequence of the eight StorageTxn calls inside one transaction — sequences the server
   never issues included — as long as the sequence stays inside the storage contract (the abstract
   store is not poisoned), the in-memory model and the SQLite table model give the same answer to
   every call, from any pair of stores that represent the same abstract store *)
Theorem C13_storage_calls_backends_agree : forall a (s1 : b_st InMemB) (s2 : b_st SqliteB) cid cs,
  Rs_im a s1 -> Rs_sq a s2 -> a_ok (snd (l0_txn AStoreB a cid cs)) = true ->
  fst (l0_txn InMemB s1 cid cs) = fst (l0_txn SqliteB s2 cid cs).
Proof. exact storage_calls_backends_agree. Qed.

(* non-vacuity: a transaction that creates a client, adds two versions, stores a snapshot, reads
   everything back and commits is inside the contract *)
Example C13_storage_calls_nonvacuous :
  a_ok (snd (l0_txn AStoreB a_empty 1%N
    [CGetClient; CNewClient 0%N; CAddVersion 2%N 0%N [1%N]; CAddVersion 3%N 2%N [2%N];
     CSetSnapshot (mkSnap 2%N 0%Z 0%N) [9%N]; CGetSnapshotData 2%N; CGetByParent 0%N; CGetVersion 3%N; CCommit])) = true /\
  Rs_im a_empty im_empty /\ Rs_sq a_empty sq_empty.
Proof. split; [vm_compute; reflexivity|]. split; [exact Rs_im_empty|exact Rs_sq_empty]. Qed.

(* as HTTP clients see it: every HTTP history is answered alike on both backends *)
Theorem C13_http_backends_agree : forall cfg allow h, cfg_ok cfg -> horacle_ok h ->
  hresponses BInMem cfg allow h = hresponses BSqlite cfg allow h.
Proof. exact http_backends_agree. Qed.
