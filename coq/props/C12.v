(* C12 — Snapshot requests track snapshot age and versions since, for every config.
   Statements only; proofs live in theories/proofs.  cfg_ok = both targets non-negative and
   inside their integer types (i64 / u32). *)
From TSS Require Import Urgency proofs.UrgencyArith Seq Http proofs.Inv proofs.Agree proofs.Hist proofs.Snapshot proofs.Counter proofs.HttpProps proofs.HttpReach proofs.HttpLib proofs.HttpLib2.
From Coq Require Import ZArith.
Open Scope Z_scope.

(* For every configured target the computation succeeds: no intermediate leaves the integer
   type the (repaired) code computes it in, so neither a debug build (trap) nor a release
   build (wrap) can deviate from the unbounded-integer meaning. *)
Theorem C12_no_overflow : forall cfg snap now, cfg_ok cfg ->
  urgency_of cfg snap now =
  Some match snap with
       | None => UHigh
       | Some sm => umax (for_days cfg (num_days now (sm_time sm))) (for_versions cfg (sm_since sm))
       end.
Proof. exact urgency_no_overflow. Qed.

(* The high threshold is never below the low one. *)
Theorem C12_thresholds_ordered : forall cfg, cfg_ok cfg ->
  snapshot_days cfg <= Z.quot (snapshot_days cfg * 3) 2 /\
  Z.of_N (snapshot_versions cfg) <= Z.quot (Z.of_N (snapshot_versions cfg) * 3) 2.
Proof. exact thresholds_ordered. Qed.

(* and it is "one and a half times the target", rounded down *)
Theorem C12_high_is_one_and_a_half : forall t, 0 <= t ->
  let h := Z.quot (t * 3) 2 in 2 * h <= 3 * t < 2 * h + 2.
Proof. exact high_threshold_is_one_and_a_half. Qed.

(* high / low / none exactly as the property says, from the two measures only *)
Theorem C12_classify : forall cfg sm now, cfg_ok cfg ->
  let days := num_days now (sm_time sm) in
  let since := Z.of_N (sm_since sm) in
  let dlow := snapshot_days cfg in let dhigh := Z.quot (dlow * 3) 2 in
  let vlow := Z.of_N (snapshot_versions cfg) in let vhigh := Z.quot (vlow * 3) 2 in
  forall u, urgency_of cfg (Some sm) now = Some u ->
  (u = UHigh <-> (dhigh <= days \/ vhigh <= since)) /\
  (u = ULow <-> (~ (dhigh <= days \/ vhigh <= since) /\ (dlow <= days \/ vlow <= since))) /\
  (u = UNone <-> (days < dlow /\ since < vlow)).
Proof. exact urgency_classify. Qed.

Theorem C12_no_snapshot_high : forall cfg now, urgency_of cfg None now = Some UHigh.
Proof. reflexivity. Qed.

(* urgency never decreases as either measure grows *)
Theorem C12_monotone : forall cfg v ts since since' now now' u u',
  cfg_ok cfg -> now <= now' -> (since <= since')%N ->
  urgency_of cfg (Some (mkSnap v ts since)) now = Some u ->
  urgency_of cfg (Some (mkSnap v ts since')) now' = Some u' ->
  urg_le u u'.
Proof. exact urgency_monotone. Qed.

(* the premises are satisfiable, at the extremes of both types *)
Example C12_cfg_ok_extremes :
  cfg_ok (mkConfig (2 ^ 63 - 1) 4294967295) /\ cfg_ok (mkConfig 0 0) /\ cfg_ok default_config.
Proof. unfold cfg_ok; cbn. repeat split; try discriminate; reflexivity. Qed.

(* finding F1: the arithmetic of the pinned tree violates both halves *)
Theorem C12_pinned_release_refuted :
  exists cfg since, cfg_ok cfg /\
    for_versions_pinned_release cfg since = UHigh /\ Z.of_N since < Z.of_N (snapshot_versions cfg).
Proof. exact pinned_release_refuted. Qed.
Theorem C12_pinned_debug_refuted :
  exists cfg since, cfg_ok cfg /\ for_versions_pinned_debug cfg since = None.
Proof. exact pinned_debug_refuted. Qed.

(* history half: ghost_meta recomputes, from requests and responses only, the snapshot record
   (version, time stored, versions since): reset to (v, now, 0) when an upload is accepted by the
   rule of C10, +1 for every accepted version of the client (Backdate / SetCounter are the
   harness's knobs).  The urgency sent with an accepted version is urgency_of that record as it
   was BEFORE the request — so the counter it uses is the number of versions accepted since the
   snapshot was stored (bounded by 2^32 in the implementation's u32, not in the model). *)
Theorem C12_from_pre_request_record : forall k cfg h c p d E u,
  oracle_ok (h ++ [(OAddVersion c p d, E)]) ->
  responses k cfg (h ++ [(OAddVersion c p d, E)]) = responses k cfg h ++ [RAdded (e_fresh E) u] ->
  u = urgency_of cfg (ghost_meta c h (responses k cfg h) [] None) (e_now E).
Proof. exact urgency_from_pre_request_record. Qed.

(* as HTTP clients see it: the X-Snapshot-Request header of an accepted upload (status 200) after ANY
   HTTP history is absent / urgency=low / urgency=high exactly as urgency_of says for the snapshot
   record as it was before the request, recomputed from the history alone (ghost_meta over the
   library view of the HTTP history, C14): high for a client without a snapshot *)
Theorem C12_http_urgency_header : forall k cfg allow h c p cs E r,
  cfg_ok cfg -> client_id_header allow (COk c) = inl c -> body_refused cs = false ->
  let av := mkReq MPost (PAddVersion (IdOk p)) (COk c) CTHistory cs in
  horacle_ok (h ++ [(av, E)]) ->
  hresponses k cfg allow (h ++ [(av, E)]) = hresponses k cfg allow h ++ [r] -> rs_status r = 200%N ->
  rs_snapshot_req r =
  match urgency_of cfg (ghost_meta c (lib_of allow h) (responses k cfg (lib_of allow h)) [] None) (e_now E) with
  | Some ULow => Some ULow | Some UHigh => Some UHigh | _ => None
  end.
Proof. exact http_urgency_header. Qed.
