(* C02 — AddVersion is an atomic compare-and-append on the latest version.
   For every backend k, every history h (any clients, any id arguments, reopen anywhere) and
   every further AddVersion(c, p, d): with acc = the versions accepted for c so far (read off
   the responses) the request is accepted exactly when acc is empty or p is the latest accepted
   id; when accepted the response carries the id supplied by the id generator (non-nil and new
   by the oracle assumption, see C02_fresh_id_is_new); when rejected it names the latest. *)
From TSS Require Import Seq proofs.Chain proofs.Inv proofs.Agree proofs.Hist proofs.Cas Http proofs.UrgencyArith proofs.HttpProps proofs.HttpReach proofs.HttpLib AStore proofs.Pointer.
Open Scope N_scope.

Theorem C02_add_version_cas : forall k cfg h c p d E,
  oracle_ok (h ++ [(OAddVersion c p d, E)]) ->
  let acc := accepted c h (responses k cfg h) in
  exists r, responses k cfg (h ++ [(OAddVersion c p d, E)]) = responses k cfg h ++ [r] /\
  (r = RNoClient \/
   ((acc = [] \/ p = latest_of acc) /\ exists u, r = RAdded (e_fresh E) u) \/
   (~ (acc = [] \/ p = latest_of acc) /\ r = RConflict (latest_of acc))).
Proof. exact add_version_cas. Qed.

(* when accepted, the new version is stored with exactly the submitted parent and payload and
   becomes the latest: the end-to-end walk (C01) of the extended history returns
   acc ++ [new version] — instance of C01_chain_walk, stated here for the appended record *)
Theorem C02_accepted_is_stored : forall k cfg h c p d E u,
  oracle_ok (h ++ [(OAddVersion c p d, E)]) ->
  responses k cfg (h ++ [(OAddVersion c p d, E)]) = responses k cfg h ++ [RAdded (e_fresh E) u] ->
  let h' := h ++ [(OAddVersion c p d, E)] in
  accepted c h' (responses k cfg h') = accepted c h (responses k cfg h) ++ [mkVersion (e_fresh E) p d] /\
  responses k cfg (h' ++ walk_ops c (accepted c h' (responses k cfg h'))) =
  responses k cfg h' ++ map RFound (accepted c h' (responses k cfg h')) ++ [RNotFound].
Proof.
  intros k cfg h c p d E u Hor Hr h'.
  assert (Hacc : accepted c h' (responses k cfg h') =
                 accepted c h (responses k cfg h) ++ [mkVersion (e_fresh E) p d]).
  { unfold h'. rewrite Hr. rewrite accepted_app.
    - cbn. rewrite N.eqb_refl. reflexivity.
    - assert (Hor1 : oracle_ok h) by (apply oracle_ok_from_app in Hor; tauto).
      rewrite (responses_agree k cfg h Hor1). unfold aresponses. symmetry. apply arun_length. }
  split; [exact Hacc|]. apply walk_returns_accepted_k; [exact Hor|].
  fold h'. rewrite Hacc. destruct (accepted c h (responses k cfg h)); discriminate.
Qed.

(* when rejected nothing changes: every later response is what it would have been without
   the rejected request *)
Theorem C02_rejected_no_effect : forall k cfg h c p d E h2 l,
  oracle_ok (h ++ (OAddVersion c p d, E) :: h2) -> oracle_ok (h ++ h2) ->
  responses k cfg (h ++ [(OAddVersion c p d, E)]) = responses k cfg h ++ [RConflict l] ->
  responses k cfg (h ++ (OAddVersion c p d, E) :: h2) =
  responses k cfg h ++ RConflict l :: skipn (length h) (responses k cfg (h ++ h2)).
Proof. exact rejected_add_version_no_effect. Qed.

(* what the oracle assumption says about a server-generated id: non-nil, different from every
   id that occurs in an earlier request, in this request, or was generated before *)
Theorem C02_fresh_id_is_new : forall h c p d E,
  oracle_ok (h ++ [(OAddVersion c p d, E)]) ->
  e_fresh E <> nil_id /\ e_fresh E <> p /\ e_fresh E <> c /\ ~ In (e_fresh E) (used_after [] h).
Proof.
  intros h c p d E Hor. apply oracle_ok_from_app in Hor. destruct Hor as [_ [Hf _]].
  cbn in Hf. unfold usedp in Hf. cbn in Hf. repeat split; intros H; apply Hf; auto.
Qed.

(* the same as HTTP clients see it: after ANY HTTP history h (any routes, methods, headers, bodies,
   clients; refused requests included) a well-formed add-version request of an allowed client with
   parent p is answered 200 with X-Version-Id = the generated id (and nothing but the snapshot
   request header besides) exactly when the client has no accepted version yet or p is the latest
   accepted one, and 409 with X-Parent-Version-Id = the latest accepted id otherwise.  `acc` is the
   list of versions accepted for c, read off the library view of h (C14_http_history_is_library_history:
   an accepted version is an add-version request answered 200 with that X-Version-Id). *)
Theorem C02_http_add_version_cas : forall k cfg allow h c p cs E,
  cfg_ok cfg -> client_id_header allow (COk c) = inl c -> body_refused cs = false ->
  let av := mkReq MPost (PAddVersion (IdOk p)) (COk c) CTHistory cs in
  horacle_ok (h ++ [(av, E)]) ->
  let acc := accepted c (lib_of allow h) (responses k cfg (lib_of allow h)) in
  exists r, hresponses k cfg allow (h ++ [(av, E)]) = hresponses k cfg allow h ++ [r] /\
    (((acc = [] \/ p = latest_of acc) /\ exists xs, r = mkResp 200 (Some (e_fresh E)) None xs None [] true) \/
     (~ (acc = [] \/ p = latest_of acc) /\ r = mkResp 409 None (Some (latest_of acc)) None None [] true)).
Proof. exact http_add_version_cas. Qed.

(* "the client has no versions yet" can be read off the latest pointer, and the pointer names the newest
   stored version: in every state any history reaches (the stored record is the abstract store's,
   which both backends refine) *)
Theorem C02_latest_nil_iff_no_versions : forall cfg h c x, oracle_ok h ->
  a_cl (state_after cfg h) c = Some x -> (a_latest x = nil_id <-> a_vers x = []).
Proof. exact latest_nil_iff_no_versions. Qed.

Theorem C02_latest_is_newest_stored : forall cfg h c x, oracle_ok h ->
  a_cl (state_after cfg h) c = Some x -> a_vers x <> [] ->
  exists pre v, a_vers x = pre ++ [v] /\ a_latest x = v_id v.
Proof. exact latest_is_newest_stored. Qed.
