(* C18 — reads and rejected writes leave stored state untouched. *)
From TSS Require Import AStore Seq Http proofs.Chain proofs.Steps proofs.Inv proofs.Agree proofs.Hist proofs.Cas proofs.Snapshot proofs.Pure proofs.UrgencyArith proofs.HttpProps proofs.HttpReach proofs.HttpLib proofs.HttpLib2.
Open Scope N_scope.

(* (1) on the concrete store models, for ANY store contents: after GetChildVersion,
   GetSnapshot (and the harness's dump / reopen) the InMem maps / SQLite tables are EQUAL to
   those before — counters and timestamps included *)
Theorem C18_reads_pure : forall k cfg (s : b_st (bk_backend k)) o E, is_read o = true ->
  snd (fst (step (bk_backend k) cfg s (o, E))) = s.
Proof. exact read_requests_pure. Qed.

(* (2) likewise a conflicting AddVersion, or one for a client the server has never seen *)
Theorem C18_rejected_add_version_pure : forall k cfg (s : b_st (bk_backend k)) c p d E,
  let r := fst (fst (step (bk_backend k) cfg s (OAddVersion c p d, E))) in
  (r = RNoClient \/ exists l, r = RConflict l) ->
  snd (fst (step (bk_backend k) cfg s (OAddVersion c p d, E))) = s.
Proof. exact rejected_add_version_pure. Qed.

(* (3) observationally, for every reachable state: any read, issued anywhere in a history,
   can be deleted without changing any later response — later complete dumps of every client
   through the transaction API (ODump) included *)
Theorem C18_reads_no_effect : forall k cfg h o E h2, is_read o = true ->
  oracle_ok (h ++ (o, E) :: h2) -> oracle_ok (h ++ h2) ->
  exists r, responses k cfg (h ++ (o, E) :: h2) =
            responses k cfg h ++ r :: skipn (length h) (responses k cfg (h ++ h2)).
Proof. exact reads_no_effect. Qed.

(* (4) the same for a conflicting AddVersion ... *)
Theorem C18_conflict_no_effect : forall k cfg h c p d E h2 l,
  oracle_ok (h ++ (OAddVersion c p d, E) :: h2) -> oracle_ok (h ++ h2) ->
  responses k cfg (h ++ [(OAddVersion c p d, E)]) = responses k cfg h ++ [RConflict l] ->
  responses k cfg (h ++ (OAddVersion c p d, E) :: h2) =
  responses k cfg h ++ RConflict l :: skipn (length h) (responses k cfg (h ++ h2)).
Proof. exact rejected_add_version_no_effect. Qed.

(* (5) ... and for a declined AddSnapshot (GetSnapshot answers the same before and after) *)
Theorem C18_declined_snapshot_no_effect : forall k cfg h c v d E h2,
  oracle_ok (h ++ (OAddSnapshot c v d, E) :: h2) -> oracle_ok (h ++ h2) ->
  responses k cfg (h ++ [(OAddSnapshot c v d, E); (OGetSnapshot c, noenv)]) =
    responses k cfg (h ++ [(OAddSnapshot c v d, E)]) ++ [last (responses k cfg (h ++ [(OGetSnapshot c, noenv)])) RError] ->
  (forall s ds, last (responses k cfg (h ++ [(OGetSnapshot c, noenv)])) RError = RSnap s ds -> (s, ds) <> (v, d)) ->
  responses k cfg (h ++ (OAddSnapshot c v d, E) :: h2) =
  responses k cfg h ++ last (responses k cfg (h ++ [(OAddSnapshot c v d, E)])) RError
                       :: skipn (length h) (responses k cfg (h ++ h2)).
Proof. exact declined_snapshot_no_effect. Qed.

(* (4) as HTTP clients see it: EVERY GET request and EVERY request answered with a status other
   than 200 (400, 403, 404, 409, 410 — malformed, unlisted, unknown client, conflicting AddVersion,
   AddSnapshot for a client the server has never seen, unknown route) leaves no trace: all later
   responses, for every client, are exactly what they would have been had the request never been
   made — after any HTTP history, on either backend. *)
Theorem C18_http_nonmutating_no_effect : forall k cfg allow h rq E h2,
  cfg_ok cfg -> horacle_ok (h ++ (rq, E) :: h2) -> horacle_ok (h ++ h2) ->
  exists r, hresponses k cfg allow (h ++ [(rq, E)]) = hresponses k cfg allow h ++ [r] /\
    (rq_method rq = MGet \/ rs_status r <> 200 ->
     hresponses k cfg allow (h ++ (rq, E) :: h2) =
     hresponses k cfg allow h ++ r :: skipn (length h) (hresponses k cfg allow (h ++ h2))).
Proof. exact http_nonmutating_no_effect. Qed.
