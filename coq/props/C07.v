(* C07 — accepted history is immutable: once a version has been accepted (during h1), then
   after ANY further history h2 (more versions, snapshots, rejected requests, other clients,
   reopen), asking for the child of its parent returns that same id, parent and payload. *)
From TSS Require Import Seq proofs.Inv proofs.Agree proofs.Hist Http proofs.UrgencyArith proofs.HttpProps proofs.HttpReach proofs.HttpLib.

Theorem C07_history_immutable : forall k cfg h1 h2 c ver, oracle_ok (h1 ++ h2) ->
  In ver (accepted c h1 (responses k cfg h1)) ->
  responses k cfg (h1 ++ h2 ++ [(OGetChild c (v_parent ver), noenv)]) =
  responses k cfg (h1 ++ h2) ++ [RFound ver].
Proof. exact history_immutable_k. Qed.

(* the same as HTTP clients see it, malformed requests included: h1 and h2 are ANY HTTP histories
   (any routes, methods, headers, bodies, clients); if the add-version request (client c allowed,
   body accepted) was answered 200 with X-Version-Id v, then after h2 a get-child-version request
   for its parent p is answered 200 with X-Version-Id v, X-Parent-Version-Id p, the history-segment
   content type and exactly the uploaded body — on both backends *)
Theorem C07_http_history_immutable : forall k cfg allow h1 h2 c p cs E E' ct0 cs0 v xs,
  cfg_ok cfg -> client_id_header allow (COk c) = inl c -> body_refused cs = false ->
  let av := mkReq MPost (PAddVersion (IdOk p)) (COk c) CTHistory cs in
  let gcv := mkReq MGet (PGetChild (IdOk p)) (COk c) ct0 cs0 in
  horacle_ok ((h1 ++ (av, E) :: h2) ++ [(gcv, E')]) ->
  nth_error (hresponses k cfg allow (h1 ++ (av, E) :: h2)) (length h1) = Some (mkResp 200 (Some v) None xs None [] true) ->
  hresponses k cfg allow ((h1 ++ (av, E) :: h2) ++ [(gcv, E')]) =
  hresponses k cfg allow (h1 ++ (av, E) :: h2) ++ [mkResp 200 (Some v) (Some p) None (Some RTHistory) (body_of cs) true].
Proof. exact http_history_immutable. Qed.

(* non-vacuity: a first request for a new client on a non-nil parent, a refused request, another
   client's upload and a snapshot in between *)
Example C07_http_nonvacuous :
  let av := mkReq MPost (PAddVersion (IdOk 7%N)) (COk 5%N) CTHistory [mkChunk 2 [1%N; 2%N]] in
  let h2 := [(mkReq MPost (PAddVersion IdBad) (COk 5%N) CTHistory [], mkEnv 0 0);
             (mkReq MPost (PAddVersion (IdOk 0%N)) (COk 6%N) CTHistory [mkChunk 1 [3%N]], mkEnv 11 0);
             (mkReq MPost (PAddSnapshot (IdOk 10%N)) (COk 5%N) CTSnapshot [mkChunk 1 [9%N]], mkEnv 0 5)] in
  nth_error (hresponses BSqlite default_config None ([] ++ (av, mkEnv 10 0) :: h2)) 0 =
    Some (mkResp 200 (Some 10%N) None (Some UHigh) None [] true) /\ cfg_ok default_config.
Proof. split; [vm_compute; reflexivity|vm_compute; repeat split; intros H; discriminate H]. Qed.
