(* C07 — accepted history is immutable: once a version has been accepted (during h1), then
   after ANY further history h2 (more versions, snapshots, rejected requests, other clients,
   reopen), asking for the child of its parent returns that same id, parent and payload. *)
From TSS Require Import Seq proofs.Inv proofs.Agree proofs.Hist.

Theorem C07_history_immutable : forall k cfg h1 h2 c ver, oracle_ok (h1 ++ h2) ->
  In ver (accepted c h1 (responses k cfg h1)) ->
  responses k cfg (h1 ++ h2 ++ [(OGetChild c (v_parent ver), noenv)]) =
  responses k cfg (h1 ++ h2) ++ [RFound ver].
Proof. exact history_immutable_k. Qed.
