
type __ = Obj.t
let __ = let rec f _ = Obj.repr f in Obj.repr f

(** val negb : bool -> bool **)

let negb = function
| true -> false
| false -> true

type nat =
| O
| S of nat

(** val option_map : ('a1 -> 'a2) -> 'a1 option -> 'a2 option **)

let option_map f = function
| Some a -> Some (f a)
| None -> None

(** val fst : ('a1 * 'a2) -> 'a1 **)

let fst = function
| (x, _) -> x

(** val snd : ('a1 * 'a2) -> 'a2 **)

let snd = function
| (_, y) -> y

(** val app : 'a1 list -> 'a1 list -> 'a1 list **)

let rec app l m =
  match l with
  | [] -> m
  | a :: l1 -> a :: (app l1 m)

type comparison =
| Eq
| Lt
| Gt

(** val compOpp : comparison -> comparison **)

let compOpp = function
| Eq -> Eq
| Lt -> Gt
| Gt -> Lt

module Nat =
 struct
  (** val eqb : nat -> nat -> bool **)

  let rec eqb n0 m =
    match n0 with
    | O -> (match m with
            | O -> true
            | S _ -> false)
    | S n' -> (match m with
               | O -> false
               | S m' -> eqb n' m')
 end

(** val map : ('a1 -> 'a2) -> 'a1 list -> 'a2 list **)

let rec map f = function
| [] -> []
| a :: t -> (f a) :: (map f t)

(** val existsb : ('a1 -> bool) -> 'a1 list -> bool **)

let rec existsb f = function
| [] -> false
| a :: l0 -> (||) (f a) (existsb f l0)

(** val filter : ('a1 -> bool) -> 'a1 list -> 'a1 list **)

let rec filter f = function
| [] -> []
| x :: l0 -> if f x then x :: (filter f l0) else filter f l0

(** val find : ('a1 -> bool) -> 'a1 list -> 'a1 option **)

let rec find f = function
| [] -> None
| x :: tl -> if f x then Some x else find f tl

type positive =
| XI of positive
| XO of positive
| XH

type n =
| N0
| Npos of positive

type z =
| Z0
| Zpos of positive
| Zneg of positive

module Pos =
 struct
  type mask =
  | IsNul
  | IsPos of positive
  | IsNeg
 end

module Coq_Pos =
 struct
  (** val succ : positive -> positive **)

  let rec succ = function
  | XI p -> XO (succ p)
  | XO p -> XI p
  | XH -> XO XH

  (** val add : positive -> positive -> positive **)

  let rec add x y =
    match x with
    | XI p ->
      (match y with
       | XI q -> XO (add_carry p q)
       | XO q -> XI (add p q)
       | XH -> XO (succ p))
    | XO p ->
      (match y with
       | XI q -> XI (add p q)
       | XO q -> XO (add p q)
       | XH -> XI p)
    | XH -> (match y with
             | XI q -> XO (succ q)
             | XO q -> XI q
             | XH -> XO XH)

  (** val add_carry : positive -> positive -> positive **)

  and add_carry x y =
    match x with
    | XI p ->
      (match y with
       | XI q -> XI (add_carry p q)
       | XO q -> XO (add_carry p q)
       | XH -> XI (succ p))
    | XO p ->
      (match y with
       | XI q -> XO (add_carry p q)
       | XO q -> XI (add p q)
       | XH -> XO (succ p))
    | XH ->
      (match y with
       | XI q -> XI (succ q)
       | XO q -> XO (succ q)
       | XH -> XI XH)

  (** val pred_double : positive -> positive **)

  let rec pred_double = function
  | XI p -> XI (XO p)
  | XO p -> XI (pred_double p)
  | XH -> XH

  type mask = Pos.mask =
  | IsNul
  | IsPos of positive
  | IsNeg

  (** val succ_double_mask : mask -> mask **)

  let succ_double_mask = function
  | IsNul -> IsPos XH
  | IsPos p -> IsPos (XI p)
  | IsNeg -> IsNeg

  (** val double_mask : mask -> mask **)

  let double_mask = function
  | IsPos p -> IsPos (XO p)
  | x0 -> x0

  (** val double_pred_mask : positive -> mask **)

  let double_pred_mask = function
  | XI p -> IsPos (XO (XO p))
  | XO p -> IsPos (XO (pred_double p))
  | XH -> IsNul

  (** val sub_mask : positive -> positive -> mask **)

  let rec sub_mask x y =
    match x with
    | XI p ->
      (match y with
       | XI q -> double_mask (sub_mask p q)
       | XO q -> succ_double_mask (sub_mask p q)
       | XH -> IsPos (XO p))
    | XO p ->
      (match y with
       | XI q -> succ_double_mask (sub_mask_carry p q)
       | XO q -> double_mask (sub_mask p q)
       | XH -> IsPos (pred_double p))
    | XH -> (match y with
             | XH -> IsNul
             | _ -> IsNeg)

  (** val sub_mask_carry : positive -> positive -> mask **)

  and sub_mask_carry x y =
    match x with
    | XI p ->
      (match y with
       | XI q -> succ_double_mask (sub_mask_carry p q)
       | XO q -> double_mask (sub_mask p q)
       | XH -> IsPos (pred_double p))
    | XO p ->
      (match y with
       | XI q -> double_mask (sub_mask_carry p q)
       | XO q -> succ_double_mask (sub_mask_carry p q)
       | XH -> double_pred_mask p)
    | XH -> IsNeg

  (** val mul : positive -> positive -> positive **)

  let rec mul x y =
    match x with
    | XI p -> add y (XO (mul p y))
    | XO p -> XO (mul p y)
    | XH -> y

  (** val iter : ('a1 -> 'a1) -> 'a1 -> positive -> 'a1 **)

  let rec iter f x = function
  | XI n' -> f (iter f (iter f x n') n')
  | XO n' -> iter f (iter f x n') n'
  | XH -> f x

  (** val compare_cont : comparison -> positive -> positive -> comparison **)

  let rec compare_cont r x y =
    match x with
    | XI p ->
      (match y with
       | XI q -> compare_cont r p q
       | XO q -> compare_cont Gt p q
       | XH -> Gt)
    | XO p ->
      (match y with
       | XI q -> compare_cont Lt p q
       | XO q -> compare_cont r p q
       | XH -> Gt)
    | XH -> (match y with
             | XH -> r
             | _ -> Lt)

  (** val compare : positive -> positive -> comparison **)

  let compare =
    compare_cont Eq

  (** val eqb : positive -> positive -> bool **)

  let rec eqb p q =
    match p with
    | XI p0 -> (match q with
                | XI q0 -> eqb p0 q0
                | _ -> false)
    | XO p0 -> (match q with
                | XO q0 -> eqb p0 q0
                | _ -> false)
    | XH -> (match q with
             | XH -> true
             | _ -> false)
 end

module N =
 struct
  (** val succ_double : n -> n **)

  let succ_double = function
  | N0 -> Npos XH
  | Npos p -> Npos (XI p)

  (** val double : n -> n **)

  let double = function
  | N0 -> N0
  | Npos p -> Npos (XO p)

  (** val add : n -> n -> n **)

  let add n0 m =
    match n0 with
    | N0 -> m
    | Npos p -> (match m with
                 | N0 -> n0
                 | Npos q -> Npos (Coq_Pos.add p q))

  (** val sub : n -> n -> n **)

  let sub n0 m =
    match n0 with
    | N0 -> N0
    | Npos n' ->
      (match m with
       | N0 -> n0
       | Npos m' ->
         (match Coq_Pos.sub_mask n' m' with
          | Coq_Pos.IsPos p -> Npos p
          | _ -> N0))

  (** val compare : n -> n -> comparison **)

  let compare n0 m =
    match n0 with
    | N0 -> (match m with
             | N0 -> Eq
             | Npos _ -> Lt)
    | Npos n' -> (match m with
                  | N0 -> Gt
                  | Npos m' -> Coq_Pos.compare n' m')

  (** val eqb : n -> n -> bool **)

  let eqb n0 m =
    match n0 with
    | N0 -> (match m with
             | N0 -> true
             | Npos _ -> false)
    | Npos p -> (match m with
                 | N0 -> false
                 | Npos q -> Coq_Pos.eqb p q)

  (** val leb : n -> n -> bool **)

  let leb x y =
    match compare x y with
    | Gt -> false
    | _ -> true

  (** val pos_div_eucl : positive -> n -> n * n **)

  let rec pos_div_eucl a b =
    match a with
    | XI a' ->
      let (q, r) = pos_div_eucl a' b in
      let r' = succ_double r in
      if leb b r' then ((succ_double q), (sub r' b)) else ((double q), r')
    | XO a' ->
      let (q, r) = pos_div_eucl a' b in
      let r' = double r in
      if leb b r' then ((succ_double q), (sub r' b)) else ((double q), r')
    | XH ->
      (match b with
       | N0 -> (N0, (Npos XH))
       | Npos p -> (match p with
                    | XH -> ((Npos XH), N0)
                    | _ -> (N0, (Npos XH))))
 end

module Z =
 struct
  (** val double : z -> z **)

  let double = function
  | Z0 -> Z0
  | Zpos p -> Zpos (XO p)
  | Zneg p -> Zneg (XO p)

  (** val succ_double : z -> z **)

  let succ_double = function
  | Z0 -> Zpos XH
  | Zpos p -> Zpos (XI p)
  | Zneg p -> Zneg (Coq_Pos.pred_double p)

  (** val pred_double : z -> z **)

  let pred_double = function
  | Z0 -> Zneg XH
  | Zpos p -> Zpos (Coq_Pos.pred_double p)
  | Zneg p -> Zneg (XI p)

  (** val pos_sub : positive -> positive -> z **)

  let rec pos_sub x y =
    match x with
    | XI p ->
      (match y with
       | XI q -> double (pos_sub p q)
       | XO q -> succ_double (pos_sub p q)
       | XH -> Zpos (XO p))
    | XO p ->
      (match y with
       | XI q -> pred_double (pos_sub p q)
       | XO q -> double (pos_sub p q)
       | XH -> Zpos (Coq_Pos.pred_double p))
    | XH ->
      (match y with
       | XI q -> Zneg (XO q)
       | XO q -> Zneg (Coq_Pos.pred_double q)
       | XH -> Z0)

  (** val add : z -> z -> z **)

  let add x y =
    match x with
    | Z0 -> y
    | Zpos x' ->
      (match y with
       | Z0 -> x
       | Zpos y' -> Zpos (Coq_Pos.add x' y')
       | Zneg y' -> pos_sub x' y')
    | Zneg x' ->
      (match y with
       | Z0 -> x
       | Zpos y' -> pos_sub y' x'
       | Zneg y' -> Zneg (Coq_Pos.add x' y'))

  (** val opp : z -> z **)

  let opp = function
  | Z0 -> Z0
  | Zpos x0 -> Zneg x0
  | Zneg x0 -> Zpos x0

  (** val sub : z -> z -> z **)

  let sub m n0 =
    add m (opp n0)

  (** val mul : z -> z -> z **)

  let mul x y =
    match x with
    | Z0 -> Z0
    | Zpos x' ->
      (match y with
       | Z0 -> Z0
       | Zpos y' -> Zpos (Coq_Pos.mul x' y')
       | Zneg y' -> Zneg (Coq_Pos.mul x' y'))
    | Zneg x' ->
      (match y with
       | Z0 -> Z0
       | Zpos y' -> Zneg (Coq_Pos.mul x' y')
       | Zneg y' -> Zpos (Coq_Pos.mul x' y'))

  (** val pow_pos : z -> positive -> z **)

  let pow_pos z0 =
    Coq_Pos.iter (mul z0) (Zpos XH)

  (** val pow : z -> z -> z **)

  let pow x = function
  | Z0 -> Zpos XH
  | Zpos p -> pow_pos x p
  | Zneg _ -> Z0

  (** val compare : z -> z -> comparison **)

  let compare x y =
    match x with
    | Z0 -> (match y with
             | Z0 -> Eq
             | Zpos _ -> Lt
             | Zneg _ -> Gt)
    | Zpos x' -> (match y with
                  | Zpos y' -> Coq_Pos.compare x' y'
                  | _ -> Gt)
    | Zneg x' ->
      (match y with
       | Zneg y' -> compOpp (Coq_Pos.compare x' y')
       | _ -> Lt)

  (** val leb : z -> z -> bool **)

  let leb x y =
    match compare x y with
    | Gt -> false
    | _ -> true

  (** val ltb : z -> z -> bool **)

  let ltb x y =
    match compare x y with
    | Lt -> true
    | _ -> false

  (** val of_N : n -> z **)

  let of_N = function
  | N0 -> Z0
  | Npos p -> Zpos p

  (** val quotrem : z -> z -> z * z **)

  let quotrem a b =
    match a with
    | Z0 -> (Z0, Z0)
    | Zpos a0 ->
      (match b with
       | Z0 -> (Z0, a)
       | Zpos b0 ->
         let (q, r) = N.pos_div_eucl a0 (Npos b0) in ((of_N q), (of_N r))
       | Zneg b0 ->
         let (q, r) = N.pos_div_eucl a0 (Npos b0) in
         ((opp (of_N q)), (of_N r)))
    | Zneg a0 ->
      (match b with
       | Z0 -> (Z0, a)
       | Zpos b0 ->
         let (q, r) = N.pos_div_eucl a0 (Npos b0) in
         ((opp (of_N q)), (opp (of_N r)))
       | Zneg b0 ->
         let (q, r) = N.pos_div_eucl a0 (Npos b0) in
         ((of_N q), (opp (of_N r))))

  (** val quot : z -> z -> z **)

  let quot a b =
    fst (quotrem a b)
 end

type id = n

(** val nil_id : id **)

let nil_id =
  N0

type payload = n list

type version = { v_id : id; v_parent : id; v_data : payload }

type snapmeta = { sm_version : id; sm_time : z; sm_since : n }

type client = { c_latest : id; c_snap : snapmeta option }

type err =
| ENoSuchClient
| EOther
| EFuel

type 'a res =
| Ok of 'a
| Err of err

(** val oid_eqb : id option -> id option -> bool **)

let oid_eqb a b =
  match a with
  | Some x -> (match b with
               | Some y -> N.eqb x y
               | None -> false)
  | None -> (match b with
             | Some _ -> false
             | None -> true)

(** val alookup :
    ('a1 -> 'a1 -> bool) -> 'a1 -> ('a1 * 'a2) list -> 'a2 option **)

let rec alookup keqb k = function
| [] -> None
| p :: r -> let (k', v) = p in if keqb k k' then Some v else alookup keqb k r

(** val ainsert : 'a1 -> 'a2 -> ('a1 * 'a2) list -> ('a1 * 'a2) list **)

let ainsert k v m =
  (k, v) :: m

(** val pair_eqb : (id * id) -> (id * id) -> bool **)

let pair_eqb a b =
  (&&) (N.eqb (fst a) (fst b)) (N.eqb (snd a) (snd b))

type 'x seff =
| EGetClient
| ENewClient of id
| ESetSnapshot of snapmeta * payload
| EGetSnapshotData of id
| EGetByParent of id
| EGetVersion of id
| EAddVersion of id * id * payload
| ECommit

type label =
| LBegin of id
| LEnd
| LGetClient
| LNewClient
| LSetSnapshot
| LGetSnapshotData
| LGetByParent
| LGetVersion
| LAddVersion
| LCommit

(** val label_of : 'a1 seff -> label **)

let label_of = function
| EGetClient -> LGetClient
| ENewClient _ -> LNewClient
| ESetSnapshot (_, _) -> LSetSnapshot
| EGetSnapshotData _ -> LGetSnapshotData
| EGetByParent _ -> LGetByParent
| EGetVersion _ -> LGetVersion
| EAddVersion (_, _, _) -> LAddVersion
| ECommit -> LCommit

type 'a prog =
| Ret of 'a
| Throw of err
| Do of __ seff * (__ -> 'a prog)
| Fresh of (id -> 'a prog)
| Now of (z -> 'a prog)

type 'a hprog =
| HRet of 'a
| HTxn of id * __ prog * (__ res -> 'a hprog)

type env = { e_fresh : id; e_now : z }

type backend = { b_begin : (__ -> id -> __);
                 b_eff : (__ -> __ seff -> __ -> __ res * __);
                 b_end : (__ -> __) }

type b_st = __

type b_ws = __

(** val b_eff : backend -> 'a1 seff -> b_ws -> 'a1 res * b_ws **)

let b_eff b x x0 =
  Obj.magic b.b_eff __ x x0

(** val run_prog :
    backend -> env -> 'a1 prog -> b_ws -> ('a1 res * b_ws) * label list **)

let rec run_prog b e p w =
  match p with
  | Ret a -> (((Ok a), w), [])
  | Throw e0 -> (((Err e0), w), [])
  | Do (e0, k) ->
    let (r, w') = b_eff b e0 w in
    (match r with
     | Ok x ->
       let (p0, t) = run_prog b e (k x) w' in (p0, ((label_of e0) :: t))
     | Err _ -> (((Err EOther), w'), ((label_of e0) :: [])))
  | Fresh k -> run_prog b e (k e.e_fresh) w
  | Now k -> run_prog b e (k e.e_now) w

(** val run_hprog :
    backend -> env -> 'a1 hprog -> b_st -> ('a1 * b_st) * label list **)

let rec run_hprog b e h s =
  match h with
  | HRet a -> ((a, s), [])
  | HTxn (c, body, k) ->
    let (p, t) = run_prog b e body (b.b_begin s c) in
    let (r, w) = p in
    let (p0, t') = run_hprog b e (k r) (b.b_end w) in
    (p0, ((LBegin c) :: (app t (LEnd :: t'))))

type urgency =
| UNone
| ULow
| UHigh

(** val urg_rank : urgency -> z **)

let urg_rank = function
| UNone -> Z0
| ULow -> Zpos XH
| UHigh -> Zpos (XO XH)

(** val umax : urgency -> urgency -> urgency **)

let umax a b =
  if Z.ltb (urg_rank a) (urg_rank b) then b else a

type config = { snapshot_days : z; snapshot_versions : n }

(** val default_config : config **)

let default_config =
  { snapshot_days = (Zpos (XO (XI (XI XH)))); snapshot_versions = (Npos (XO
    (XO (XI (XO (XO (XI XH))))))) }

(** val in_range : z -> z -> z -> bool **)

let in_range lo hi z0 =
  (&&) (Z.leb lo z0) (Z.ltb z0 hi)

(** val in_i128 : z -> bool **)

let in_i128 z0 =
  in_range
    (Z.opp (Z.pow (Zpos (XO XH)) (Zpos (XI (XI (XI (XI (XI (XI XH)))))))))
    (Z.pow (Zpos (XO XH)) (Zpos (XI (XI (XI (XI (XI (XI XH)))))))) z0

(** val in_u64 : z -> bool **)

let in_u64 z0 =
  in_range Z0 (Z.pow (Zpos (XO XH)) (Zpos (XO (XO (XO (XO (XO (XO XH))))))))
    z0

(** val checked : (z -> bool) -> z -> z option **)

let checked inr z0 =
  if inr z0 then Some z0 else None

(** val for_days_m : config -> z -> urgency option **)

let for_days_m cfg days =
  match checked in_i128 (Z.mul cfg.snapshot_days (Zpos (XI XH))) with
  | Some t3 ->
    let high = Z.quot t3 (Zpos (XO XH)) in
    Some
    (if Z.leb high days
     then UHigh
     else if Z.leb cfg.snapshot_days days then ULow else UNone)
  | None -> None

(** val for_versions_m : config -> n -> urgency option **)

let for_versions_m cfg since =
  match checked in_u64 (Z.mul (Z.of_N cfg.snapshot_versions) (Zpos (XI XH))) with
  | Some t3 ->
    let high = Z.quot t3 (Zpos (XO XH)) in
    Some
    (if Z.leb high (Z.of_N since)
     then UHigh
     else if Z.leb (Z.of_N cfg.snapshot_versions) (Z.of_N since)
          then ULow
          else UNone)
  | None -> None

(** val num_days : z -> z -> z **)

let num_days now ts =
  Z.quot (Z.sub now ts) (Zpos (XO (XO (XO (XO (XO (XO (XO (XI (XI (XO (XO (XO
    (XI (XO (XI (XO XH)))))))))))))))))

(** val urgency_of : config -> snapmeta option -> z -> urgency option **)

let urgency_of cfg snap now =
  match snap with
  | Some sm ->
    (match for_days_m cfg (num_days now sm.sm_time) with
     | Some a ->
       (match for_versions_m cfg sm.sm_since with
        | Some b -> Some (umax a b)
        | None -> None)
     | None -> None)
  | None -> Some UHigh

type gcv_result =
| GFound of version
| GNotFound
| GGone

type av_result =
| AVOk of id
| AVConflict of id

(** val p_get_child_version : id -> gcv_result prog **)

let p_get_child_version p =
  Do (EGetClient, (fun oc ->
    match Obj.magic oc with
    | Some cl ->
      Do ((EGetByParent p), (fun ov ->
        match Obj.magic ov with
        | Some v -> Ret (GFound v)
        | None ->
          Ret
            (if (||) (N.eqb cl.c_latest p) (N.eqb cl.c_latest nil_id)
             then GNotFound
             else GGone)))
    | None -> Throw ENoSuchClient))

(** val p_add_version :
    config -> id -> payload -> (av_result * urgency option) prog **)

let p_add_version cfg p d =
  Do (EGetClient, (fun oc ->
    match Obj.magic oc with
    | Some cl ->
      if (&&) (negb (N.eqb cl.c_latest nil_id)) (negb (N.eqb p cl.c_latest))
      then Ret ((AVConflict cl.c_latest), (Some UNone))
      else Fresh (fun vid -> Do ((EAddVersion (vid, p, d)), (fun _ -> Do
             (ECommit, (fun _ ->
             match cl.c_snap with
             | Some _ ->
               Now (fun now -> Ret ((AVOk vid),
                 (urgency_of cfg cl.c_snap now)))
             | None -> Ret ((AVOk vid), (Some UHigh)))))))
    | None -> Throw ENoSuchClient))

(** val snap_search : nat -> id -> id option -> id -> bool prog **)

let rec snap_search n0 v last vid =
  if (&&) (N.eqb vid v) (negb (N.eqb v nil_id))
  then Ret true
  else if oid_eqb (Some vid) last
       then Ret false
       else (match n0 with
             | O -> Ret false
             | S n' ->
               if (||) (Nat.eqb n' O) (N.eqb vid nil_id)
               then Ret false
               else Do ((EGetVersion vid), (fun ov ->
                      match Obj.magic ov with
                      | Some ver -> snap_search n' v last ver.v_parent
                      | None -> Ret false)))

(** val sNAPSHOT_SEARCH_LEN : nat **)

let sNAPSHOT_SEARCH_LEN =
  S (S (S (S (S O))))

(** val pbind : 'a1 prog -> ('a1 -> 'a2 prog) -> 'a2 prog **)

let rec pbind p f =
  match p with
  | Ret a -> f a
  | Throw e -> Throw e
  | Do (e, k) -> Do (e, (fun x -> pbind (k x) f))
  | Fresh k -> Fresh (fun x -> pbind (k x) f)
  | Now k -> Now (fun x -> pbind (k x) f)

(** val p_add_snapshot : id -> payload -> unit prog **)

let p_add_snapshot v d =
  Do (EGetClient, (fun oc ->
    match Obj.magic oc with
    | Some cl ->
      let last = option_map (fun s -> s.sm_version) cl.c_snap in
      if oid_eqb (Some v) last
      then Ret ()
      else pbind (snap_search sNAPSHOT_SEARCH_LEN v last cl.c_latest)
             (fun found ->
             if found
             then Now (fun now -> Do ((ESetSnapshot ({ sm_version = v;
                    sm_time = now; sm_since = N0 }, d)), (fun _ -> Do
                    (ECommit, (fun _ -> Ret ())))))
             else Ret ())
    | None -> Throw ENoSuchClient))

(** val p_get_snapshot : (id * payload) option prog **)

let p_get_snapshot =
  Do (EGetClient, (fun oc ->
    match Obj.magic oc with
    | Some cl ->
      (match cl.c_snap with
       | Some sm ->
         Do ((EGetSnapshotData sm.sm_version), (fun od -> Ret
           (option_map (fun d -> (sm.sm_version, d)) (Obj.magic od))))
       | None -> Ret None)
    | None -> Throw ENoSuchClient))

type inmem = { im_clients : (id * client) list;
               im_snapshots : (id * payload) list;
               im_versions : ((id * id) * version) list;
               im_children : ((id * id) * id) list }

(** val im_empty : inmem **)

let im_empty =
  { im_clients = []; im_snapshots = []; im_versions = []; im_children = [] }

type im_ws = { iw_cid : id; iw_st : inmem }

(** val bump : snapmeta -> snapmeta **)

let bump sm =
  { sm_version = sm.sm_version; sm_time = sm.sm_time; sm_since =
    (N.add sm.sm_since (Npos XH)) }

(** val im_eff : 'a1 seff -> im_ws -> 'a1 res * im_ws **)

let im_eff e w =
  let c = w.iw_cid in
  let s = w.iw_st in
  (match e with
   | EGetClient -> ((Ok (Obj.magic alookup N.eqb c s.im_clients)), w)
   | ENewClient l ->
     (match alookup N.eqb c s.im_clients with
      | Some _ -> ((Err EOther), w)
      | None ->
        ((Ok (Obj.magic ())), { iw_cid = c; iw_st = { im_clients =
          (ainsert c { c_latest = l; c_snap = None } s.im_clients);
          im_snapshots = s.im_snapshots; im_versions = s.im_versions;
          im_children = s.im_children } }))
   | ESetSnapshot (m, d) ->
     (match alookup N.eqb c s.im_clients with
      | Some cl ->
        ((Ok (Obj.magic ())), { iw_cid = c; iw_st = { im_clients =
          (ainsert c { c_latest = cl.c_latest; c_snap = (Some m) }
            s.im_clients); im_snapshots = (ainsert c d s.im_snapshots);
          im_versions = s.im_versions; im_children = s.im_children } })
      | None -> ((Err EOther), w))
   | EGetSnapshotData v ->
     (match alookup N.eqb c s.im_clients with
      | Some cl ->
        if oid_eqb (Some v) (option_map (fun s0 -> s0.sm_version) cl.c_snap)
        then ((Ok (Obj.magic alookup N.eqb c s.im_snapshots)), w)
        else ((Err EOther), w)
      | None -> ((Err EOther), w))
   | EGetByParent p ->
     (match alookup pair_eqb (c, p) s.im_children with
      | Some vid ->
        ((Ok (Obj.magic alookup pair_eqb (c, vid) s.im_versions)), w)
      | None -> ((Ok (Obj.magic None)), w))
   | EGetVersion v ->
     ((Ok (Obj.magic alookup pair_eqb (c, v) s.im_versions)), w)
   | EAddVersion (v, p, d) ->
     (match alookup N.eqb c s.im_clients with
      | Some cl ->
        let cls =
          ainsert c { c_latest = v; c_snap = (option_map bump cl.c_snap) }
            s.im_clients
        in
        let ch = ainsert (c, p) v s.im_children in
        (match alookup pair_eqb (c, p) s.im_children with
         | Some _ ->
           ((Err EOther), { iw_cid = c; iw_st = { im_clients = cls;
             im_snapshots = s.im_snapshots; im_versions = s.im_versions;
             im_children = ch } })
         | None ->
           let vs =
             ainsert (c, v) { v_id = v; v_parent = p; v_data = d }
               s.im_versions
           in
           (match alookup pair_eqb (c, v) s.im_versions with
            | Some _ ->
              ((Err EOther), { iw_cid = c; iw_st = { im_clients = cls;
                im_snapshots = s.im_snapshots; im_versions = vs;
                im_children = ch } })
            | None ->
              ((Ok (Obj.magic ())), { iw_cid = c; iw_st = { im_clients = cls;
                im_snapshots = s.im_snapshots; im_versions = vs;
                im_children = ch } })))
      | None -> ((Err EOther), w))
   | ECommit -> ((Ok (Obj.magic ())), w))

(** val inMemB : backend **)

let inMemB =
  { b_begin = (fun s c -> Obj.magic { iw_cid = c; iw_st = (Obj.magic s) });
    b_eff = (Obj.magic (fun _ -> im_eff)); b_end =
    (Obj.magic (fun i -> i.iw_st)) }

type crow = { cr_id : id; cr_latest : id; cr_snap_version : id option;
              cr_since : n option; cr_ts : z option; cr_snap : payload option }

type vrow = { vr_id : id; vr_client : id; vr_parent : id; vr_data : payload }

type tables = { t_clients : crow list; t_versions : vrow list }

(** val sq_empty : tables **)

let sq_empty =
  { t_clients = []; t_versions = [] }

type sq_ws = { sw_cid : id; sw_tabs : tables; sw_base : tables;
               sw_committed : bool }

(** val find_crow : id -> tables -> crow option **)

let find_crow c t =
  find (fun r -> N.eqb r.cr_id c) t.t_clients

(** val upd_crow : id -> (crow -> crow) -> tables -> tables **)

let upd_crow c f t =
  { t_clients =
    (map (fun r -> if N.eqb r.cr_id c then f r else r) t.t_clients);
    t_versions = t.t_versions }

(** val to_version : vrow -> version **)

let to_version r =
  { v_id = r.vr_id; v_parent = r.vr_parent; v_data = r.vr_data }

(** val sq_eff : 'a1 seff -> sq_ws -> 'a1 res * sq_ws **)

let sq_eff e w =
  let c = w.sw_cid in
  let t = w.sw_tabs in
  let set = fun t' -> { sw_cid = c; sw_tabs = t'; sw_base = w.sw_base;
    sw_committed = w.sw_committed }
  in
  (match e with
   | EGetClient ->
     (match find_crow c t with
      | Some r ->
        let snap =
          match r.cr_ts with
          | Some ts ->
            (match r.cr_since with
             | Some vs ->
               (match r.cr_snap_version with
                | Some v ->
                  Some { sm_version = v; sm_time = ts; sm_since = vs }
                | None -> None)
             | None -> None)
          | None -> None
        in
        ((Ok (Obj.magic (Some { c_latest = r.cr_latest; c_snap = snap }))), w)
      | None -> ((Ok (Obj.magic None)), w))
   | ENewClient l ->
     ((Ok (Obj.magic ())),
       (set { t_clients =
         (app (filter (fun r -> negb (N.eqb r.cr_id c)) t.t_clients)
           ({ cr_id = c; cr_latest = l; cr_snap_version = None; cr_since =
           None; cr_ts = None; cr_snap = None } :: [])); t_versions =
         t.t_versions }))
   | ESetSnapshot (m, d) ->
     ((Ok (Obj.magic ())),
       (set
         (upd_crow c (fun r -> { cr_id = r.cr_id; cr_latest = r.cr_latest;
           cr_snap_version = (Some m.sm_version); cr_since = (Some
           m.sm_since); cr_ts = (Some m.sm_time); cr_snap = (Some d) }) t)))
   | EGetSnapshotData v ->
     (match find_crow c t with
      | Some r ->
        (match r.cr_snap_version with
         | Some sv ->
           (match r.cr_snap with
            | Some d ->
              if N.eqb sv v
              then ((Ok (Obj.magic (Some d))), w)
              else ((Err EOther), w)
            | None -> ((Err EOther), w))
         | None -> ((Err EOther), w))
      | None -> ((Ok (Obj.magic None)), w))
   | EGetByParent p ->
     ((Ok
       (Obj.magic option_map to_version
         (find (fun r -> (&&) (N.eqb r.vr_parent p) (N.eqb r.vr_client c))
           t.t_versions))), w)
   | EGetVersion v ->
     ((Ok
       (Obj.magic option_map to_version
         (find (fun r -> (&&) (N.eqb r.vr_id v) (N.eqb r.vr_client c))
           t.t_versions))), w)
   | EAddVersion (v, p, d) ->
     if existsb (fun r -> N.eqb r.vr_id v) t.t_versions
     then ((Err EOther), w)
     else let t1 = { t_clients = t.t_clients; t_versions =
            (app t.t_versions ({ vr_id = v; vr_client = c; vr_parent = p;
              vr_data = d } :: [])) }
          in
          ((Ok (Obj.magic ())),
          (set
            (upd_crow c (fun r -> { cr_id = r.cr_id; cr_latest = v;
              cr_snap_version = r.cr_snap_version; cr_since =
              (option_map (fun n0 -> N.add n0 (Npos XH)) r.cr_since); cr_ts =
              r.cr_ts; cr_snap = r.cr_snap }) t1)))
   | ECommit ->
     ((Ok (Obj.magic ())), { sw_cid = c; sw_tabs = t; sw_base = w.sw_base;
       sw_committed = true }))

(** val sq_begin : tables -> id -> sq_ws **)

let sq_begin t c =
  { sw_cid = c; sw_tabs = t; sw_base = t; sw_committed = false }

(** val sq_end : sq_ws -> tables **)

let sq_end w =
  if w.sw_committed then w.sw_tabs else w.sw_base

(** val sqliteB : backend **)

let sqliteB =
  { b_begin = (Obj.magic sq_begin); b_eff = (Obj.magic (fun _ -> sq_eff));
    b_end = (Obj.magic sq_end) }

type probe = (id * version option) * version option

type dumpv = { dm_client : client option;
               dm_snapdata : payload option res option; dm_probes : probe list }

type resp =
| RAdded of id * urgency option
| RConflict of id
| RFound of version
| RNotFound
| RGone
| RSnapAck
| RSnap of id * payload
| RNoSnap
| RNoClient
| RError
| RUnit
| RDump of dumpv

type op =
| OAddVersion of id * id * payload
| OGetChild of id * id
| OAddSnapshot of id * id * payload
| OGetSnapshot of id
| OEnsure of id
| OBackdate of id * z
| OSetCounter of id * n
| OReopen
| ODump of id * id list

(** val err_resp : err -> resp **)

let err_resp = function
| ENoSuchClient -> RNoClient
| _ -> RError

(** val p_ensure : unit prog **)

let p_ensure =
  Do (EGetClient, (fun oc ->
    match Obj.magic oc with
    | Some _ -> Ret ()
    | None ->
      Do ((ENewClient nil_id), (fun _ -> Do (ECommit, (fun _ -> Ret ()))))))

(** val p_rewrite_snapshot : (snapmeta -> snapmeta) -> unit prog **)

let p_rewrite_snapshot f =
  Do (EGetClient, (fun oc ->
    match Obj.magic oc with
    | Some cl ->
      (match cl.c_snap with
       | Some sm ->
         Do ((EGetSnapshotData sm.sm_version), (fun od ->
           match Obj.magic od with
           | Some d ->
             Do ((ESetSnapshot ((f sm), d)), (fun _ -> Do (ECommit, (fun _ ->
               Ret ()))))
           | None -> Ret ()))
       | None -> Ret ())
    | None -> Throw ENoSuchClient))

(** val p_probe : id list -> probe list prog **)

let rec p_probe = function
| [] -> Ret []
| i :: r ->
  Do ((EGetVersion i), (fun a -> Do ((EGetByParent i), (fun b ->
    pbind (p_probe r) (fun l -> Ret (((i, (Obj.magic a)),
      (Obj.magic b)) :: l))))))

(** val dump_h : id -> id list -> resp hprog **)

let dump_h c ids =
  HTxn (c, (Do (EGetClient, (fun oc -> Ret oc))), (fun r1 ->
    match r1 with
    | Ok oc ->
      let sv =
        match Obj.magic oc with
        | Some cl -> option_map (fun s -> s.sm_version) cl.c_snap
        | None -> None
      in
      HTxn (c, (Obj.magic p_probe ids), (fun r3 ->
      match r3 with
      | Ok pr ->
        (match sv with
         | Some v ->
           HTxn (c, (Do ((EGetSnapshotData v), (fun od -> Ret od))),
             (fun r2 -> HRet (RDump { dm_client = (Obj.magic oc);
             dm_snapdata = (Some (Obj.magic r2)); dm_probes =
             (Obj.magic pr) })))
         | None ->
           HRet (RDump { dm_client = (Obj.magic oc); dm_snapdata = None;
             dm_probes = (Obj.magic pr) }))
      | Err _ -> HRet RError))
    | Err _ -> HRet RError))

(** val lib_handler : config -> op -> resp hprog **)

let lib_handler cfg = function
| OAddVersion (c, p, d) ->
  HTxn (c, (Obj.magic p_add_version cfg p d), (fun r -> HRet
    (match r with
     | Ok a ->
       let (a0, u) = Obj.magic a in
       (match a0 with
        | AVOk v -> RAdded (v, u)
        | AVConflict l -> RConflict l)
     | Err e -> err_resp e)))
| OGetChild (c, p) ->
  HTxn (c, (Obj.magic p_get_child_version p), (fun r -> HRet
    (match r with
     | Ok a ->
       (match Obj.magic a with
        | GFound v -> RFound v
        | GNotFound -> RNotFound
        | GGone -> RGone)
     | Err e -> err_resp e)))
| OAddSnapshot (c, v, d) ->
  HTxn (c, (Obj.magic p_add_snapshot v d), (fun r -> HRet
    (match r with
     | Ok _ -> RSnapAck
     | Err e -> err_resp e)))
| OGetSnapshot c ->
  HTxn (c, (Obj.magic p_get_snapshot), (fun r -> HRet
    (match r with
     | Ok a ->
       (match Obj.magic a with
        | Some p -> let (v, d) = p in RSnap (v, d)
        | None -> RNoSnap)
     | Err e -> err_resp e)))
| OEnsure c ->
  HTxn (c, (Obj.magic p_ensure), (fun r -> HRet
    (match r with
     | Ok _ -> RUnit
     | Err e -> err_resp e)))
| OBackdate (c, secs) ->
  HTxn (c,
    (Obj.magic p_rewrite_snapshot (fun sm -> { sm_version = sm.sm_version;
      sm_time = (Z.sub sm.sm_time secs); sm_since = sm.sm_since })),
    (fun r -> HRet (match r with
                    | Ok _ -> RUnit
                    | Err e -> err_resp e)))
| OSetCounter (c, n0) ->
  HTxn (c,
    (Obj.magic p_rewrite_snapshot (fun sm -> { sm_version = sm.sm_version;
      sm_time = sm.sm_time; sm_since = n0 })), (fun r -> HRet
    (match r with
     | Ok _ -> RUnit
     | Err e -> err_resp e)))
| OReopen -> HRet RUnit
| ODump (c, ids) -> dump_h c ids

(** val step :
    backend -> config -> b_st -> (op * env) -> (resp * b_st) * label list **)

let step b cfg s oe =
  run_hprog b (snd oe) (lib_handler cfg (fst oe)) s

(** val run_hist :
    backend -> config -> b_st -> (op * env) list -> resp list * b_st **)

let rec run_hist b cfg s = function
| [] -> ([], s)
| oe :: r ->
  let (p, _) = step b cfg s oe in
  let (a, s') = p in let (l, s'') = run_hist b cfg s' r in ((a :: l), s'')
