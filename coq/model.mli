
type __ = Obj.t

val negb : bool -> bool

type nat =
| O
| S of nat

val option_map : ('a1 -> 'a2) -> 'a1 option -> 'a2 option

val fst : ('a1 * 'a2) -> 'a1

val snd : ('a1 * 'a2) -> 'a2

val app : 'a1 list -> 'a1 list -> 'a1 list

type comparison =
| Eq
| Lt
| Gt

val compOpp : comparison -> comparison

module Nat :
 sig
  val eqb : nat -> nat -> bool
 end

val map : ('a1 -> 'a2) -> 'a1 list -> 'a2 list

val existsb : ('a1 -> bool) -> 'a1 list -> bool

val filter : ('a1 -> bool) -> 'a1 list -> 'a1 list

val find : ('a1 -> bool) -> 'a1 list -> 'a1 option

type positive =
| XI of positive
| XO of positive
| XH

type n =
| N0
| Npos of positive

type z =
| Z0
| Zpos of positive
| Zneg of positive

module Pos :
 sig
  type mask =
  | IsNul
  | IsPos of positive
  | IsNeg
 end

module Coq_Pos :
 sig
  val succ : positive -> positive

  val add : positive -> positive -> positive

  val add_carry : positive -> positive -> positive

  val pred_double : positive -> positive

  type mask = Pos.mask =
  | IsNul
  | IsPos of positive
  | IsNeg

  val succ_double_mask : mask -> mask

  val double_mask : mask -> mask

  val double_pred_mask : positive -> mask

  val sub_mask : positive -> positive -> mask

  val sub_mask_carry : positive -> positive -> mask

  val mul : positive -> positive -> positive

  val iter : ('a1 -> 'a1) -> 'a1 -> positive -> 'a1

  val compare_cont : comparison -> positive -> positive -> comparison

  val compare : positive -> positive -> comparison

  val eqb : positive -> positive -> bool
 end

module N :
 sig
  val succ_double : n -> n

  val double : n -> n

  val add : n -> n -> n

  val sub : n -> n -> n

  val compare : n -> n -> comparison

  val eqb : n -> n -> bool

  val leb : n -> n -> bool

  val pos_div_eucl : positive -> n -> n * n
 end

module Z :
 sig
  val double : z -> z

  val succ_double : z -> z

  val pred_double : z -> z

  val pos_sub : positive -> positive -> z

  val add : z -> z -> z

  val opp : z -> z

  val sub : z -> z -> z

  val mul : z -> z -> z

  val pow_pos : z -> positive -> z

  val pow : z -> z -> z

  val compare : z -> z -> comparison

  val leb : z -> z -> bool

  val ltb : z -> z -> bool

  val of_N : n -> z

  val quotrem : z -> z -> z * z

  val quot : z -> z -> z
 end

type id = n

val nil_id : id

type payload = n list

type version = { v_id : id; v_parent : id; v_data : payload }

type snapmeta = { sm_version : id; sm_time : z; sm_since : n }

type client = { c_latest : id; c_snap : snapmeta option }

type err =
| ENoSuchClient
| EOther
| EFuel

type 'a res =
| Ok of 'a
| Err of err

val oid_eqb : id option -> id option -> bool

val alookup : ('a1 -> 'a1 -> bool) -> 'a1 -> ('a1 * 'a2) list -> 'a2 option

val ainsert : 'a1 -> 'a2 -> ('a1 * 'a2) list -> ('a1 * 'a2) list

val pair_eqb : (id * id) -> (id * id) -> bool

type 'x seff =
| EGetClient
| ENewClient of id
| ESetSnapshot of snapmeta * payload
| EGetSnapshotData of id
| EGetByParent of id
| EGetVersion of id
| EAddVersion of id * id * payload
| ECommit

type label =
| LBegin of id
| LEnd
| LGetClient
| LNewClient
| LSetSnapshot
| LGetSnapshotData
| LGetByParent
| LGetVersion
| LAddVersion
| LCommit

val label_of : 'a1 seff -> label

type 'a prog =
| Ret of 'a
| Throw of err
| Do of __ seff * (__ -> 'a prog)
| Fresh of (id -> 'a prog)
| Now of (z -> 'a prog)

type 'a hprog =
| HRet of 'a
| HTxn of id * __ prog * (__ res -> 'a hprog)

type env = { e_fresh : id; e_now : z }

type backend = { b_begin : (__ -> id -> __);
                 b_eff : (__ -> __ seff -> __ -> __ res * __);
                 b_end : (__ -> __) }

type b_st = __

type b_ws = __

val b_eff : backend -> 'a1 seff -> b_ws -> 'a1 res * b_ws

val run_prog :
  backend -> env -> 'a1 prog -> b_ws -> ('a1 res * b_ws) * label list

val run_hprog :
  backend -> env -> 'a1 hprog -> b_st -> ('a1 * b_st) * label list

type urgency =
| UNone
| ULow
| UHigh

val urg_rank : urgency -> z

val umax : urgency -> urgency -> urgency

type config = { snapshot_days : z; snapshot_versions : n }

val default_config : config

val in_range : z -> z -> z -> bool

val in_i128 : z -> bool

val in_u64 : z -> bool

val checked : (z -> bool) -> z -> z option

val for_days_m : config -> z -> urgency option

val for_versions_m : config -> n -> urgency option

val num_days : z -> z -> z

val urgency_of : config -> snapmeta option -> z -> urgency option

type gcv_result =
| GFound of version
| GNotFound
| GGone

type av_result =
| AVOk of id
| AVConflict of id

val p_get_child_version : id -> gcv_result prog

val p_add_version :
  config -> id -> payload -> (av_result * urgency option) prog

val snap_search : nat -> id -> id option -> id -> bool prog

val sNAPSHOT_SEARCH_LEN : nat

val pbind : 'a1 prog -> ('a1 -> 'a2 prog) -> 'a2 prog

val p_add_snapshot : id -> payload -> unit prog

val p_get_snapshot : (id * payload) option prog

type inmem = { im_clients : (id * client) list;
               im_snapshots : (id * payload) list;
               im_versions : ((id * id) * version) list;
               im_children : ((id * id) * id) list }

val im_empty : inmem

type im_ws = { iw_cid : id; iw_st : inmem }

val bump : snapmeta -> snapmeta

val im_eff : 'a1 seff -> im_ws -> 'a1 res * im_ws

val inMemB : backend

type crow = { cr_id : id; cr_latest : id; cr_snap_version : id option;
              cr_since : n option; cr_ts : z option; cr_snap : payload option }

type vrow = { vr_id : id; vr_client : id; vr_parent : id; vr_data : payload }

type tables = { t_clients : crow list; t_versions : vrow list }

val sq_empty : tables

type sq_ws = { sw_cid : id; sw_tabs : tables; sw_base : tables;
               sw_committed : bool }

val find_crow : id -> tables -> crow option

val upd_crow : id -> (crow -> crow) -> tables -> tables

val to_version : vrow -> version

val sq_eff : 'a1 seff -> sq_ws -> 'a1 res * sq_ws

val sq_begin : tables -> id -> sq_ws

val sq_end : sq_ws -> tables

val sqliteB : backend

type probe = (id * version option) * version option

type dumpv = { dm_client : client option;
               dm_snapdata : payload option res option; dm_probes : probe list }

type resp =
| RAdded of id * urgency option
| RConflict of id
| RFound of version
| RNotFound
| RGone
| RSnapAck
| RSnap of id * payload
| RNoSnap
| RNoClient
| RError
| RUnit
| RDump of dumpv

type op =
| OAddVersion of id * id * payload
| OGetChild of id * id
| OAddSnapshot of id * id * payload
| OGetSnapshot of id
| OEnsure of id
| OBackdate of id * z
| OSetCounter of id * n
| OReopen
| ODump of id * id list

val err_resp : err -> resp

val p_ensure : unit prog

val p_rewrite_snapshot : (snapmeta -> snapmeta) -> unit prog

val p_probe : id list -> probe list prog

val dump_h : id -> id list -> resp hprog

val lib_handler : config -> op -> resp hprog

val step :
  backend -> config -> b_st -> (op * env) -> (resp * b_st) * label list

val run_hist :
  backend -> config -> b_st -> (op * env) list -> resp list * b_st
