"""C17: the real executable under flags / environment variables, over loopback sockets."""
import random
from .l1 import Case
from .trace import Op, Dump, resp_kind, found_version
from .props_l1 import L1Prop, sizes, spec_urgency
from .props_http import HResp, HOp


class C17(L1Prop):
    id = "C17"
    mode = "bin"
    backends = ("sqlite",)
    no_shrink = True
    level = "other"
    explanation = ("The Coq statement (C17_wiring, C17_restart_same_directory) is close to definitional; the property is carried by "
                   "this run: the real executable, built from /repo's working tree, is started under generated configurations "
                   "(flags and environment variables), driven over loopback TCP on every listen address, killed and restarted; "
                   "its responses are compared with the proven HTTP model under the configuration Boot.boot computes from the same "
                   "flags/variables, and with an oracle written from the property text (addresses served, allow-list enforced, "
                   "snapshot targets applied, history identical after restart).")
    rule = ("configurations of the real executable: 1-3 listen addresses (one comma-delimited flag / repeated flags / "
            "LISTEN), 1-3 addresses that differ in the host only (one port), data directory (flag / DATA_DIR / flag over env; absolute or relative to the working directory; ASCII names, names with URI/query characters and names that are not valid UTF-8), allow-list (none / one / many; flag, repeated flags, "
            "CLIENT_ID), snapshot-versions and snapshot-days in {1,2,3,default,large} by flag or environment variable (and flag "
            "over env); the process is started, a history is sent round-robin to EVERY address over raw TCP (chunked bodies "
            "included), killed with SIGKILL, restarted on the same directory and the history re-read; non-trivial = "
            "configuration differing from the defaults in >=2 settings")
    def cases(self, rng, tier):
        n = sizes(tier, 12, 200)
        out = []
        for k in range(n):
            r = random.Random(rng.getrandbits(32))
            nl = r.choice([1, 2, 3])
            lsrc = r.choice(["flag", "flags", "env"])
            # the directory: absolute / RELATIVE to the directory the server is started in (r) / a name with
            # characters that mean something in a URI or a query (s) / a name that is not valid UTF-8 (8)
            dsrc = ["flagr", "flags", "envr", "envs", "flag", "env", "both", "flag8"][(k - k // 3 - 1) % 8] if k % 3 else ["flag8", "env8", "both"][(k // 3) % 3]
            # every fourth configuration with several addresses: they differ in the HOST only (one port)
            same_port = nl > 1 and (k % 4 == 1 or r.random() < 0.2)
            allow = r.choice(["none", "none", "flag:1", "flags:1,2", "env:2", "env:1,2,3", "flag:1,2"])
            # (a target of 0 is meaningful: everything is at least that old; so are targets at the top of their type)
            vk = r.choice([0, 1, 2, 3, 5, 4294967295])
            vsrc = r.choice(["default", f"flag:{vk}", f"env:{vk}", f"both:{vk}/{min(vk + 7, 4294967295)}"])
            dk = r.choice([0, 1, 2, 3, 9223372036854775807])
            ysrc = r.choice(["default", "default", f"flag:{dk}", f"env:{dk}"])
            v6 = (not same_port) and k % 5 == 4
            boot = f"boot listen={lsrc}:{nl}{'h' if same_port else ('6' if v6 else '')} log={['error', 'debug', 'trace'][k % 3]} dir={dsrc} allow={allow} versions={vsrc} days={ysrc}"
            if k % 6 == 5:
                # every switch the executable advertises beyond the options the model knows, switched on
                boot += f" extra=auto:{'flag' if k % 12 == 5 else 'env'}"
            ops = [boot]
            # every third configuration: another connection to the database stays open throughout (a
            # backup tool, a second worker), so that nothing is checkpointed when requests finish and
            # the acknowledged history lives in the write-ahead log when the server is killed
            held = k % 3 == 0
            if held:
                ops.append("hold")
            a = 0
            keep = k % 2 == 1          # every other configuration: one persistent connection per address, shared by all clients
            def at():
                nonlocal a
                a += 1
                return f"{'httpk' if keep else 'http'}@{a % nl}"
            if keep:
                # the clients take turns on the shared connections
                ops += [f"{at()} POST av hyph=nil hyph={c} history b:0,{c}" for c in (1, 2, 3)]
                ops += [f"{at()} GET gcv hyph=nil hyph={c} absent e" for c in (3, 1, 2)]
            for c in (1, 2, 3):
                # (every third configuration: the clients' histories start on a parent the server has never stored)
                first_par = (f"latest:{c}" if keep else ("$p%d" % c if k % 3 == 2 else "nil"))
                ops += [f"{at()} POST av hyph={first_par} hyph={c} history b:1,{c}",
                        f"{at()} POST av hyph=latest:{c} hyph={c} history chunks:2,3",
                        f"{at()} POST as hyph=latest:{c} hyph={c} snapshot b:9,{c}"]
                mid = r.randrange(1, 8)
                for i in range(8):
                    if i == mid and k % 2 == 0:
                        # the snapshot ages while the count of versions since it is still small (both measures count)
                        ops += [f"backdate {c} {r.choice([2, 3, 5, 21, 22]) * 86400 + 3600}"]
                    ops += [f"dump {c}", f"{at()} POST av hyph=latest:{c} hyph={c} history b:3,{i}"]
                ops += [f"backdate {c} {r.choice([1, 2, 3, 5, 14, 21]) * 86400 + 3600}", f"dump {c}",
                        f"{at()} POST av hyph=latest:{c} hyph={c} history b:4", f"{at()} GET gcv hyph=nil hyph={c} absent e",
                        f"{at()} GET snap - hyph={c} absent e", f"walk {c}"]
            ops += [f"{at()} GET index - absent absent e", "dirstat", "kill", "restart"]
            for c in (1, 2, 3):
                ops += [f"walk {c}", f"{at()} GET snap - hyph={c} absent e", f"{at()} POST av hyph=latest:{c} hyph={c} history b:5"]
            if held:
                ops.append("unhold")
            if k % 5 == 3:
                # the directory is what a first start that died at once leaves behind: an empty database file
                ops.insert(0, "emptydb")
            if k % 4 == 2:
                # first of all: one of several listen addresses is taken by another process
                nn = r.choice([2, 3])
                ops.insert(0, f"bootocc {nn} {r.randrange(nn)} {r.choice(['flag', 'flags', 'env'])}")
            out.append(Case(f"c17-{k}", ops, {"boot": boot, "nl": nl, "allow": allow, "versions": vsrc, "days": ysrc}, mode="bin"))
        return out
    def relevant(self, i, trace):
        o = trace[i][0]
        return o.startswith(("http ", "boot ", "gcv ", "reopen"))
    def oracle(self, case, trace, backend):
        fails = []
        m = case.meta
        allow = None if m["allow"] == "none" else set(m["allow"].split(":")[1].split(","))
        def val(s, dflt):
            if s == "default": return dflt
            v = s.split(":")[1]
            return int(v.split("/")[0])
        versions, days = val(m["versions"], 100), val(m["days"], 14)
        walks = {}
        cmap = {}
        for i, (o, ri, rm) in enumerate(trace):
            if o.startswith("boot ") and "up" not in ri:
                fails.append(f"the server did not come up on every configured address ({m['boot']}): {ri}")
            if o.startswith("reopen") and ri != "unit":
                fails.append(f"the server did not come back after kill + restart on the same directory: {ri}")
            if o.startswith("http "):
                h, r = HOp(o), HResp(ri)
                if not r.ok:
                    fails.append(f"op {i} `{o[:70]}`: no valid response: {ri[:100]}"); continue
                if h.cid.isdigit():
                    cmap.setdefault(h.cid, len(cmap) + 1)
                    sym = str(cmap[h.cid])
                    listed = allow is None or sym in allow
                    if h.valid() and not listed and r.status != 403:
                        fails.append(f"op {i}: client {sym} is not on the configured allow-list {sorted(allow)} but was answered {r.status}")
                    if h.valid() and listed and r.status in (403, 500):
                        fails.append(f"op {i}: client {sym} is allowed ({m['allow']}) but was answered {r.status}")
                    # snapshot targets: urgency from the record dumped just before
                    if h.route == "av" and r.status == 200 and i > 0 and trace[i - 1][0].startswith("dump "):
                        d = Dump(trace[i - 1][1])
                        if d.ok and not d.absent:
                            want = {spec_urgency(days, versions, d.snap, h.now), spec_urgency(days, versions, d.snap, h.now + 3)}
                            got = {"-": "none"}.get(r.xs, r.xs)
                            if got not in want:
                                fails.append(f"op {i}: urgency {got}, expected {sorted(want)} for configured snapshot-versions={versions} snapshot-days={days} (record {d.snap})")
                if r.cc != "1":
                    fails.append(f"op {i}: response without Cache-Control no-store")
            if o.startswith("mark bootocc"):
                kv = dict(x.split("=") for x in o.split()[2:])
                if kv["exited"] != "1":
                    fails.append(f"one of the {kv['n']} configured listen addresses could not be bound, yet the server kept running and served on {kv['served']} of them: it does not serve on every listen address given")
            if o.startswith("mark datadir"):
                kv = dict(x.split("=") for x in o.split()[2:])
                if kv.get("dbfile") != "1" or kv.get("extra") != "0":
                    fails.append(f"the data is not kept in the configured directory ({m['boot']}): database file present there = {kv.get('dbfile')}, other entries created next to it = {kv.get('extra')}")
            if o.startswith("mark walk"):
                c = o.split()[2]
                seq = []
                j = i + 1
                while j < len(trace) and not trace[j][0].startswith("mark endwalk"):
                    seq.append(trace[j][1]); j += 1
                if c in walks:
                    prev = walks[c]
                    if seq[:len(prev) - 1] != prev[:-1]:
                        fails.append(f"after kill + restart the history of client {c} differs: before {prev[:4]}..., after {seq[:4]}...")
                walks[c] = seq
        return fails
    def nontrivial(self, case, trace):
        m = case.meta
        return sum([m["allow"] != "none", m["versions"] != "default", m["days"] != "default", m["nl"] > 1]) >= 2


ALL = {"C17": C17}
