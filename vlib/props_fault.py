"""C05: storage faults (fault_enumeration over storage-call indices) through the library and the
HTTP handlers, on the real SQLite backend wrapped in a fault-injecting storage."""
import random, re
from .gen import payload
from .l1 import Case
from .trace import Op, Dump, resp_kind
from .props_l1 import L1Prop, sizes
from .props_http import HResp, HOp, state_prefix


class Renum:
    """per-side renumbering of ids by first appearance (a version committed by a request whose
    acknowledgement was lost carries an id the harness never saw in a response)"""
    def __init__(self):
        self.m = {0: 0}
    def f(self, x):
        x = int(x)
        if x not in self.m:
            self.m[x] = len(self.m)
        return str(self.m[x])
    def opt(self, x):
        return self.f(x) if x.isdigit() else x


def norm_dump(rn, line):
    d = Dump(line)
    if not d.ok:
        return line
    if d.absent:
        return "dump absent"
    known = {v[0]: v for v in d.versions()}      # through either index
    ids, vid = [], d.latest
    while vid != 0 and vid in known and vid not in ids:
        ids.append(vid); vid = known[vid][1]
    chain = [(rn.f(i), rn.f(known[i][1]), known[i][2]) for i in ids]
    stored = sorted(v for v in d.versions())
    rest = [(rn.f(v[0]), rn.f(v[1]), v[2]) for v in stored if v[0] not in ids]
    snap = "none" if d.snap is None else f"{rn.f(d.snap[0])}+{d.snap[2]}"
    children = sorted((rn.f(k), rn.f(v[0])) for k, v in d.by_parent.items() if v is not None)
    return f"dump latest={rn.f(d.latest)} snap={snap} data={d.data} chain={chain} rest={rest} children={children}"


def norm_line(rn, o, r):
    t = o.split()
    k = t[0]
    if k == "http":
        h = HOp(o)
        for x in (h.cid, h.seg):
            rn.opt(x)
        rr = HResp(r)
        return f"http {rr.status} xv={rn.opt(rr.xv)} xp={rn.opt(rr.xp)} xs={rr.xs} ct={rr.ct} cc={rr.cc} body={rr.body} {rr.extra}".strip()
    if k in ("av", "gcv", "as"):
        rn.f(t[1]); rn.f(t[2])
    elif k in ("gs", "ensure"):
        rn.f(t[1])
    rt = r.split()
    if not rt:
        return r
    if rt[0] == "added": return f"added {rn.f(rt[1])} {rt[2]}"
    if rt[0] == "conflict": return f"conflict {rn.f(rt[1])}"
    if rt[0] == "found":
        a, b, d = rt[1].split(":", 2)
        return f"found {rn.f(a)}:{rn.f(b)}:{d}"
    if rt[0] == "snap": return f"snap {rn.f(rt[1])} {rt[2]}"
    if rt[0] == "dump": return norm_dump(rn, r)
    return r


class C05(L1Prop):
    id = "C05"
    mode = "http"
    backends = ("sqlite",)
    rule = ("for each request kind (AddVersion on a new client / on an existing client / conflicting, GetChildVersion, "
            "AddSnapshot accepted / declined, GetSnapshot; library and HTTP entry) in several states, EVERY storage call "
            "index (transaction begin, each read, each write, commit) is made to fail before and after taking effect, plus "
            "double faults; complete dumps before/after; a fault-free twin of every case; afterwards probe requests must be "
            "served; non-trivial = the fault actually fired")
    KINDS = [
        ("http-av-new", "http POST av hyph=nil hyph=9 history b:5,5"),
        ("http-av-new-based", "http POST av hyph=fresh hyph=9 history b:5,6"),     # a replica that synced elsewhere before
        ("http-av", "http POST av hyph=latest:1 hyph=1 history b:6"),
        ("http-av-conflict", "http POST av hyph=nil hyph=1 history b:6"),
        ("http-gcv", "http GET gcv hyph=anc:1:1 hyph=1 absent e"),
        ("http-as", "http POST as hyph=latest:1 hyph=1 snapshot b:8,8"),
        ("http-as-declined", "http POST as hyph=nil hyph=1 snapshot b:8"),
        ("http-gs", "http GET snap - hyph=1 absent e"),
        ("lib-av", "av 1 latest:1 b:6"),
        ("lib-as", "as 1 latest:1 b:8,8"),
        ("lib-gcv", "gcv 1 latest:1"),
        ("lib-gs", "gs 1"),
    ]
    # a stored row that cannot be decoded (payload column NULL) while it is being read: the
    # failure happens when the row is fetched, not when the statement is prepared
    ROWKINDS = [
        ("row-http-gcv", "rowfault latest:1 2", "http GET gcv hyph=anc:1:1 hyph=1 absent e"),
        ("row-lib-gcv", "rowfault latest:1 2", "gcv 1 anc:1:1"),
        ("row-http-as", "rowfault latest:1 2", "http POST as hyph=anc:1:2 hyph=1 snapshot b:8,1"),
        ("row-lib-as", "rowfault latest:1 2", "as 1 anc:1:2 b:8,1"),
        ("row-lib-gcv-old", "rowfault anc:1:1 2", "gcv 1 anc:1:2"),
        # a statement that fails INSIDE one storage call (add_version = INSERT versions + UPDATE clients;
        # set_snapshot = UPDATE clients; new_client = INSERT clients): the whole request is undone
        ("sql-lib-av-update", "sqlfault clients UPDATE 2", "av 1 latest:1 b:6,1"),
        ("sql-lib-av-insert", "sqlfault versions INSERT 2", "av 1 latest:1 b:6,2"),
        ("sql-http-av-update", "sqlfault clients UPDATE 2", "http POST av hyph=latest:1 hyph=1 history b:6,3"),
        ("sql-lib-as-update", "sqlfault clients UPDATE 2", "as 1 latest:1 b:8,3"),
        ("sql-http-av-new", "sqlfault versions INSERT 8", "http POST av hyph=nil hyph=9 history b:5,5"),
        # a transient failure after which SQLite has rolled the transaction back by itself (the class of disk
        # full / I/O error / out of memory): whatever the code does next runs outside any transaction
        ("sqlrb-lib-av", "sqlfaultrb 2", "av 1 latest:1 b:6,6"),
        ("sqlrb-http-av", "sqlfaultrb 2", "http POST av hyph=latest:1 hyph=1 history b:6,7"),
    ]
    # the write lock is held by another connection while the request asks for its transaction (and is
    # let go as soon as that call returns); one lock-wait budget (5 s) per case
    # the COMMIT itself fails (the log cannot grow): every storage step of the request succeeded, the
    # commit is answered with an I/O error and SQLite has rolled the transaction back
    FSIZEKINDS = [
        ("fsize-lib-av", "fsizefault 32 3", "av 1 latest:1 r:200000"),
        ("fsize-http-av", "fsizefault 32 3", "http POST av hyph=latest:1 hyph=1 history r:200000"),
        ("fsize-lib-as", "fsizefault 32 3", "as 1 latest:1 r:200000"),
    ]
    LOCKKINDS = [
        ("lock-lib-av", "lockbegin clients UPDATE", "av 1 latest:1 b:6,4"),
    ]
    def cases(self, rng, tier):
        out = []
        nstates = sizes(tier, 2, 12)
        maxidx = 13
        for s in range(nstates):
            seed = rng.getrandbits(32)
            for (kname, rf, req) in self.ROWKINDS + self.FSIZEKINDS + (self.LOCKKINDS if s == 0 or tier == "thorough" else []):
                ops = state_prefix(random.Random(seed), (1, 2))
                ops += ["dumpall", "dump 9", rf, req, "dumpall", "dump 9",
                        "http GET gcv hyph=nil hyph=1 absent e", "http POST av hyph=latest:1 hyph=1 history b:77",
                        "http GET snap - hyph=2 absent e", "dumpall"]
                out.append(Case(f"c05-{s}-{kname}", ops, {"kind": kname, "plan": rf, "state": s}, mode="http"))
        # the write lock is held elsewhere for several requests in a row (each waits its budget and fails at begin);
        # then it is free again: requests are served at once, as ever
        for s in range(sizes(tier, 1, 3)):
            ops = state_prefix(random.Random(rng.getrandbits(32)), (1, 2))
            ops += ["dumpall", "dump 9"]
            for j in range(2 + s):
                ops += ["lockbegin clients UPDATE", [f"av 1 latest:1 b:6,{j}", "gcv 1 latest:1", f"as 1 latest:1 b:8,{j}"][j % 3]]
            ops += ["dumpall", "dump 9", "http GET gcv hyph=nil hyph=1 absent e", "http POST av hyph=latest:1 hyph=1 history b:77",
                    "http GET snap - hyph=2 absent e", "http POST as hyph=latest:1 hyph=1 snapshot b:78", "dumpall"]
            out.append(Case(f"c05-locked-{s}", ops, {"kind": "lock-repeated", "plan": "lockbegin x%d" % (2 + s), "state": s}, mode="http"))
        for s in range(nstates):
            seed = rng.getrandbits(32)
            for (kname, req) in self.KINDS:
                plans = [f"{i}:{w}" for i in range(maxidx) for w in ("before", "after")]
                # double faults (the first that fires decides; the second must not resurrect anything)
                r2 = random.Random(seed + 1)
                if tier == "thorough":
                    plans += [f"{i}:{w1},{j}:{w2}" for i in range(8) for j in range(i + 1, 10) for w1 in ("before", "after") for w2 in ("before", "after")]
                else:
                    for _ in range(6):
                        i = r2.randint(0, 6); j = r2.randint(i + 1, 10)
                        plans.append(f"{i}:{r2.choice(['before','after'])},{j}:{r2.choice(['before','after'])}")
                for pi, pl in enumerate(["none"] + plans):
                    ops = state_prefix(random.Random(seed), (1, 2))
                    ops += ["dumpall", "dump 9"]
                    if pl != "none":
                        ops.append(f"fault {pl}")
                    ops += [req, "dumpall", "dump 9", "rows",
                            # later requests are served normally
                            "http GET gcv hyph=nil hyph=1 absent e", "http POST av hyph=latest:1 hyph=1 history b:77",
                            "http GET snap - hyph=2 absent e", "dumpall"]
                    out.append(Case(f"c05-{s}-{kname}-{pi}", ops, {"kind": kname, "plan": pl, "state": s}, mode="http"))
        return out
    def normalize(self, trace):
        ri_n, rm_n = Renum(), Renum()
        out = []
        for (o, ri, rm) in trace:
            if o.split()[0] == "rows":
                out.append((o, "rows", "rows"))          # rows are compared by C13; ids may be renamed here
                continue
            out.append((o, norm_line(ri_n, o, ri), norm_line(rm_n, o, rm)))
        return out
    def relevant(self, i, trace):
        return True
    def _target(self, trace):
        for i, (o, ri, rm) in enumerate(trace):
            if o.startswith("fault "):
                return i + 1
        return None
    def oracle(self, case, trace, backend):
        fails = []
        ti = self._target(trace)
        if ti is None:
            # fault-free twin: probes must be served
            for i, (o, ri, rm) in enumerate(trace):
                if o.startswith("http ") and HResp(ri).status >= 500:
                    fails.append(f"op {i} `{o}`: 5xx without any fault")
            return fails
        o, ri, rm = trace[ti]
        fired = 0
        if ti + 1 < len(trace) and trace[ti + 1][0].startswith("mark fired"):
            fired = int(trace[ti + 1][0].split()[2])
        is_http = o.startswith("http ")
        if is_http:
            r = HResp(ri)
            err = r.status >= 500
            bad = not r.ok
        else:
            err = resp_kind(ri) == "error"
            bad = resp_kind(ri) == "panic"
        if bad:
            fails.append(f"op {ti} `{o}` under plan {case.meta['plan']}: the server failed: {ri[:100]}")
        if fired > 0 and not err:
            fails.append(f"op {ti} `{o}`: storage call failed (plan {case.meta['plan']}) but the client received `{ri.split(' | ')[0]}` instead of an error")
        # no partial effect: for a failure that takes no effect the dumps before and after are equal
        if case.meta.get("kind", "").startswith(("row-", "sql-", "lock-")) and not case.meta["kind"].endswith("av-new"):
            lo = ti - 2
            while lo >= 0 and trace[lo][0].startswith("dump "):
                lo -= 1
            hi = ti + 1
            while hi < len(trace) and not trace[hi][0].startswith("dump "):
                hi += 1
            hi2 = hi
            while hi2 < len(trace) and trace[hi2][0].startswith("dump "):
                hi2 += 1
            before, after = state_sig(trace, lo + 1, ti - 1), state_sig(trace, hi, hi2)
            if before and after and set(before) != set(after):
                diff = ([(a, b) for a, b in zip(sorted(set(before) - set(after)), sorted(set(after) - set(before)))] + [(str(len(before)) + ' dumps: ' + ' / '.join(before), str(len(after)) + ' dumps: ' + ' / '.join(after))])[:1]
                fails.append(f"op {ti} `{o}` failed ({case.meta['plan']}) and was answered `{ri.split(' | ')[0][:40]}`, but the stored state changed: {diff[0][0][:160]} -> {diff[0][1][:160]} (partial effect)")
        # later requests are served
        for j in range(ti + 1, len(trace)):
            oj, rj, _ = trace[j]
            if oj.startswith("http ") and HResp(rj).status >= 500:
                fails.append(f"op {j} `{oj}`: request after the fault answered {HResp(rj).status} (lock not released?)")
            if oj.startswith("dump ") and not rj.startswith("dump "):
                fails.append(f"op {j} `{oj}`: dump after the fault failed: {rj}")
        return fails
    def derive(self, case, trace, backend):
        return []
    def nontrivial(self, case, trace):
        return any(o.startswith("mark fired") and int(o.split()[2]) > 0 for (o, _, _) in trace)


def state_sig(trace, lo, hi):
    """renumbered summary of the dumps between two indices"""
    rn = Renum()
    return [norm_dump(rn, ri) for (o, ri, rm) in trace[lo:hi] if o.startswith("dump ")]


ALL = {"C05": C05}
