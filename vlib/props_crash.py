"""C04: crash and power-loss images of the SQLite data directory, built from an strace log of every
write / truncate / sync / delete the database issued while executing a request history, each
recovered by the CURRENT code.  Allowed recovered states come from the Coq model (extracted)."""
import json, os, re, shutil, subprocess, tempfile, time, random, itertools
import concurrent.futures as cf
from . import build
from .common import *
from .engine import finish, Outcome
from .l1 import Case, same_line
from .trace import Op, Dump, resp_kind

DBNAME = "taskchampion-sync-server.sqlite3"


class Spec:
    id = "C04"
    backends = ("sqlite",)
    no_shrink = True
    rule = ("request histories (payloads 1 B .. 300 KiB so that transactions span one to many pages and checkpoints occur) "
            "run under strace; for EVERY logged write / truncate / sync / delete: the process-crash image (all writes so far), "
            "and power-loss images (content as of each file's last sync plus subsets of later writes: all subsets when <= 6 are "
            "pending, else prefixes, single omissions and seeded subsets; the WAL file present or deleted when its unlink is "
            "not yet synced); each image is opened by the current code, integrity-checked, fully dumped and appended to; the "
            "recovered state must be the model's state after N or N+1 requests, N = requests acknowledged before the point; "
            "every file below the data directory (and renames) is part of the images; in addition data directories written "
            "by the pinned release are opened by the current code under the same trace, and every image of that FIRST open "
            "must serve the recorded content; "
            "non-trivial = crash point strictly inside a request")


def view_eq(g, c):
    """equality of two dump lines as protocol-visible state: a client that exists but has no version
    and no snapshot is the same state as an absent one (the add-version handler creates the client in
    a transaction of its own)"""
    if same_line("dump x", g, c, tol=10**12):
        return True
    dg, dc = Dump(g), Dump(c)
    def empty(d):
        return d.ok and (d.absent or (d.latest == 0 and d.snap is None and not d.versions()))
    return empty(dg) and empty(dc)


def unx(s):
    """decode a strace -xx string literal body"""
    return bytes(int(x, 16) for x in re.findall(r"\\x([0-9a-f]{2})", s))


def parse_strace(path, datadir):
    """-> list of events: ('write', file, off, bytes) ('trunc', file, len) ('sync', file) ('unlink', file) ('ack', n)"""
    allfds, allpos, ev = {}, {}, []
    # with several threads strace splits a call that is pre-empted into `... <unfinished ...>` and
    # `<... call resumed> ...`: join the two halves (per thread) before reading the line; the call
    # takes its place in the event order when it completes
    unfinished = {}
    group = {}
    def joined(fh):
        for line in fh:
            m1 = re.match(r"^(\d+)\s+(.*) <unfinished \.\.\.>\s*$", line)
            if m1:
                unfinished[m1.group(1)] = m1.group(2)
                continue
            m2 = re.match(r"^(\d+)\s+<\.\.\. \w+ resumed>(.*)$", line)
            if m2 and m2.group(1) in unfinished:
                yield f"{m2.group(1)} {unfinished.pop(m2.group(1))}{m2.group(2)}\n"
                continue
            yield line
    for line in joined(open(path, errors="replace")):
        m = re.match(r"^(\d+)\s+(\w+)\((.*)\)\s+=\s+(-?\d+)", line)
        if not m:
            continue
        pid, call, args, ret = m.group(1), m.group(2), m.group(3), int(m.group(4))
        if call in ("clone", "clone3") and ret > 0:
            # threads (CLONE_FILES) share the descriptor table of their creator; a forked process starts
            # a table of its own (the server is exec'ed with its descriptors closed)
            group[str(ret)] = group.get(pid, pid) if "CLONE_FILES" in args else str(ret)
            continue
        pid = group.get(pid, pid)
        fds, pos = allfds.setdefault(pid, {}), allpos.setdefault(pid, {})
        if call == "openat" and ret >= 0:
            pm = re.search(r'"((?:\\x[0-9a-f]{2})*)"', args)
            p = unx(pm.group(1)).decode(errors="replace") if pm else ""
            if p.startswith(datadir + "/") and "O_DIRECTORY" not in args:
                # every regular file below the data directory (the database, its WAL / journal, and
                # whatever else the storage layer keeps there), named relative to the directory
                rel = os.path.relpath(p, datadir)
                fds[ret] = rel; pos[ret] = 0
                if "O_CREAT" in args:
                    ev.append(("create", rel))
        elif call == "close":
            fd = int(args.split(",")[0]); fds.pop(fd, None)
        elif call in ("pwrite64", "write") and ret >= 0:
            fd = int(args.split(",")[0])
            pm = re.search(r'"((?:\\x[0-9a-f]{2})*)"', args)
            data = unx(pm.group(1)) if pm else b""
            if fd == 2 and data.startswith(b"ACK "):
                ev.append(("ack", int(data.split()[1])))
            elif fd in fds:
                if call == "pwrite64":
                    off = int(args.rsplit(",", 1)[1])
                else:
                    off = pos[fd]; pos[fd] += ret
                ev.append(("write", fds[fd], off, data[:ret]))
        elif call == "ftruncate" and ret == 0:
            fd = int(args.split(",")[0])
            if fd in fds:
                ev.append(("trunc", fds[fd], int(args.split(",")[1])))
        elif call in ("fsync", "fdatasync") and ret == 0:
            fd = int(args.split(",")[0])
            if fd in fds:
                ev.append(("sync", fds[fd]))
        elif call in ("unlink", "unlinkat") and ret == 0:
            pm = re.search(r'"((?:\\x[0-9a-f]{2})*)"', args)
            p = unx(pm.group(1)).decode(errors="replace") if pm else ""
            if p.startswith(datadir + "/"):
                ev.append(("unlink", os.path.relpath(p, datadir)))
        elif call in ("rename", "renameat", "renameat2") and ret == 0:
            names = [unx(x).decode(errors="replace") for x in re.findall(r'"((?:\\x[0-9a-f]{2})*)"', args)]
            if len(names) >= 2 and names[0].startswith(datadir + "/") and names[1].startswith(datadir + "/"):
                ev.append(("rename", os.path.relpath(names[0], datadir), os.path.relpath(names[1], datadir)))
    return ev


def apply(files, e):
    k = e[0]
    if k == "create":
        files.setdefault(e[1], bytearray())
    elif k == "write":
        f = files.setdefault(e[1], bytearray())
        off, data = e[2], e[3]
        if len(f) < off:
            f.extend(b"\0" * (off - len(f)))
        f[off:off + len(data)] = data
    elif k == "trunc":
        f = files.setdefault(e[1], bytearray())
        if e[2] < len(f):
            del f[e[2]:]
        else:
            f.extend(b"\0" * (e[2] - len(f)))
    elif k == "unlink":
        files.pop(e[1], None)
    elif k == "rename":
        if e[1] in files:
            files[e[2]] = files.pop(e[1])


def images(ev, rng, tier):
    """yields (point index, kind, {file: bytes}) — shm files are never part of an image"""
    cur = {}                      # what a surviving process crash would see
    durable = {}                  # content as of each file's last sync
    pending = {}                  # file -> events since its last sync
    unlinked_pending = set()
    budget_subsets = 6 if tier != "thorough" else 10
    for i, e in enumerate(ev):
        if e[0] == "ack":
            continue
        # ---- process crash just before event i
        yield (i, "proc", {f: bytes(b) for f, b in cur.items() if not f.endswith("-shm")})
        # ---- power loss just before event i
        pend = [(f, x) for f, l in pending.items() for x in l if not f.endswith("-shm")]
        if pend or unlinked_pending:
            choices = []
            n = len(pend)
            if n <= budget_subsets:
                choices = [list(c) for r in range(n + 1) for c in itertools.combinations(range(n), r)]
            else:
                choices = [list(range(k)) for k in range(0, n + 1, max(1, n // 6))]
                choices += [[j for j in range(n) if j != k] for k in rng.sample(range(n), min(4, n))]
                choices += [sorted(rng.sample(range(n), rng.randint(1, n - 1))) for _ in range(4 if tier != "thorough" else 24)]
            cap = 6 if tier != "thorough" else 16
            if len(choices) > cap:
                choices = rng.sample(choices, cap)
            for ch in choices:
                files = {f: bytearray(b) for f, b in durable.items()}
                for j in ch:
                    apply(files, pend[j][1])
                variants = [files]
                for u in unlinked_pending:
                    # the unlink itself may or may not have reached the disk
                    v2 = {f: bytearray(b) for f, b in files.items()}
                    v2.pop(u, None)
                    variants.append(v2)
                for v in variants:
                    yield (i, "power", {f: bytes(b) for f, b in v.items() if not f.endswith("-shm")})
        # ---- advance
        apply(cur, e)
        if e[0] == "sync":
            f = e[1]
            if f in cur:
                durable[f] = bytearray(cur[f])
            pending[f] = []
            # directory operations are ordered with later syncs (a journalling file system commits
            # earlier namespace changes when any file is fsynced): deletions before this sync are final
            for u in list(unlinked_pending):
                durable.pop(u, None)
            unlinked_pending.clear()
            # a synced database file after a checkpoint makes earlier unlinks of its WAL moot only
            # once the directory entry is gone; keep the ambiguity until the file is re-created
        elif e[0] in ("write", "trunc", "create"):
            pending.setdefault(e[1], []).append(e)
            if e[0] == "create":
                unlinked_pending.discard(e[1])
                durable.setdefault(e[1], bytearray())
        elif e[0] == "unlink":
            pending[e[1]] = []
            if e[1] in durable:
                unlinked_pending.add(e[1])
            # durable copy stays: the deletion may not have reached the disk
        elif e[0] == "rename":
            # the new name shows the old file's content once the rename is durable; until the next sync
            # both outcomes are possible: recorded as a pending whole-file write of the new name plus a
            # not-yet-durable deletion of the old one
            content = bytes(cur.get(e[2], b""))
            pending[e[2]] = [("trunc", e[2], 0), ("write", e[2], 0, content)]
            pending[e[1]] = []
            if e[1] in durable:
                unlinked_pending.add(e[1])
    yield (len(ev), "proc", {f: bytes(b) for f, b in cur.items() if not f.endswith("-shm")})


def gen_history(rng, tier, fixed=None):
    if fixed == "bigsnap":
        # a large snapshot REPLACING an existing one (one request, many pages, old overflow chain freed),
        # once over a small one and once over a large one
        return ["ensure 1", "av 1 latest:1 b:1", "as 1 latest:1 b:9,9", "av 1 latest:1 r:5000",
                f"as 1 latest:1 r:{rng.choice([262144, 300000, 400000])}", "av 1 latest:1 b:2",
                f"as 1 latest:1 r:{rng.choice([270000, 524288])}", "av 1 latest:1 r:100"]
    n = rng.randint(4, 8) if tier != "thorough" else rng.randint(8, 16)
    ops = ["ensure 1"]
    have = 0
    j = 0
    reqs = []
    for _ in range(n):
        k = rng.choice(["av", "av", "av", "as", "av2"])
        size = rng.choice([1, 3, 100, 3000, 5000, 70000, 300000])
        pl = f"r:{size}" if size > 12 else "b:" + ",".join(str(rng.randint(0, 255)) for _ in range(size))
        if k == "av" or have == 0:
            reqs.append(f"av 1 latest:1 {pl}"); have += 1
        elif k == "as":
            reqs.append(f"as 1 latest:1 {pl}")
        else:
            reqs.append("ensure 2"); reqs.append(f"av 2 latest:2 {pl}")
    return ["ensure 1"] + reqs


def gen_http_history(rng, tier):
    """requests through the real executable (handler paths differ from the library: body assembly,
    client auto-creation, whatever the handler does around the library call)"""
    n = rng.randint(3, 6) if tier != "thorough" else rng.randint(8, 16)
    # always: a version, a large snapshot (several pages, its own write takes a while), a version —
    # whatever the handler does around the library call for big bodies is then inside the trace
    # the first upload of a client the server has never seen names nil or (a replica that synced
    # elsewhere before) some other parent; the handler creates the client around the library call
    first = rng.choice(["latest:1", "$1", "$1"])
    reqs = [f"http@0 POST av hyph={first} hyph=1 history b:7",
            f"http@0 POST as hyph=latest:1 hyph=1 snapshot r:{rng.choice([70000, 200000, 300000])}",
            "http@0 POST av hyph=latest:1 hyph=1 history r:5000"]
    for i in range(1, n):
        size = rng.choice([1, 100, 5000, 70000, 200000])
        body = f"r:{size}" if size > 12 else "b:7"
        if i == 0 or rng.random() < 0.6:
            reqs.append(f"http@0 POST av hyph=latest:1 hyph=1 history {body}")
        else:
            reqs.append(f"http@0 POST as hyph=latest:1 hyph=1 snapshot {body}")
    # a second client appears in the middle of the history, its first upload on a non-nil parent
    reqs.insert(rng.randint(1, len(reqs)), f"http@0 POST av hyph={rng.choice(['$2', '$2', 'nil'])} hyph=2 history b:3,3")
    return reqs


SETUP = {}


def run_c04(tier, seed, replay=None):
    t0 = time.time()
    spec = Spec()
    proof = build.proof_step("C04", thorough=(tier == "thorough"))
    okr, msg = build.build_runner()
    okh, binp, hlog = build.build_harness()
    if not (okr and okh):
        raise RuntimeError("build failed: " + msg[-500:] + hlog[-2000:])
    out = Outcome()
    problems = []
    rng = random.Random(seed)
    nh = 3 if tier != "thorough" else 6
    nhttp = 1 if tier != "thorough" else 3
    okb, sbin, blog = build.build_server_bin()
    if not okb:
        raise RuntimeError("server binary build failed: " + blog[-1500:])
    work = tempfile.mkdtemp(prefix="c04-", dir=CACHE)
    kinds = {"proc": 0, "power": 0}
    # Setup.v, run: the directory after a start that died after k of its six steps, and after the next start
    q = subprocess.run([RUNNER, "sqlite"], input="\n".join(f"setupstate {k}" for k in range(8)) + "\n", capture_output=True, text=True, timeout=60)
    SETUP.clear()
    SETUP["prefix"] = set()
    for l in q.stdout.split("\n"):
        m = re.match(r"^setupstate (.*) => (.*) ready=(\d)$", l.strip())
        if m:
            SETUP["prefix"].add(m.group(1)); SETUP["ready"] = m.group(2)
            if m.group(3) != "1":
                raise RuntimeError("Setup.storage_new does not complete: " + l)
    if len(SETUP["prefix"]) != 7:
        raise RuntimeError("setupstate: unexpected model output " + q.stdout[:300])
    try:
        for hi in range(nh + nhttp):
            hd = os.path.join(work, f"h{hi}")
            os.makedirs(os.path.join(hd, "data"))
            via_http = hi >= nh
            reqs = gen_http_history(rng, tier) if via_http else gen_history(rng, tier, "bigsnap" if hi == 0 else None)
            sym = [f"case h{hi}"] + (["boot listen=flag:1 dir=flag allow=none versions=default days=default"] if via_http else [])
            for j, r in enumerate(reqs):
                sym += [r, f"ack {j + 1}"]
                if j == 0 and not via_http and hi % 2 == 1:
                    # a second connection to the database stays open during the rest of the history (another request in
                    # flight, a monitoring query): no close is then the last one, nothing is checkpointed behind a commit,
                    # and what is acknowledged is durable only through what the COMMIT itself has synced
                    sym.append("hold")
            if not via_http and hi % 3 == 2:
                # another connection holds the write lock for longer than the busy timeout while one more upload arrives (a
                # backup, a long transaction of another process): the upload waits; it is served once the lock is gone, or it
                # is refused — no acknowledgement is recorded for it, so at every crash point it is wholly there or not at all
                sym += ["lockfor 7000", "av 1 latest:1 b:4,4"]
            sym += [f"savestate {hd}/ids.txt", "end"]
            text = "\n".join(sym) + "\n"
            datadir = os.path.join(hd, "data")
            p = subprocess.run(["strace", "-f", "-xx", "-s", "400000000", "-e",
                                "trace=openat,close,pwrite64,write,fsync,fdatasync,ftruncate,unlink,unlinkat,rename,renameat,renameat2,clone,clone3",
                                "-o", os.path.join(hd, "strace.log"), binp] + (["bin"] if via_http else ["lib", "sqlite"]),
                               input=text, capture_output=True, text=True,
                               env=dict(ENV, TSS_KEEP_DIR=datadir, VERIF_SEED=str(seed + hi), TSS_SERVER_BIN=sbin), timeout=1200)
            if p.returncode != 0:
                raise RuntimeError("traced run failed: " + p.stderr[-500:])
            trace_ops = [l[3:] for l in p.stdout.split("\n") if l.startswith("OP ")]
            req_ops = [o for o in trace_ops if o.split()[0] in ("ensure", "av", "as", "http")]
            ev = parse_strace(os.path.join(hd, "strace.log"), datadir)
            nreq = len(reqs)
            # ---- images are materialised, recovered, judged and DELETED in slices (a thorough run produces tens of
            # thousands of them, each a copy of the database files)
            acks = 0
            ack_at = []
            for e in ev:
                ack_at.append(acks)
                if e[0] == "ack":
                    acks = e[1]
            ack_at.append(acks)
            seen = set()
            state = {"allowed": None, "n": 0}
            slice_imgs, slice_bytes = [], 0
            def flush():
                nonlocal slice_imgs, slice_bytes
                if slice_imgs:
                    process_images(slice_imgs)
                    for im in slice_imgs:
                        shutil.rmtree(im["dir"], ignore_errors=True)
                slice_imgs, slice_bytes = [], 0
            def materialise():
                nonlocal slice_imgs, slice_bytes
                for (pt, kind, files) in images(ev, rng, tier):
                    key = hash(tuple(sorted((f, hash(b)) for f, b in files.items())))
                    if (key, ack_at[pt]) in seen:
                        continue
                    seen.add((key, ack_at[pt]))
                    d = os.path.join(hd, f"img{state['n']}")
                    state["n"] += 1
                    os.makedirs(d)
                    for f, b in files.items():
                        os.makedirs(os.path.dirname(os.path.join(d, f)) or d, exist_ok=True)
                        open(os.path.join(d, f), "wb").write(b)
                        slice_bytes += len(b)
                    inside = 0 < pt < len(ev) and ev[pt - 1][0] != "ack"
                    slice_imgs.append({"dir": d, "point": pt, "kind": kind, "acked": ack_at[pt], "inside": inside,
                                       "event": (ev[pt][0] + ":" + str(ev[pt][1])) if pt < len(ev) else "end"})
                    kinds[kind] += 1
                    if len(slice_imgs) >= 800 or slice_bytes > 1_500_000_000:
                        flush()
                flush()
            def process_images(imgs):
              if True:
                # ---- recover every image with the current code (batched)
                def batch(chunk):
                    lines = []
                    for im in chunk:
                        n = os.path.basename(im["dir"])
                        lines += [f"case {n}", f"schemastat {im['dir']}", f"usedir {im['dir']}", f"schemastat {im['dir']}",
                                  f"loadstate {hd}/ids.txt", "integrity", "dumpall", "ensure 1", "av 1 stored:1 b:7,7", "end"]
                    q = subprocess.run([binp, "lib", "sqlite"], input="\n".join(lines) + "\n", capture_output=True, text=True,
                                       env=dict(ENV, VERIF_SEED=str(seed)), timeout=3000)
                    return q.stdout, q.returncode, q.stderr[-300:]
                chunks = [imgs[k::NCPU] for k in range(NCPU) if imgs[k::NCPU]]
                rec = {}
                with cf.ThreadPoolExecutor(max_workers=NCPU) as ex:
                    for (so, rc, se) in ex.map(batch, chunks):
                        cur = None
                        for line in so.split("\n"):
                            if line.startswith("# case "):
                                cur = line[7:].strip(); rec[cur] = []
                            elif line.startswith("OP ") and cur:
                                rec[cur].append([line[3:], None])
                            elif line.startswith("R ") and cur and rec[cur]:
                                rec[cur][-1][1] = line[2:]
                        if rc != 0:
                            rec["__fail__"] = se
                # ---- allowed states from the model: after j requests, j = 0..nreq (computed with the first slice)
                dump_ops = None
                for v in rec.values():
                    if isinstance(v, list):
                        dump_ops = [o for o, r in v if o.startswith("dump ")]
                        if dump_ops:
                            break
                allowed = state["allowed"]
                if allowed is None and dump_ops:
                    allowed = []
                    # request boundaries in the recorded op list (an `av` on client 2 comes with its ensure)
                    bounds = [0]
                    for idx, o in enumerate(req_ops):
                        bounds.append(idx + 1)
                    for j in range(len(bounds)):
                        mi = ["reset sqlite"] + req_ops[:bounds[j]] + (dump_ops or [])
                        q = subprocess.run([RUNNER, "sqlite"], input="\n".join(mi) + "\n", capture_output=True, text=True, timeout=600)
                        ml = [l for l in q.stdout.split("\n") if l.strip()]
                        allowed.append(ml[bounds[j]:])
                    state["allowed"] = allowed
                allowed = allowed or []
                # ---- verdict per image
                for im in imgs:
                    n = os.path.basename(im["dir"])
                    r = rec.get(n)
                    out.evaluations += 1
                    msgs = []
                    where = f"history h{hi} ({len(reqs)} requests), {im['kind']}-loss image before event {im['point']} ({im['event']}), {im['acked']} requests acknowledged"
                    if not r:
                        msgs.append(f"recovery run produced nothing for {where}: {rec.get('__fail__', '')}")
                    else:
                        d = dict((o.split()[0] + (" " + o.split()[1] if o.startswith("dump") else ""), rr) for o, rr in r)
                        if any(rr == "OPEN-FAILED" for o, rr in r):
                            msgs.append(f"the database does not open after the crash: {where}")
                        integ = [rr for o, rr in r if o == "integrity"]
                        if integ and integ[0] != "integrity ok":
                            msgs.append(f"integrity check says `{integ[0]}`: {where}")
                        # the start-up path against Setup.v: what a process crash leaves is what SOME prefix of the six
                        # steps of SqliteStorage::new produces; after the next start everything is there
                        sch = [rr for o, rr in r if o == "mark schemastat"]
                        if len(sch) == 2:
                            out.dist["dir-state " + sch[0][7:47]] = out.dist.get("dir-state " + sch[0][7:47], 0) + 1
                            if im["kind"] == "proc" and not sch[0].startswith("schema unreadable") and sch[0][7:] not in SETUP["prefix"]:
                                msgs.append(f"the directory is in a state that no prefix of the start-up steps produces (Setup.dead_start): `{sch[0][7:]}`: {where}")
                            if sch[1][7:] != SETUP["ready"] and not any(rr == "OPEN-FAILED" for o, rr in r):
                                msgs.append(f"after the next start the directory is not completely set up (Setup.storage_new): `{sch[1][7:]}`, expected `{SETUP['ready']}`: {where}")
                        got = [rr for o, rr in r if o.startswith("dump ")]
                        ok_states = []
                        for j in range(im["acked"], min(im["acked"] + 2, len(allowed))):
                            cand = allowed[j]
                            if len(cand) == len(got) and all(view_eq(g, c) for g, c in zip(got, cand)):
                                ok_states.append(j)
                        if got and not ok_states:
                            # is it at least SOME request boundary (then acknowledged data was lost), or none (half-applied)?
                            other = [j for j in range(len(allowed)) if len(allowed[j]) == len(got) and all(view_eq(g, c) for g, c in zip(got, allowed[j]))]
                            if other:
                                msgs.append(f"recovered state is the state after {other[0]} requests but {im['acked']} had been acknowledged: {where}")
                            else:
                                msgs.append(f"recovered state matches no request boundary (half-applied write?): {where}; got {got[0][:160]}")
                        app = [rr for o, rr in r if o.startswith("av ")]
                        if app and resp_kind(app[0]) not in ("added",):
                            msgs.append(f"appending after recovery answered `{app[0]}`: {where}")
                    if msgs:
                        c = Case(f"h{hi}-{n}", sym, {"history": hi, "image": im["point"], "kind": im["kind"]})
                        problems.append((c, [("oracle", m, "sqlite", None) for m in msgs], {"sqlite": [(o, rr or "", "") for o, rr in (r or [])]}))
                    else:
                        out.validated += 1
                        if im["inside"]:
                            out.distinct.add(n + str(hi))
            materialise()
            shutil.rmtree(hd, ignore_errors=True)
            if len(out.samples) < 2:
                out.samples.append({"history": reqs, "events": len(ev), "images": state["n"],
                                    "first_events": [str(e[:3])[:80] for e in ev[:8]]})
            for k_ in reqs:
                out.dist[k_.split()[0]] = out.dist.get(k_.split()[0], 0) + 1
        # ---- a data directory written by the pinned release, opened by the current code for the first
        # time: every write the open itself issues (schema set-up, any one-time conversion) is a crash
        # point too; whatever the image, the next start must serve the recorded content
        fixture_startup_images(binp, tier, seed, rng, out, problems, kinds, work)
    finally:
        shutil.rmtree(work, ignore_errors=True)
    return finish(spec, tier, seed, proof, out, problems, None, t0, nh,
                  extra_cov={"images_by_kind": kinds, "fault_model": "process crash at every logged file-system operation; power loss = last-synced content + subsets of later writes"})


def fixture_startup_images(binp, tier, seed, rng, out, problems, kinds, work):
    from .props_fix import FIX, parse_trace, last_dump_block
    names = sorted(n for n in os.listdir(FIX) if os.path.isdir(os.path.join(FIX, n, "data"))) if os.path.isdir(FIX) else []
    if tier != "thorough":
        names = [n for n in names if n in ("hist1", "wal-committed", "hist3")]
    for name in names:
        fd = os.path.join(FIX, name)
        hd = os.path.join(work, "fx-" + name)
        datadir = os.path.join(hd, "data")
        os.makedirs(hd)
        shutil.copytree(os.path.join(fd, "data"), datadir)
        want = last_dump_block(parse_trace(open(os.path.join(fd, "expected.trace")).read()))
        sym = [f"case fx-{name}", f"loadstate {fd}/ids.txt", "dumpall", "reopen", "dumpall", "end"]
        p = subprocess.run(["strace", "-f", "-xx", "-s", "400000000", "-e",
                            "trace=openat,close,pwrite64,write,fsync,fdatasync,ftruncate,unlink,unlinkat,rename,renameat,renameat2,clone,clone3",
                            "-o", os.path.join(hd, "strace.log"), binp, "lib", "sqlite"],
                           input="\n".join(sym) + "\n", capture_output=True, text=True,
                           env=dict(ENV, TSS_KEEP_DIR=datadir, VERIF_SEED=str(seed)), timeout=1200)
        if p.returncode != 0:
            problems.append((Case(f"fx-{name}", sym, {"fixture": name}),
                             [("oracle", f"the current code could not open the fixture `{name}` under trace: {p.stderr[-300:]}", "sqlite", None)], {"sqlite": []}))
            continue
        ev = parse_strace(os.path.join(hd, "strace.log"), datadir)
        # the images start from the fixture's files (they were not created under the trace)
        base = {}
        for root, _, fs in os.walk(os.path.join(fd, "data")):
            for f in fs:
                rel = os.path.relpath(os.path.join(root, f), os.path.join(fd, "data"))
                base[rel] = open(os.path.join(root, f), "rb").read()
        ev = [("create", f) for f in base] + [("write", f, 0, b) for f, b in base.items()] + [("sync", f) for f in base] + ev
        nbase = 3 * len(base)
        imgs, seen = [], set()
        for (pt, kind, files) in images(ev, rng, tier):
            if pt < nbase:
                continue
            key = hash(tuple(sorted((f, hash(b)) for f, b in files.items())))
            if key in seen:
                continue
            seen.add(key)
            d = os.path.join(hd, f"img{len(imgs)}")
            os.makedirs(d)
            for f, b in files.items():
                os.makedirs(os.path.dirname(os.path.join(d, f)) or d, exist_ok=True)
                open(os.path.join(d, f), "wb").write(b)
            imgs.append({"dir": d, "point": pt - nbase, "kind": kind,
                         "event": (ev[pt][0] + ":" + str(ev[pt][1])) if pt < len(ev) else "end"})
            kinds[kind] += 1
        def batch(chunk):
            lines = []
            for im in chunk:
                lines += [f"case {os.path.basename(im['dir'])}", f"usedir {im['dir']}", f"loadstate {fd}/ids.txt", "integrity", "dumpall", "end"]
            q = subprocess.run([binp, "lib", "sqlite"], input="\n".join(lines) + "\n", capture_output=True, text=True,
                               env=dict(ENV, VERIF_SEED=str(seed)), timeout=3000)
            return q.stdout
        rec, cur = {}, None
        chunks = [imgs[k::NCPU] for k in range(NCPU) if imgs[k::NCPU]]
        with cf.ThreadPoolExecutor(max_workers=NCPU) as ex:
            for so in ex.map(batch, chunks):
                for line in so.split("\n"):
                    if line.startswith("# case "):
                        cur = line[7:].strip(); rec[cur] = []
                    elif line.startswith("OP ") and cur:
                        rec[cur].append([line[3:], None])
                    elif line.startswith("R ") and cur and rec[cur]:
                        rec[cur][-1][1] = line[2:]
        for im in imgs:
            n = os.path.basename(im["dir"])
            r = rec.get(n) or []
            out.evaluations += 1
            where = f"fixture `{name}` (written by the pinned release) while the current code opens it, {im['kind']}-loss image before event {im['point']} ({im['event']})"
            msgs = []
            if any(rr == "OPEN-FAILED" for o, rr in r) or not r:
                msgs.append(f"the database does not open after the crash: {where}")
            integ = [rr for o, rr in r if o == "integrity"]
            if integ and integ[0] != "integrity ok":
                msgs.append(f"integrity check says `{integ[0]}`: {where}")
            got = [(o, rr) for o, rr in r if o.startswith("dump ")][:len(want)]
            for (ow, rw), (og, rg) in zip(want, got):
                cw, cg = Dump(rw), Dump(rg or "")
                if not cg.ok or cw.key(False) != cg.key(False, cw.by_id.keys()):
                    msgs.append(f"the recorded content is not served after the crash: pinned `{rw[:140]}` / now `{(rg or '')[:140]}`: {where}")
                    break
            if r and len(got) < len(want) and not msgs:
                msgs.append(f"fewer clients served ({len(got)}) than recorded ({len(want)}): {where}")
            if msgs:
                problems.append((Case(f"fx-{name}-{n}", sym, {"fixture": name, "image": im["point"], "kind": im["kind"]}),
                                 [("oracle", m, "sqlite", None) for m in msgs], {"sqlite": [(o, rr or "", "") for o, rr in r]}))
            else:
                out.validated += 1
                out.distinct.add("fx" + name + n)


ALL = {"C04": run_c04}
