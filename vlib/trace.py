"""Parsing of concrete operation / response lines (DESIGN Appendix B)."""
import re


class Op:
    def __init__(self, line):
        t = line.split()
        self.line = line
        self.kind = t[0]
        self.c = None
        self.ids = []
        if self.kind == "av":
            self.c, self.p, self.fresh, self.now, self.data = int(t[1]), int(t[2]), int(t[3]), int(t[4]), t[5]
        elif self.kind == "gcv":
            self.c, self.p = int(t[1]), int(t[2])
        elif self.kind == "as":
            self.c, self.v, self.now, self.data = int(t[1]), int(t[2]), int(t[3]), t[4]
        elif self.kind in ("gs", "ensure"):
            self.c = int(t[1])
        elif self.kind in ("backdate", "setcounter"):
            self.c, self.arg = int(t[1]), int(t[2])
        elif self.kind == "dump":
            self.c = int(t[1])
            self.ids = [int(x) for x in t[2].split(",")] if len(t) > 2 and t[2] != "-" else []
        elif self.kind == "mark":
            self.args = t[1:]
        elif self.kind == "cfg":
            self.days, self.versions = int(t[1]), int(t[2])


def parse_version(s):
    if s == "none":
        return None
    a, b, d = s.split(":", 2)
    return (int(a), int(b), d)


class Dump:
    """protocol-visible state of one client as dumped through the transaction API"""
    def __init__(self, line):
        self.line = line
        self.ok = line.startswith("dump ")
        self.absent = True
        self.latest = 0
        self.snap = None        # (version, ts, since)
        self.data = "na"
        self.by_id = {}
        self.by_parent = {}
        if not self.ok:
            return
        m = re.match(r"dump (absent|latest=(\d+) snap=(none|(\d+)@(-?\d+)\+(\d+))) data=(\S+) probes=(.*)$", line)
        if not m:
            self.ok = False
            return
        if m.group(1) != "absent":
            self.absent = False
            self.latest = int(m.group(2))
            if m.group(3) != "none":
                self.snap = (int(m.group(4)), int(m.group(5)), int(m.group(6)))
        self.data = m.group(7)
        for pr in m.group(8).split(";"):
            if not pr:
                continue
            i, a, b = pr.split(">")
            self.by_id[int(i)] = parse_version(a)
            self.by_parent[int(i)] = parse_version(b)

    def versions(self):
        """set of stored version records visible through either index"""
        s = set()
        for v in list(self.by_id.values()) + list(self.by_parent.values()):
            if v is not None:
                s.add(v)
        return s

    def chain_back(self, limit=None):
        """ids from latest backwards through parent links using get_version results"""
        out, vid, seen = [], self.latest, set()
        while vid != 0 and vid not in seen and (limit is None or len(out) < limit):
            v = self.by_id.get(vid)
            if v is None:
                break
            out.append(vid); seen.add(vid)
            vid = v[1]
        return out, vid   # vid = where the walk stopped (the base if the chain is intact)

    def key(self, mask_ts=True, ids=None):
        """comparable summary (timestamps excluded unless asked); probes restricted to `ids`
        when given (a later dump probes more ids than an earlier one)"""
        snap = None if self.snap is None else ((self.snap[0], self.snap[2]) if mask_ts else self.snap)
        return (self.absent, self.latest, snap, self.data,
                tuple(sorted((k, v) for k, v in self.by_id.items() if ids is None or k in ids)),
                tuple(sorted((k, v) for k, v in self.by_parent.items() if ids is None or k in ids)))


def resp_kind(r):
    return r.split()[0] if r else ""


def added_id(r):
    t = r.split()
    return int(t[1]) if t and t[0] == "added" else None


def added_urgency(r):
    t = r.split()
    return t[2] if t and t[0] == "added" and len(t) > 2 else None


def found_version(r):
    t = r.split()
    return parse_version(t[1]) if t and t[0] == "found" else None
