"""Build steps: Coq development, extracted OCaml runner, Rust harness (from /repo's working tree)."""
import os, re, shutil, glob, time
from .common import *
from .common import HARNESS_SRC

FORBIDDEN = re.compile(
    r"\b(Admitted|admit|Axiom|Axioms|Parameter|Parameters|Conjecture|Conjectures|Abort All)\b|Admit Obligations|"
    r"Unset\s+Guard\s+Checking|Unset\s+Positivity\s+Checking|Unset\s+Universe\s+Checking|bypass_check|"
    r"type-in-type|impredicative-set|Local\s+Unset\s+Guard")
TOPLEVEL_HYP = re.compile(r"^\s*(Variable|Variables|Hypothesis|Hypotheses|Context)\b")


def strip_comments(src):
    out, depth, i = [], 0, 0
    while i < len(src):
        if src.startswith("(*", i):
            depth += 1; i += 2; continue
        if src.startswith("*)", i) and depth > 0:
            depth -= 1; i += 2; continue
        if depth == 0:
            out.append(src[i])
        elif src[i] == "\n":
            out.append("\n")
        i += 1
    return "".join(out)


def grep_gate():
    """reject Admitted/Axiom/... anywhere in the development; Variable/Hypothesis outside a Section"""
    bad = []
    for p in sorted(glob.glob(os.path.join(COQ, "**", "*.v"), recursive=True)) + \
            sorted(glob.glob(os.path.join(RUNNER_DIR, "*.v"))):
        src = strip_comments(open(p).read())
        depth = 0
        for n, line in enumerate(src.split("\n"), 1):
            if FORBIDDEN.search(line):
                bad.append(f"{p}:{n}: {line.strip()}")
            if re.match(r"^\s*Section\b", line):
                depth += 1
            elif re.match(r"^\s*End\b", line) and depth > 0:
                depth -= 1
            elif depth == 0 and TOPLEVEL_HYP.match(line):
                bad.append(f"{p}:{n}: {line.strip()} (outside a section)")
    return bad


def build_coq():
    """full .vo build (never -vos); returns (ok, log)"""
    with Lock("coq"):
        if not os.path.exists(os.path.join(COQ, "Makefile")) or \
           os.path.getmtime(os.path.join(COQ, "Makefile")) < os.path.getmtime(os.path.join(COQ, "_CoqProject")):
            run("coq_makefile -f _CoqProject -o Makefile", cwd=COQ, timeout=120)
        rc, out, err = run(f"make -k -j{NCPU}", cwd=COQ, timeout=3000)
        logtxt = out + err
        open(os.path.join(CACHE, "coq-build.log"), "w").write(logtxt)
        return rc == 0, logtxt


def cone(vfile):
    """the .v files a property file transitively requires inside this development"""
    seen, todo = [], [vfile]
    while todo:
        f = todo.pop()
        if f in seen or not os.path.exists(f):
            continue
        seen.append(f)
        src = strip_comments(open(f).read())
        for m in re.finditer(r"From\s+(TSS|TSSProps)\s+Require\s+(?:Import\s+|Export\s+)?(.*?)\.\s", src, re.S):
            root = os.path.join(COQ, "theories" if m.group(1) == "TSS" else "props")
            for mod in m.group(2).split():
                todo.append(os.path.join(root, *mod.split(".")) + ".v")
    return seen


def vo_fresh(v):
    vo = v[:-2] + ".vo"
    return os.path.exists(vo) and os.path.getmtime(vo) >= os.path.getmtime(v)


def proof_step(prop, thorough=False):
    """build, gate, Print Assumptions for every theorem of props/<prop>.v"""
    t0 = time.time()
    res = {"ok": True, "failures": [], "theorems": [], "obligations": 0, "discharged": 0,
           "assumptions": {}, "cone": [], "checker_cmd": ""}
    pv = os.path.join(COQ, "props", prop + ".v")
    if not os.path.exists(pv):
        res["ok"] = False; res["failures"].append(f"no property file {pv}"); return res
    bad = grep_gate()
    if bad:
        res["ok"] = False; res["failures"] += ["forbidden construct: " + b for b in bad]
    ok, logtxt = build_coq()
    files = cone(pv)
    res["cone"] = [os.path.relpath(f, COQ) for f in files]
    for f in files:
        n = len(re.findall(r"\bQed\.", strip_comments(open(f).read())))
        res["obligations"] += n
        if vo_fresh(f):
            res["discharged"] += n
        else:
            res["ok"] = False
            m = re.search(r'File "\./' + re.escape(os.path.relpath(f, COQ)) + r'".*?\n(.*?)(?:\n\S|\Z)', logtxt, re.S)
            res["failures"].append(f"does not compile: {os.path.relpath(f, COQ)}: " + (m.group(0)[:600] if m else ""))
    thms = re.findall(r"^\s*(?:Theorem|Example)\s+(\w+)", strip_comments(open(pv).read()), re.M)
    res["theorems"] = thms
    res["checker_cmd"] = f"make -C coq -k -j{NCPU} (coqc 8.16.1, full .vo) ; coqc Print Assumptions for {len(thms)} statements of props/{prop}.v"
    if res["ok"] and thms:
        adir = os.path.join(CACHE, "assum"); os.makedirs(adir, exist_ok=True)
        stamp = os.path.join(adir, prop + ".out")
        vo = pv[:-2] + ".vo"
        if not (os.path.exists(stamp) and os.path.getmtime(stamp) >= os.path.getmtime(vo)):
            src = f"From TSSProps Require Import {prop}.\n" + "".join(
                f'Goal True. idtac "@@ {t}". exact I. Qed.\nPrint Assumptions {t}.\n' for t in thms)
            av = os.path.join(adir, f"Assum_{prop}.v")
            open(av, "w").write(src)
            rc, out, err = run(["coqc", "-Q", os.path.join(COQ, "theories"), "TSS", "-Q",
                                os.path.join(COQ, "props"), "TSSProps", av], cwd=adir, timeout=600)
            if rc != 0:
                res["ok"] = False; res["failures"].append("Print Assumptions failed: " + (out + err)[-800:])
            else:
                open(stamp, "w").write(out)
        if os.path.exists(stamp):
            out = open(stamp).read()
            cur = None
            for line in out.split("\n"):
                if line.startswith("@@ "):
                    cur = line[3:].strip(); res["assumptions"][cur] = ""
                elif cur is not None:
                    res["assumptions"][cur] += line.strip() + " "
            for t in thms:
                a = res["assumptions"].get(t, "").strip()
                if not a.startswith("Closed under the global context"):
                    res["ok"] = False
                    res["failures"].append(f"{t} depends on assumptions: {a[:300]}")
    # ---- the constants the model shares with the source: read out of /repo now, proved equal to the model's
    if ok:
        from . import srctie
        st = srctie.check(prop)
        res["source_tie"] = {"located": st["located"], "not_located": st["not_located"]}
        res["obligations"] += len(st["located"]); res["discharged"] += len(st["theorems"])
        res["theorems"] = res["theorems"] + st["theorems"]
        for t in st["theorems"]:
            res["assumptions"][t] = "Closed under the global context"
        if st["failures"]:
            res["ok"] = False; res["failures"] += st["failures"]
        if st["located"]:
            res["checker_cmd"] += f" ; coqc on {len(st['located'])} src_tie_* statements generated from the source by vlib/srctie.py"
    if thorough and res["ok"]:
        rc, out, err = run(["coqchk", "-silent", "-o", "-Q", os.path.join(COQ, "theories"), "TSS", "-Q",
                            os.path.join(COQ, "props"), "TSSProps", f"TSSProps.{prop}"], cwd=COQ, timeout=3000)
        res["coqchk"] = (out + err)[-1500:]
        res["checker_cmd"] += f" ; coqchk -silent -o TSSProps.{prop}"
        if rc != 0:
            res["ok"] = False; res["failures"].append("coqchk failed: " + (out + err)[-600:])
    res["wall_s"] = round(time.time() - t0, 1)
    return res


def build_runner():
    """re-extract and recompile the OCaml model runner when the model changed"""
    with Lock("runner"):
        srcs = [os.path.join(COQ, "theories", f) for f in os.listdir(os.path.join(COQ, "theories")) if f.endswith(".vo")]
        srcs += [os.path.join(RUNNER_DIR, "driver.ml"), os.path.join(RUNNER_DIR, "Extract.v")]
        newest = max(os.path.getmtime(s) for s in srcs)
        if os.path.exists(RUNNER) and os.path.getmtime(RUNNER) >= newest:
            return True, "cached"
        rc, out, err = run(["coqc", "-Q", os.path.join(COQ, "theories"), "TSS", "Extract.v"], cwd=RUNNER_DIR, timeout=600)
        if rc != 0:
            return False, out + err
        rc, out, err = run("ocamlfind ocamlopt -O2 -w -a model.mli model.ml driver.ml -o runner", cwd=RUNNER_DIR, timeout=600)
        return rc == 0, out + err


def build_harness(release=False):
    """cargo build of the harness against /repo's current working tree (path dependencies)"""
    with Lock("harness-" + os.path.basename(HARNESS_DIR)):
        if HARNESS_DIR != HARNESS_SRC:
            os.makedirs(os.path.join(HARNESS_DIR, "src"), exist_ok=True)
            for f in os.listdir(os.path.join(HARNESS_SRC, "src")):
                src, dst = os.path.join(HARNESS_SRC, "src", f), os.path.join(HARNESS_DIR, "src", f)
                if not os.path.exists(dst) or open(src).read() != open(dst).read():
                    shutil.copyfile(src, dst)
            toml = open(os.path.join(HARNESS_SRC, "Cargo.toml")).read().replace('"/repo/', '"' + REPO + '/')
            if not os.path.exists(os.path.join(HARNESS_DIR, "Cargo.toml")) or open(os.path.join(HARNESS_DIR, "Cargo.toml")).read() != toml:
                open(os.path.join(HARNESS_DIR, "Cargo.toml"), "w").write(toml)
        shutil.copyfile(os.path.join(REPO, "Cargo.lock"), os.path.join(HARNESS_DIR, "Cargo.lock"))
        cmd = ["cargo", "build", "--offline", "--quiet"] + (["--release"] if release else [])
        # the repository's own build configuration (flags for bundled C libraries, profiles, environment of build
        # scripts) is part of its working tree: the harness is built under it too
        for nm in ("config.toml", "config"):
            if os.path.isfile(os.path.join(REPO, ".cargo", nm)):
                cmd += ["--config", os.path.join(REPO, ".cargo", nm)]
                break
        rc, out, err = run(cmd, cwd=HARNESS_DIR, timeout=2400,
                           env={"RUSTFLAGS": "--cfg tss_verif -Awarnings", "CARGO_TARGET_DIR": TARGET})
        binp = os.path.join(TARGET, "release" if release else "debug", "tss-harness")
        return rc == 0 and os.path.exists(binp), binp, (out + err)[-6000:]


def build_server_bin(release=False):
    """the real executable, built from the repository's working tree (release = the optimised build that is shipped:
    no debug assertions, wrapping integer arithmetic)"""
    tgt = os.path.join(CACHE, "repo-target") if REPO == "/repo" else os.path.join(REPO, "target-bin")
    with Lock("serverbin-" + os.path.basename(tgt)):
        rc, out, err = run(["cargo", "build", "--offline", "--quiet", "--manifest-path", os.path.join(REPO, "Cargo.toml"),
                            "--bin", "taskchampion-sync-server"] + (["--release"] if release else []), timeout=2400,
                           # (built from inside the repository: whatever its .cargo/config.toml says — build-time flags of
                           # bundled libraries, profiles — is part of the working tree)
                           cwd=REPO, env={"CARGO_TARGET_DIR": tgt, "RUSTFLAGS": "-Awarnings"})
        binp = os.path.join(tgt, "release" if release else "debug", "taskchampion-sync-server")
        return rc == 0 and os.path.exists(binp), binp, (out + err)[-4000:]
