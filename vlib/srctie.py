"""A small translator from /repo's source to Coq: the numeric constants the model shares with the code
are read out of the Rust source on every run, written as Coq definitions, and each is proved equal
(by `reflexivity`, checked by coqc) to the constant the model — and with it every theorem in the
property's cone — is about.  A constant that cannot be located is reported as not located (the tie for
it then rests on the correspondence run alone); a constant that is located and differs breaks the
proof obligation `src_tie_<name>`."""
import hashlib, os, re, subprocess
from .common import REPO, COQ, CACHE, run


def _read(rel):
    try:
        return open(os.path.join(REPO, rel)).read()
    except OSError:
        return ""


def _arith(expr):
    """value of a Rust integer expression made of literals, * + - and parentheses (else None)"""
    e = re.sub(r"_(?=\d)", "", expr.strip())
    e = re.sub(r"(\d)(?:usize|u64|u32|i64|i32|u128|i128)\b", r"\1", e)
    if not re.fullmatch(r"[\d\s*+\-()]+", e):
        return None
    try:
        return int(eval(e, {"__builtins__": {}}, {}))
    except Exception:
        return None


def _const(src, name):
    m = re.search(r"\bconst\s+" + name + r"\s*:\s*\w+\s*=\s*([^;]+);", src)
    return _arith(m.group(1)) if m else None


def _default_field(src, field):
    m = re.search(r"impl\s+Default\s+for\s+ServerConfig\s*\{.*?fn\s+default\s*\(\s*\)\s*->\s*Self\s*\{(.*?)\n    \}", src, re.S)
    if not m:
        return None
    f = re.search(r"\b" + field + r"\s*:\s*([^,\n]+),", m.group(1))
    return _arith(f.group(1)) if f else None


# name -> (what it is in the source, extractor, model term (Coq, of type Z), properties whose theorems are about it)
def constants():
    core = _read("core/src/server.rs")
    av, asn = _read("server/src/api/add_version.rs"), _read("server/src/api/add_snapshot.rs")
    return [
        ("SNAPSHOT_SEARCH_LEN", "core/src/server.rs const SNAPSHOT_SEARCH_LEN", _const(core, "SNAPSHOT_SEARCH_LEN"),
         "Z.of_nat SNAPSHOT_SEARCH_LEN", ("C10", "C11")),
        ("default_snapshot_days", "core/src/server.rs ServerConfig::default().snapshot_days", _default_field(core, "snapshot_days"),
         "snapshot_days default_config", ("C12", "C17")),
        ("default_snapshot_versions", "core/src/server.rs ServerConfig::default().snapshot_versions", _default_field(core, "snapshot_versions"),
         "Z.of_N (snapshot_versions default_config)", ("C12", "C17")),
        ("boot_default_days", "what the executable uses when neither flag nor variable is given = ServerConfig::default()", _default_field(core, "snapshot_days"),
         "match boot (mkBootIn [[1%N]] None None None [] None None None None None) with Some a => snapshot_days (sa_cfg a) | None => (-1)%Z end", ("C17",)),
        ("boot_default_versions", "what the executable uses when neither flag nor variable is given = ServerConfig::default()", _default_field(core, "snapshot_versions"),
         "match boot (mkBootIn [[1%N]] None None None [] None None None None None) with Some a => Z.of_N (snapshot_versions (sa_cfg a)) | None => (-1)%Z end", ("C17",)),
        ("MAX_SIZE_add_version", "server/src/api/add_version.rs const MAX_SIZE", _const(av, "MAX_SIZE"), "Z.of_N MAX_SIZE", ("C06", "C14", "C15")),
        ("MAX_SIZE_add_snapshot", "server/src/api/add_snapshot.rs const MAX_SIZE", _const(asn, "MAX_SIZE"), "Z.of_N MAX_SIZE", ("C06", "C14", "C15")),
    ]


STATUS = {"Ok": 200, "Conflict": 409, "NotFound": 404, "Gone": 410, "BadRequest": 400, "Forbidden": 403,
          "InternalServerError": 500, "PayloadTooLarge": 413, "NoContent": 204, "Created": 201, "Accepted": 202,
          "NotModified": 304, "ServiceUnavailable": 503, "Unauthorized": 401, "UnprocessableEntity": 422}


def _arm_status(src, marker, nth=1):
    """the status of the response built in the match arm / branch that starts at the nth occurrence of `marker` in the
    non-test part of a handler source: HttpResponse::<Name>( or error::Error<Name>( .  Deliberately strict: the
    arm's text runs to the next arm (a line starting with a capitalised pattern and containing `=>`), the next line
    that starts with a closing brace, the next blank line or 600
    characters, whichever comes first, and must name exactly ONE status; anything else counts as not located
    (the tie for that entry then rests on the correspondence run alone)."""
    cut = src.find("#[cfg(test)]")
    body = src[:cut] if cut >= 0 else src
    pos = -1
    for _ in range(nth):
        pos = body.find(marker, pos + 1)
        if pos < 0:
            return None
    rest = body[pos + len(marker):pos + len(marker) + 600]
    ends = [m.start() for m in [re.search(r"\n\s*[A-Z][^\n]*=>", rest), re.search(r"\n\s*\n", rest),
                                re.search(r"\n\s*\}[,;)]*\s*\n", rest), re.search(r"\n\s*\} else", rest)] if m]
    if ends:
        rest = rest[:min(ends)]
    names = set(re.findall(r"(?:HttpResponse::|error::Error)(\w+)\s*\(", rest))
    if len(names) != 1:
        return None
    return STATUS.get(names.pop())


def status_table():
    """(name, what, value read from the source, model term of type Z, properties)"""
    av, gcv = _read("server/src/api/add_version.rs"), _read("server/src/api/get_child_version.rs")
    asn, gs, mod = _read("server/src/api/add_snapshot.rs"), _read("server/src/api/get_snapshot.rs"), _read("server/src/api/mod.rs")
    st = lambda t: f"Z.of_N (rs_status ({t}))"
    P14 = ("C14",)
    return [
        ("status_av_accepted", "add_version.rs arm AddVersionResult::Ok", _arm_status(av, "AddVersionResult::Ok("), st("encode (RAdded 1%N (Some UNone))"), P14),
        ("status_av_conflict", "add_version.rs arm AddVersionResult::ExpectedParentVersion", _arm_status(av, "AddVersionResult::ExpectedParentVersion("), st("encode (RConflict 1%N)"), P14),
        ("status_av_empty_body", "add_version.rs body.is_empty()", _arm_status(av, "body.is_empty()"), st("plain 400"), ("C15",)),
        ("status_gcv_found", "get_child_version.rs arm GetVersionResult::Success", _arm_status(gcv, "GetVersionResult::Success"), st("encode (RFound (mkVersion 1%N 0%N nil))"), P14),
        ("status_gcv_notfound", "get_child_version.rs arm GetVersionResult::NotFound", _arm_status(gcv, "GetVersionResult::NotFound)"), st("encode RNotFound"), P14 + ("C08",)),
        ("status_gcv_gone", "get_child_version.rs arm GetVersionResult::Gone", _arm_status(gcv, "GetVersionResult::Gone)"), st("encode RGone"), P14 + ("C08",)),
        ("status_gcv_noclient", "get_child_version.rs arm ServerError::NoSuchClient", _arm_status(gcv, "ServerError::NoSuchClient)"), st("encode RNoClient"), P14 + ("C08",)),
        ("status_as_ack", "add_snapshot.rs after .add_snapshot(", _arm_status(asn, ".add_snapshot("), st("encode RSnapAck"), P14),
        ("status_as_empty_body", "add_snapshot.rs body.is_empty()", _arm_status(asn, "body.is_empty()"), st("plain 400"), ("C15",)),
        ("status_gs_found", "get_snapshot.rs Some((version_id, data))", _arm_status(gs, "if let Some(("), st("encode (RSnap 1%N nil)"), P14),
        ("status_gs_none", "get_snapshot.rs else branch", _arm_status(gs, "} else {"), st("encode RNoSnap"), P14),
        ("status_bad_client_id", "api/mod.rs client_id_header badrequest()", _arm_status(mod, "fn badrequest()"), "match client_id_header None CAbsent with inr s => Z.of_N s | inl _ => (-1)%Z end", ("C15", "C16")),
        ("status_unlisted_client", "api/mod.rs client_id_header !allow_list.contains", _arm_status(mod, "!allow_list.contains"), "match client_id_header (Some nil) (COk 1%N) with inr s => Z.of_N s | inl _ => (-1)%Z end", ("C16",)),
        ("status_noclient_error", "api/mod.rs server_error_to_actix NoSuchClient", _arm_status(mod, "ServerError::NoSuchClient =>"), st("encode RNoClient"), P14),
    ]


def check(prop):
    """-> {"located": [...], "not_located": [...], "theorems": [...], "failures": [...]} for the constants of `prop`"""
    cs = [c for c in constants() + status_table() if prop in c[4]]
    res = {"located": [], "not_located": [], "theorems": [], "failures": []}
    if not cs:
        return res
    body = ["From TSS Require Import Base Seq Urgency ServerProg Http Boot proofs.HttpReach.", "Open Scope Z_scope.",
            f"(* generated by vlib/srctie.py from {REPO} *)"]
    for (name, what, val, term, _) in cs:
        if val is None:
            res["not_located"].append(f"{name} ({what})")
            continue
        res["located"].append(f"{name} = {val} ({what})")
        body += [f"Definition src_{name} : Z := ({val})%Z.",
                 f"Theorem src_tie_{name} : src_{name} = {term}.", "Proof. vm_compute. reflexivity. Qed.",
                 f"Print Assumptions src_tie_{name}."]
    if not res["located"]:
        return res
    text = "\n".join(body) + "\n"
    d = os.path.join(CACHE, "srctie"); os.makedirs(d, exist_ok=True)
    key = hashlib.sha1((text + prop).encode()).hexdigest()[:12]
    f = os.path.join(d, f"SrcTie_{prop}_{key}.v")
    stamp = f[:-2] + ".ok"
    newest_vo = max((os.path.getmtime(os.path.join(COQ, "theories", x)) for x in ("Boot.vo", "Http.vo", "ServerProg.vo", "Urgency.vo", "proofs/HttpReach.vo")
                     if os.path.exists(os.path.join(COQ, "theories", x))), default=0)
    if os.path.exists(stamp) and os.path.getmtime(stamp) >= newest_vo:
        res["theorems"] = [f"src_tie_{n}" for (n, _, v, _, _) in cs if v is not None]
        return res
    open(f, "w").write(text)
    rc, out, err = run(["coqc", "-noglob", "-Q", os.path.join(COQ, "theories"), "TSS", f], cwd=d, timeout=300)
    if rc == 0 and out.count("Closed under the global context") == len(res["located"]):
        open(stamp, "w").write(out)
        res["theorems"] = [f"src_tie_{n}" for (n, _, v, _, _) in cs if v is not None]
        return res
    # which one: each on its own
    for (name, what, val, term, _) in cs:
        if val is None:
            continue
        one = "\n".join(body[:3] + [f"Definition src_{name} : Z := ({val})%Z.", f"Theorem src_tie_{name} : src_{name} = {term}.",
                                    "Proof. vm_compute. reflexivity. Qed."]) + "\n"
        f1 = os.path.join(d, f"SrcTie1_{prop}_{name}_{key}.v")
        open(f1, "w").write(one)
        rc1, o1, e1 = run(["coqc", "-noglob", "-Q", os.path.join(COQ, "theories"), "TSS", f1], cwd=d, timeout=300)
        if rc1 == 0:
            res["theorems"].append(f"src_tie_{name}")
        else:
            why = "which is a different number" if "Unable to unify" in (o1 + e1) else "and the equality does not check"
            res["failures"].append(f"src_tie_{name} no longer checks: the source says {name} = {val} ({what}); the model, and every theorem "
                                   f"of this property's cone, is about `{term}` {why}: " + (o1 + e1).strip()[-300:].replace("\n", " "))
    if not res["failures"] and rc != 0:
        res["failures"].append("source tie file does not compile: " + (out + err)[-400:])
    return res
