"""The check engine for library-level (L1) properties: proof step, builds, correspondence,
direct oracle, shrinking, verdict and evidence."""
import json, os, random, time, hashlib
from . import build
from .common import *
from .l1 import Case, run_cases, same_line


def first_divergence(trace):
    for i, (o, ri, rm) in enumerate(trace):
        if not same_line(o, ri, rm):
            return i
    return None


def load_known():
    p = os.path.join(VERIF, "known_findings.json")
    if os.path.exists(p):
        return [k for k in json.load(open(p)) if k.get("status") == "known"]
    return []


def write_evidence(prop, tier, seed, level, coverage, assumptions, wall, violations):
    ev = {"property_id": prop, "tier": tier, "seed": seed, "level": level, "coverage": coverage,
          "assumptions": assumptions, "wall_s": round(wall, 1), "violations": violations}
    with open(os.path.join(EVIDENCE, prop + ".json"), "w") as f:
        json.dump(ev, f, indent=1)


def write_replay(prop, seed, payload):
    n = 0
    while os.path.exists(os.path.join(REPLAYS, f"{prop}-{seed}-{n}.json")):
        n += 1
    p = os.path.join(REPLAYS, f"{prop}-{seed}-{n}.json")
    json.dump(payload, open(p, "w"), indent=1)
    return p


TRUSTED_BASE = [
    "Coq 8.16.1 kernel (coqc; coqchk in the thorough tier); no native_compute; vm_compute only in Examples and *_refuted witnesses",
    "axioms: none (Print Assumptions of every statement in the property file must be 'Closed under the global context')",
    "hand-written model (coq/theories) tied to /repo only by the correspondence run of this check",
    "extraction: ExtrOcamlBasic only (its Extract Inductive for bool, option, unit, prod, list, sumbool, sumor); no Extract Constant; OCaml 4.13.1; runner/driver.ml (parsing/printing glue)",
    "Rust harness (/verif/harness) and its canonicalisation of uuids, payloads and timestamps",
    "oracle assumption: Uuid::new_v4 returns an id never seen before (checked on the real ids of every run)",
]


class Outcome:
    def __init__(self):
        self.violations = []     # (kind, description, replay payload)
        self.evaluations = 0
        self.validated = 0
        self.tainted = 0
        self.distinct = set()
        self.samples = []
        self.dist = {}


def eval_case(spec, case, traces, out, record=True):
    """traces: {backend: trace}. returns list of (kind, msg, backend, index)"""
    probs = []
    for backend, trace in traces.items():
        if case.meta.get("overlap"):
            from .props_conc import overlap_oracle
            for msg in overlap_oracle(spec.id, case, trace, backend):
                probs.append(("oracle", f"{backend}: {msg}", backend, None))
            if record:
                out.evaluations += 1
                out.distinct.add(case.name + backend)
            continue
        if hasattr(spec, "normalize"):
            trace = spec.normalize(trace)
        i = first_divergence(trace)
        if i is not None:
            if spec.relevant(i, trace):
                o, ri, rm = trace[i]
                probs.append(("correspondence", f"{backend}: op {i} `{o}`: implementation `{ri}` / model `{rm}`", backend, i))
            elif record:
                out.tainted += 1
        elif record:
            out.validated += 1
        for msg in spec.oracle(case, trace, backend):
            probs.append(("oracle", f"{backend}: {msg}", backend, None))
        for (o, ri, rm) in trace:
            if o.startswith("mark harness-hang"):
                probs.append(("oracle", f"{backend}: the implementation stopped answering: no response within the time limit ({o.split()[2].replace('_', ' ')})", backend, None))
                break
            if o.startswith("mark harness-panic"):
                # the harness could not observe the implementation (a dump / walk / bookkeeping step met
                # an error that never occurs on a store the property allows)
                probs.append(("oracle", f"{backend}: the state could not be observed after `{o.split()[2].replace('_', ' ')}`: {o.split('::', 1)[-1].strip().replace('_', ' ')[:200]}", backend, None))
                break
        if record:
            out.evaluations += 1
            if spec.nontrivial(case, trace):
                h = hashlib.sha1(("\n".join(o for o, _, _ in trace) + backend).encode()).hexdigest()
                # ids are canonical, timestamps are not part of identity
                h = hashlib.sha1(("\n".join(" ".join(t for k, t in enumerate(o.split()) if not (o.startswith(("av ", "as ")) and k == (4 if o.startswith("av ") else 3))) for o, _, _ in trace) + backend).encode()).hexdigest()
                out.distinct.add(h)
    return probs


def shrink(spec, binp, case, seed, kind, budget=60):
    """delta-debug the symbolic op list, keeping a failure of the same kind (within three minutes, and with a short
    limit per attempt: shrinking is a convenience for the reader of the replay, not part of the verdict)"""
    t_end = time.time() + 180
    def fails(ops):
        if time.time() > t_end:
            return False
        c = Case(case.name, ops, case.meta, mode=case.mode)
        old_to = os.environ.get("TSS_SHARD_TIMEOUT")
        os.environ["TSS_SHARD_TIMEOUT"] = "40"
        try:
            return fails_inner(c)
        finally:
            if old_to is None:
                os.environ.pop("TSS_SHARD_TIMEOUT", None)
            else:
                os.environ["TSS_SHARD_TIMEOUT"] = old_to
    def fails_inner(c):
        try:
            tr = {b: run_cases(binp, [c], b, seed, shards=1).get(c.name, []) for b in spec.backends if c.meta.get("only", b) == b}
        except Exception:
            return False
        o = Outcome()
        pr = eval_case(spec, c, tr, o, record=False)
        if hasattr(spec, "derive"):
            for b in spec.backends:
                lst = []
                for (dc, ctx) in spec.derive(c, tr[b], b):
                    dt = run_cases(binp, [dc], b, seed + 7, shards=1).get(dc.name, [])
                    lst.append((ctx, dt))
                if hasattr(spec, "compare_all_derived"):
                    pr += [("oracle", m, b, None) for m in spec.compare_all_derived(c, tr[b], lst, b)]
                else:
                    for (ctx, dt) in lst:
                        pr += [("oracle", m, b, None) for m in spec.compare_derived(c, tr[b], ctx, dt, b)]
        if hasattr(spec, "cross"):
            pr += [("oracle", m, "both", None) for m in spec.cross(c, tr)]
        return any(k == kind for (k, _, _, _) in pr)
    ops = list(case.ops)
    n = 2
    runs = 0
    while len(ops) >= 2 and runs < budget:
        chunk = max(1, len(ops) // n)
        reduced = False
        for start in range(0, len(ops), chunk):
            cand = ops[:start] + ops[start + chunk:]
            runs += 1
            if cand and fails(cand):
                ops = cand; n = max(n - 1, 2); reduced = True
                break
            if runs >= budget:
                break
        if not reduced:
            if chunk == 1:
                break
            n = min(len(ops), n * 2)
    return ops


def run_l1_property(spec, tier, seed, replay=None, proof=None):
    t0 = time.time()
    prop = spec.id
    out = Outcome()
    proof = proof if proof is not None else build.proof_step(prop, thorough=(tier == "thorough"))
    okr, msg = build.build_runner()
    if not okr:
        raise RuntimeError("model runner build failed: " + msg[-2000:])
    okh, binp, hlog = build.build_harness()
    if not okh:
        raise RuntimeError("harness build failed:\n" + hlog)
    os.environ.setdefault("TSS_SHARD_TIMEOUT", "300" if tier != "thorough" else "3000")
    rng = random.Random(seed)
    if replay:
        rp = json.load(open(replay))
        cases = [Case(rp.get("name", "replay"), rp["symbolic_ops"], rp.get("meta"), mode=rp.get("mode", getattr(spec, "mode", "lib")))]
    else:
        cases = []
        cdir = os.path.join(VERIF, "corpus", prop)
        if os.path.isdir(cdir):
            for f in sorted(os.listdir(cdir)):
                if f.endswith(".json"):
                    rp = json.load(open(os.path.join(cdir, f)))
                    cases.append(Case("corpus-" + f[:-5], rp["symbolic_ops"], rp.get("meta"), mode=rp.get("mode", getattr(spec, "mode", "lib"))))
        cases += spec.cases(rng, tier)
        if getattr(spec, "overlap", False):
            from .props_conc import overlap_cases
            cases += overlap_cases(spec.id, rng, tier)
    if tier == "thorough" and not replay and any(c.mode == "bin" for c in cases):
        # thorough tier: the cases that drive the real executable are run a second time against the RELEASE build (what
        # is shipped: no debug assertions, wrapping arithmetic) — at most sixteen of them, spread over the families
        okb, rbin, blog = build.build_server_bin(release=True)
        if not okb:
            raise RuntimeError("server binary (release) build failed:\n" + blog[-1500:])
        os.environ["TSS_SERVER_BIN_RELEASE"] = rbin
        bins = [c for c in cases if c.mode == "bin" and not any(o.startswith("sleep ") for o in c.ops)]
        step = max(1, len(bins) // 16)
        for c in bins[::step][:16]:
            cases.append(Case(c.name + "-release", ["usebin release"] + list(c.ops), dict(c.meta, release=True), mode="bin"))
    if any(c.mode == "bin" for c in cases) and not os.environ.get("TSS_SERVER_BIN"):
        # some cases drive the real executable
        okb, sbin, blog = build.build_server_bin()
        if not okb:
            raise RuntimeError("server binary build failed:\n" + blog[-1500:])
        os.environ["TSS_SERVER_BIN"] = sbin
    results = {b: run_cases(binp, [c for c in cases if c.meta.get("only", b) == b], b, seed) for b in spec.backends}
    problems = []
    for c in cases:
        traces = {b: results[b].get(c.name, []) for b in spec.backends if c.meta.get("only", b) == b}
        pr = eval_case(spec, c, traces, out)
        if hasattr(spec, "cross"):
            for msg in spec.cross(c, traces):
                pr.append(("oracle", msg, "both", None))
        if pr:
            problems.append((c, pr, traces))
        elif len(out.samples) < 3 and spec.backends[-1] in traces and spec.nontrivial(c, traces[spec.backends[-1]]):
            tr = traces[spec.backends[-1]]
            out.samples.append({"case": c.name, "backend": spec.backends[-1],
                                "ops_and_responses": [f"{o}  =>  {ri}" for o, ri, _ in tr[:40]]})
    if hasattr(spec, "derive"):
        # second run: derived cases (e.g. per-client projections, sequential permutations),
        # compared with the first run; derived cases with the same name are run once
        for b in spec.backends:
            derived = []
            for c in cases:
                if c.meta.get("only", b) != b:
                    continue
                for (dc, ctx) in spec.derive(c, results[b].get(c.name, []), b):
                    derived.append((c, dc, ctx))
            uniq = {}
            for _, dc, _ in derived:
                uniq.setdefault(dc.name, dc)
            dres = run_cases(binp, list(uniq.values()), b, seed + 7)
            by_case = {}
            for (c, dc, ctx) in derived:
                by_case.setdefault(c.name, (c, []))[1].append((ctx, dres.get(dc.name, [])))
            for cname, (c, lst) in by_case.items():
                if hasattr(spec, "compare_all_derived"):
                    msgs = spec.compare_all_derived(c, results[b].get(c.name, []), lst, b)
                else:
                    msgs = []
                    for (ctx, dt) in lst:
                        msgs += spec.compare_derived(c, results[b].get(c.name, []), ctx, dt, b)
                out.evaluations += len(lst)
                if msgs:
                    problems.append((c, [("oracle", m, b, None) for m in msgs],
                                     {bb: results[bb].get(c.name, []) for bb in spec.backends}))
    for c in cases:
        for o in c.ops:
            k = o.split()[0]
            out.dist[k] = out.dist.get(k, 0) + 1
    return finish(spec, tier, seed, proof, out, problems, binp, t0, len(cases))


def finish(spec, tier, seed, proof, out, problems, binp, t0, ncases, extra_cov=None, assumptions=None):
    prop = spec.id
    known = [k for k in load_known() if k["property"] == prop]
    lines, nviol = [], 0
    # 1. a concrete failing input on the implementation (oracle) beats a mere correspondence break
    problems.sort(key=lambda x: (0 if any(k == "oracle" for k, *_ in x[1]) else 1, len(x[0].ops)))
    reported = set()
    known_printed = set()
    for (c, pr, traces) in problems:
        kind = "oracle" if any(k == "oracle" for k, *_ in pr) else "correspondence"
        # a listed known finding is announced (once) and never hides a different violation
        sig = getattr(spec, "signature", lambda c, pr: None)(c, pr)
        kmatch = [k for k in known if sig is not None and k.get("signature") == sig]
        if kmatch:
            key = json.dumps(sig, sort_keys=True)
            if key not in known_printed:
                known_printed.add(key)
                print(f"KNOWN-FINDING: property={prop} {kmatch[0]['what']}")
            continue
        if kind in reported:
            continue
        reported.add(kind)
        ops = c.ops
        hangs = any("stopped answering" in m for k, m, *_ in pr if k == kind)
        if binp and hasattr(spec, "backends") and not getattr(spec, "no_shrink", False) and not hangs and c.mode != "bin":
            # (a case in which the implementation stops answering costs a full time limit per attempt: it is reported as it is)
            try:
                ops = shrink(spec, binp, c, seed, kind)
            except Exception as e:
                log(f"shrink failed: {e}")
        msgs = [m for k, m, *_ in pr if k == kind]
        payload = {"property": prop, "kind": kind, "name": c.name, "symbolic_ops": ops, "meta": c.meta, "mode": c.mode,
                   "messages": msgs[:10], "seed": seed,
                   "how_to_replay": f"./check {prop} --replay <this file>",
                   "traces": {b: [f"{o} => impl `{ri}` model `{rm}`" for o, ri, rm in t][:200] for b, t in traces.items()}}
        if kind == "correspondence":
            payload["no_longer_checks"] = f"correspondence projection obs_{prop} between coq/theories (extracted) and /repo"
        path = write_replay(prop, seed, payload)
        nviol += 1
        suffix = "" if kind == "oracle" else " no-failing-input-found"
        lines.append(f"VIOLATION property={prop} replay={path}{suffix}")
        log(f"{kind}: " + "; ".join(msgs[:3]))
    if not proof["ok"]:
        # a proof obligation no longer checks; if no failing input was found above say so
        if not any("no-failing-input-found" not in l for l in lines):
            path = write_replay(prop, seed, {"property": prop, "kind": "proof", "no_longer_checks": proof["failures"],
                                             "theorems": proof["theorems"]})
            if not lines:
                lines.append(f"VIOLATION property={prop} replay={path} no-failing-input-found")
            nviol += 1
        log("proof step failed: " + "; ".join(proof["failures"])[:1500])
    cov = {
        "obligations": proof["obligations"], "discharged": proof["discharged"],
        "checker_cmd": proof["checker_cmd"], "trusted_base": TRUSTED_BASE,
        "theorems": proof["theorems"], "print_assumptions": proof["assumptions"], "proof_cone": proof["cone"],
        "evaluations": out.evaluations, "distinct_nontrivial": len(out.distinct), "rule": spec.rule,
        "samples": out.samples[:3] or [{"note": "no non-trivial sample"}],
        "traces_validated_against_impl": out.validated,
        "cases_first_divergence_outside_projection": out.tainted,
        "cases": ncases, "distribution": {"symbolic_ops_by_kind": out.dist},
        "proof_failures": proof["failures"][:5],
        "source_tie": proof.get("source_tie", {}),
    }
    if extra_cov:
        cov.update(extra_cov)
    if getattr(spec, "level", "proof") != "proof":
        cov["explanation"] = getattr(spec, "explanation", "")
    write_evidence(prop, tier, seed, getattr(spec, "level", "proof"), cov,
                   assumptions or ["see coverage.trusted_base"], time.time() - t0, nviol)
    for l in lines:
        print(l)
    return 1 if lines else 0
