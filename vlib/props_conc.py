"""C03: overlapping requests under the controlled scheduler (L2s).  The verdict on an observed
outcome is linearizability against one-at-a-time executions of the same requests on the
implementation itself (all permutations), plus: no 5xx caused by overlap, no transaction obtained
while another is open, no hang."""
import itertools, random, re
from .l1 import Case
from .trace import Op, Dump
from .props_l1 import L1Prop, sizes
from .props_http import HResp, HOp

# request kinds relative to the prefix: client 1 exists (3 versions, snapshot), client 5 is new.
# Ids are pinned to positions of the prefix (ver:1:2 = the latest before the overlap) so that the
# one-at-a-time candidates quote exactly the ids the overlapping requests quoted.
KINDS = {
    "AVnew": "http POST av hyph=nil hyph=5 history b:{d}",
    "AVnewP": "http POST av hyph=$p5 hyph=5 history b:{d}",
    "AVlatest": "http POST av hyph=ver:1:2 hyph=1 history b:{d}",
    "AVstale": "http POST av hyph=ver:1:1 hyph=1 history b:{d}",
    "GCVlatest": "http GET gcv hyph=ver:1:2 hyph=1 absent e",
    "GCVnew": "http GET gcv hyph=nil hyph=5 absent e",
    "ASlatest": "http POST as hyph=ver:1:2 hyph=1 snapshot b:{d}",
    "ASnewP": "http POST as hyph=$p5 hyph=5 snapshot b:{d}",
    "ASnewNil": "http POST as hyph=nil hyph=5 snapshot b:{d}",
    "GS": "http GET snap - hyph=1 absent e",
    "GSnew": "http GET snap - hyph=5 absent e",
}
# second family: client 1 has four versions and NO snapshot, so that several AddSnapshot requests
# for different versions are all acceptable when validated (ver:1:3 is the latest)
KINDS2 = {
    "ASv1": "http POST as hyph=ver:1:1 hyph=1 snapshot b:{d}",
    "ASv2": "http POST as hyph=ver:1:2 hyph=1 snapshot b:{d}",
    "ASv3": "http POST as hyph=ver:1:3 hyph=1 snapshot b:{d}",
    "AVlatest4": "http POST av hyph=ver:1:3 hyph=1 history b:{d}",
    "GS4": "http GET snap - hyph=1 absent e",
}
PREFIX2 = ["http POST av hyph=nil hyph=1 history b:1", "http POST av hyph=latest:1 hyph=1 history b:2",
           "http POST av hyph=latest:1 hyph=1 history b:3", "http POST av hyph=latest:1 hyph=1 history b:4"]
PREFIX = ["http POST av hyph=nil hyph=1 history b:1", "http POST av hyph=latest:1 hyph=1 history b:2",
          "http POST as hyph=latest:1 hyph=1 snapshot b:100", "http POST av hyph=latest:1 hyph=1 history b:3"]


def norm_state(dumps):
    """dumps: {client: Dump} -> canonical structure + id map"""
    idmap = {0: "nil"}
    out = []
    for c, d in enumerate(dumps):       # labelled by position in the (fixed) dump order, not by canonical number
        if not d.ok:
            out.append((c, "dump-failed")); continue
        if d.absent:
            out.append((c, "absent")); continue
        known = {v[0]: v for v in d.versions()}
        ids, vid = [], d.latest
        while vid != 0 and vid in known and vid not in ids:
            ids.append(vid); vid = known[vid][1]
        ids.reverse()
        base = known[ids[0]][1] if ids else 0
        if base != 0:
            idmap.setdefault(base, f"c{c}base")
        for k, i in enumerate(ids):
            idmap[i] = f"c{c}#{k}"
        chain = [(idmap[i], idmap.get(known[i][1], "?"), known[i][2]) for i in ids]
        orphans = sorted((known[i][2], idmap.get(known[i][1], "?")) for i in known if i not in ids)
        latest_ok = (d.latest == (ids[-1] if ids else 0))
        snap = None if d.snap is None else (idmap.get(d.snap[0], "?"), d.snap[2], d.data)
        # a client that exists but is empty is the same protocol-visible state as an absent one
        if not chain and not orphans and snap is None:
            out.append((c, "absent")); continue
        out.append((c, tuple(chain), tuple(orphans), snap, latest_ok))
    return tuple(out), idmap


def norm_resp(r, idmap):
    f = lambda x: idmap.get(int(x), "?") if x.isdigit() else x
    return (r.status, f(r.xv), f(r.xp), r.xs, r.ct, r.body)


def block_sig(trace, start, nreq):
    """signature of n request responses starting at index `start` followed by dumps"""
    reqs = [(trace[start + k][0], HResp(trace[start + k][1])) for k in range(nreq)]
    dumps = []
    j = start + nreq
    while j < len(trace) and not trace[j][0].startswith("dump "):
        j += 1
    while j < len(trace) and trace[j][0].startswith("dump "):
        dumps.append(Dump(trace[j][1])); j += 1
    st, idmap = norm_state(dumps)
    return tuple(norm_resp(r, idmap) for _, r in reqs), st, reqs


class C03(L1Prop):
    id = "C03"
    mode = "http"
    no_shrink = True
    rule = ("pairs (and triples) of requests from {AddVersion on a new client (nil / non-nil parent), AddVersion on an "
            "existing client (latest / stale), GetChildVersion, AddSnapshot, GetSnapshot; new and existing client} under "
            "every ordering of their transactions (binary schedules of length 4, the rest drained) plus begin-while-held "
            "probes, on the in-memory backend, one SQLite instance and several SQLite instances on one directory; each "
            "outcome must equal some one-at-a-time execution of the same requests on the implementation, AND every response and the "
            "final store must equal what the extracted model (ConcRig.rig_results) computes for the same transaction schedule; non-trivial = "
            "schedules in which transactions of different requests alternate; distinct by (requests, normalised outcome)")
    def cases(self, rng, tier):
        out = []
        kinds = list(KINDS)
        pairs = [(a, b) for i, a in enumerate(kinds) for b in kinds[i:]]
        relevant_pairs = [p for p in pairs if not (p[0].startswith("G") and p[1].startswith("G"))] + [("GCVlatest", "GS")]
        # begin-while-held probes at the start of a transaction (k = 0), inside it, and in the second
        # and third transaction of a request (after both requests have run their first)
        probes = [["0.0!1"], ["1.0!0"], ["0.1!1"], ["1.1!0"], ["0", "1.1!0"], ["0", "1", "0.0!1"], ["0", "1", "0.1!1"],
                  ["0", "1", "1.1!0"], ["0", "1", "0", "1.0!0"], ["0", "1", "0", "1", "0.1!1"],
                  # one request is held inside a transaction while the other runs its LATER (writing) transactions
                  ["0", "0", "1.1!0"], ["1", "1", "0.1!1"], ["0", "1.1!0", "1.1!0"], ["1", "0.1!1", "0.1!1"]]
        scheds2 = [list(s) for n in (0, 2, 3, 4, 5) for s in itertools.product("01", repeat=n)] + probes + [["0.2!1"], ["0", "1", "0.2!1"]]
        if tier != "thorough":
            scheds2 = [list(s) for s in itertools.product("01", repeat=4)] + probes
        k = 0
        for (a, b) in relevant_pairs:
            for mode in ("shared", "multi"):
                for s in scheds2:
                    probe = any("!" in x for x in s)
                    if mode == "multi" and tier != "thorough" and not probe and (len(s) != 4 or s.count("0") != 2):
                        continue
                    if mode == "multi" and tier != "thorough" and probe and not (a.startswith("AV") and b.startswith(("AV", "AS"))):
                        continue
                    reqs = [KINDS[a].format(d="21"), KINDS[b].format(d="22")]
                    ops = list(PREFIX) + ["conc " + mode + " " + " || ".join(reqs) + " ## " + " ".join(s), "dump 1", "dump 5"]
                    out.append(Case(f"c03-{k}", ops, {"reqs": reqs, "group": f"{a}+{b}", "sched": s, "cmode": mode}, mode="http"))
                    k += 1
        # overlapping AddSnapshot requests for different acceptable versions (validation and store
        # must be one transaction: the snapshot never ends up on the older version)
        for (a, b) in [("ASv1", "ASv2"), ("ASv1", "ASv3"), ("ASv2", "ASv3"), ("ASv2", "AVlatest4"), ("ASv1", "GS4")]:
            for mode in ("shared", "multi"):
                for s in scheds2:
                    if mode == "multi" and tier != "thorough" and (len(s) != 4 or s.count("0") != 2):
                        continue
                    reqs = [KINDS2[a].format(d="21"), KINDS2[b].format(d="22")]
                    ops = list(PREFIX2) + ["conc " + mode + " " + " || ".join(reqs) + " ## " + " ".join(s), "dump 1", "dump 5"]
                    out.append(Case(f"c03-{k}", ops, {"reqs": reqs, "group": f"{a}+{b}", "sched": s, "cmode": mode, "prefix": list(PREFIX2)}, mode="http"))
                    k += 1
        # several server instances on one data directory, used in turn (no overlap at all): an
        # instance must not answer from what it remembers of its own earlier requests
        for j in range(sizes(tier, 10, 120)):
            ops = []
            ninst = rng.choice([2, 2, 3])
            for step in range(rng.randint(6, 16)):
                ops.append(f"inst {rng.randrange(ninst)}")
                c = rng.choice([1, 1, 2])
                r = rng.random()
                if r < 0.6:
                    par = rng.choice(["latest:%d" % c] * 4 + ["nil", "anc:%d:1" % c])
                    ops += ["dumpall", f"http POST av hyph={par} hyph={c} history b:{step},{j % 250}", "dumpall"]
                elif r < 0.75:
                    ops.append(f"http POST as hyph=latest:{c} hyph={c} snapshot b:9,{step}")
                elif r < 0.9:
                    ops.append(f"http GET gcv hyph={rng.choice(['latest', 'anc'])}:{c}:1 hyph={c} absent e")
                else:
                    ops.append(f"http GET snap - hyph={c} absent e")
            ops += ["inst 0", "dumpall", "walk 1", "walk 2"]
            out.append(Case(f"c03-inst-{j}", ops, {"inst": True, "only": "sqlite", "group": "instances", "sched": [], "cmode": "multi"}, mode="http"))
            k += 1
        # free-running overlap with nothing between the Server and the backend (no wrapper, no
        # scheduler): streams of AddVersion from several instances against a stream of AddSnapshot and
        # of reads, all for one client.  Decided afterwards, one at a time: no request was answered with
        # an error within the lock-wait budget, no parent accepted twice, the stored chain is exactly
        # the acknowledged versions.
        for j in range(sizes(tier, 4, 24)):
            nv = rng.randint(0, 3)
            ops = ["raw", "ensure 1"] + [f"av 1 {'nil' if i == 0 else 'latest:1'} b:{i},{j}" for i in range(nv)]
            ops += [f"race 1 {rng.choice([1, 2, 2, 3])} {rng.choice([60, 120, 200])}", "dumpall"]
            if j % 2:
                # ... and the same through ONE server object shared by all streams (the worker threads of one process), twice:
                # whatever the first overlap leaves behind in the object is there for the second
                ops += [f"race 1 {rng.choice([2, 3])} 60 shared", f"race 1 2 {rng.choice([60, 100])} shared", "dumpall"]
            out.append(Case(f"c03-race-{j}", ops, {"inst": True, "race": True, "group": "race", "sched": [], "cmode": "multi"}))
            k += 1
        # between two transactions of ONE request another instance acts (it creates the very client the request is
        # about to create, and uploads its first version), while a second upload is still arriving at the same
        # worker: the request whose first transaction found no client meets the client at its second; both
        # requests are answered, in the one-at-a-time order "the other instance first"
        for j in range(sizes(tier, 6, 24)):
            ops = ["http POST av hyph=nil hyph=1 history b:1", "http POST av hyph=latest:1 hyph=1 history b:2"]
            par = ["nil", "$p5", "nil"][j % 3]
            other = [f"http POST av hyph=latest:1 hyph=1 history chunks:4,4,4,4,{1 + j}", f"http POST as hyph=latest:1 hyph=1 snapshot chunks:4,4,4,4,{1 + j}",
                     f"http POST av hyph=nil hyph=6 history chunks:2,2,2,2,{1 + j}"][j % 3 if j % 2 else 0]
            group = [f"http POST av hyph={par} hyph=5 history chunks:3,{1 + j % 5}", other]
            if j % 4 == 3:
                group.reverse()
            ops += [f"intrude {1 if j % 5 else 0} 5 b:9,{j}", "ileave " + " || ".join(group), "dump 5", "dump 1", "http GET gcv hyph=nil hyph=5 absent e",
                    "http POST av hyph=latest:5 hyph=5 history b:3", "walk 5", "walk 1"]
            out.append(Case(f"c03-intrude-{j}", ops, {"inst": True, "intrude": True, "http": True, "group": "intrude", "sched": [], "cmode": "shared"}, mode="http"))
            k += 1
        # the last accepted upload is sent once more (same parent, same bytes — a retry after a lost answer, or a second replica
        # with the same change): two accepted versions never share a parent, overlapping or not
        for j in range(sizes(tier, 4, 16)):
            body = f"b:{j},7,7"
            ops = ["http POST av hyph=nil hyph=1 history b:1", f"http POST av hyph=latest:1 hyph=1 history {body}", "dumpall",
                   f"http POST av hyph=anc:1:1 hyph=1 history {body}", "dumpall", "http GET gcv hyph=anc:1:1 hyph=1 absent e", "dumpall",
                   f"http POST av hyph=latest:1 hyph=1 history {body}", "dumpall", f"http POST av hyph=anc:1:1 hyph=1 history {body}", "dumpall", "walk 1"]
            if j % 2:
                ops = [o if not o.startswith("http POST av hyph=anc") else f"inst {j % 3}\n{o}" for o in ops]
                ops = [x for o in ops for x in o.split("\n")]
            out.append(Case(f"c03-resend-{j}", ops, {"inst": True, "http": True, "group": "resend", "sched": [], "cmode": "shared"}, mode="http"))
            k += 1
        # right AFTER a request's transaction has committed — and before the request has been answered — another instance
        # stores a snapshot for the version just added: the answer is the one of the committed transaction
        for j in range(sizes(tier, 4, 16)):
            d, v = [(14, 100), (14, 2), (1, 3), (14, 1)][j % 4]
            ops = [f"cfg {d} {v}", "http POST av hyph=nil hyph=1 history b:1", "http POST av hyph=latest:1 hyph=1 history b:2"]
            if j % 2:
                ops += ["http POST as hyph=anc:1:1 hyph=1 snapshot b:8", "backdate 1 4000000"]
            ops += [f"intrudeafter 0 1 snap stored b:9,{j}", f"http POST av hyph=latest:1 hyph=1 history b:3,{j}", "dump 1", "http GET snap - hyph=1 absent e",
                    "http POST av hyph=latest:1 hyph=1 history b:4", "dump 1"]
            out.append(Case(f"c03-intrudeafter-{j}", ops, {"inst": True, "intrude": True, "http": True, "group": "intrude", "sched": [], "cmode": "shared", "only": "sqlite"}, mode="http"))
            k += 1
        # uploads for ONE client and ONE parent whose body chunks arrive alternately at one worker: exactly
        # one is accepted, the others are told the new latest version, and what is stored under the new id
        # is the body of the accepted upload and nothing else
        for j in range(sizes(tier, 8, 60)):
            ops = ["http POST av hyph=nil hyph=1 history b:1"]
            def ch():
                return "chunks:" + ",".join(str(rng.randint(1, 60)) for _ in range(rng.randint(2, 5)))
            for rnd in range(rng.randint(1, 3)):
                ops.append("ileave " + " || ".join(f"http POST av hyph=latest:1 hyph=1 history {ch()}" for _ in range(rng.choice([2, 2, 3]))))
                ops += ["http GET gcv hyph=anc:1:1 hyph=1 absent e", "http POST av hyph=latest:1 hyph=1 history b:2"]
            ops += ["walk 1"]
            out.append(Case(f"c03-ileave-{j}", ops, {"inst": True, "ileave": True, "http": True, "group": "ileave", "sched": [], "cmode": "shared"}, mode="http"))
            k += 1
        # real-time order: request 0 is stopped right after its (read) transaction has ended, request 1 runs from
        # start to answer, and only then is request 2 sent: whatever request 2 is told must take request 1 into
        # account (it may not be handed something request 0 read earlier)
        for (a, b, c) in [("GCVlatest", "AVlatest", "GCVlatest"), ("GS", "ASlatest", "GS"), ("GCVlatest", "AVlatest", "AVlatest"),
                          ("GCVnew", "AVnew", "GCVnew"), ("GSnew", "AVnew", "GSnew"), ("AVstale", "AVlatest", "AVstale")]:
            for s in (["0<", "1", "2", "0>"], ["0<", "1", "0>", "2"], ["0<", "1", "1", "1", "2", "0>"], ["0", "1", "2"], ["1", "0<", "2", "0>"]):
                for mode in ("shared", "multi"):
                    reqs = [KINDS[a].format(d="41"), KINDS[b].format(d="42"), KINDS[c].format(d="43")]
                    ops = list(PREFIX) + ["conc " + mode + " " + " || ".join(reqs) + " ## " + " ".join(s), "dump 1", "dump 5"]
                    out.append(Case(f"c03-{k}", ops, {"reqs": reqs, "group": f"{a}+{b}+{c}", "sched": s, "cmode": mode}, mode="http"))
                    k += 1
        triples = [("AVnew", "ASnewP", "AVnewP"), ("AVnew", "AVnew", "GCVnew"), ("AVnewP", "ASnewP", "GSnew"),
                   ("AVlatest", "AVlatest", "ASlatest"), ("AVlatest", "GCVlatest", "GS"), ("AVnew", "ASnewNil", "AVnew")]
        nsch = sizes(tier, 12, 300)
        for (a, b, c) in triples:
            for j in range(nsch):
                s = [str(rng.randint(0, 2)) for _ in range(rng.randint(3, 7))]
                reqs = [KINDS[a].format(d="31"), KINDS[b].format(d="32"), KINDS[c].format(d="33")]
                mode = rng.choice(["shared", "multi"])
                ops = list(PREFIX) + ["conc " + mode + " " + " || ".join(reqs) + " ## " + " ".join(s), "dump 1", "dump 5"]
                out.append(Case(f"c03-{k}", ops, {"reqs": reqs, "group": f"{a}+{b}+{c}", "sched": s, "cmode": mode}, mode="http"))
                k += 1
        return out
    def normalize(self, trace):
        # the scheduler's notes (blocked / LOCK-VIOLATION / HANG) are read by the oracle; the model
        # has nothing to say about them
        race = any(o.startswith(("race ", "mark ileave")) for (o, ri, rm) in trace)
        return [(o, ri, ri if (o.startswith("csched") or race) else rm) for (o, ri, rm) in trace]
    def relevant(self, i, trace):
        # correspondence: the extracted model runs the SAME transaction schedule (ConcRig.rig_results,
        # an instance of Conc.crun by ConcRigProps.rig_run_is_crun) and must give every request the
        # response, and the store the final contents, that the real handlers produced
        return trace[i][0].startswith(("http ", "dump "))
    def _block(self, trace):
        for i, (o, ri, rm) in enumerate(trace):
            if o.startswith("conc "):
                n = int(o.split()[2])
                return i, n
        return None, 0
    def oracle(self, case, trace, backend):
        fails = []
        if case.meta.get("intrude"):
            for i, (o, ri, rm) in enumerate(trace):
                if o.startswith("mark intrusion-not-reached"):
                    return []          # the request made fewer transactions than the case assumes: nothing was interleaved
                if o.startswith("http "):
                    r = HResp(ri)
                    if not r.ok or r.status >= 500:
                        fails.append(f"op {i} `{o[:70]}` was answered `{ri.split(' | ')[0][:60]}` although every request could be served: another instance acted between two "
                                     f"transactions of a request while a second upload was arriving at the same worker ({backend})")
            return fails
        if case.meta.get("ileave"):
            from .props_http import C06
            fails = list(C06().oracle(case, trace, backend))
            i = 0
            while i < len(trace):
                o = trace[i][0]
                if o.startswith("mark ileave"):
                    n = int(o.split()[2])
                    grp = [(HOp(x[0]), HResp(x[1])) for x in trace[i + 1:i + 1 + n]]
                    oks = [r for (h, r) in grp if r.status == 200]
                    if len(oks) != 1:
                        fails.append(f"{len(oks)} of {n} overlapping uploads on one parent were accepted: statuses {[r.status for (h, r) in grp]}")
                    for (h, r) in grp:
                        if r.status not in (200, 409):
                            fails.append(f"overlapping upload answered {r.status}")
                        if r.status == 409 and oks and r.xp != oks[0].xv:
                            fails.append(f"a refused overlapping upload was told the latest version is {r.xp}; the accepted one created {oks[0].xv}")
                    i += n
                i += 1
            return [f + f" (uploads for one client interleaved chunk by chunk on one worker, {backend})" for f in fails]
        if case.meta.get("race"):
            for (o, ri, rm) in trace:
                if o.startswith("race "):
                    kv = dict(x.split("=", 1) for x in ri.split()[1:])
                    if kv["fast_errors"] != "0":
                        fails.append(f"{kv['fast_errors']} requests were answered with an error well inside the lock-wait budget merely because other requests overlapped: {kv['first']}")
                    if kv["parents_twice"] != "0":
                        fails.append(f"{kv['parents_twice']} parents were accepted twice by overlapping AddVersion requests")
                    if kv["slow_errors"] != "0" and int(kv.get("max_ok_ms", "99999")) < 1500 and "lockfor" not in " ".join(o2 for (o2, _, _) in trace):
                        fails.append(f"{kv['slow_errors']} requests gave up waiting for the store (more than the lock-wait budget) although nothing else held it and no request that was served took longer than {kv.get('max_ok_ms')} ms: requests block each other")
                    if kv.get("torn_snapshots", "0") != "0":
                        fails.append(f"{kv['torn_snapshots']} GetSnapshot answers carried a version id and bytes that come from DIFFERENT uploads (every uploaded snapshot names its version in its bytes)")
                    if kv["orphans"] != "0" or kv["unacknowledged_on_chain"] != "0" or kv["walk"] != "ok":
                        fails.append(f"after the overlap the stored chain is not the acknowledged versions: {kv['orphans']} accepted versions are not on it, "
                                     f"{kv['unacknowledged_on_chain']} versions on it were never acknowledged, walk {kv['walk']}")
            return [f + f" (free-running streams `{[o for (o, _, _) in trace if o.startswith('race ')]}`, {backend})" for f in fails]
        if case.meta.get("inst"):
            # one-at-a-time by construction: every AddVersion must be a compare-and-append on the
            # state the directory holds, whichever instance serves it; never a 5xx
            from .props_l1 import http_as_lib, cas_check
            for (o, ri, rm) in trace:
                if o.startswith("http ") and HResp(ri).status >= 500:
                    fails.append(f"`{o[:60]}` answered {HResp(ri).status} by one of several instances used in turn")
            t2 = http_as_lib(trace)
            for i2, (o, ri, rm) in enumerate(t2):
                if o.startswith("av "):
                    cas_check(i2, t2, fails, True)
            return [f + " (several server instances on one directory, used in turn)" for f in fails]
        i, n = self._block(trace)
        if i is None:
            return fails
        notes = ""
        for (o, ri, rm) in trace[i:]:
            if o.startswith("csched"):
                notes = ri
        def client_of(t):
            toks = case.meta["reqs"][t].split()
            return toks[4] if len(toks) > 4 else "?"
        def same_client(note):
            # `tJ-began-while-tI-open` / `tJ-entered-while-open-I+K`: transactions of DIFFERENT clients
            # may overlap (the storage interface says they share no data); what they must not do is
            # change the outcome, which the linearizability comparison decides
            ts = [int(x) for x in re.findall(r"(?<![0-9a-zA-Z])t?(\d+)", note.split(":", 1)[1])]
            cl = {client_of(t) for t in ts if t < len(case.meta["reqs"])}
            return len(cl) <= 1
        for bad in ("LOCK-VIOLATION", "HANG", "BEGIN-ERROR"):
            hits = [x for x in (notes.split()[1].split(",") if len(notes.split()) > 1 else []) if bad in x]
            if bad == "LOCK-VIOLATION":
                hits = [x for x in hits if same_client(x)]
            if hits:
                fails.append(f"scheduler observed {hits} (schedule {case.meta['sched']}, requests {case.meta['group']}, {backend}/{case.meta['cmode']})")
        for k in range(n):
            o, ri, rm = trace[i + 1 + k]
            r = HResp(ri)
            if not r.ok or r.status >= 500:
                fails.append(f"request {k} `{o[:70]}` answered `{ri.split(' | ')[0][:60]}` merely because another request overlapped (schedule {case.meta['sched']}, {backend}/{case.meta['cmode']})")
        return fails
    def derive(self, case, trace, backend):
        if case.meta.get("inst"):
            return []
        reqs = case.meta["reqs"]
        out = []
        for perm in itertools.permutations(range(len(reqs))):
            ops = list(case.meta.get("prefix", PREFIX)) + [reqs[j] for j in perm] + ["dump 1", "dump 5"]
            name = "c03seq-" + re.sub(r"[^A-Za-z0-9+]", "", case.meta["group"]) + "-" + "".join(map(str, perm))
            out.append((Case(name, ops, {"perm": perm}, mode="http"), perm))
        return out
    def compare_all_derived(self, case, trace, derived, backend):
        """derived: list of (perm, sequential trace)"""
        i, n = self._block(trace)
        if i is None:
            return []
        got_resps, got_state, reqs = block_sig(trace, i + 1, n)
        # real-time order: `RT:a<b` = request a had been answered before request b was sent; only
        # one-at-a-time orders that keep every such pair are candidates
        notes = ""
        for (o, ri, rm) in trace[i:]:
            if o.startswith("csched"):
                notes = ri
        rt = [tuple(int(x) for x in m.groups()) for m in re.finditer(r"RT:(\d+)<(\d+)", notes)]
        derived = [(perm, st) for perm, st in derived if all(perm.index(a) < perm.index(b) for a, b in rt if a in perm and b in perm)]
        cands = []
        for perm, st in derived:
            start = len(case.meta.get("prefix", PREFIX))
            resps, state, _ = block_sig(st, start, n)
            # responses are listed in execution order: map back to request index
            by_req = [None] * n
            for pos, j in enumerate(perm):
                by_req[j] = resps[pos]
            cands.append((perm, tuple(by_req), state))
            if tuple(by_req) == got_resps and state == got_state:
                return []
        # finding F3, delimited exactly: the outcome equals a one-at-a-time execution in state AND in
        # every response except that an AddSnapshot for the client being created was answered 200
        # (declined) where that order answers 404, or was declined where that order stores it
        case.meta.pop("finding", None)
        kinds = case.meta["group"].split("+")
        if any(k.startswith("AVnew") for k in kinds):
            for perm, by_req, state in cands:
                diff = [j for j in range(n) if by_req[j] != got_resps[j]]
                only_as = diff and all(kinds[j].startswith("ASnew") and got_resps[j][0] == 200 and by_req[j][0] == 404 for j in diff)
                if only_as and state == got_state:
                    case.meta["finding"] = "as_in_creation_window"
                # the snapshot-for-the-base corner: all responses equal, but that order stores the snapshot
                if not diff and state != got_state and any(k == "ASnewP" for k in kinds):
                    strip = lambda st: tuple(x[:3] + (None,) + x[4:] if isinstance(x, tuple) and len(x) == 5 else x for x in st)
                    if strip(state) == strip(got_state):
                        case.meta["finding"] = "as_in_creation_window"
        msg = (f"{backend}/{case.meta['cmode']}: requests {case.meta['group']} under schedule {case.meta['sched']}: responses {got_resps} "
               f"and final state {got_state} equal no one-at-a-time execution" + (f" that respects the real-time order {rt}" if rt else "") + "; those give " +
               "; ".join(f"{p}: {r} / {s}" for p, r, s in cands[:6]))
        return [msg]
    def signature(self, case, pr):
        # machine-matchable description for the known-findings file
        if case.meta.get("finding") == "as_in_creation_window" and all("equal no one-at-a-time execution" in m for k, m, *_ in pr if k == "oracle"):
            return {"kind": "as_in_creation_window"}
        return None
    def nontrivial(self, case, trace):
        if case.meta.get("inst"):
            return True
        s = [x.rstrip("<>") for x in case.meta["sched"] if x.rstrip("<>").isdigit()]
        return len(set(s)) >= 2 or any("!" in x for x in case.meta["sched"])
    def distinct_key(self, case, trace):
        return None


ALL = {"C03": C03}


# ------------------------------------------------------------------ overlap component of C02 / C07 / C08 / C11
def overlap_cases(prop, rng, tier):
    """a few scheduled overlaps whose outcome the property itself speaks about"""
    groups = {
        "C02": [("AVlatest", "AVlatest"), ("AVnew", "AVnew"), ("AVnewP", "AVnew"), ("AVlatest", "AVstale")],
        "C07": [("AVlatest", "AVlatest"), ("AVnew", "AVnew"), ("AVlatest", "ASlatest")],
        "C08": [("AVlatest", "GCVlatest"), ("AVnew", "GCVnew"), ("AVlatest", "AVlatest")],
        "C11": [("ASlatest", "GS"), ("ASlatest", "AVlatest"), ("ASlatest", "ASlatest"), ("ASv2", "ASv3"), ("ASv1", "ASv3")],
        "C01": [("AVlatest", "AVlatest"), ("AVnew", "AVnew")],
        "C10": [("ASv1", "ASv2"), ("ASv1", "ASv3"), ("ASv2", "ASv3"), ("ASv3", "AVlatest4")],
        "C18": [("ASv1", "ASv2"), ("ASv1", "ASv3"), ("ASv2", "ASv3")],
        # requests of two DIFFERENT clients overlapping: neither loses anything
        "C09": [("AVnew", "AVlatest"), ("AVnewP", "AVlatest"), ("AVnew", "ASlatest")],
    }[prop]
    scheds = [list(s) for s in itertools.product("01", repeat=4)] if tier == "thorough" else \
             [list("0011"), list("0101"), list("0110"), list("1001"), list("0001"), list("1000"), list("0100")]
    # begin-while-held probes: the second request asks for its transaction after the first has made
    # k storage calls inside its own (it must wait; if it does not, the outcome shows it)
    scheds += [["0.1!1"], ["1.1!0"], ["0.2!1"], ["1.2!0"], ["0.0!1"], ["0", "1", "0.1!1"], ["0", "1", "1.0!0"],
               ["0", "0", "1.1!0"], ["1", "1", "0.1!1"], ["0", "1.1!0", "1.1!0"]]
    out = []
    k = 0
    for (a, b) in groups:
        for s in scheds:
            kk = KINDS2 if a in KINDS2 else KINDS
            reqs = [kk[a].format(d="21"), kk[b].format(d="22")]
            ops = list(PREFIX2 if a in KINDS2 else PREFIX) + ["conc shared " + " || ".join(reqs) + " ## " + " ".join(s), "dump 1", "dump 5", "walk 1", "walk 5",
                                  "http GET gcv hyph=ver:1:2 hyph=1 absent e", "http GET snap - hyph=1 absent e", "swalk 1"]
            if prop == "C08":
                # afterwards, one at a time, through the same server object: the question and the upload that follows,
                # for the client that was new when the overlap began
                ops += ["http GET gcv hyph=nil hyph=5 absent e", "http POST av hyph=nil hyph=5 history b:23", "http GET gcv hyph=latest:5 hyph=5 absent e",
                        "http POST av hyph=latest:5 hyph=5 history b:24", "http GET gcv hyph=anc:5:1 hyph=5 absent e"]
            out.append(Case(f"{prop.lower()}-ovl-{k}", ops, {"reqs": reqs, "group": f"{a}+{b}", "sched": s, "cmode": "shared", "overlap": True}, mode="http"))
            k += 1
    return out


def overlap_oracle(prop, case, trace, backend):
    """property-specific reading of an overlapping outcome (no reference to other executions)"""
    fails = []
    start = None
    for i, (o, ri, rm) in enumerate(trace):
        if o.startswith("conc "):
            start, n = i, int(o.split()[2])
    if start is None:
        return fails
    reqs = [(HOp(trace[start + 1 + k][0]), HResp(trace[start + 1 + k][1])) for k in range(n)]
    dumps = [Dump(ri) for (o, ri, rm) in trace[start:] if o.startswith("dump ")]
    where = f"(overlap {case.meta['group']}, schedule {case.meta['sched']}, {backend})"
    acc = [(h, r) for h, r in reqs if h.route == "av" and r.status == 200]
    if prop in ("C02", "C01", "C09"):
        parents = [(h.cid, h.seg) for h, r in acc]
        if len(parents) != len(set(parents)):
            fails.append(f"two overlapping AddVersion requests were both accepted on the same parent {parents} {where}")
        for h, r in reqs:
            if h.route == "av" and r.status not in (200, 409):
                fails.append(f"overlapping AddVersion answered {r.status} {where}")
    if prop in ("C07", "C01", "C02", "C09"):
        # every accepted version is stored and on the chain of its client
        for h, r in acc:
            found = False
            for d in dumps:
                if d.ok and not d.absent:
                    ids, _ = d.chain_back()
                    if r.xv.isdigit() and int(r.xv) in ids:
                        found = True
            if not found:
                fails.append(f"accepted version {r.xv} is not on its client's chain after the overlap (orphaned) {where}")
    if prop == "C08":
        for h, r in reqs:
            if h.route == "gcv" and r.status == 410:
                # gone for a parent that is the latest before AND after every accepted append on it
                if case.meta["group"] in ("AVlatest+GCVlatest", "AVnew+GCVnew"):
                    fails.append(f"GetChildVersion answered gone although an AddVersion on that parent is accepted before and its child exists after {where}")
            if h.route == "gcv" and r.status >= 500:
                fails.append(f"GetChildVersion answered {r.status} {where}")
        # after the overlap, one at a time: not-found exactly when the upload that follows is accepted, gone exactly
        # when it is rejected — and a parent whose child was just accepted has a child
        tail = [(HOp(o), HResp(ri)) for (o, ri, rm) in trace[start + 1 + n:] if o.startswith("http ")]
        for j in range(len(tail) - 1):
            (h1, r1), (h2, r2) = tail[j], tail[j + 1]
            if h1.route == "gcv" and h2.route == "av" and h1.cid == h2.cid and h1.seg == h2.seg:
                if r1.status == 404 and r2.status != 200:
                    fails.append(f"after the overlap get-child-version({h1.seg}) of client {h1.cid} answered 404 but the upload on that parent was answered {r2.status} {where}")
                if r1.status == 410 and r2.status != 409:
                    fails.append(f"after the overlap get-child-version({h1.seg}) answered 410 but the upload on that parent was answered {r2.status} {where}")
            if h1.route == "av" and r1.status == 200 and h2.route == "gcv" and h2.cid == h1.cid and h2.seg == h1.seg and r2.status != 200:
                fails.append(f"after the overlap the child of {h1.seg} was just accepted ({r1.xv}) but get-child-version answered {r2.status} {where}")
    if prop in ("C10", "C18", "C11") and case.meta["group"].startswith("ASv"):
        # (C18: the upload for the older version is a DECLINED one in every one-at-a-time order in which
        # it comes second, and a replaced one when it comes first: either way it does not survive)
        # both uploads were acceptable when the overlap began (no snapshot yet, both within the five
        # most recent): whatever the order, the stored snapshot must end up on the NEWER version
        d = dumps[0] if dumps else None
        ups = [(h, r) for h, r in reqs if h.route == "as"]
        for h, r in ups:
            if r.status != 200:
                fails.append(f"AddSnapshot answered {r.status} during the overlap {where}")
        if d is not None and d.ok and not d.absent and ups:
            ids, _ = d.chain_back()
            pos = {v: k for k, v in enumerate(ids)}        # 0 = latest
            cands = [int(h.seg) for h, r in ups if h.seg.isdigit() and int(h.seg) in pos]
            if cands:
                newest = min(cands, key=lambda v: pos[v])
                if d.snap is None or d.snap[0] != newest:
                    fails.append(f"after overlapping AddSnapshot for {cands} the stored snapshot is {d.snap}, the newer acceptable version is {newest}: the snapshot moved backwards or was lost {where}")
                else:
                    up = [hh for hh, rr in ups if int(hh.seg) == newest][0]
                    if d.data != up.body():
                        fails.append(f"snapshot version {newest} is stored with bytes `{d.data[:30]}` of another upload {where}")
    if prop == "C11":
        for h, r in reqs:
            if h.route == "snap" and r.status == 200:
                ok = (r.xv, r.body) in {(hh.seg, hh.body()) for hh, rr in reqs if hh.route == "as"} or r.body == "100"
                if not ok:
                    fails.append(f"GetSnapshot returned id {r.xv} with bytes `{r.body[:30]}` that no single upload carried {where}")
            if h.route in ("snap", "as") and r.status >= 500:
                fails.append(f"{h.route} answered {r.status} during the overlap {where}")
    return fails
