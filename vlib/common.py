"""Shared paths and process helpers for the /verif checks."""
import fcntl, json, os, subprocess, sys, time, hashlib, random

VERIF = os.path.dirname(os.path.dirname(os.path.abspath(__file__)))
REPO = os.environ.get("TSS_REPO", "/repo")   # checks registered in MANIFEST always use /repo
CACHE = os.path.join(VERIF, ".cache")
COQ = os.path.join(VERIF, "coq")
RUNNER_DIR = os.path.join(VERIF, "runner")
RUNNER = os.path.join(RUNNER_DIR, "runner")
HARNESS_SRC = os.path.join(VERIF, "harness")
if REPO == "/repo":
    HARNESS_DIR = HARNESS_SRC
    TARGET = os.path.join(CACHE, "harness-target")
else:
    # scratch copy of the repository (seeded-defect runs): private harness copy and target dir
    _h = hashlib.sha1(REPO.encode()).hexdigest()[:10]
    HARNESS_DIR = os.path.join(CACHE, "h-" + _h)
    TARGET = os.path.join(REPO, "target-harness")
EVIDENCE = os.environ.get("TSS_EVIDENCE", os.path.join(VERIF, "evidence"))
REPLAYS = os.environ.get("TSS_REPLAYS", os.path.join(VERIF, "replays"))
NCPU = os.cpu_count() or 4

os.makedirs(CACHE, exist_ok=True)
os.makedirs(EVIDENCE, exist_ok=True)
os.makedirs(REPLAYS, exist_ok=True)

ENV = dict(os.environ)
ENV.setdefault("TSS_FIXTURES", os.path.join(os.path.dirname(os.path.dirname(os.path.abspath(__file__))), "fixtures", "c19"))
ENV.update({"CARGO_NET_OFFLINE": "true", "GOPROXY": "off", "PIP_NO_INDEX": "1"})


def log(msg):
    print(f"[check] {msg}", file=sys.stderr, flush=True)


def run(cmd, timeout=1200, cwd=None, input=None, env=None, check=False):
    """Run a command, return (rc, stdout, stderr). rc=-9 on timeout."""
    e = dict(ENV)
    if env:
        e.update(env)
    try:
        p = subprocess.run(cmd, cwd=cwd, input=input, capture_output=True, text=True,
                           timeout=timeout, env=e, shell=isinstance(cmd, str))
        if check and p.returncode != 0:
            raise RuntimeError(f"command failed: {cmd}\n{p.stdout[-2000:]}\n{p.stderr[-4000:]}")
        return p.returncode, p.stdout, p.stderr
    except subprocess.TimeoutExpired as ex:
        if check:
            raise RuntimeError(f"command timed out: {cmd}")
        return -9, (ex.stdout or b"").decode() if isinstance(ex.stdout, bytes) else (ex.stdout or ""), "timeout"


class Lock:
    """flock-based lock so that checks launched in parallel serialise their builds."""
    def __init__(self, name):
        self.path = os.path.join(CACHE, name + ".lock")
    def __enter__(self):
        self.f = open(self.path, "w")
        fcntl.flock(self.f, fcntl.LOCK_EX)
        return self
    def __exit__(self, *a):
        fcntl.flock(self.f, fcntl.LOCK_UN)
        self.f.close()


def sha(s):
    return hashlib.sha1(s.encode()).hexdigest()[:16]


def tree_digest(paths, exts):
    """digest of file names + mtimes + sizes under the given paths"""
    h = hashlib.sha1()
    for root in paths:
        for d, dirs, files in os.walk(root):
            dirs[:] = sorted(x for x in dirs if x not in ("target", ".git"))
            for f in sorted(files):
                if exts and not f.endswith(exts):
                    continue
                p = os.path.join(d, f)
                try:
                    st = os.stat(p)
                except OSError:
                    continue
                h.update(f"{p}:{st.st_mtime_ns}:{st.st_size};".encode())
    return h.hexdigest()
