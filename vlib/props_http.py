"""HTTP-level (L2) properties: requests through the real actix handlers in process."""
import random, re
from .gen import pick, payload
from .l1 import Case, same_line
from .trace import Op, Dump, resp_kind, added_id, found_version
from .props_l1 import L1Prop, sizes, renumber

VALID_FORMS = ["hyph", "hyph", "hyph", "upper", "simple", "braced", "urn"]
BAD_ID_FORMS = ["short", "long", "nonhex"]
BAD_CID_FORMS = ["short", "long", "nonhex", "empty", "nontext", "space"]
MAX = 100 * 1024 * 1024


def dump_block(trace, i, d):
    out, j = [], i + d
    while 0 <= j < len(trace) and trace[j][0].split()[0] in ("dump", "rows"):
        out.append(trace[j]); j += d
    return out if d > 0 else list(reversed(out))


class HResp:
    def __init__(self, line):
        self.line = line
        main, _, calls = line.partition(" | ")
        self.calls = [c for c in calls.strip().split(",") if c]
        m = re.match(r"http (\S+) xv=(\S+) xp=(\S+) xs=(\S+) ct=(\S+) cc=(\S+) body=(\S+)(.*)$", main.strip())
        self.ok = bool(m)
        if m:
            self.status = int(m.group(1)) if m.group(1).isdigit() else -1
            self.xv, self.xp, self.xs, self.ct, self.cc, self.body = m.group(2), m.group(3), m.group(4), m.group(5), m.group(6), m.group(7)
            self.extra = m.group(8).strip()
        else:
            self.status = -1; self.xv = self.xp = self.xs = self.ct = self.body = "-"; self.cc = "0"; self.extra = main


class HOp:
    """concrete http op line: http METH ROUTE SEG CID CT CHUNKS FRESH NOW"""
    def __init__(self, line):
        t = line.split()
        self.meth, self.route, self.seg, self.cid, self.ct, self.chunks, self.fresh, self.now = t[1], t[2], t[3], t[4], t[5], t[6], int(t[7]), int(t[8])
    def body(self):
        if self.chunks == "-":
            return "-"
        parts = [c.split(":", 1)[1] for c in self.chunks.split(";")]
        parts = [p for p in parts if p != "-"]
        return ",".join(parts) if parts else "-"
    def total(self):
        return 0 if self.chunks == "-" else sum(int(c.split(":", 1)[0]) for c in self.chunks.split(";"))
    def valid(self):
        """a well-formed protocol request (by the classes the generator chose)"""
        cid_ok = self.cid.isdigit()
        seg_ok = self.seg.isdigit()
        if self.meth == "post" and self.route == "av":
            return cid_ok and seg_ok and self.ct == "history" and 0 < self.total() <= MAX
        if self.meth == "post" and self.route == "as":
            return cid_ok and seg_ok and self.ct == "snapshot" and 0 < self.total() <= MAX
        if self.meth == "get" and self.route == "gcv":
            return cid_ok and seg_ok
        if self.meth == "get" and self.route == "snap":
            return cid_ok
        return False


class HttpGen:
    """random history of valid protocol requests over HTTP (with harness-level steps)"""
    def __init__(self, rng, nclients=3, explicit_only=False):
        self.rng, self.nclients = rng, nclients
        self.nver = {}
        self.explicit_only = explicit_only      # only literal payloads (twin runs must upload the same bytes)
    def form(self):
        return self.rng.choice(VALID_FORMS)
    def body(self):
        r = self.rng
        k = pick(r, [("small", 6), ("chunks", 3), ("mid", 1)])
        if k == "small" or self.explicit_only: return payload(r)
        if k == "chunks": return "chunks:" + ",".join(str(r.randint(1, 40)) for _ in range(r.randint(2, 4)))
        return f"r:{r.randint(65, 3000)}"
    def op(self):
        r = self.rng
        c = r.randint(1, self.nclients)
        k = pick(r, [("av", 46), ("gcv", 18), ("as", 16), ("gs", 8), ("backdate", 3), ("setcounter", 2), ("reopen", 4)])
        o = (c % self.nclients) + 1
        if k == "av":
            n = self.nver.get(c, 0)
            if n == 0:
                p = pick(r, [("nil", 6), ("fresh", 3), (f"latest:{o}", 1)])
            else:
                p = pick(r, [(f"latest:{c}", 72), ("nil", 6), (f"anc:{c}:{r.randint(1,4)}", 8), (f"base:{c}", 4), ("fresh", 4), (f"latest:{o}", 6)])
            if n == 0 or p == f"latest:{c}":
                self.nver[c] = n + 1
            return [f"http POST av {self.form()}={p} {self.form()}={c} history {self.body()}"]
        if k == "gcv":
            p = pick(r, [(f"latest:{c}", 20), ("nil", 12), (f"ver:{c}:{r.randint(0,20)}", 36), (f"base:{c}", 10), ("fresh", 6), (f"latest:{o}", 16)])
            return [f"http GET gcv {self.form()}={p} {self.form()}={c} absent e"]
        if k == "as":
            v = pick(r, [(f"latest:{c}", 34), (f"anc:{c}:{r.randint(1,7)}", 36), (f"base:{c}", 8), ("nil", 4), ("fresh", 5), (f"latest:{o}", 7), (f"snap:{c}", 6)])
            return [f"http POST as {self.form()}={v} {self.form()}={c} snapshot {self.body()}"]
        if k == "gs":
            return [f"http GET snap - {self.form()}={c} absent e"]
        if k == "backdate":
            return [f"backdate {c} {r.choice([1, 13, 14, 15, 20, 21, 22, 40]) * 86400 + r.choice([-3600, 3600])}"]
        if k == "setcounter":
            return [f"setcounter {c} {r.choice([0, 1, 98, 99, 100, 148, 149, 150, 1000])}"]
        # close-and-reopen, or hand over to another server instance on the same store
        return ["reopen"] if r.random() < 0.5 else [f"inst {r.randrange(3)}"]


def py_encode(lib_r):
    """the status/header table of the property (C14), from the library outcome line"""
    t = lib_r.split()
    k = t[0]
    if k == "added":
        xs = {"none": "-", "low": "low", "high": "high"}.get(t[2], "?")
        return (200, t[1], "-", xs, "-", "-")
    if k == "conflict": return (409, "-", t[1], "-", "-", "-")
    if k == "found":
        a, b, d = t[1].split(":", 2)
        return (200, a, b, "-", "history", d)
    if k == "notfound": return (404, "-", "-", "-", "-", "-")
    if k == "gone": return (410, "-", "-", "-", "-", "-")
    if k == "noclient": return (404, "-", "-", "-", "-", "-")
    if k == "snapack": return (200, "-", "-", "-", "-", "-")
    if k == "snap": return (200, t[1], "-", "-", "snapshot", t[2])
    if k == "nosnap": return (404, "-", "-", "-", "-", "-")
    return (500, "-", "-", "-", "-", "-")


class HttpProp(L1Prop):
    mode = "http"


# ------------------------------------------------------------------ C14
class C14(HttpProp):
    id = "C14"
    rule = ("random histories of well-formed protocol requests (all accepted id text forms, single and multi-chunk "
            "bodies, several clients, backdating/counter steps so that all three urgencies occur) executed through the "
            "real HTTP handlers and, as a twin, through the protocol library on a second storage; every HTTP response is "
            "decoded (status, X-Version-Id, X-Parent-Version-Id, X-Snapshot-Request, Content-Type, body; absence included) "
            "and compared with the table applied to the library outcome; non-trivial = >=5 distinct outcome kinds in the history")
    def cases(self, rng, tier):
        n, length = sizes(tier, (200, 40), (1200, 150))
        out = []
        for k in range(n):
            g = HttpGen(rng, rng.choice([1, 2, 3]))
            ops = []
            if k % 4 == 1:
                ops.append(f"cfg {rng.choice([0, 1, 2, 3])} {rng.choice([0, 2, 3, 4])}")
            handover = k % 5 == 2        # several server instances on one store, used in turn
            for _ in range(rng.randint(8, length)):
                if handover and rng.random() < 0.5:
                    ops.append(f"inst {rng.randrange(2)}")
                ops += g.op()
            out.append(Case(f"c14-{k}", ops, mode="http"))
        # payloads of every size the protocol allows (well below the 100 MB refusal): around powers of two
        # where buffers and default limits sit
        sizes_b = [65535, 65536, 65537, 131072, 262143, 262144, 262145, 300000, 524289, 1048577, 2097153, 4194305, 8388609]
        if tier == "thorough":
            sizes_b += [16777217, 33554433, 67108865, 104857600]
        # the FIRST request ever made for a client id is an upload that is refused (empty, broken off, too
        # long, wrong type): the server has still never seen the client, and says so on every endpoint
        for j, bad in enumerate([("history", "e"), ("history", "brk:5"), ("history", "brk:3,4"), ("other", "b:5"), ("history", "e1"), ("snapshot", "b:5")]):
            c = 7
            ops = ["http POST av hyph=nil hyph=1 history b:1", f"http POST av hyph=nil hyph={c} {bad[0]} {bad[1]}",
                   f"http POST as hyph=nil hyph={c} snapshot b:2", f"http POST as hyph=latest:1 hyph={c} snapshot b:3",
                   f"http GET gcv hyph=nil hyph={c} absent e", f"http GET snap - hyph={c} absent e",
                   f"http POST av hyph=fresh hyph={c} history b:4", f"http POST as hyph=latest:{c} hyph={c} snapshot b:5", f"http GET snap - hyph={c} absent e"]
            out.append(Case(f"c14-firstrefused-{j}", ops, mode="http"))
        # through the real executable (whatever main() wraps around the application is in the path)
        for j in range(sizes(tier, 3, 16)):
            g = HttpGen(rng, 2, explicit_only=True)
            ops = ["boot listen=flag:1 dir=flag allow=none versions=default days=default"]
            for _ in range(rng.randint(15, 40)):
                for line in g.op():
                    if line.startswith("http "):
                        ops.append("http@0 " + line[5:])
                    elif line.startswith(("backdate", "setcounter")):
                        ops.append(line)
            ops.append("kill")
            out.append(Case(f"c14-bin-{j}", ops, {"only": "sqlite", "bin": True, "big": True}, mode="bin"))
        # a storage call fails while a request is served (the library reports an error, which is no protocol
        # outcome): the response is 500, never the encoding of an outcome the library did not produce
        reqs5 = ["http POST av hyph=latest:1 hyph=1 history b:6", "http GET gcv hyph=anc:1:1 hyph=1 absent e", "http GET gcv hyph=latest:1 hyph=1 absent e",
                 "http POST as hyph=latest:1 hyph=1 snapshot b:8", "http GET snap - hyph=1 absent e", "http GET snap - hyph=2 absent e", "http GET gcv hyph=nil hyph=2 absent e"]
        for j, rq in enumerate(reqs5):
            ops = ["http POST av hyph=nil hyph=1 history b:1", "http POST av hyph=latest:1 hyph=1 history b:2", "http POST as hyph=anc:1:1 hyph=1 snapshot b:9",
                   "http POST av hyph=nil hyph=2 history b:3"]
            for idx in range(0, 4):
                ops += [f"fault {idx}:before", rq]
            ops += [rq]
            out.append(Case(f"c14-fault-{j}", ops, {"only": "sqlite", "faults": True, "big": True}, mode="http"))
        # a slow disk: one storage call of the request takes eleven seconds, then succeeds — the response encodes the outcome
        # the library produced, however long it took
        ops = ["http POST av hyph=nil hyph=1 history b:1", "http POST av hyph=latest:1 hyph=1 history b:2", "slowcall 2 11000", "http POST av hyph=latest:1 hyph=1 history b:3",
               "http GET gcv hyph=anc:1:1 hyph=1 absent e", "slowcall 0 11000", "http POST as hyph=latest:1 hyph=1 snapshot b:9", "http GET snap - hyph=1 absent e",
               "http POST av hyph=latest:1 hyph=1 history b:4"]
        out.append(Case("c14-slowdisk", ops, {"big": True}, mode="http"))
        for j, nb in enumerate(sizes_b):
            kch = [1, 3, 2][j % 3]
            ops = ["http POST av hyph=nil hyph=1 history b:1", f"http POST av hyph=latest:1 hyph=1 history big:{nb}:{kch}",
                   "http GET gcv hyph=anc:1:1 hyph=1 absent e", f"http POST as hyph=latest:1 hyph=1 snapshot big:{min(nb + 1, MAX)}:{kch}",
                   "http GET snap - hyph=1 absent e", f"http POST av hyph=nil hyph=fresh history big:{nb}:{kch}"]
            out.append(Case(f"c14-big{j}", ops, {"big": True}, mode="http"))
        return out
    def oracle(self, case, trace, backend):
        if not case.meta.get("big"):
            return []
        fails = []
        if case.meta.get("bin"):
            # the table, applied to what came over the socket
            for i, (o, ri, rm) in enumerate(trace):
                if o.startswith("http ") and HOp(o).valid():
                    r, h = HResp(ri), HOp(o)
                    if r.status == 409 and not r.xp.isdigit():
                        fails.append(f"{backend}: request #{i} `{o[:50]}`: 409 without X-Parent-Version-Id naming the latest version (`{ri.split(' | ')[0]}`)")
                    if h.route == "av" and r.status == 200 and not r.xv.isdigit():
                        fails.append(f"{backend}: request #{i}: accepted version without X-Version-Id")
                    if h.route == "gcv" and r.status == 200 and (not r.xv.isdigit() or r.xp == "-" or r.ct != "history"):
                        fails.append(f"{backend}: request #{i}: found child without both id headers and the history-segment content type (`{ri.split(' | ')[0]}`)")
                    if h.route == "snap" and r.status == 200 and (not r.xv.isdigit() or r.ct != "snapshot"):
                        fails.append(f"{backend}: request #{i}: snapshot without X-Version-Id / the snapshot content type")
            return fails
        if case.meta.get("faults"):
            for i, (o, ri, rm) in enumerate(trace):
                if o.startswith("http ") and i + 1 < len(trace) and trace[i + 1][0].startswith("mark fired 1"):
                    r = HResp(ri)
                    if r.status != 500:
                        fails.append(f"{backend}: request #{i} `{o[:60]}`: a storage call failed while it was served (the library outcome is an error), answered {r.status} "
                                     f"`{ri.split(' | ')[0][:70]}` — the encoding of a protocol outcome the library did not produce")
            return fails
        for i, (o, ri, rm) in enumerate(trace):
            if o.startswith("http "):
                r = HResp(ri)
                if r.status != 200:
                    fails.append(f"{backend}: request #{i} `{o[:40]}...` (a well-formed request whose outcome is success; body of {HOp(o).total()} bytes) answered {r.status}")
        return fails
    def relevant(self, i, trace):
        o, ri, rm = trace[i]
        return o.startswith("http ") and HOp(o).valid()
    def derive(self, case, trace, backend):
        """the twin: the same history through the library (add-version auto-creates the client)"""
        if case.meta.get("big"):
            return []
        ops, seen, acc = [], set(), {}
        cfgline = [o for o in case.ops if o.startswith("cfg ")]
        ops += cfgline
        def spec(n, c):
            n = int(n)
            if n == 0: return "nil"
            for cc, lst in acc.items():
                if n in lst: return f"ver:{cc}:{lst.index(n)}"
            return f"${n}"
        cmap = {}
        def cl(n):
            n = int(n)
            if n not in cmap: cmap[n] = len(cmap) + 1
            return cmap[n]
        for (o, ri, rm) in trace:
            t = o.split()
            if t[0] == "http":
                h = HOp(o)
                if not h.valid():
                    continue
                c = cl(h.cid)
                pl = "e" if h.body() == "-" else "b:" + h.body()
                if h.body().split(",")[0].isdigit() and int(h.body().split(",")[0]) > 255:
                    pl = None    # tokenised large body: content unknown here; skip twin of this op's payload
                if h.route == "av":
                    if c not in seen:
                        ops.append(f"ensure {c}"); seen.add(c)
                    ops.append(f"av {c} {spec(h.seg, c)} {pl or 'b:1'}")
                    r = HResp(ri)
                    if r.status == 200 and r.xv.isdigit():
                        acc.setdefault(c, []).append(int(r.xv))
                elif h.route == "gcv":
                    ops.append(f"gcv {c} {spec(h.seg, c)}")
                elif h.route == "as":
                    ops.append(f"as {c} {spec(h.seg, c)} {pl or 'b:1'}")
                elif h.route == "snap":
                    ops.append(f"gs {c}")
            elif t[0] in ("backdate", "setcounter"):
                ops.append(f"{t[0]} {cl(t[1])} {t[2]}")
            elif t[0] == "reopen":
                ops.append("reopen")
        return [(Case(f"{case.name}-lib", ops), None)]
    def compare_derived(self, case, trace, ctx, lib_trace, backend):
        http = [(o, ri) for (o, ri, _) in trace if o.startswith("http ") and HOp(o).valid()]
        lib = [(o, ri) for (o, ri, _) in lib_trace if o.split()[0] in ("av", "gcv", "as", "gs")]
        if len(http) != len(lib):
            return [f"{backend}: twin length mismatch {len(http)} vs {len(lib)}"]
        # renumber ids on both sides by first appearance in the responses / requests
        mh, ml = {"0": "0", "-": "-"}, {"0": "0", "-": "-"}
        def rn(m, x):
            if x not in m: m[x] = str(len(m))
            return m[x]
        for j, ((ho, hr), (lo, lr)) in enumerate(zip(http, lib)):
            h, r = HOp(ho), HResp(hr)
            lt = lo.split()
            rn(mh, h.cid); rn(ml, lt[1])
            if h.route in ("av", "gcv", "as"):
                rn(mh, h.seg); rn(ml, lt[2])
            want = py_encode(lr)
            tokenised = h.body() != "-" and h.body().split(",")[0].isdigit() and int(h.body().split(",")[0]) > 255
            got = (r.status, r.xv, r.xp, r.xs, r.ct, r.body)
            wantn = (want[0], rn(ml, want[1]) if want[1] != "-" else "-", rn(ml, want[2]) if want[2] != "-" else "-", want[3], want[4], want[5])
            gotn = (got[0], rn(mh, got[1]) if got[1] != "-" else "-", rn(mh, got[2]) if got[2] != "-" else "-", got[3], got[4], got[5])
            if wantn[:5] != gotn[:5] or (wantn[5] != gotn[5] and not (gotn[5].split(",")[0].isdigit() and int(gotn[5].split(",")[0]) > 255) and not lr.startswith("error")):
                return [f"{backend}: request #{j} `{ho}`: HTTP answered {gotn}, the table applied to the library outcome `{lr}` gives {wantn}"]
            if r.cc != "1":
                return [f"{backend}: request #{j}: response without Cache-Control no-store"]
        return []
    def nontrivial(self, case, trace):
        kinds = set()
        for (o, ri, _) in trace:
            if o.startswith("http "):
                r = HResp(ri)
                kinds.add((HOp(o).route, r.status, r.xs))
        return len(kinds) >= 5


# ------------------------------------------------------------------ request grid (C15, C20)
def grid_requests(rng, tier, client=1):
    """grammar-generated requests: route x method x client-id form x path-id form x content-type x body class"""
    routes = ["index", "av", "gcv", "as", "snap", "unknown1", "unknown2", "unknown3", "unknown4", "star", "dslash", "avq", "gcvq", "asq", "snapq",
              "avp", "gcvp", "asp", "snapp"]
    methods = ["GET", "POST", "PUT", "DELETE", "HEAD", "PATCH", "GET/1.0", "POST/1.0", "OPTIONS"]
    cids = ["absent"] + [f"{f}={client}" for f in BAD_CID_FORMS] + [f"{f}={client}" for f in ("hyph", "upper", "simple", "braced", "urn")] + ["hyph=fresh"]
    segs = [f"{f}=latest:{client}" for f in BAD_ID_FORMS] + [f"{f}=latest:{client}" for f in ("hyph", "upper", "simple", "braced", "urn")] + ["hyph=nil", "hyph=fresh"]
    cts = ["history", "history-param", "snapshot", "snapshot-param", "history-upper", "other", "prefix", "empty", "absent",
           "snapshot-prefix", "snapshot-suffix", "snapshot-trunc", "history-trunc", "snapshot-upper", "history-in-param"]
    bodies = ["e", "e1", "b:1", "r:70", "chunks:1,1", "chunks:30,40,50", "brk:5", "brk:30,40"]
    reqs = []
    full = tier == "thorough"
    for route in routes:
        for m in methods:
            for cid in cids:
                for seg in (segs if route in ("av", "gcv", "as", "unknown2", "avq", "gcvq", "asq", "avp", "gcvp", "asp") else ["-"]):
                    for ct in cts:
                        for body in bodies:
                            reqs.append(f"http {m} {route} {seg} {cid} {ct} {body}")
    rng.shuffle(reqs)
    if True:
        # pairwise-style slice: a random sample of the full product (1 500 requests in the quick tier, 60 000 in the
        # thorough one) plus every value of every dimension with valid others
        keep = reqs[:(60000 if full else 1500)]
        for route in routes:
            for m in methods:
                seg = f"hyph=latest:{client}" if route in ("av", "gcv", "as", "unknown2", "avq", "gcvq", "asq", "avp", "gcvp", "asp") else "-"
                ct = "history" if route in ("av", "avq", "avp") else ("snapshot" if route in ("as", "asq", "asp") else "absent")
                keep.append(f"http {m} {route} {seg} hyph={client} {ct} b:5")
        for cid in cids:
            for route, m, ct in (("av", "POST", "history"), ("gcv", "GET", "absent"), ("as", "POST", "snapshot"), ("snap", "GET", "absent")):
                seg = f"hyph=latest:{client}" if route != "snap" else "-"
                keep.append(f"http {m} {route} {seg} {cid} {ct} b:5")
        for seg in segs:
            for route, m, ct in (("av", "POST", "history"), ("gcv", "GET", "absent"), ("as", "POST", "snapshot")):
                keep.append(f"http {m} {route} {seg} hyph={client} {ct} b:5")
        for ct in cts:
            for body in bodies:
                keep.append(f"http POST av hyph=latest:{client} hyph={client} {ct} {body}")
                keep.append(f"http POST as hyph=latest:{client} hyph={client} {ct} {body}")
        for m in ("GET/1.0", "POST/1.0"):
            for route, ct in (("av", "history"), ("gcv", "absent"), ("as", "snapshot"), ("snap", "absent"), ("index", "absent"), ("unknown1", "absent")):
                seg = f"hyph=latest:{client}" if route in ("av", "gcv", "as") else "-"
                keep.append(f"http {m} {route} {seg} hyph={client} {ct} b:5")
        reqs = keep
    # request headers that are no part of the protocol (content negotiation, conditional and range
    # requests, proxies, browsers): every route answers as it does without them
    xhs = ["ae-none", "ae-star0", "ae-compress", "ae-gzip", "accept-json", "accept-none", "range", "inm", "cache", "origin", "fwd", "te"]
    for xh in xhs:
        for route, m, ct in (("av", "POST", "history"), ("gcv", "GET", "absent"), ("as", "POST", "snapshot"), ("snap", "GET", "absent"),
                             ("index", "GET", "absent"), ("unknown1", "GET", "absent"), ("gcv", "PUT", "absent")):
            seg = f"hyph=latest:{client}" if route in ("av", "gcv", "as") else "-"
            reqs.append(f"http {m} {route} {seg} hyph={client} {ct} b:5 xh={xh}")
        reqs.append(f"http GET gcv hyph=anc:{client}:1 hyph={client} absent e xh={xh}")
        reqs.append(f"http GET gcv hyph=fresh hyph={client} absent e xh={xh}")
        reqs.append(f"http POST av hyph=fresh hyph={client} history b:5 xh={xh}")
        reqs.append(f"http GET snap - absent absent e xh={xh}")
    # request targets that are not a path (asterisk form) or start with a doubled slash, every method
    for m in ("OPTIONS", "GET", "POST", "HEAD", "PUT", "DELETE", "GET/1.0"):
        for route in ("star", "dslash"):
            reqs.append(f"http {m} {route} - hyph={client} absent e")
    # refused requests of a client the server has never seen (nothing may be created for it)
    for body in ("e", "e1"):
        reqs += [f"http POST av hyph=nil hyph=fresh history {body}", f"http POST as hyph=nil hyph=fresh snapshot {body}",
                 f"http POST av hyph=fresh hyph=fresh history-param {body}"]
    for ct in ("other", "absent", "snapshot", "empty"):
        reqs += [f"http POST av hyph=nil hyph=fresh {ct} b:5", f"http POST av short=nil hyph=fresh {ct} b:5"]
    reqs += ["http GET gcv hyph=nil hyph=fresh absent e", "http GET snap - hyph=fresh absent e",
             "http POST as hyph=nil hyph=fresh snapshot b:5", "http PUT av hyph=nil hyph=fresh history b:5"]
    return reqs


def state_prefix(rng, clients=(1, 2)):
    ops = []
    for c in clients:
        n = rng.randint(2, 5)
        for i in range(n):
            p = ("nil" if rng.random() < 0.6 else "fresh") if i == 0 else f"latest:{c}"
            ops.append(f"http POST av hyph={p} hyph={c} history {payload(rng)}")
        ops.append(f"http POST as hyph=latest:{c} hyph={c} snapshot b:9,{c}")
        ops.append(f"http POST av hyph=latest:{c} hyph={c} history b:7")
    return ops


class C15(HttpProp):
    id = "C15"
    rule = ("grammar-generated requests (route x method x client-id form x path-id form x content-type form x body class "
            "incl. 0, 1, limit-1, limit, limit+1 bytes, single and multi-chunk) against servers holding non-trivial state of two "
            "clients, with complete dumps + raw rows before and after; malformed (by the class the generator chose) => 4xx and "
            "nothing changed; bodies <= limit reach the library; no 5xx anywhere; non-trivial = refused request whose dump "
            "comparison covered >=2 clients; distinct by the concrete request line")
    no_shrink = False
    def cases(self, rng, tier):
        reqs = grid_requests(rng, tier)
        out = []
        per = 25
        for k in range(0, len(reqs), per):
            ops = state_prefix(random.Random(rng.getrandbits(32)))
            for r in reqs[k:k + per]:
                ops += ["dumpall", "rows", r, "dumpall", "rows"]
            out.append(Case(f"c15-{k // per}", ops, mode="http"))
        # a long-lived server: dozens of uploads refused while their body was being read (broken off, empty
        # chunks only), on both upload endpoints — then ordinary requests are served as ever
        for k in range(sizes(tier, 2, 8)):
            r = random.Random(rng.getrandbits(32))
            ops = state_prefix(r)
            for j in range(r.randint(18, 40)):
                rt, ct = r.choice([("av", "history"), ("as", "snapshot")])
                rq = f"http POST {rt} hyph=latest:1 hyph={r.choice([1, 2])} {ct} {r.choice(['brk:5', 'brk:1,1', 'brk:30,40', 'e1', 'e'])}"
                ops += (["dumpall", "rows", rq, "dumpall", "rows"] if j % 6 == 0 else [rq])
            for c in (1, 2):
                ops += ["dumpall", "rows", f"http POST av hyph=latest:{c} hyph={c} history b:5,{c}", "dumpall", "rows",
                        f"http POST as hyph=latest:{c} hyph={c} snapshot chunks:3,4", f"http GET snap - hyph={c} absent e",
                        "dumpall", "rows", f"http POST av hyph=nil hyph={c} history brk:9", "dumpall", "rows"]
            out.append(Case(f"c15-manyrefusals-{k}", ops, mode="http"))
        # a refusal is immediate and independent of what else the worker is doing: malformed requests arriving while a
        # slow upload (of the same or another client) is being received by the same worker
        bad = ["http POST as hyph=latest:2 hyph=2 snapshot e", "http POST as hyph=latest:1 hyph=1 other chunks:2,2", "http POST av hyph=latest:2 hyph=2 history e1",
               "http POST as short=latest:2 hyph=2 snapshot chunks:1,1", "http POST av hyph=latest:1 nonhex=1 history chunks:2,1", "http POST as nonhex=latest:2 hyph=2 snapshot chunks:3,1",
               "http POST as hyph=latest:1 absent snapshot chunks:1,2"]
        for k in range(sizes(tier, 7, 28)):
            slow = ["http POST as hyph=latest:1 hyph=1 snapshot chunks:5,5,5,5,5,5", "http POST av hyph=latest:1 hyph=1 history chunks:4,4,4,4,4,4",
                    "http POST as hyph=latest:2 hyph=2 snapshot chunks:3,3,3,3,3,3"][k % 3]
            ops = [f"http POST av hyph=nil hyph={c} history b:1,{c}" for c in (1, 2)] + [f"http POST av hyph=latest:{c} hyph={c} history b:2,{c}" for c in (1, 2)]
            grp = [slow, bad[k % len(bad)]] + ([bad[(k + 3) % len(bad)]] if k % 2 else [])
            ops += ["dumpall", "ileave " + " || ".join(grp), "dumpall", "http GET snap - hyph=1 absent e", "http GET snap - hyph=2 absent e"]
            out.append(Case(f"c15-busy-{k}", ops, {"busy": True}, mode="http"))
        # the same grammar through the real executable (whatever main() wraps around the application sees
        # every refusal too: unknown paths, wrong methods, malformed ids, bad headers, broken bodies)
        for k in range(sizes(tier, 3, 12)):
            r = random.Random(rng.getrandbits(32))
            ops = ["boot listen=flag:1 dir=flag allow=none versions=default days=default" + (" log=debug" if k % 2 else "")]
            for c in (1, 2):
                ops += [f"http@0 POST av hyph=nil hyph={c} history b:1,{c}", f"http@0 POST av hyph=latest:{c} hyph={c} history b:2,{c}"]
            ops += ["http@0 POST as hyph=latest:1 hyph=1 snapshot b:9"]
            # (on the wire, white space around a header value is not part of the value: the `space` spelling of
            # an id is a malformed request only when the header is handed to the application verbatim)
            # (nor can an HTTP/1.0 request break off mid-body in a way the server can tell: it has no chunked framing,
            # and the rig sends its declared length in full)
            wire = [q for q in reqs if " space=" not in q and not ("/1.0 " in q and " brk:" in q)]
            for j, rq in enumerate(r.sample(wire, min(len(wire), 45))):
                rq = "http@0 " + rq[5:]
                ops += (["dumpall", rq, "dumpall"] if j % 3 == 0 else [rq])
            for c in (1, 2):
                ops += ["dumpall", f"http@0 POST av hyph=latest:{c} hyph={c} history b:5,{c}", "dumpall", f"http@0 GET gcv hyph=anc:{c}:1 hyph={c} absent e"]
            ops += ["kill"]
            out.append(Case(f"c15-bin-{k}", ops, {"only": "sqlite", "bin": True}, mode="bin"))
        # well below the limit but above the sizes at which frameworks set their own defaults (256 KiB, 1 MiB, 2 MiB, 8 MiB)
        for j, nb in enumerate([262144, 262145, 1048577, 2097153, 8388609]):
            ops = ["http POST av hyph=nil hyph=1 history b:1", "dumpall", f"http POST av hyph=latest:1 hyph=1 history big:{nb}:{1 + j % 3}", "dumpall",
                   f"http POST as hyph=latest:1 hyph=1 snapshot big:{nb}:{1 + (j + 1) % 3}", "dumpall", "http GET snap - hyph=1 absent e"]
            out.append(Case(f"c15-mid-{j}", ops, {"big": nb}, mode="http"))
        # the size limit: limit-1, limit (accepted), limit+1 (refused), one chunk and several
        big = []
        sizesb = [MAX, MAX + 1] if tier != "thorough" else [MAX - 1, MAX, MAX + 1]
        for n in sizesb:
            for kchunks in ([1, 3] if tier != "thorough" else [1, 2, 64]):
                big.append((n, kchunks))
        for j, (n, kchunks) in enumerate(big):
            route, ct = ("av", "history") if j % 2 == 0 else ("as", "snapshot")
            ops = ["http POST av hyph=nil hyph=1 history b:1", "dumpall",
                   f"http POST {route} hyph=latest:1 hyph=1 {ct} big:{n}:{kchunks}", "dumpall"]
            out.append(Case(f"c15-big-{j}", ops, {"big": n}, mode="http"))
            if n > MAX:
                ops2 = ["http POST av hyph=nil hyph=1 history b:1", "dumpall", "rows",
                        f"http POST {route} hyph=nil hyph=fresh {ct} big:{n}:{kchunks}", "dumpall", "rows"]
                out.append(Case(f"c15-bigfresh-{j}", ops2, {"big": n}, mode="http"))
        return out
    def relevant(self, i, trace):
        o, ri, rm = trace[i]
        if o.startswith("http "):
            a, b = HResp(ri), HResp(rm)
            if not HOp(o).valid():
                return a.status // 100 != b.status // 100    # status CLASS only
            return (a.status >= 500) != (b.status >= 500) or (a.status == 400) != (b.status == 400)
        if o.split()[0] in ("dump", "rows"):
            j = i
            while j >= 0 and trace[j][0].split()[0] in ("dump", "rows"):
                j -= 1
            return j >= 0 and trace[j][0].startswith("http ") and not HOp(trace[j][0]).valid()
        return False
    def oracle(self, case, trace, backend):
        fails = []
        for i, (o, ri, rm) in enumerate(trace):
            if not o.startswith("http "):
                continue
            h, r = HOp(o), HResp(ri)
            if not r.ok:
                fails.append(f"op {i} `{o}`: the server failed: {ri[:120]}"); continue
            if r.status >= 500:
                fails.append(f"op {i} `{o}`: answered {r.status}")
            if not h.valid():
                if not (400 <= r.status < 500):
                    # GET / is the one route that is neither malformed nor a protocol request
                    if not (h.meth == "get" and h.route == "index"):
                        fails.append(f"op {i} `{o}`: malformed request answered {r.status}")
                # nothing changed
                before = {x[0].split()[1]: Dump(x[1]) for x in self._blk(trace, i, -1) if x[0].startswith("dump ")}
                after = {x[0].split()[1]: Dump(x[1]) for x in self._blk(trace, i, +1) if x[0].startswith("dump ")}
                if not before:
                    continue          # this request was not placed between dumps
                for c in before:
                    if c in after and before[c].ok and after[c].ok and before[c].key(False) != after[c].key(False, before[c].by_id.keys()):
                        fails.append(f"op {i} `{o}`: refused with {r.status} but client {c} changed")
                for c in set(after) - set(before):
                    if after[c].ok and not after[c].absent:
                        fails.append(f"op {i} `{o}`: refused with {r.status} but a client record now exists for the never-seen client {c}")
                rb = [x[1] for x in self._blk(trace, i, -1) if x[0] == "rows"]
                ra = [x[1] for x in self._blk(trace, i, +1) if x[0] == "rows"]
                if rb and ra and rb[-1] != ra[0] and not rb[-1].startswith("rows na"):
                    fails.append(f"op {i} `{o}`: refused with {r.status} but the raw rows changed")
            else:
                if r.status not in (200, 403, 404, 409, 410) and not (case.meta.get("faults") and r.status == 500):
                    fails.append(f"op {i} `{o}`: a well-formed request with a body within the limit was refused {r.status} (protocol outcomes are 200, 404, 409, 410; 403 for an unlisted client)")
        return fails
    def _blk(self, trace, i, d):
        return dump_block(trace, i, d)
    def _blk_old(self, trace, i, d):
        out, j = [], i + d
        while 0 <= j < len(trace) and trace[j][0].split()[0] in ("dump", "rows"):
            out.append(trace[j]); j += d
        return out if d > 0 else list(reversed(out))
    def nontrivial(self, case, trace):
        return True


# ------------------------------------------------------------------ C20
class C20(HttpProp):
    id = "C20"
    rule = ("every response of a request grid (all routes incl. unknown ones, methods, refusals) and of valid protocol "
            "histories (successes, conflicts, not-found, gone) must carry Cache-Control with no-store; "
            "non-trivial = distinct (route, method, status) triples observed")
    def cases(self, rng, tier):
        reqs = grid_requests(rng, tier)
        out = []
        per = 60
        # requests carrying headers that are no part of the protocol (conditional, range, negotiation, proxy headers):
        # on a server without a list and on one that lists the client, so that each reaches its endpoint
        xreqs = [q for q in reqs if " xh=" in q]
        reqs = [q for q in reqs if " xh=" not in q]
        for k in range(0, len(xreqs), per):
            ops = state_prefix(random.Random(rng.getrandbits(32)), (1,))
            ops += ["http POST av hyph=latest:1 hyph=1 history b:1,1", "http POST av hyph=latest:1 hyph=1 history b:1,2", "http POST as hyph=latest:1 hyph=1 snapshot b:9"]
            if (k // per) % 2 == 1:
                ops.append("allow 1,2")
            ops += xreqs[k:k + per]
            out.append(Case(f"c20-x{k // per}", ops, mode="http"))
        for k in range(0, len(reqs), per):
            ops = state_prefix(random.Random(rng.getrandbits(32)), (1,))
            # every third slice with an allow-list that does not name the client (refusals of every kind
            # under a list), every third with one that does
            if (k // per) % 3 == 1:
                ops.append("allow 2,3")
            elif (k // per) % 3 == 2:
                ops.append("allow 1,2")
            ops += reqs[k:k + per]
            out.append(Case(f"c20-g{k // per}", ops, mode="http"))
        for k in range(sizes(tier, 90, 400)):
            g = HttpGen(rng, 2)
            ops = []
            for _ in range(rng.randint(10, 60)):
                ops += g.op()
            out.append(Case(f"c20-h{k}", ops, mode="http"))
        # the real executable under load: dozens of uploads in flight at once (head received, body outstanding)
        # while ordinary requests arrive; afterwards the stalled uploads break off
        for k in range(sizes(tier, 2, 6)):
            ops = ["boot listen=flag:1 dir=flag allow=none versions=default days=default" + (" log=debug" if k % 2 else ""),
                   "http@0 POST av hyph=nil hyph=1 history b:1", "http@0 POST av hyph=latest:1 hyph=1 history b:2", f"stall {[20, 40, 70][k % 3]}",
                   "http@0 POST av hyph=latest:1 hyph=1 history b:3", "http@0 GET gcv hyph=anc:1:1 hyph=1 absent e", "http@0 POST as hyph=latest:1 hyph=1 snapshot b:9",
                   "http@0 GET snap - hyph=1 absent e", "http@0 POST av hyph=nil hyph=1 history b:4", "http@0 POST av hyph=nil hyph=2 history chunks:3,4",
                   "http@0 GET unknown1 - absent absent e", "http@0 OPTIONS star - absent absent e", "http@0 DELETE star - hyph=1 absent e", "http@0 GET dslash - absent absent e",
                   "unstall", "http@0 POST av hyph=latest:1 hyph=1 history b:5", "http@0 GET gcv hyph=nil hyph=2 absent e", "kill"]
            out.append(Case(f"c20-load-{k}", ops, {"only": "sqlite", "bin": True}, mode="bin"))
        # the real executable with every option it advertises beyond those the model knows set: switches on, numbers to 1,
        # path prefixes to /tss (by flag, by variable; a guess the executable refuses is dropped) — EVERY response, whatever
        # its status, under any configuration
        for k in range(sizes(tier, 2, 4)):
            ops = [f"boot listen=flag:1 dir=flag allow={'none' if k % 2 == 0 else 'flag:1'} versions=default days=default extra=autoval:{'flag' if k % 2 == 0 else 'env'}",
                   "http@0 POST av hyph=nil hyph=1 history b:1", "http@0 POST av hyph=latest:1 hyph=1 history b:2", "http@0 GET gcv hyph=anc:1:1 hyph=1 absent e",
                   "http@0 POST as hyph=latest:1 hyph=1 snapshot b:9", "http@0 GET snap - hyph=1 absent e", "http@0 GET index - absent absent e", "http@0 GET unknown1 - absent absent e",
                   "http@0 OPTIONS star - absent absent e", "http@0 GET star - hyph=1 absent e", "http@0 POST dslash - hyph=1 absent e",
                   "http@0 POST unknown2 hyph=nil hyph=1 history b:1", "http@0 PUT gcv hyph=nil hyph=1 absent e", "http@0 GET snap - hyph=2 absent e", "http@0 POST av hyph=nil hyph=1 history b:3",
                   "http@0 POST av hyph=latest:1 hyph=1 history slow:2500:3,3", "http@0 POST as hyph=latest:1 hyph=1 snapshot slow:2500:2,2", "http@0 GET gcv short=nil hyph=1 absent e",
                   "http@0 POST av hyph=latest:1 hyph=1 other b:1", "http@0 POST av hyph=latest:1 hyph=1 history e", "kill"]
            out.append(Case(f"c20-options-{k}", ops, {"only": "sqlite", "bin": True}, mode="bin"))
        if tier == "thorough":
            # uploads outstanding for MINUTES (a replica that went to sleep mid-upload): whatever the server answers
            # on such a connection in the end is a response like any other
            ops = ["boot listen=flag:1 dir=flag allow=none versions=default days=default", "http@0 POST av hyph=nil hyph=1 history b:1", "stall 6", "sleep 330000",
                   "http@0 POST av hyph=latest:1 hyph=1 history b:2", "unstall", "http@0 GET gcv hyph=nil hyph=1 absent e", "kill"]
            out.append(Case("c20-longstall", ops, {"only": "sqlite", "bin": True}, mode="bin"))
        # responses produced when a storage call fails (500s), on every endpoint
        reqs = ["http POST av hyph=latest:1 hyph=1 history b:6", "http POST av hyph=nil hyph=fresh history b:6",
                "http GET gcv hyph=nil hyph=1 absent e", "http POST as hyph=latest:1 hyph=1 snapshot b:8", "http GET snap - hyph=1 absent e"]
        for j, rq in enumerate(reqs):
            ops = state_prefix(random.Random(rng.getrandbits(32)), (1,))
            for idx in range(0, 9):
                ops += [f"fault {idx}:{'before' if idx % 2 == 0 else 'after'}", rq]
            out.append(Case(f"c20-f{j}", ops, mode="http"))
        # declared lengths around and above the limit
        for j, n in enumerate((MAX + 1,) if tier != "thorough" else (MAX, MAX + 1, 2 * MAX)):
            ops = ["http POST av hyph=nil hyph=1 history b:1", f"http POST av hyph=latest:1 hyph=1 history big:{n}:1",
                   f"http POST as hyph=latest:1 hyph=1 snapshot big:{n}:1", f"http POST av hyph=latest:1 hyph=1 other big:{n}:1",
                   f"http GET gcv hyph=nil hyph=1 absent big:{n}:1"]
            out.append(Case(f"c20-big{j}", ops, mode="http"))
        return out
    def relevant(self, i, trace):
        o, ri, rm = trace[i]
        return o.startswith("http ") and HResp(ri).cc != HResp(rm).cc
    def oracle(self, case, trace, backend):
        fails = []
        for i, (o, ri, rm) in enumerate(trace):
            if o.startswith("http ") and HResp(ri).cc != "1":
                fails.append(f"op {i} `{o}`: response `{ri.split(' | ')[0]}` has no Cache-Control: no-store")
            if o.startswith("mark unstall") and "without_cache_control=" in o:
                kv = dict(x.split("=", 1) for x in o.split()[3:])
                if kv.get("without_cache_control", "0") != "0":
                    fails.append(f"op {i}: {kv['without_cache_control']} of the responses sent on connections whose upload had stalled have no Cache-Control: no-store (first: {kv.get('first')})")
        return fails
    def nontrivial(self, case, trace):
        return True
    def distinct_key(self, trace):
        return {(HOp(o).route, HOp(o).meth, HResp(ri).status) for (o, ri, _) in trace if o.startswith("http ")}


# ------------------------------------------------------------------ C16
class C16(HttpProp):
    id = "C16"
    rule = ("allow-lists {absent, empty, one id, several ids} x the four endpoints x {listed, unlisted, malformed id} "
            "x id text forms, the unlisted client owning data written before the list was introduced; unlisted => exactly "
            "403 for an otherwise valid request, zero storage calls, dumps unchanged; listed clients' histories twin-run "
            "against a server without a list; non-trivial = case in which an unlisted client owns data")
    def cases(self, rng, tier):
        out = []
        n = sizes(tier, 60, 300)
        lists = ["none", "-", "1", "1,3", "2,3,4,5", "3"]
        for k in range(n):
            r = random.Random(rng.getrandbits(32))
            ops = state_prefix(r, (1, 2))                 # data exists before the list
            al = lists[k % len(lists)]
            ops.append(f"allow {al}")
            g = HttpGen(r, 3, explicit_only=True)
            for _ in range(r.randint(6, 25)):
                step = g.op()
                if step[0].startswith("http "):
                    ops += ["dumpall"] + step + ["dumpall"]
                else:
                    ops += step
            # every endpoint, every id form, for every client
            for c in (1, 2, 3):
                f = r.choice(VALID_FORMS)
                ops += ["dumpall", f"http GET snap - {f}={c} absent e", "dumpall",
                        f"http GET gcv hyph=nil {f}={c} absent e", "dumpall",
                        f"http POST av hyph=latest:{c} {f}={c} history b:1,{c}", "dumpall",
                        f"http POST as hyph=latest:{c} {f}={c} snapshot b:2,{c}", "dumpall"]
            ops += [f"http GET snap - nonhex=1 absent e", "http GET snap - absent absent e"]
            # every endpoint spelled with a percent-encoded unreserved character in its fixed part (the router
            # works on the decoded path; so must whatever enforces the list)
            for c in (1, 2, 3):
                f = r.choice(VALID_FORMS)
                ops += ["dumpall", f"http GET snapp - {f}={c} absent e", "dumpall", f"http GET gcvp hyph=nil {f}={c} absent e", "dumpall",
                        f"http POST avp hyph=latest:{c} {f}={c} history b:1,{c}", "dumpall",
                        f"http POST asp hyph=latest:{c} {f}={c} snapshot b:2,{c}", "dumpall"]
            # ids that are NEAR a listed id (one bit flipped, one half shared, bytes reversed) are other ids
            if al not in ("none", "-"):
                L = int(al.split(",")[k % len(al.split(","))])
                for v in ((k // 6) % 6, (k // 6 + 3) % 6):
                    c = 2000 + 10 * L + v
                    f = r.choice(VALID_FORMS)
                    ops += ["dumpall", f"http GET snap - {f}={c} absent e", "dumpall",
                            f"http GET gcv hyph=nil {f}={c} absent e", "dumpall",
                            f"http POST av hyph=latest:{L} {f}={c} history b:1,7", "dumpall",
                            f"http POST as hyph=latest:{L} {f}={c} snapshot b:2,7", "dumpall"]
            # an unlisted client's request carries a SECOND X-Client-Id line naming a listed client (and a listed
            # client's a second line naming an unlisted one): the request is the first line's
            if al not in ("none", "-"):
                L = al.split(",")[0]
                U = [c for c in ("1", "2", "3") if c not in al.split(",")]
                for u in U[:1]:
                    ops += ["dumpall", f"http GET snap - hyph={u} absent e xh=dupcid:{L}", "dumpall", f"http GET gcv hyph=nil hyph={u} absent e xh=dupcid:{L}", "dumpall",
                            f"http POST av hyph=latest:{u} hyph={u} history b:1,8 xh=dupcid:{L}", "dumpall",
                            f"http POST as hyph=latest:{u} hyph={u} snapshot b:2,8 xh=dupcid:{L}", "dumpall",
                            f"http POST av hyph=latest:{L} hyph={L} history b:1,9 xh=dupcid:{u}", "dumpall", f"http GET snap - hyph={L} absent e xh=dupcid:{u}", "dumpall"]
            # no X-Client-Id at all, the id offered some other way (Authorization: Bearer): not a request of any client
            if al not in ("none",):
                for c in (1, 2, 3):
                    ops += ["dumpall", f"http GET snap - absent absent e xh=bearer:{c}", "dumpall", f"http GET gcv hyph=nil absent absent e xh=bearer:{c}", "dumpall",
                            f"http POST av hyph=latest:{c} absent history b:1,{c} xh=bearer:{c}", "dumpall", f"http POST as hyph=latest:{c} absent snapshot b:2,{c} xh=bearer:{c}", "dumpall"]
            # an unlisted client (or the proxy in front of it) claims to be on the server's own host
            if al not in ("none",):
                for j, xh in enumerate(("xff-loop", "xff-loop2", "xff-v6", "fwd-loop", "fwd-v6", "xri-loop")):
                    if (j + k) % 2:
                        continue
                    for c in (1, 2, 3):
                        ops += ["dumpall", f"http GET snap - hyph={c} absent e xh={xh}", "dumpall", f"http GET gcv hyph=nil hyph={c} absent e xh={xh}", "dumpall",
                                f"http POST av hyph=latest:{c} hyph={c} history b:1,{c} xh={xh}", "dumpall",
                                f"http POST as hyph=latest:{c} hyph={c} snapshot b:2,{c} xh={xh}", "dumpall"]
            out.append(Case(f"c16-{k}", ops, {"allow": al}, mode="http"))
        # the real executable with an allow-list given by flag / repeated flags / CLIENT_ID, started on a directory
        # that already holds data of an unlisted client: requests of listed and unlisted clients taking turns on ONE
        # persistent connection (a pooling reverse proxy), on fresh connections, and with forwarding headers —
        # every connection reaches the server from the loopback interface
        for k in range(sizes(tier, 4, 16)):
            src = ["flag:1", "env:1", "flags:1,3", "flag:1,3"][k % 4]
            ops = ["boot listen=flag:1 dir=flag allow=none versions=default days=default"]
            for c in (1, 2):
                ops += [f"http@0 POST av hyph=nil hyph={c} history b:1,{c}", f"http@0 POST av hyph=latest:{c} hyph={c} history b:2,{c}",
                        f"http@0 POST as hyph=latest:{c} hyph={c} snapshot b:9,{c}"]
            nl = 1 + k % 3
            ops += ["kill", f"boot listen={'flag' if k % 2 else 'flags'}:{nl} dir=flag allow={src} versions=default days=default" + (" log=debug" if k % 2 else "")]
            for a in range(nl):
                # every listen address enforces the list
                ops += ["dumpall", f"http@{a} GET snap - hyph=2 absent e", "dumpall", f"http@{a} GET gcv hyph=nil hyph=2 absent e", "dumpall",
                        f"http@{a} POST av hyph=latest:2 hyph=2 history b:7,{a}", "dumpall", f"http@{a} POST as hyph=latest:2 hyph=2 snapshot b:8,{a}", "dumpall",
                        f"http@{a} GET snap - hyph=1 absent e"]
            ops += ["dumpall", "httpk@0 GET snap - hyph=1 absent e", "dumpall", "httpk@0 GET snap - hyph=2 absent e", "dumpall",
                    "httpk@0 GET gcv hyph=nil hyph=2 absent e", "dumpall", "httpk@0 POST av hyph=latest:2 hyph=2 history b:7", "dumpall",
                    "httpk@0 POST as hyph=latest:2 hyph=2 snapshot b:8", "dumpall", "httpk@0 POST av hyph=latest:1 hyph=1 history b:3", "dumpall",
                    "httpk@0 POST av hyph=latest:2 hyph=2 history b:7,7", "dumpall", "httpk@0 GET gcv hyph=nil hyph=4 absent e", "dumpall",
                    "http@0 GET snap - hyph=2 absent e", "dumpall", "http@0 POST av hyph=latest:2 hyph=2 history b:7,8", "dumpall"]
            for xh in (("xff-loop", "fwd-v6", "xri-loop") if k % 2 else ("fwd-loop", "xff-v6", "xff-loop2")):
                ops += [f"http@0 GET snap - hyph=2 absent e xh={xh}", "dumpall", f"http@0 POST av hyph=latest:2 hyph=2 history b:6 xh={xh}", "dumpall",
                        f"httpk@0 POST as hyph=latest:2 hyph=2 snapshot b:6 xh={xh}", "dumpall", f"http@0 GET gcv hyph=nil hyph=1 absent e xh={xh}"]
            ops += ["kill"]
            out.append(Case(f"c16-bin-{k}", ops, {"allow": "bin", "only": "sqlite", "bin": True}, mode="bin"))
        return out
    def _allow_at(self, trace, i):
        al = None
        for (o, _, _) in trace[:i]:
            if o.startswith("allow "):
                al = o.split()[1]
        return al
    def relevant(self, i, trace):
        o, ri, rm = trace[i]
        if not o.startswith("http "):
            return False
        a, b = HResp(ri), HResp(rm)
        return (a.status == 403) != (b.status == 403)
    def oracle(self, case, trace, backend):
        fails = []
        allow = None     # None = no list
        for i, (o, ri, rm) in enumerate(trace):
            if o.startswith("allow "):
                a = o.split()[1]
                allow = None if a == "none" else (set() if a == "-" else set(a.split(",")))
                continue
            if o.startswith("boot "):
                # the real executable: the list is what its flags / environment say
                tok = [t for t in o.split() if t.startswith("allow=")]
                src, _, ids = (tok[0][6:] if tok else "none").partition(":")
                allow = None if src == "none" else set(x for x in ids.split(",") if x and x != "-")
                continue
            if not o.startswith("http "):
                continue
            h, r = HOp(o), HResp(ri)
            if not h.cid.isdigit():
                if allow is not None and h.route in ("av", "gcv", "as", "snap") and r.status not in (400, 403, 404) and " xh=" not in o:
                    pass
                if allow is not None and h.route in ("av", "gcv", "as", "snap") and h.cid in ("absent", "unparse", "nontext") and not (400 <= r.status < 500):
                    fails.append(f"op {i} `{o[:80]}`: a request that carries no usable X-Client-Id was answered {r.status} by a server restricted to a list of clients")
                continue
            unlisted = allow is not None and h.cid not in allow
            if unlisted and h.route in ("av", "gcv", "as", "snap"):
                if h.valid() and r.status != 403:
                    fails.append(f"op {i} `{o}`: unlisted client answered {r.status}, expected 403")
                if r.calls:
                    fails.append(f"op {i} `{o}`: request of an unlisted client made storage calls {r.calls[:6]}")
                if not (400 <= r.status < 500):
                    fails.append(f"op {i} `{o}`: unlisted client answered {r.status}")
                b = {x[0].split()[1]: Dump(x[1]) for x in dump_block(trace, i, -1) if x[0].startswith("dump ")}
                a2 = {x[0].split()[1]: Dump(x[1]) for x in dump_block(trace, i, +1) if x[0].startswith("dump ")}
                for c in b:
                    if c in a2 and b[c].ok and a2[c].ok and b[c].key(False) != a2[c].key(False, b[c].by_id.keys()):
                        fails.append(f"op {i} `{o}`: request of an unlisted client changed client {c}")
            if not unlisted and h.valid() and r.status == 403:
                fails.append(f"op {i} `{o}`: listed client (or no list) answered 403")
        return fails
    def derive(self, case, trace, backend):
        """listed clients' requests on a server without a list"""
        if case.meta.get("allow") in (None, "none", "bin"):
            return []
        ops, keep_idx = [], []
        listed = None
        for o in case.ops:
            if o.startswith("allow "):
                a = o.split()[1]
                listed = set() if a == "-" else set(a.split(","))
                continue
            if o == "dumpall":
                continue
            if o.startswith("http "):
                m = re.search(r" \w+=(\d+|fresh) ", " " + " ".join(o.split()[4:5]) + " ")
                cid = o.split()[4]
                c = cid.split("=")[1] if "=" in cid else None
                if listed is not None and c is not None and c.isdigit() and c not in listed and cid.split("=")[0] in ("hyph", "upper", "simple", "braced", "urn"):
                    continue      # unlisted: refused on the listed server, so not part of the twin
            ops.append(o)
        return [(Case(f"{case.name}-nolist", ops, mode="http"), None)]
    def compare_derived(self, case, trace, ctx, twin, backend):
        allow = None
        mine = []
        for (o, ri, _) in trace:
            if o.startswith("allow "):
                a = o.split()[1]
                allow = None if a == "none" else (set() if a == "-" else set(a.split(",")))
            elif o.startswith("http "):
                h = HOp(o)
                if allow is not None and h.cid.isdigit() and h.cid not in allow:
                    continue
                mine.append((o, ri.split(" | ")[0]))
        other = [(o, ri.split(" | ")[0]) for (o, ri, _) in twin if o.startswith("http ")]
        def norm(pairs):
            m = {"0": "0", "-": "-"}
            def f(x):
                if not x.isdigit(): return x
                if x not in m: m[x] = str(len(m))
                return m[x]
            out = []
            for o, r in pairs:
                h, rr = HOp(o), HResp(r)
                out.append((h.meth, h.route, f(h.seg), f(h.cid), h.ct, rr.status, f(rr.xv), f(rr.xp), rr.xs, rr.ct, rr.body if not rr.body.split(",")[0].isdigit() or int(rr.body.split(",")[0]) < 256 else "tok"))
            return out
        a, b = norm(mine), norm(other)
        for j, (x, y) in enumerate(zip(a, b)):
            if x != y:
                return [f"{backend}: listed client's request #{j}: with the list {x}, without a list {y}"]
        if len(a) != len(b):
            return [f"{backend}: twin length mismatch {len(a)} vs {len(b)}"]
        return []
    def nontrivial(self, case, trace):
        return case.meta.get("allow") not in (None, "none")


# ------------------------------------------------------------------ C06 (in-process part)
def content_streams():
    """payloads whose CONTENT looks like something: well-formed compressed streams / containers, bytes
    that start like a format marker or a header (a leading zero byte, a length prefix), a stream followed by
    further bytes.  The server treats payloads as opaque: each must come back byte for byte."""
    import gzip, zlib, bz2, lzma, base64, json as _json
    text = b"taskchampion " * 40
    gz = gzip.compress(text, mtime=0)
    return {"gzip": gz, "gzip-small": gzip.compress(b"hi", mtime=0), "zlib": zlib.compress(text),
            "zlib-small": zlib.compress(b"x"), "deflate-raw": zlib.compress(text)[2:-4], "bz2": bz2.compress(text),
            "xz": lzma.compress(text), "zstd-magic": bytes([0x28, 0xB5, 0x2F, 0xFD]) + text[:40],
            "base64": base64.b64encode(text[:60]), "json": _json.dumps({"v": 1, "data": [1, 2, 3]}).encode(),
            "gzip-of-gzip": gzip.compress(gz, mtime=0), "gzip-then-more": gz + b"trailing bytes",
            "gzip-magic-only": bytes([0x1f, 0x8b, 8, 0]) + text[:30],
            "zero": bytes([0]), "zero-zero": bytes([0, 0, 222, 173, 190, 239]), "zero-one": bytes([0, 1, 2, 3, 4, 5, 6, 7]),
            "zero-deflate": bytes([0, 1]) + zlib.compress(text)[2:-4], "one-len": bytes([1, 0, 0, 0, 4]) + b"abcd",
            "len-prefix": (9).to_bytes(4, "big") + b"123456789", "ff": bytes([255] * 9), "nul-tail": b"abc" + bytes(5)}


def interleaved_upload_cases(prefix, rng, n):
    """uploads of several clients served by ONE worker with their body chunks arriving alternately
    (A1 B1 A2 B2 ...), then read back: every client gets exactly its own bytes"""
    out = []
    for k in range(n):
        ops = [f"http POST av hyph=nil hyph={c} history b:{c}" for c in (1, 2, 3)]
        def ch():
            return "chunks:" + ",".join(str(rng.randint(1, 60)) for _ in range(rng.randint(2, 5)))
        for rnd in range(rng.randint(1, 3)):
            cs = rng.sample((1, 2, 3), rng.choice([2, 3]))
            ops.append("ileave " + " || ".join(f"http POST av hyph=latest:{c} hyph={c} history {ch()}" for c in cs))
            ops += [f"http GET gcv hyph=anc:{c}:1 hyph={c} absent e" for c in cs]
            # every snapshot is for a version added just before, so each complete upload replaces
            ops.append("ileave " + " || ".join(f"http POST as hyph=latest:{c} hyph={c} snapshot {ch()}" for c in cs))
            ops += [f"http GET snap - hyph={c} absent e" for c in cs]
        ops += [f"walk {c}" for c in (1, 2, 3)]
        out.append(Case(f"{prefix}-ileave-{k}", ops, {"http": True}, mode="http"))
    return out


class C06(HttpProp):
    id = "C06"
    rule = ("uploads of every length in 1..2, 3800..4300 (row-local / overflow-page threshold of a 4096-byte page), "
            "k*4096 +- d, 65535/6, 1 MiB +- 1 and (thorough) the 100 MiB limit, byte classes (zeros, 0xFF, random, digits, "
            "valid / invalid UTF-8, embedded NULs) and chunkings (one chunk, 1-byte chunks, random cuts), as versions and as "
            "snapshots, on both backends, read back through GetChildVersion / GetSnapshot (and after reopen); the bytes "
            "returned must be the bytes sent with the matching ids; non-trivial = payload > 64 bytes or multi-chunk")
    def cases(self, rng, tier):
        lens = [1, 2, 3, 63, 64, 65, 255, 256, 65535, 65536, 1048575, 1048576, 1048577]
        step = 1 if tier == "thorough" else 7
        lens += list(range(3800, 4301, step))
        for k in (2, 3, 16, 256):
            ds = range(-130, 131, 1 if tier == "thorough" else 13)
            lens += [k * 4096 + d for d in ds]
        rng.shuffle(lens)
        out = []
        per = 12
        for k in range(0, len(lens), per):
            ops = []
            c = 1
            if (k // per) % 2 == 1:
                # the client's very first version is uploaded on top of a version the server has never
                # seen (a replica that already has history): it must come back under THAT parent
                ops += [f"http POST av hyph=fresh hyph={c} history r:{33 + k % 900}", f"http GET gcv hyph=base:{c} hyph={c} absent e",
                        "http GET gcv hyph=nil hyph=1 absent e"]
            for n in lens[k:k + per]:
                kind = rng.choice(["r", "chunks"])
                if kind == "chunks" and n >= 3:
                    cuts = sorted(rng.sample(range(1, n), min(rng.randint(1, 4), n - 1)))
                    parts = [b - a for a, b in zip([0] + cuts, cuts + [n])]
                    body = "chunks:" + ",".join(str(x) for x in parts)
                else:
                    body = f"r:{n}"
                ops += [f"http POST av hyph=latest:{c} hyph={c} history {body}",
                        f"http GET gcv hyph=anc:{c}:1 hyph={c} absent e",
                        f"http POST as hyph=latest:{c} hyph={c} snapshot {body}",
                        f"http GET snap - hyph={c} absent e"]
            ops += ["reopen", f"walk {c}", f"http GET snap - hyph={c} absent e"]
            out.append(Case(f"c06-len-{k // per}", ops, mode="http"))
        out += interleaved_upload_cases("c06", rng, sizes(tier, 12, 100))
        # on a data directory written by the pinned release: what it stored is returned byte for byte, and
        # what is uploaded on top of it under this build as well (a snapshot replacing a stored snapshot)
        from .props_l1 import fixture_info
        fx = fixture_info()
        for k, name in enumerate(sorted(fx)):
            for c in sorted(fx[name]):
                ops = [f"fixture {name}", f"walk {c}", f"http GET snap - hyph={c} absent e",
                       f"http POST av hyph=latest:{c} hyph={c} history r:{500 + 7 * k}", f"http GET gcv hyph=anc:{c}:1 hyph={c} absent e",
                       f"http POST as hyph=latest:{c} hyph={c} snapshot r:{7000 + k}", f"http GET snap - hyph={c} absent e",
                       f"http POST av hyph=latest:{c} hyph={c} history b:1,2,3", f"http POST as hyph=latest:{c} hyph={c} snapshot chunks:40,50",
                       f"http GET snap - hyph={c} absent e", "reopen", f"http GET snap - hyph={c} absent e", f"walk {c}"]
                out.append(Case(f"c06-fixture-{name}-{c}", ops, {"only": "sqlite", "fixture": name}, mode="http"))
        # payloads of many megabytes whose content differs from block to block (a backend that stores a large
        # value in pieces has to put them back in order)
        for j, nb in enumerate([11 * 1048576 + 1, 25 * 1048576] if tier == "thorough" else [11 * 1048576 + 1]):
            out.append(Case(f"c06-blocks-{j}", ["http POST av hyph=nil hyph=1 history b:1", f"http POST av hyph=latest:1 hyph=1 history z:{nb}:3",
                                                "http GET gcv hyph=anc:1:1 hyph=1 absent e", f"http POST as hyph=latest:1 hyph=1 snapshot z:{nb + 5}:4",
                                                "http GET snap - hyph=1 absent e", "reopen", "walk 1", "http GET snap - hyph=1 absent e"], mode="http"))
        # a slow client: the last part of the body arrives after a pause longer than any idle timer a server
        # is likely to have — what is stored is still the whole body (in process and over a real socket)
        out.append(Case("c06-slow-http", ["http POST av hyph=nil hyph=1 history b:1", "http POST av hyph=latest:1 hyph=1 history slow:5600:300,400",
                                          "http GET gcv hyph=anc:1:1 hyph=1 absent e", "walk 1"], {"slow": True}, mode="http"))
        out.append(Case("c06-slow-bin", ["boot listen=flag:1 dir=flag allow=none versions=default days=default",
                                         "http@0 POST av hyph=nil hyph=1 history b:1", "http@0 POST as hyph=latest:1 hyph=1 snapshot slow:5600:2000,3000",
                                         "http@0 GET snap - hyph=1 absent e", "http@0 POST av hyph=latest:1 hyph=1 history slow:5300:10,20,30",
                                         "http@0 GET gcv hyph=anc:1:1 hyph=1 absent e", "kill"], {"only": "sqlite", "slow": True}, mode="bin"))
        # byte classes x sizes, one-byte chunkings
        classes = {"zeros": "0", "ff": "255", "digits": "49,50,51,52,53", "utf8": "195,169,226,130,172", "badutf8": "195,40,255,254",
                   "nul": "65,0,66,0,0", "quote": "39,34,92,0",
                   # bytes a text-minded layer might trim, fold or re-encode: leading / trailing blanks and
                   # line ends, CR LF pairs, a byte-order mark, a lone high byte at the very end
                   "ws": "32,9,65,66,32,10", "crlf": "13,10,13,10,65,13,10", "bom": "239,187,191,123,125", "tailhigh": "65,66,67,195"}
        for name, pat in classes.items():
            ops = []
            for n in (1, 5, 64, 200):
                b = (pat.split(",") * (n // len(pat.split(",")) + 1))[:n]
                ops += [f"http POST av hyph=latest:1 hyph=1 history b:{','.join(b)}", "http GET gcv hyph=anc:1:1 hyph=1 absent e",
                        f"http POST as hyph=latest:1 hyph=1 snapshot b:{','.join(b)}", "http GET snap - hyph=1 absent e"]
            ops += ["http POST av hyph=latest:1 hyph=1 history chunks:1,1,1,1,1,1,1", "http GET gcv hyph=anc:1:1 hyph=1 absent e", "reopen", "walk 1"]
            out.append(Case(f"c06-cls-{name}", ops, mode="http"))
        # payloads that ARE well-formed compressed streams / containers (a storage layer that compresses
        # or sniffs content must still give back the uploaded bytes, not what they decode to)
        streams = content_streams()
        # uploads that announce a Content-Encoding (the protocol has none: the body is the payload, byte for byte),
        # with bodies that ARE valid streams of that coding and bodies that are not
        import gzip as _gz, zlib as _zl
        txt = b"sealed payload " * 30
        ce = [("ce-gzip", _gz.compress(txt, mtime=0)), ("ce-deflate", _zl.compress(txt)), ("ce-identity", txt[:40]), ("ce-gzip", b"not a gzip stream at all"),
              ("ce-br", txt[:33]), ("ce-zstd", bytes([0x28, 0xB5, 0x2F, 0xFD]) + txt[:20]), ("ce-xgzip", _gz.compress(b"x", mtime=0))]
        ops = ["http POST av hyph=nil hyph=1 history b:1"]
        for xh, bs in ce:
            body = "b:" + ",".join(str(x) for x in bs)
            ops += [f"http POST av hyph=latest:1 hyph=1 history {body} xh={xh}", "http GET gcv hyph=anc:1:1 hyph=1 absent e",
                    f"http POST as hyph=latest:1 hyph=1 snapshot {body} xh={xh}", "http GET snap - hyph=1 absent e"]
        ops += ["reopen", "walk 1", "http GET snap - hyph=1 absent e"]
        out.append(Case("c06-content-encoding", ops, mode="http"))
        # a second upload on the parent of the latest version: the same bytes again (a retransmission, or another replica),
        # bytes of the same length that share their first 13 / 16 / 32 bytes, bytes that differ in the last byte only — refused,
        # and what the child request returns stays the first upload
        for k in range(sizes(tier, 6, 24)):
            n = [20, 14, 40, 64, 300, 33][k % 6]
            first = [(7 * i + k) % 256 for i in range(n)]
            second = list(first)
            if k % 3 == 1:
                second[-1] = (second[-1] + 1) % 256
            elif k % 3 == 2:
                for i in range([13, 16, 32][k // 3 % 3], n):
                    second[i] = (second[i] + 101) % 256
            b1, b2 = "b:" + ",".join(map(str, first)), "b:" + ",".join(map(str, second))
            ops = ["http POST av hyph=nil hyph=1 history b:1", f"http POST av hyph=latest:1 hyph=1 history {b1}", "http GET gcv hyph=anc:1:1 hyph=1 absent e",
                   f"http POST av hyph=anc:1:1 hyph=1 history {b2}", "http GET gcv hyph=anc:1:1 hyph=1 absent e", "http GET gcv hyph=latest:1 hyph=1 absent e",
                   f"http POST av hyph=latest:1 hyph=1 history {b2}", "http GET gcv hyph=anc:1:1 hyph=1 absent e", "http GET gcv hyph=anc:1:2 hyph=1 absent e", "walk 1"]
            out.append(Case(f"c06-again-{k}", ops, mode="http"))
        # a second upload for the version that already holds the snapshot (another replica answering the same
        # request: other bytes): what get-snapshot returns stays the bytes of the upload that created it
        for k in range(sizes(tier, 4, 16)):
            ops = ["http POST av hyph=nil hyph=1 history b:1"] + [f"http POST av hyph=latest:1 hyph=1 history b:2,{i}" for i in range(k % 4)]
            ops += [f"http POST as hyph=latest:1 hyph=1 snapshot r:{70 + k}", "http GET snap - hyph=1 absent e",
                    f"http POST as hyph=latest:1 hyph=1 snapshot r:{90 + k}", "http GET snap - hyph=1 absent e",
                    "http POST as hyph=latest:1 hyph=1 snapshot chunks:3,4", "http GET snap - hyph=1 absent e",
                    "http POST av hyph=latest:1 hyph=1 history b:3", "http POST as hyph=anc:1:1 hyph=1 snapshot b:5,5", "http GET snap - hyph=1 absent e",
                    "reopen", "http GET snap - hyph=1 absent e"]
            out.append(Case(f"c06-resnap-{k}", ops, mode="http"))
        ops = []
        for name, bs in streams.items():
            body = "b:" + ",".join(str(x) for x in bs)
            ops += [f"http POST av hyph=latest:1 hyph=1 history {body}", "http GET gcv hyph=anc:1:1 hyph=1 absent e",
                    f"http POST as hyph=latest:1 hyph=1 snapshot {body}", "http GET snap - hyph=1 absent e"]
        ops += ["reopen", "walk 1", "http GET snap - hyph=1 absent e"]
        out.append(Case("c06-streams", ops, mode="http"))
        # an upload whose commit fails is not served afterwards, neither before nor after the retry
        for k in range(sizes(tier, 4, 24)):
            ops = ["http POST av hyph=nil hyph=1 history b:1", "http POST av hyph=latest:1 hyph=1 history b:2"]
            for j in range(rng.randint(1, 3)):
                plan = rng.choice(["3:before", "2:before", "3:before"])
                ops += [f"fault {plan}", f"http POST av hyph=latest:1 hyph=1 history b:66,{j},{k}", "http GET gcv hyph=latest:1 hyph=1 absent e",
                        f"http POST av hyph=latest:1 hyph=1 history r:{100 + j}", "http GET gcv hyph=anc:1:1 hyph=1 absent e"]
                if rng.random() < 0.5:
                    ops += ["fault 3:before", f"http POST as hyph=latest:1 hyph=1 snapshot b:67,{j}", "http GET snap - hyph=1 absent e"]
                else:
                    # a snapshot is in place; its replacement fails at the write / at the commit: id AND bytes of the old one stay
                    ops += [f"http POST as hyph=latest:1 hyph=1 snapshot r:{300 + j}", "http GET snap - hyph=1 absent e", f"http POST av hyph=latest:1 hyph=1 history b:5,{j}",
                            f"fault {rng.choice(['3:before', '2:after', '2:before'])}", f"http POST as hyph=latest:1 hyph=1 snapshot r:{500 + j}", "http GET snap - hyph=1 absent e",
                            "reopen", "http GET snap - hyph=1 absent e"]
            ops += ["walk 1"]
            out.append(Case(f"c06-commitfault-{k}", ops, {"only": "sqlite", "faults": True}, mode="http"))
        if tier == "thorough":
            for j, n in enumerate((MAX - 1, MAX)):
                ops = ["http POST av hyph=nil hyph=1 history b:1", f"http POST av hyph=latest:1 hyph=1 history big:{n}:5",
                       "http GET gcv hyph=anc:1:1 hyph=1 absent e", f"http POST as hyph=latest:1 hyph=1 snapshot big:{n}:1", "http GET snap - hyph=1 absent e"]
                out.append(Case(f"c06-max-{j}", ops, mode="http"))
        return out
    def relevant(self, i, trace):
        o, ri, rm = trace[i]
        if o.startswith("http "):
            h = HOp(o)
            a, b = HResp(ri), HResp(rm)
            if h.route in ("gcv", "snap"):
                return (a.body, a.xv, a.xp) != (b.body, b.xv, b.xp)
            return (a.status == 200) != (b.status == 200)
        if o.startswith("gcv "):
            return ri != rm
        return False
    def oracle(self, case, trace, backend):
        fails = []
        sent = {}        # version id -> (parent, body)
        snap = {}        # client -> (version, body)
        snaps_ok = set()
        for i, (o, ri, rm) in enumerate(trace):
            if o.startswith("http "):
                h, r = HOp(o), HResp(ri)
                if h.route == "av" and r.status == 200 and r.xv.isdigit():
                    sent[r.xv] = (h.seg, h.body())
                if h.route == "av" and h.valid() and r.status not in (200, 409) and not (case.meta.get("faults") and r.status >= 500):
                    fails.append(f"op {i} `{o[:80]}`: upload refused with {r.status}")
                if h.route == "gcv" and r.status == 200 and r.xv not in sent and case.meta.get("faults"):
                    fails.append(f"op {i}: get-child-version returned version {r.xv} (`{r.body[:40]}`), which no acknowledged upload created")
                if h.route == "snap" and r.status == 200 and case.meta.get("faults") and h.cid in snap and snap[h.cid] != (r.xv, r.body) and (r.xv, r.body) not in snaps_ok:
                    pass
                if h.route == "as" and r.status == 200:
                    # (ids are numbered in the order the server issued them: an upload for the version that already
                    # holds the snapshot, or for an older one, is declined — the bytes of the upload that created
                    # the snapshot stay)
                    cur = snap.get(h.cid)
                    if not (cur and cur[0].isdigit() and h.seg.isdigit() and int(h.seg) <= int(cur[0])):
                        snap[h.cid] = (h.seg, h.body())
                if h.route == "gcv" and r.status == 200:
                    if r.xv in sent and (sent[r.xv][1] != r.body or sent[r.xv][0] != r.xp):
                        fails.append(f"op {i}: version {r.xv} returned parent {r.xp} body `{r.body[:60]}`, uploaded parent {sent[r.xv][0]} body `{sent[r.xv][1][:60]}`")
                if h.route == "snap" and r.status == 200 and h.cid in snap:
                    # the latest accepted snapshot in these cases is always the latest upload (latest version)
                    if snap[h.cid] != (r.xv, r.body):
                        fails.append(f"op {i}: snapshot returned {r.xv} `{r.body[:60]}`, uploaded {snap[h.cid][0]} `{snap[h.cid][1][:60]}`")
            elif o.startswith("gcv "):
                fv = found_version(ri)
                if fv and str(fv[0]) in sent and sent[str(fv[0])][1] != fv[2]:
                    fails.append(f"op {i}: after reopen version {fv[0]} returned `{fv[2][:60]}`, uploaded `{sent[str(fv[0])][1][:60]}`")
        return fails
    def nontrivial(self, case, trace):
        return True


ALL = {}
for cls in (C06, C14, C15, C16, C20):
    ALL[cls.id] = cls


def refusal_cases(rng, n=6):
    """HTTP requests with a non-mutating outcome (refusals of every class, reads, conflicts), also from
    clients the server has never seen, each between complete dumps + raw rows (used by C18)"""
    reqs = ["http POST av hyph=nil hyph=fresh history e", "http POST av hyph=nil hyph=fresh other b:5",
            "http POST as hyph=nil hyph=fresh snapshot e", "http POST as hyph=nil hyph=fresh snapshot b:5",
            "http GET gcv hyph=nil hyph=fresh absent e", "http GET snap - hyph=fresh absent e",
            "http POST av hyph=nil hyph=1 history b:6", "http POST av short=latest:1 hyph=1 history b:6",
            "http POST av hyph=latest:1 nonhex=1 history b:6", "http POST av hyph=latest:1 absent history b:6",
            "http POST as hyph=nil hyph=1 snapshot b:6", "http POST as hyph=fresh hyph=1 snapshot b:6",
            "http GET gcv hyph=latest:1 hyph=1 absent e", "http GET gcv hyph=nil hyph=1 absent e", "http GET gcv hyph=fresh hyph=2 absent e",
            "http GET snap - hyph=1 absent e", "http GET snap - hyph=2 absent e", "http PUT av hyph=latest:1 hyph=1 history b:6",
            "http GET unknown1 - hyph=1 absent e", "http POST av hyph=latest:1 hyph=1 history-upper b:6",
            "http POST av hyph=latest:1 hyph=1 history brk:5", "http POST as hyph=latest:1 hyph=1 snapshot brk:4,4",
            "http POST av hyph=nil hyph=fresh history brk:3"]
    out = []
    for k in range(n):
        r = random.Random(rng.getrandbits(32))
        ops = state_prefix(r, (1, 2))
        sel = r.sample(reqs, 12)
        for q in sel:
            ops += ["dumpall", "rows", q, "dumpall", "rows"]
        out.append(Case(f"c18-http-{k}", ops, {"http_refusals": True}, mode="http"))
    # the server is restricted to a list of clients: whatever else a request of an unlisted client carries (a second
    # X-Client-Id line naming a listed client, the id of a listed client as a bearer token), it is refused and changes nothing
    for k in range(max(2, n // 2)):
        r = random.Random(rng.getrandbits(32))
        ops = state_prefix(r, (1, 2)) + ["allow 1"] + (["reopen"] if k % 2 else [])
        for u in ("2", "fresh"):
            for x in ("", " xh=dupcid:1", " xh=bearer:1"):
                for q in (f"http POST av hyph={'latest:2' if u == '2' else 'nil'} hyph={u} history b:6,{k}", f"http POST as hyph={'latest:2' if u == '2' else 'nil'} hyph={u} snapshot b:6,{k + 1}",
                          f"http GET gcv hyph=nil hyph={u} absent e", f"http GET snap - hyph={u} absent e"):
                    ops += ["dumpall", "rows", q + x, "dumpall", "rows"]
        out.append(Case(f"c18-http-allow-{k}", ops, {"http_refusals": True, "listed": ["1"]}, mode="http"))
    # another connection holds the write lock for a few seconds while the request arrives (a backup, another
    # instance): the request waits and is served — or, if it is refused, nothing is changed, neither now nor
    # a moment later
    for k, (ms, q) in enumerate([(2600, "http POST av hyph=latest:1 hyph=1 history b:6,6"), (2600, "http POST as hyph=latest:1 hyph=1 snapshot b:6,7")][:max(1, min(2, n))]):
        r = random.Random(rng.getrandbits(32))
        ops = state_prefix(r, (1, 2)) + ["dumpall", "rows", f"lockfor {ms}", q, "sleep 3500", "dumpall", "rows"]
        out.append(Case(f"c18-http-lock-{k}", ops, {"http_refusals": True, "only": "sqlite"}, mode="http"))
    return out


def refusal_oracle(case, trace, backend):
    fails = []
    blk = lambda i, d: dump_block(trace, i, d)
    for i, (o, ri, rm) in enumerate(trace):
        if not o.startswith("http "):
            continue
        h, r = HOp(o), HResp(ri)
        mutating = r.status == 200 and h.route in ("av", "as")
        listed = case.meta.get("listed")
        unl = listed is not None and h.cid.isdigit() and h.cid not in listed and any(x[0].startswith("allow ") for x in trace[:i])
        if unl:
            if r.status == 200:
                fails.append(f"op {i} `{o[:90]}`: the request of a client the server's list does not name was answered 200")
            mutating = False
        elif h.route in ("av", "as") and h.meth == "post" and not h.valid() and r.status == 200:
            fails.append(f"op {i} `{o[:80]}`: a request that is to be refused (incomplete, empty or oversized body, wrong type) was answered 200")
        # an accepted AddSnapshot answers 200 as well as a declined one: only declined ones are listed in these cases
        if h.route == "as" and r.status == 200 and not unl:
            mutating = not (h.seg == "0" or not h.valid())
            if h.seg != "0":
                continue
        if mutating:
            continue
        before = {x[0].split()[1]: Dump(x[1]) for x in blk(i, -1) if x[0].startswith("dump ")}
        after = {x[0].split()[1]: Dump(x[1]) for x in blk(i, +1) if x[0].startswith("dump ")}
        for c in before:
            if c in after and before[c].ok and after[c].ok and before[c].key(False) != after[c].key(False, before[c].by_id.keys()):
                fails.append(f"op {i} `{o}` answered {r.status} (non-mutating) but client {c} changed")
        for c in set(after) - set(before):
            if after[c].ok and not after[c].absent:
                fails.append(f"op {i} `{o}` answered {r.status} (non-mutating) but a client record now exists for client {c}")
        rb = [x[1] for x in blk(i, -1) if x[0] == "rows"]
        ra = [x[1] for x in blk(i, +1) if x[0] == "rows"]
        if rb and ra and rb[-1] != ra[0] and not rb[-1].startswith("rows na"):
            fails.append(f"op {i} `{o}` answered {r.status} (non-mutating) but the raw rows changed")
    return fails
