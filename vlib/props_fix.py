"""C19: data directories written by the pinned release (fixtures/c19, produced by
tools/mkfixtures.py from a worktree of a6bc6ed) are opened by the CURRENT code, which must serve
exactly the recorded content and accept appended versions."""
import json, os, shutil, subprocess, tempfile, time, random
from . import build
from .common import *
from .engine import finish, Outcome, TRUSTED_BASE
from .l1 import split_cases, same_line, Case
from .trace import Op, Dump, resp_kind, found_version, added_id

FIX = os.path.join(VERIF, "fixtures", "c19")


class Spec:
    id = "C19"
    backends = ("sqlite",)
    no_shrink = True
    rule = ("every committed fixture directory (written by the pinned tree a6bc6ed: several clients, snapshots, payloads to "
            "2 MB, clean shutdown / killed with committed data only in the WAL / killed inside an uncommitted transaction) is "
            "copied, opened by the current code, fully dumped and walked, compared with the content the pinned code reported "
            "and with the table model replaying the recorded history, then one version is appended to every chain "
            "(thorough: a 200-operation history); non-trivial = fixture with >=2 clients and a snapshot")


def last_dump_block(lines):
    """R lines of the last run of consecutive dump ops in a trace (list of (op, r))"""
    blocks, cur = [], []
    for o, r in lines:
        if o.startswith("dump "):
            cur.append((o, r))
        elif cur:
            blocks.append(cur); cur = []
    if cur:
        blocks.append(cur)
    return blocks[-1] if blocks else []


def parse_trace(text):
    ops = []
    for line in text.split("\n"):
        if line.startswith("OP "):
            ops.append([line[3:], None])
        elif line.startswith("R ") and ops:
            ops[-1][1] = line[2:]
    return [(o, r) for o, r in ops if r is not None]


def run_c19(tier, seed, replay=None):
    t0 = time.time()
    spec = Spec()
    proof = build.proof_step("C19", thorough=(tier == "thorough"))
    okr, msg = build.build_runner()
    if not okr:
        raise RuntimeError("runner build failed " + msg[-1000:])
    okh, binp, hlog = build.build_harness()
    if not okh:
        raise RuntimeError("harness build failed\n" + hlog)
    out = Outcome()
    problems = []
    rng = random.Random(seed)
    names = sorted(os.listdir(FIX)) if os.path.isdir(FIX) else []
    all_names = list(names)
    if replay:
        names = [json.load(open(replay)).get("fixture")]
    for name in names:
        d = os.path.join(FIX, name)
        if not os.path.isdir(os.path.join(d, "data")):
            continue
        exp = parse_trace(open(os.path.join(d, "expected.trace")).read())
        clients = sorted({int(l.split()[1]) for l in open(os.path.join(d, "ids.txt")) if l.startswith("client ")})
        accepted = {}
        for l in open(os.path.join(d, "ids.txt")):
            t = l.split()
            if t and t[0] == "accepted":
                accepted.setdefault(int(t[1]), []).append(t[2])
        tmp = tempfile.mkdtemp(prefix="c19-", dir=CACHE)
        # the operator's directory has a name of the operator's choosing (characters that mean something in a URI, a
        # query string, a percent-escape; non-ASCII): it is the directory the pinned release wrote
        DIRNAMES = ["data", "tss#1", "sync?", "backup%20of%20data", "a&b=c;d", "d\u00e4t\u00e4-dir", "file:x?mode=ro"]
        di = (all_names.index(name) if name in all_names else 0) + seed
        dn1, dn2 = DIRNAMES[di % len(DIRNAMES)], DIRNAMES[(di + 3) % len(DIRNAMES)]
        try:
            shutil.copytree(os.path.join(d, "data"), os.path.join(tmp, dn1))
            ops = [f"loadstate {d}/ids.txt", "dumpall"]
            for c in clients:
                ops += [f"walk {c}", f"gs {c}"]
            ops += ["reopen", "dumpall"]
            for c in clients:
                ops += [f"ensure {c}", f"av {c} latest:{c} b:4,2,{c}", f"walk {c}"]
            if tier == "thorough":
                from .gen import HistGen
                g = HistGen(rng, len(clients), False, True, True)
                g.created = set(clients)
                for c in clients:
                    g.nver[c] = len(accepted.get(c, [])) + 1
                for _ in range(200):
                    ops += g.op()
                for c in clients:
                    ops += [f"walk {c}"]
            ops += ["dumpall", "rows"]
            text = f"case {name}\n" + "\n".join(ops) + "\nend\n"
            p = subprocess.run([binp, "lib", "sqlite"], input=text, capture_output=True, text=True,
                               env=dict(ENV, TSS_KEEP_DIR=os.path.join(tmp, dn1), VERIF_SEED=str(seed)), timeout=1200)
            case = Case(f"fixture-{name}", ops, {"fixture": name, "directory_name": dn1})
            out.evaluations += 1
            msgs = []
            if p.returncode != 0:
                msgs.append(f"the current code could not open / serve the fixture `{name}` (harness exit {p.returncode}): {p.stderr[-300:]}")
                problems.append((case, [("oracle", m, "sqlite", None) for m in msgs], {"sqlite": []}))
                continue
            new = parse_trace(p.stdout)
            # ---- (1) served content = content the pinned code reported
            want = last_dump_block(exp)
            got = [(o, r) for o, r in new if o.startswith("dump ")][:len(want)]
            for (ow, rw), (og, rg) in zip(want, got):
                cw, cg = Dump(rw), Dump(rg)
                if not cg.ok or cw.key(False) != cg.key(False, cw.by_id.keys()):
                    msgs.append(f"fixture `{name}`: client record differs after opening with the current code: pinned `{rw[:200]}` / now `{rg[:200]}`")
            if len(got) < len(want):
                msgs.append(f"fixture `{name}`: fewer clients served ({len(got)}) than recorded ({len(want)})")
            # ---- (2) walks return the recorded chains, appends are accepted
            cur = None
            for (o, r) in new:
                op = Op(o)
                if op.kind == "av" and o.endswith(f"4,2,{0}"):
                    pass
                if op.kind in ("av",) and ",".join(o.split()[5].split(",")[:2]) == "4,2" and resp_kind(r) != "added":
                    msgs.append(f"fixture `{name}`: appending to the existing chain was answered `{r}`")
                if op.kind in ("dump", "gcv", "gs", "av", "as") and resp_kind(r) in ("error", "panic"):
                    msgs.append(f"fixture `{name}`: `{o[:60]}` answered {r}")
            # ---- (3) the table model, replaying the recorded history, then the same new operations
            model_in = ["reset sqlite"] + [o for o, _ in exp if not o.startswith("reset")] + [o for o, _ in new]
            q = subprocess.run([RUNNER, "sqlite"], input="\n".join(model_in) + "\n", capture_output=True, text=True, timeout=1200)
            mlines = [l for l in q.stdout.split("\n") if l.strip()]
            silent = ("reset", "cfg", "trace")
            exp_ops = [o for o, _ in exp if o.split()[0] not in silent]
            mnew = mlines[len(exp_ops):]
            trace = [(o, r, (mnew[i] if i < len(mnew) else "<missing>")) for i, (o, r) in enumerate(new)]
            div = None
            for i, (o, ri, rm) in enumerate(trace):
                if o.split()[0] == "rows":
                    continue
                if not same_line(o, ri, rm, tol=10**12):
                    div = i; break
            if msgs:
                problems.append((case, [("oracle", m, "sqlite", None) for m in msgs], {"sqlite": trace}))
            elif div is not None:
                o, ri, rm = trace[div]
                problems.append((case, [("correspondence", f"fixture `{name}` op {div} `{o[:80]}`: implementation `{ri[:160]}` / model `{rm[:160]}`", "sqlite", div)], {"sqlite": trace}))
            else:
                out.validated += 1
                if len(clients) >= 2:
                    out.distinct.add(name)
                if len(out.samples) < 2:
                    out.samples.append({"fixture": name, "clients": clients, "ops_and_responses": [f"{o[:90]} => {r[:90]}" for o, r in new[:12]]})
            for o in ops:
                k = o.split()[0]; out.dist[k] = out.dist.get(k, 0) + 1
            # ---- (4) the same directory as the SERVER BINARY finds it: a fresh copy that nothing has opened
            # since the pinned release left it, served over loopback HTTP, then killed and inspected
            if tier == "thorough" or name.startswith("wal") or name in ("hist0", "big"):
                okb, srv, blog = build.build_server_bin()
                if not okb:
                    raise RuntimeError("server binary build failed\n" + blog)
                shutil.copytree(os.path.join(d, "data"), os.path.join(tmp, "bin", dn2))
                d2 = os.path.join(tmp, "bin", dn2)
                ops2 = [f"loadstate {d}/ids.txt", f"bootdir {d2}"]
                nreq = 0
                for c in clients:
                    acc = accepted.get(c, [])
                    idx = list(range(len(acc))) if len(acc) <= 14 else sorted(set(list(range(4)) + list(range(len(acc) - 8, len(acc))) + [len(acc) // 2]))
                    for i in idx:
                        par = f"base:{c}" if i == 0 else f"ver:{c}:{i - 1}"
                        ops2.append(f"http@0 GET gcv hyph={par} hyph={c} absent e"); nreq += 1
                    ops2.append(f"http@0 GET snap - hyph={c} absent e")
                ops2 += ["kill", f"usedir {d2}", "dumpall"]
                text2 = f"case {name}-bin\n" + "\n".join(ops2) + "\nend\n"
                p2 = subprocess.run([binp, "bin"], input=text2, capture_output=True, text=True,
                                    env=dict(ENV, TSS_SERVER_BIN=srv, VERIF_SEED=str(seed)), timeout=1200)
                case2 = Case(f"fixture-{name}-bin", ops2, {"fixture": name, "bin": True, "directory_name": dn2}, mode="bin")
                out.evaluations += 1
                new2 = parse_trace(p2.stdout)
                msgs2 = []
                if p2.returncode != 0:
                    msgs2.append(f"the server binary could not be driven on fixture `{name}` (harness exit {p2.returncode}): {p2.stderr[-300:]}")
                if not any(o.startswith("mark bootdir up=1") for o, _ in new2):
                    msgs2.append(f"the server binary did not come up on the data directory of fixture `{name}`")
                from .props_http import HOp, HResp
                for (o, r) in new2:
                    if o.startswith("http ") and HOp(o).route == "gcv":
                        hr = HResp(r)
                        if hr.status != 200:
                            msgs2.append(f"fixture `{name}` served by the binary: `{o[:70]}` (a recorded version of the pinned release) answered {hr.status}")
                got2 = [(o, r) for o, r in new2 if o.startswith("dump ")][:len(want)]
                for (ow, rw), (og, rg) in zip(want, got2):
                    cw, cg = Dump(rw), Dump(rg)
                    if not cg.ok or cw.key(False) != cg.key(False, cw.by_id.keys()):
                        msgs2.append(f"fixture `{name}`: after the server binary ran on the directory a client record differs: pinned `{rw[:200]}` / now `{rg[:200]}`")
                if len(got2) < len(want):
                    msgs2.append(f"fixture `{name}`: after the server binary ran on the directory fewer clients are served ({len(got2)}) than recorded ({len(want)})")
                if msgs2:
                    problems.append((case2, [("oracle", m, "sqlite", None) for m in msgs2[:4]], {"sqlite": [(o, r, r) for o, r in new2]}))
                else:
                    out.validated += 1
                out.dist["bootdir"] = out.dist.get("bootdir", 0) + 1
                out.dist["http"] = out.dist.get("http", 0) + nreq
        finally:
            shutil.rmtree(tmp, ignore_errors=True)
    return finish(spec, tier, seed, proof, out, problems, None, t0, len(names),
                  extra_cov={"fixtures": names, "fixtures_written_by": "pinned tree a6bc6ed via tools/mkfixtures.py"})


ALL = {"C19": run_c19}
