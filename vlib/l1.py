"""Run symbolic library-level cases on the implementation (Rust harness) and on the extracted
Coq model, and align the two outputs operation by operation."""
import zlib
import os, re, subprocess, concurrent.futures as cf
from .common import *


class Case:
    def __init__(self, name, ops, meta=None, mode="lib"):
        self.name = name          # no spaces
        self.ops = ops            # symbolic op lines
        self.meta = meta or {}
        self.mode = mode          # "lib" (L1) or "http" (L2)
    NEEDS_WRAPPER = ("fault", "rowfault", "sqlfault", "sqlfaultrb", "intrude", "intrudeafter", "slowcall", "lockbegin", "inst", "instpre", "cfg", "hold", "holdread", "usedir", "crashmid", "abort",
                     "loadstate", "savestate", "integrity")
    def text(self):
        ops = self.ops
        # a third of the library-level cases run with the Server directly on the backend's storage
        # object (no harness wrapper in between), so that everything the backend's own transaction
        # type implements is what gets called
        if self.mode == "lib" and zlib.crc32(self.name.encode()) % 3 == 0 and self.meta.get("raw", True) \
                and not any(o.split()[0] in self.NEEDS_WRAPPER for o in ops):
            ops = ["raw"] + list(ops)
        return f"case {self.name}\n" + "\n".join(ops) + "\nend\n"


def _run_shard(args):
    binp, backend, seed, text, mode = args
    pr = subprocess.Popen([binp, mode, backend], stdin=subprocess.PIPE, stdout=subprocess.PIPE, stderr=subprocess.PIPE, text=True,
                          env=dict(ENV, VERIF_SEED=str(seed), TSS_SERVER_BIN=os.environ.get("TSS_SERVER_BIN", ""), TSS_SERVER_BIN_RELEASE=os.environ.get("TSS_SERVER_BIN_RELEASE", ""),
                                   # the in-memory runs are made the way an operator debugging the server would run it: every
                                   # log statement of the code under test is formatted (and thrown away)
                                   **({"TSS_LOG": "trace"} if backend == "inmem" else {})))
    try:
        # (cases that ask the rig itself to wait get that time on top of the limit)
        waits = sum(int(l.split()[1]) for l in text.split("\n") if l.startswith(("sleep ", "lockfor ")) and l.split()[1].isdigit()) // 1000
        so, se = pr.communicate(text, timeout=int(os.environ.get("TSS_SHARD_TIMEOUT", "300")) + waits)
        if pr.returncode != 0:
            return None, f"harness exit {pr.returncode}: {se[-2000:]}"
        impl = so
    except subprocess.TimeoutExpired:
        # the implementation stopped answering (a request that never returns): what was produced so
        # far is kept, the operation that hangs is reported as an observation of the case it belongs to
        pr.kill()
        so, se = pr.communicate()
        lines = so.split("\n")
        while lines and not lines[-1].startswith(("OP ", "R ", "# ")):
            lines.pop()
        last = lines[-1] if lines else ""
        if last.startswith("OP "):
            lines.append("R HANG")
        given = [l for l in text.split("\n") if l and not l.startswith(("case ", "end"))]
        ops_seen = [l for l in lines if l.startswith("OP ")]
        k = len(ops_seen)
        nxt = given[k] if last.startswith("R ") and k < len(given) else (ops_seen[-1][3:] if ops_seen else "start")
        lines += ["OP mark harness-hang " + ("in_" if last.startswith("OP ") else "around_") + nxt[:70].replace(" ", "_"), "R mark"]
        impl = "\n".join(lines) + "\n"
    ops = []
    for line in impl.split("\n"):
        if line.startswith("OP "):
            ops.append(line[3:])
        elif line.startswith("# "):
            ops.append(line)
    q = subprocess.run([RUNNER, backend], input="\n".join(ops) + "\n", capture_output=True, text=True, timeout=3000)
    if q.returncode != 0:
        return None, f"runner exit {q.returncode}: {q.stderr[-2000:]}"
    return (impl, q.stdout), None


def split_cases(impl_out, model_out):
    """-> {case name: [(op, r_impl, r_model)]}"""
    res = {}
    # implementation side
    cur, name = None, None
    impl = {}
    for line in impl_out.split("\n"):
        if line.startswith("# case "):
            name = line[7:].strip(); cur = []; impl[name] = cur
        elif line.startswith("OP "):
            cur.append([line[3:], None])
        elif line.startswith("R "):
            cur[-1][1] = line[2:]
    model = {}
    for line in model_out.split("\n"):
        if line.startswith("# case "):
            name = line[7:].strip(); cur = []; model[name] = cur
        elif line.strip():
            cur.append(line)
    for name, ops in impl.items():
        silent = ("reset", "cfg", "trace")
        with_r = [(o, r) for o, r in ops if o.split()[0] not in silent]
        m = model.get(name, [])
        out = []
        for i, (o, r) in enumerate(with_r):
            out.append((o, r, m[i] if i < len(m) else "<missing>"))
        res[name] = out
    return res


def run_cases(binp, cases, backend, seed, shards=None):
    """returns {name: [(op, r_impl, r_model)]}"""
    if not cases:
        return {}
    shards = shards or min(NCPU, max(1, len(cases) // 4))
    buckets = [[] for _ in range(shards)]
    for i, c in enumerate(cases):
        buckets[i % shards].append(c)
    jobs = []
    for mode in sorted({c.mode for c in cases}):
        for i, b in enumerate(buckets):
            bm = [c for c in b if c.mode == mode]
            if bm:
                jobs.append((binp, backend, seed + i, "".join(c.text() for c in bm), mode))
    out = {}
    with cf.ThreadPoolExecutor(max_workers=NCPU) as ex:
        for (res, err) in ex.map(_run_shard, jobs):
            if err:
                raise RuntimeError(err)
            out.update(split_cases(*res))
    return out


TS = re.compile(r"@(-?\d+)\+")
ROWTS = None


def same_line(op, a, b, tol=3):
    """equality of an implementation line and a model line up to the snapshot-time tolerance
    (the model is given the harness's clock reading, the implementation reads its own)"""
    if a == b:
        return True
    kind = op.split()[0]
    if kind == "http":
        # the storage-call trace after " | " is compared only by the properties that speak about it
        return a.split(" | ")[0].strip() == b.split(" | ")[0].strip()
    if kind == "dump":
        ta, tb = TS.findall(a), TS.findall(b)
        if len(ta) == len(tb) and all(abs(int(x) - int(y)) <= tol for x, y in zip(ta, tb)):
            return TS.sub("@T+", a) == TS.sub("@T+", b)
        return False
    if kind == "rows":
        # clients=[id|latest|snapv|since|ts|blob;...]
        def norm(s):
            m = re.match(r"rows clients=\[(.*)\] versions=\[(.*)\]$", s)
            if not m:
                return None
            rows = [r.split("|") for r in m.group(1).split(";") if r]
            return rows, m.group(2)
        na, nb = norm(a), norm(b)
        if not na or not nb or na[1] != nb[1] or len(na[0]) != len(nb[0]):
            return False
        for ra, rb in zip(na[0], nb[0]):
            if len(ra) != 6 or len(rb) != 6 or ra[:4] != rb[:4] or ra[5] != rb[5]:
                return False
            if ra[4] != rb[4]:
                try:
                    if abs(int(ra[4]) - int(rb[4])) > tol:
                        return False
                except ValueError:
                    return False
        return True
    return False
