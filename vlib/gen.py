"""Generators of symbolic library-level histories (DESIGN section 4, "Generation").
All randomness comes from the random.Random instance passed in (derived from VERIF_SEED)."""
from collections import Counter


def pick(rng, weighted):
    tot = sum(w for _, w in weighted)
    x = rng.random() * tot
    for v, w in weighted:
        x -= w
        if x <= 0:
            return v
    return weighted[-1][0]


def payload(rng):
    n = pick(rng, [(1, 4), (2, 3), (3, 3), (rng.randint(4, 12), 2)])
    return "b:" + ",".join(str(rng.choice([0, 1, 255, 48, 49, 128, rng.randint(0, 255)])) for _ in range(n))


class HistGen:
    """random multi-client history; `stats` records the realised input distribution"""
    def __init__(self, rng, nclients=3, adversarial=False, reopen=True, harness_steps=True):
        self.rng = rng
        self.nclients = nclients
        self.adv = adversarial
        self.reopen = reopen
        self.harness_steps = harness_steps
        self.created = set()
        self.nver = Counter()       # optimistic chain length per client
        self.stats = Counter()

    def other(self, c):
        cs = [x for x in range(1, self.nclients + 1) if x != c]
        return self.rng.choice(cs) if cs else c

    def av_parent(self, c):
        r = self.rng
        if self.nver[c] == 0:
            k = pick(r, [("nil", 55), ("fresh", 35), ("foreign", 10)])
        elif self.adv:
            k = pick(r, [("latest", 30), ("nil", 12), ("anc", 20), ("base", 10), ("fresh", 10), ("foreign", 18)])
        else:
            k = pick(r, [("latest", 72), ("nil", 5), ("anc", 8), ("base", 4), ("fresh", 4), ("foreign", 7)])
        self.stats["av.parent." + k] += 1
        if k == "latest": return f"latest:{c}", True
        if k == "nil": return "nil", self.nver[c] == 0
        if k == "anc": return f"anc:{c}:{r.randint(1, 6)}", False
        if k == "base": return f"base:{c}", self.nver[c] == 0
        if k == "fresh": return (f"odd:{r.randrange(5)}" if r.random() < 0.3 else "fresh"), self.nver[c] == 0
        o = self.other(c)
        return r.choice([f"latest:{o}", f"ver:{o}:{r.randint(0, 9)}", f"base:{o}", f"snap:{o}"]), self.nver[c] == 0

    def gcv_parent(self, c):
        r = self.rng
        k = pick(r, [("latest", 20), ("nil", 12), ("ver", 33), ("base", 10), ("fresh", 7), ("foreign", 18)])
        self.stats["gcv.parent." + k] += 1
        if k == "latest": return f"latest:{c}"
        if k == "nil": return "nil"
        if k == "ver": return f"ver:{c}:{r.randint(0, 30)}"
        if k == "base": return f"base:{c}"
        if k == "fresh": return f"odd:{r.randrange(5)}" if r.random() < 0.3 else "fresh"
        o = self.other(c)
        return r.choice([f"latest:{o}", f"ver:{o}:{r.randint(0, 9)}", f"base:{o}"])

    def as_version(self, c):
        r = self.rng
        k = pick(r, [("latest", 32), ("anc", 36), ("base", 8), ("nil", 4), ("fresh", 5), ("foreign", 8), ("snap", 7)])
        self.stats["as.version." + k] += 1
        if k == "latest": return f"latest:{c}"
        if k == "anc": return f"anc:{c}:{r.randint(1, 7)}"
        if k == "base": return f"base:{c}"
        if k == "nil": return "nil"
        if k == "fresh": return f"odd:{r.randrange(5)}" if r.random() < 0.3 else "fresh"
        if k == "snap": return f"snap:{c}"
        o = self.other(c)
        return r.choice([f"latest:{o}", f"ver:{o}:{r.randint(0, 9)}", f"snap:{o}"])

    def op(self):
        """one protocol-level (or harness-level) step, as a list of symbolic lines"""
        r = self.rng
        c = r.randint(1, self.nclients)
        kinds = [("av", 46), ("gcv", 16), ("as", 16), ("gs", 6)]
        if self.harness_steps:
            kinds += [("backdate", 3), ("setcounter", 2)]
        if self.reopen:
            kinds += [("reopen", 5)]
        k = pick(r, kinds)
        out = []
        if k == "av":
            if c not in self.created:
                if r.random() < 0.12:          # a request for a client the server has never seen
                    self.stats["op.av.noclient"] += 1
                    return [f"av {c} nil {payload(r)}"]
                out.append(f"ensure {c}"); self.created.add(c)
            p, likely = self.av_parent(c)
            if likely:
                self.nver[c] += 1
            out.append(f"av {c} {p} {payload(r)}")
        elif k == "gcv":
            out.append(f"gcv {c} {self.gcv_parent(c)}")
        elif k == "as":
            out.append(f"as {c} {self.as_version(c)} {payload(r)}")
        elif k == "gs":
            out.append(f"gs {c}")
        elif k == "backdate":
            days = r.choice([1, 7, 13, 14, 15, 20, 21, 22, 40, -1])
            out.append(f"backdate {c} {days * 86400 + r.choice([-3600, 3600])}")
        elif k == "setcounter":
            out.append(f"setcounter {c} {r.choice([0, 1, 98, 99, 100, 148, 149, 150, 1000])}")
        elif k == "reopen":
            # close-and-reopen, or hand over to another server instance on the same directory
            out.append("reopen" if self.rng.random() < 0.6 else f"inst {self.rng.randrange(3)}")
        self.stats["op." + k] += 1
        return out


def chain_prefix(rng, c, n, base_nonnil):
    """a client with exactly n versions (first parent nil or a fresh id)"""
    ops = [f"ensure {c}"]
    for i in range(n):
        p = ("fresh" if base_nonnil else "nil") if i == 0 else f"latest:{c}"
        ops.append(f"av {c} {p} {payload(rng)}")
    return ops
